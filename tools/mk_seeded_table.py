#!/usr/bin/env python3
"""mk_seeded_table.py — rewrite the table of seeded changes in DESIGN.md (between the seeded-table markers) from
seeded/*/meta.json."""
import json
import re
from pathlib import Path

V = Path(__file__).resolve().parent.parent
rows = []
for d in sorted((V / 'seeded').iterdir()):
    m = json.loads((d / 'meta.json').read_text())
    note = ' '.join((m.get('note') or '').split()).replace('|', '/')
    rows.append(f"| `{d.name}` | {m['property']} | {note[:150]} | {m.get('detected_by') or 'NOT DETECTED'} |")
table = ('<!-- seeded-table-begin -->\n| seeded change | property | what it does (from the author\'s note) | detected by |\n'
         '|---|---|---|---|\n' + '\n'.join(rows) + '\n<!-- seeded-table-end -->')
p = V / 'DESIGN.md'
s = p.read_text()
if '<!-- seeded-table-begin -->' in s:
    s = re.sub(r'<!-- seeded-table-begin -->.*?<!-- seeded-table-end -->', lambda _: table, s, flags=re.S)
else:
    s = re.sub(r"\| seeded change \| property \|.*?\n\n", lambda _: table + '\n\n', s, count=1, flags=re.S)
p.write_text(s)
print(len(rows), 'rows')
