#!/usr/bin/env python3
"""mk_manifest.py — (re)write MANIFEST.json from the table below; properties without a check are listed
under not_applicable with the reason why nothing is claimed."""
import json
from pathlib import Path

V = Path(__file__).resolve().parent.parent
props = [json.loads(l) for l in (V / 'properties.jsonl').read_text().splitlines() if l.strip()]

SCHED_NOTE = ('Theorems are about the Gallina model coq/theories/Sched.v (jobs, store, AsyncScheduler, loop timer; '
              'mutually re-entrant core with explicit fuel) and hold for every history, every environment (triggers, '
              'failing user code) and every fuel for runs that do not exhaust the fuel. The model is tied to /repo by the '
              'correspondence check: generated histories are run on the real JobBuilder/AsyncScheduler under a virtual '
              'clock and compared operation by operation with the model evaluated inside Coq (vm_compute). Assumes one '
              'clock (loop clock = wall clock), integer-nanosecond instants (a 2^-9 s grid plus off-grid advances), no re-entrant scheduler calls from '
              'synchronous callables. No axioms.')
CLAIMS = {
    'C01': ('invariant of the scheduler core proved by induction on fuel and on the history (run_inv), timer armed for '
            'the head, nothing due after a wake-up / re-enable, never early, early wake-up harmless; all for every '
            'history', SCHED_NOTE, '5/C01'),
    'C02': ('queue = exactly the running jobs, once each (no duplicate entry), in every reachable state; a disabled '
            'scheduler starts nothing whatever is called. PARTIAL: "at most once per announcement", non-interference and '
            '"failed creation never runs" are decided by the correspondence + oracle, not yet by a theorem',
            SCHED_NOTE, '5/C02'),
    'C07': ('status/next-run agreement and "finished is terminal and changes nothing" proved for every reachable state. '
            'PARTIAL: callback-once and store-exactness are decided by the correspondence + oracle only',
            SCHED_NOTE, '5/C07'),
    'C08': ('invariant, never-early and on-time-after-wake proved for all histories. PARTIAL: the exact value '
            '(reset instant + countdown in force) is decided by the correspondence + reference-model oracle only',
            SCHED_NOTE, '5/C08'),
    'C09': ('queue sorted by next-run time with exactly the running jobs in every reachable state (proved). PARTIAL: the '
            'order of starts inside one wake-up (across nested run_jobs) is decided by the correspondence + oracle only',
            SCHED_NOTE, '5/C09'),
    'C10': ('the invariant and never-early hold under EVERY failure environment (any callable, callback or trigger may '
            'raise at any invocation). PARTIAL: exactly-once delivery to the handler and equality with the failure-free '
            'run are decided by the two-run oracle; a trigger raising inside execute() re-runs the job (known finding F5)',
            SCHED_NOTE, '5/C10'),
}

TM_NOTE = ('Theorems are about the Gallina model coq/theories/TaskMgr.v: the five task managers on an explicit asyncio '
           'ready queue (handles HStep/HDone, Task.cancel() with _must_cancel as in CPython 3.12, coroutine phases), for '
           'every event sequence, bound, policy and key assignment; no axioms. Tied to /repo by running the real managers '
           'on a virtual loop with instrumented coroutines and comparing manager.task, queue, tracked tasks, loop._ready, '
           'coroutine states and logs after every event with the model evaluated in Coq. asyncio itself is modelled, not '
           'verified.')
F_NOTE = ('Theorems are about the Gallina models Civil.v / Filters.v / Parse.v (code points below U+0250; LC_ALL=C name '
          'tables); no axioms. Tied to /repo by evaluating filters built through the public FilterBuilder API at grid and '
          'boundary instants in 7-14 zones and by parsing exhaustive range spellings, name tables, random nestings and a '
          'malformed stream, compared with the model in Coq; lower/isspace/isdigit/int tables and DAY_NAMES/MONTH_NAMES are '
          'compared with the running Python on every run. The utc offset at an instant comes from whenever.')
CLAIMS.update({
    'C11': ('run_inv (invariant for all event lists, all five managers) and from it: mutual exclusion, submission order, '
            'progress (done-callback starts the queue head in the same step), exact victim at the bound, newest-per-key, '
            'conservation (every coroutine in exactly one place; none started twice) - all proved at full strength',
            TM_NOTE, '6/C11'),
    'C12': ('bound on tracked tasks, exact victim per policy, slot release at the done-callback, the unbounded manager '
            'keeps every task until done and forgets it afterwards, conservation - all proved for every event list',
            TM_NOTE, '6/C12'),
    'C17': ('allow = sem for every filter expression (algebra, half-open time window, set membership), Gregorian calendar '
            'round trip for every day, string-level parser soundness for the whole grammar incl. wrap-around ranges and '
            'nested lists, rejection lemmas, name tables - all proved',
            F_NOTE, '6/C17'),
})

P_NOTE = ('Theorems are about the Gallina model coq/theories/Producers.v (+ Time.v, Replace.v, Filters.v): trigger '
          'expressions over an explicit time-zone table, a draw oracle for random.uniform and a sun oracle; bounded loops '
          'are iter_until with the bound generated from /repo. They hold for every table / expression / reference instant. '
          'Tied to /repo by querying the real producers in TZ=<zone> subprocesses (8 zones quick, 32 thorough; table of '
          'each zone extracted from whenever itself on every run) and comparing answer by answer with the model evaluated '
          'in Coq; an independent zoneinfo/PEP-495 reference decides the property on the implementation\'s own answers. '
          'No axioms. Not verified: whenever, zoneinfo data, float rounding inside jitter (1 microsecond tolerance).')
CLAIMS.update({
    'C04': ('next_strictly_future: for EVERY producer expression (any nesting, filters, tables, draws, sun oracle, cache '
            'contents) a computed next occurrence is strictly after the reference instant; chain_increasing', P_NOTE, '6/C04'),
    'C05': ('interval: earliest admissible grid point, none skipped, none rejected returned (full); grid stability under the '
            'cache (full). PARTIAL: time of day - earliest among the local days in walking order (the chronological order of '
            'the walk under a well-formed table, and the group union, are decided by the correspondence + the independent '
            'zoneinfo enumeration, not yet by a theorem)', P_NOTE, '6/C05'),
    'C06': ('for every table: candidates = exactly the instants showing the wall-clock time; replace follows the 4x4 policy '
            'table (unique / skipped: skip, earlier, later = shifted by the size of the gap, after = first valid whole '
            'minute / repeated: skip, first, last, both). PARTIAL: once-per-day enumeration over consecutive days is decided '
            'by chains across every generated transition against the PEP-495 reference', P_NOTE, '6/C06'),
    'C13': ('offset_exact, earliest/latest clamp (= max/min with the policy-selected bound on the occurrence\'s local day), '
            'jitter_window (assuming uniform answers within its bounds) - proved for all inner triggers', P_NOTE, '6/C13'),
    'C14': ('consecutive firings of an offset chain (any sign) and of a jitter chain with non-negative lower bound belong to '
            'strictly increasing underlying occurrences (proved). Negative-low jitter is the known finding F6 '
            '(reported as KNOWN-FINDING; any other double firing is a violation)', P_NOTE, '6/C14'),
    'C16': ('loop/call skeleton regenerated from /repo on every run equals the expected one (reflexivity): all loops bounded '
            'except IntervalProducer\'s two while loops; exhausted bound = InfiniteLoopDetectedError; interval terminates '
            'when an admissible grid point exists within the fuel; never-accepting filter refuted (F9, known finding). '
            'cost_bound (closed form of the loop bounds); wall-clock budget per call in the correspondence; known findings F9 F17 F19 F20', P_NOTE, '6/C16'),
    'C19': ('every row of the property for all tables / now / arguments: none=now, durations, identity rows, naive = system '
            'local, time of day = today-or-tomorrow and (under wf_tz_b + dates-forward) the LEAST instant >= now showing it, '
            'positivity, past tolerance tied to the generated constant. The refusal of a time that is skipped/repeated today '
            'is the known finding F15',
            'Model coq/theories/GetInstant.v over Time.v tables; string/float parsing is whenever\'s and outside the model. '
            'Tied to /repo through get_instant, JobBuilder.once/countdown and TriggerBuilder.interval/offset/jitter under a '
            'patched clock in 10 zones, compared in Coq, plus a zoneinfo oracle. No axioms.', '6/C19'),
    'C20': ('accept_sound_by_sweep: accepted-without-policy => shown exactly once on every day of the year, for every table '
            'passing wf_dst, lifted from an executable interval sweep that is evaluated by vm_compute on the tables of the '
            'run (16 zones x 2020-2037 quick; every zone of the tzdata in the sandbox (about 600) thorough); both_given_verbatim; state machine of the cached setup',
            'Model coq/theories/Dst.v (_iter_date, find_time, _setup, check_dst_handling) over Time.v tables; correspondence '
            'per (zone, year) in fresh interpreters + zoneinfo scan of every day. The sweep lemmas are generated into scratch '
            'per run (finite domain swept completely and lifted by sweep_lift). No axioms.', '6/C20'),
})

CLAIMS.update({
    'C03': ('executing a recurring job announces exactly the trigger answer for the execution instant; that answer is '
            'strictly later for every trigger expression whatever was queried before; a job is started in the wake-up that '
            'reaches its time and never earlier. PARTIAL: the closed statement (executions = occurrences in (creation, now]) '
            'is decided by virtual-time runs of the REAL scheduler with REAL triggers over 8-14 occurrences (days to months, '
            'DST changes, disturbing jobs) against the zoneinfo reference and the producer model in Coq',
            SCHED_NOTE + ' ' + P_NOTE, '6/C03'),
    'C15': ('builder_noninterference: every builder call only appends - all objects that existed before are unchanged, '
            'whatever is called afterwards (pure model of the DSL); interval / time / sun query independence. The real '
            'TriggerObject / FilterObject are compared with the pure values after EVERY public API call for EVERY object '
            '(structure, no shared sub-objects, answers before/after/fresh)',
            'Model coq/theories/Builder.v (builder DSL as a pure program over an object list) + Producers.v; tied to /repo '
            'by random builder programs through TriggerBuilder / FilterBuilder, all objects described after every call and '
            'compared in Coq; purity oracle with a fixed random source. No axioms.', '6/C15'),
    'C18': ('selection logic over an astral oracle: the answer is an oracle event rounded up to the second, strictly after '
            'dt and accepted by the filter; polar search; cache coherence preserved and answers independent of the cache; '
            'regular oracles: every UTC day\'s event visited once in order; refutations F11 / F16 from recorded astral '
            'numbers. PARTIAL by nature: that astral\'s instant is the astronomical event is a sampled test (labelled)',
            'Model: the PSun part of coq/theories/Producers.v; astral is an oracle recorded per (producer, UTC date) during '
            'the run of the REAL producers with REAL astral on a grid of locations / events / days / zones; no axioms. '
            'Not verified: astral\'s float trigonometry.', '6/C18'),
})

CLAIMS['C01'] = ('run_inv (scheduler invariant for every history / environment), timer armed for the head, nothing due after a '
    'wake-up or re-enable, never early, early wake-up harmless; FUEL: fuel_mono, step_total, run_total, run_exists_fuel: for '
    'every history there is a fuel (length + 7) without a NoFuel outcome, so the theorems are unconditional when triggers '
    'answer in the future', SCHED_NOTE, '6/C01 + 11')
CLAIMS['C02'] = ('queue = exactly the running jobs once each; a disabled scheduler starts nothing; core_frame / '
    'exec_only_running: a job only starts for the next-run time it had announced, when that time is reached; '
    'others_untouched (an operation on j changes another job only by running it when due); quiet_after_cancel / pause, '
    'finished_never_restarts, failed_creation_never_runs, step_op_once and wake_order: no job twice in one operation - all '
    'proved', SCHED_NOTE, '6/C02 + 11')
CLAIMS['C03'] = ('single_job_exact: for every history OAt + any interleaving of clock advances / wake-ups / early wake-ups the '
    'model equals a 12-line reference loop; keepup_enumerates + at_time_trigger_enumerates / at_tig_trigger_enumerates: while '
    'the loop keeps up the executions enumerate the trigger occurrence set after creation in order, none skipped, none '
    'duplicated; next run = next occurrence after the execution instant. disturbed_job_exact: the same for a recurring job among any other jobs and operations on them', SCHED_NOTE + ' ' + P_NOTE, '6/C03 + 11')
CLAIMS['C05'] = ('interval_earliest, time_earliest (earliest admissible occurrence over ALL local days, tables with spread <= 4 h), '
    'group_earliest / tig_earliest (time / interval-with-start / groups to any depth with member and group filters), grid '
    'stability, completeness with its exact horizon (ProdComplete) - all proved; known finding F18', P_NOTE, '6/C05 + 11')
CLAIMS['C06'] = ('candidates_spec; replace follows the 4x4 policy table (proved per row); day_results_order, once_per_day, '
    'once_per_day_chain: the chain enumerates the union over local days in increasing order without omission or repetition '
    '(tables with spread <= 4 h)', P_NOTE, '6/C06 + 11')
CLAIMS['C07'] = ('status_next_agree, finished_terminal, StoreOK for every reachable state (store = exactly the created jobs that '
    'have not finished, unique keys, duplicate rejected with the state unchanged), callbacks: each registered callback exactly '
    'once in registration order with the new state visible, finished_once_exact (under "operations address existing jobs") - '
    'all proved', SCHED_NOTE, '6/C07 + 11')
CLAIMS['C08'] = ('once_start_exact, once_at_most_once, countdown_start_exact, countdown_next_only_by_reset, no_exec_without_reset, '
    'paused after its run - proved for typed histories (reset / set_countdown on countdown jobs only); never early and on '
    'time from C01', SCHED_NOTE + '', '6/C08 + 11')
CLAIMS['C09'] = ('queue sorted in every reachable state; wake_order / enable_order: inside one wake-up or re-enable the starts are '
    'in non-decreasing order of their announced times, no job twice, also across nested run_jobs; lifted to EVERY history by '
    'reachable_cx_fresh', SCHED_NOTE, '6/C09 + 11')
CLAIMS['C10'] = ('failures_isolated: for every history, erasing the handler events of failing callables / callbacks gives exactly '
    'the failure-free run (same outcomes, same final state); handled_exactly_once; invariant and never-early under any failure '
    'environment; F5_refuted (a trigger raising inside execute makes run_jobs diverge: known finding)',
    SCHED_NOTE + ' The asynchronous executor path is modelled on top of TaskMgr.v (AsyncExec.v / AsyncExecFacts.v, 17 theorems restated in props/C10.v) with its own correspondence.', '6/C10 + 11')
CLAIMS['C13'] = ('offset_exact, earliest / latest clamp = max / min with the policy-selected bound on the occurrence\'s local day, '
    'unchanged within the bound (hypotheses stated), clamp_same_day, never_beyond_bound, offset_chain_complete, jitter_window '
    '+ jitter_shift_forward_window - proved', P_NOTE, '6/C13 + 11')
CLAIMS['C14'] = ('offset_chain_injective (any sign), jitter_nonneg_chain_injective, offset_chain_complete; jitter_negative_refuted '
    '(F6 witness proved in Coq; reported as KNOWN-FINDING)', P_NOTE, '6/C14 + 11')
CLAIMS['C15'] = ('builder_noninterference (every builder call only appends; existing objects unchanged); get_next_pure: for EVERY '
    'trigger expression the answer is the same from any two good states (caches on their grids, coherent sun cache, fixed '
    'random source), repeat / interleaved / copy queries give the same answer; first query anchors a start-less interval',
    CLAIMS['C15'][1], '6/C15 + 11')
CLAIMS['C16'] = ('loop/call skeleton regenerated from /repo equals the expected one; cost_bound: for EVERY expression the number of '
    'loop rounds is bounded by a closed form of the generated loop bound (99 999 per nesting level; interval: its fuel); '
    'interval_terminates; interval_unsat_refuted (F9); known findings F9 F17 F19 F20', P_NOTE, '6/C16 + 11')

# second tie: statement-level translators regenerate Gallina from the sources on every run; Gen*Eq.v proves it equal to the model
TIES = {
    'C01': 'gen_sched.py (async_scheduler.py: gen_agrees), gen_jobs.py + gen_builder.py through the generated history machine (GenSystem.gen_run_is_model and its corollaries, all stated in props/C01.v), gen_init.py (the constructors: gen_init = Sched.init, so the generated history machine starts from a generated state)',
    'C02': 'gen_sched.py, gen_jobs.py, gen_builder.py (builder/jobs.py, job store, controls: gen_add_job_is_create, store first)',
    'C03': 'through C01 / C02 (scheduler, jobs, builder) and C05 (producers); disturbed_job_exact for a job among others',
    'C04': 'gen_prod.py (gen_get_next_is_model: every generated producer = Producers.get_next)',
    'C05': 'gen_prod.py (interval / time / group get_next and the filters)',
    'C06': 'gen_prod.py (TimeProducer.get_next, TimeReplacer.replace, find_time_after_dst_switch)',
    'C07': 'gen_jobs.py (set_next_run, callbacks, API operations against step_op), gen_builder.py (store, controls), gen_init.py (constructors of scheduler, store, job classes, callback handler = init / new_job), gen_removeall.py (AsyncScheduler.remove_all = the derived history of SchedRemoveAll.v: gen_remove_all_is_model)',
    'C08': 'gen_jobs.py (one-shot / countdown classes: update_next, reset, set_countdown), gen_init.py (their constructors; CountdownJob.__init__ runs the generated set_countdown)',
    'C09': 'gen_sched.py (insort / run_jobs loop), gen_jobs.py (__lt__ = job_lt)',
    'C10': 'gen_sched.py (try / except of run_jobs), gen_builder.py + gen_taskmgr.py (GenAsyncSystem: generated executor on generated managers); the C10_generated_system_* theorems of the generated history machine are stated in props/C01.v',
    'C11': 'gen_taskmgr.py (the three sequential classes: gen_create_task_is_submit, gen_done_cb_is_model)',
    'C12': 'gen_taskmgr.py (the two parallel classes)',
    'C13': 'gen_prod.py (the four apply_operation bodies and the operation loop)',
    'C14': 'gen_prod.py (offset / jitter)',
    'C15': 'gen_trig.py (builder calls and copy over a heap of objects: gen_run_is_model, copy_prod_spec)',
    'C16': 'gen_prod.py + gen_facts.py (loop bounds, sun_tries)',
    'C17': 'gen_parse.py (argument parser; name tables computed in Coq from the source literals); the filter allow methods are tied in GenProdEq.v (gen_*_allow_eq, reached through gen_get_next_is_model in the producer property files)',
    'C18': 'gen_sun.py (gen_get_next_sun_eq, gen_get_next_is_model_sun)',
    'C19': 'gen_instant.py (get_instant, get_time, get_pos_timedelta_secs)',
    'C20': 'gen_dst.py (dst_param.py for any table; DstFacts restated for the generated code)',
}
TIE_NOTE = (' SECOND TIE (translation): {} - fail-closed Python-ast translators regenerate coq/gen/*.v from /repo on every run and '
            'hand-written Gen*Eq.v files prove the generated code equal to the model; theorems Cxx_generated_* in the property file. '
            'A source change the translator or these proofs do not survive is reported as a broken proof obligation '
            '(VIOLATION ... no-failing-input-found unless the correspondence / oracle find a failing input).')

checks = []
na = []
for p in props:
    pid = p['id']
    if pid in CLAIMS:
        text, note, ref = CLAIMS[pid]
        checks.append({
            'property_id': pid,
            'quick_cmd': f'./check {pid} --tier quick',
            'thorough_cmd': f'./check {pid} --tier thorough',
            'evidence_file': f'evidence/{pid}.json',
            'replay_cmd_template': f'./check {pid} --replay {{path}}',
            'engine': 'rocq-model+correspondence',
            'level_claimed': {'category': 'proof', 'text': text, 'design_ref': f'DESIGN.md section 6 ({pid})'},
            'level_note': note + TIE_NOTE.format(TIES[pid]),
            'technique': 'machine-checked proof in Rocq (Coq 8.16) over an executable model; the model is tied to the source '
                         'both by an in-Coq differential correspondence check against the implementation and by '
                         'statement-level translators whose output is proved equal to the model on every run',
        })
    else:
        na.append({'property_id': pid, 'reason': 'check not built yet (work in progress; see DESIGN.md section 6)'})

m = {
    'version': 1,
    'setup_cmd': './check --setup',
    'hooks': {'guard': 'EASCHEDULER_VERIF',
              'enable': 'no source hooks are needed: the harness patches clocks from outside and reads private attributes',
              'baseline_off_cmd': 'cd /repo && /venv/bin/python -m pytest -ra -q -p no:cacheprovider --timeout=900 '
                                  '--continue-on-collection-errors',
              'source_commits': [], 'add_only': True},
    'engines': [{'name': 'rocq-model+correspondence', 'path': 'coq/ harness/ lib/',
                 'serves_properties': sorted(CLAIMS),
                 'kind_free_text': 'Gallina model + theorems (coqc), model evaluated in Coq against observations of the '
                                   'real code under virtual time'}],
    'checks': checks,
    'not_applicable': na,
    'notes': 'Fixes of genuine defects are separate "fix:" commits in /repo; see known_findings.json and DESIGN.md section 11.3 (section 7 is the list made while reading, before the build).',
}
(V / 'MANIFEST.json').write_text(json.dumps(m, indent=1) + '\n')
print(len(checks), 'checks,', len(na), 'not claimed')
