#!/usr/bin/env python3
"""mk_manifest.py — (re)write MANIFEST.json from the table below; properties without a check are listed
under not_applicable with the reason why nothing is claimed."""
import json
from pathlib import Path

V = Path(__file__).resolve().parent.parent
props = [json.loads(l) for l in (V / 'properties.jsonl').read_text().splitlines() if l.strip()]

SCHED_NOTE = ('Theorems are about the Gallina model coq/theories/Sched.v (jobs, store, AsyncScheduler, loop timer; '
              'mutually re-entrant core with explicit fuel) and hold for every history, every environment (triggers, '
              'failing user code) and every fuel for runs that do not exhaust the fuel. The model is tied to /repo by the '
              'correspondence check: generated histories are run on the real JobBuilder/AsyncScheduler under a virtual '
              'clock and compared operation by operation with the model evaluated inside Coq (vm_compute). Assumes one '
              'clock (loop clock = wall clock), instants on the 2^-9 s grid, no re-entrant scheduler calls from '
              'synchronous callables. No axioms.')
CLAIMS = {
    'C01': ('invariant of the scheduler core proved by induction on fuel and on the history (run_inv), timer armed for '
            'the head, nothing due after a wake-up / re-enable, never early, early wake-up harmless; all for every '
            'history', SCHED_NOTE, '5/C01'),
    'C02': ('queue = exactly the running jobs, once each (no duplicate entry), in every reachable state; a disabled '
            'scheduler starts nothing whatever is called. PARTIAL: "at most once per announcement", non-interference and '
            '"failed creation never runs" are decided by the correspondence + oracle, not yet by a theorem',
            SCHED_NOTE, '5/C02'),
    'C07': ('status/next-run agreement and "finished is terminal and changes nothing" proved for every reachable state. '
            'PARTIAL: callback-once and store-exactness are decided by the correspondence + oracle only',
            SCHED_NOTE, '5/C07'),
    'C08': ('invariant, never-early and on-time-after-wake proved for all histories. PARTIAL: the exact value '
            '(reset instant + countdown in force) is decided by the correspondence + reference-model oracle only',
            SCHED_NOTE, '5/C08'),
    'C09': ('queue sorted by next-run time with exactly the running jobs in every reachable state (proved). PARTIAL: the '
            'order of starts inside one wake-up (across nested run_jobs) is decided by the correspondence + oracle only',
            SCHED_NOTE, '5/C09'),
    'C10': ('the invariant and never-early hold under EVERY failure environment (any callable, callback or trigger may '
            'raise at any invocation). PARTIAL: exactly-once delivery to the handler and equality with the failure-free '
            'run are decided by the two-run oracle; a trigger raising inside execute() re-runs the job (known finding F5)',
            SCHED_NOTE, '5/C10'),
}

TM_NOTE = ('Theorems are about the Gallina model coq/theories/TaskMgr.v: the five task managers on an explicit asyncio '
           'ready queue (handles HStep/HDone, Task.cancel() with _must_cancel as in CPython 3.12, coroutine phases), for '
           'every event sequence, bound, policy and key assignment; no axioms. Tied to /repo by running the real managers '
           'on a virtual loop with instrumented coroutines and comparing manager.task, queue, tracked tasks, loop._ready, '
           'coroutine states and logs after every event with the model evaluated in Coq. asyncio itself is modelled, not '
           'verified.')
F_NOTE = ('Theorems are about the Gallina models Civil.v / Filters.v / Parse.v (code points below U+0250; LC_ALL=C name '
          'tables); no axioms. Tied to /repo by evaluating filters built through the public FilterBuilder API at grid and '
          'boundary instants in 7-14 zones and by parsing exhaustive range spellings, name tables, random nestings and a '
          'malformed stream, compared with the model in Coq; lower/isspace/isdigit/int tables and DAY_NAMES/MONTH_NAMES are '
          'compared with the running Python on every run. The utc offset at an instant comes from whenever.')
CLAIMS.update({
    'C11': ('run_inv (invariant for all event lists, all five managers) and from it: mutual exclusion, submission order, '
            'progress (done-callback starts the queue head in the same step), exact victim at the bound, newest-per-key, '
            'conservation (every coroutine in exactly one place; none started twice) - all proved at full strength',
            TM_NOTE, '6/C11'),
    'C12': ('bound on tracked tasks, exact victim per policy, slot release at the done-callback, the unbounded manager '
            'keeps every task until done and forgets it afterwards, conservation - all proved for every event list',
            TM_NOTE, '6/C12'),
    'C17': ('allow = sem for every filter expression (algebra, half-open time window, set membership), Gregorian calendar '
            'round trip for every day, string-level parser soundness for the whole grammar incl. wrap-around ranges and '
            'nested lists, rejection lemmas, name tables - all proved',
            F_NOTE, '6/C17'),
})

checks = []
na = []
for p in props:
    pid = p['id']
    if pid in CLAIMS:
        text, note, ref = CLAIMS[pid]
        checks.append({
            'property_id': pid,
            'quick_cmd': f'./check {pid} --tier quick',
            'thorough_cmd': f'./check {pid} --tier thorough',
            'evidence_file': f'evidence/{pid}.json',
            'replay_cmd_template': f'./check {pid} --replay {{path}}',
            'engine': 'rocq-model+correspondence',
            'level_claimed': {'category': 'proof', 'text': text, 'design_ref': f'DESIGN.md section 6 ({pid})'},
            'level_note': note,
            'technique': 'machine-checked proof in Rocq (Coq 8.16) over an executable model + in-Coq differential '
                         'correspondence check against the implementation',
        })
    else:
        na.append({'property_id': pid, 'reason': 'check not built yet (work in progress; see DESIGN.md section 6)'})

m = {
    'version': 1,
    'setup_cmd': './check --setup',
    'hooks': {'guard': 'EASCHEDULER_VERIF',
              'enable': 'no source hooks are needed: the harness patches clocks from outside and reads private attributes',
              'baseline_off_cmd': 'cd /repo && /venv/bin/python -m pytest -ra -q -p no:cacheprovider --timeout=900 '
                                  '--continue-on-collection-errors',
              'source_commits': [], 'add_only': True},
    'engines': [{'name': 'rocq-model+correspondence', 'path': 'coq/ harness/ lib/',
                 'serves_properties': sorted(CLAIMS),
                 'kind_free_text': 'Gallina model + theorems (coqc), model evaluated in Coq against observations of the '
                                   'real code under virtual time'}],
    'checks': checks,
    'not_applicable': na,
    'notes': 'Fixes of genuine defects are separate "fix:" commits in /repo; see known_findings.json and DESIGN.md section 7.',
}
(V / 'MANIFEST.json').write_text(json.dumps(m, indent=1) + '\n')
print(len(checks), 'checks,', len(na), 'not claimed')
