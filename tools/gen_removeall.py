#!/usr/bin/env python3
"""gen_removeall.py — fail-closed translator of ONE method: AsyncScheduler.remove_all
(src/eascheduler/schedulers/async_scheduler.py)  ->  coq/gen/GenRemoveAll.v.

gen_sched.py lists `remove_all` under NOT_TRANSLATED (its output and the record [rec] are not touched here).  This
tool reads the method with `ast` and, when it has EXACTLY the shape

    def remove_all(self) -> Self:
        for <x> in tuple(reversed(self.jobs)):
            <x>.job_finish()
        return self

emits two Gallina definitions in the runtime of GenRt.v / GenRtJobs.v:

    g_remove_all_loop E R <snapshot> s     structural recursion over the snapshot (a `list nat`)
    g_remove_all E R s                     evaluates the snapshot ONCE, runs the loop, returns

Anything else (iteration over `self.jobs` directly, no `reversed`, no `tuple(...)`, another method called, extra
statements, `break` / `continue` / `else:`, arguments, other decorators, an async def, a second definition ...)
raises Unrecognised: the generated file then has [gen_removeall_status_v = GenRemoveAllError ...] and NO definition,
so coq/theories/GenRemoveAllEq.v does not compile (fail closed).

Translation rules that are TRUSTED (everything else is proved in GenRemoveAllEq.v):
  R1  `self.jobs` is the deque that gen_sched.py models as [queue s] (same attribute, same class; index i of the
      deque = i-th element of the list, jobs are identified by their index in the job table).
  R2  `reversed(d)` on a deque yields its elements from the last to the first and `tuple(it)` exhausts the iterator
      BEFORE the first loop iteration: the snapshot is the value [rev (queue s)], computed once from the state at
      entry; later changes of `self.jobs` do not change it.  The builtins `tuple` / `reversed` are not shadowed.
  R3  `for x in <tuple>: body` is a structural fold over the snapshot from left to right; the loop has no `else`,
      `break` or `continue` (checked), so it ends when the snapshot is exhausted or when the body raises.
  R4  `x.job_finish()` is the GENERATED [GenJobs.g_job_finish E R x] (gen_jobs.py: the dispatcher over the job
      classes; all of them inherit JobBase.job_finish), called on the current state; its `_scheduler` is the
      record R : jrec, which GenRemoveAllEq.v fills with the generated scheduler ([GenJobsEq.JR fuel] =
      jrec_of (knot2 fuel)), i.e. the fuel discipline of GenJobsEq.v.  Its return value is discarded.
  R5  an exception raised by the body leaves the loop and the method with that exception ([JExc e] is passed on,
      the rest of the snapshot is not visited); out of fuel ([None]) is passed on.
  R6  `return self` returns normally ([JRet]); the returned object is the scheduler itself (not represented).
  R7  the decorator `@override` and the annotation `-> Self` have no run-time effect.

usage: gen_removeall.py <repo_root> <out_file>
"""
from __future__ import annotations

import ast
import sys
from pathlib import Path

sys.path.insert(0, str(Path(__file__).resolve().parent))
from gen_sched import Unrecognised, is_self_attr, src  # noqa: E402  (shared helpers; gen_sched's output is not used)

HEADER = '''(* GenRemoveAll.v — WRITTEN BY tools/gen_removeall.py FROM /repo/src/eascheduler/schedulers/async_scheduler.py
   (method AsyncScheduler.remove_all) ON EVERY RUN.  Do not edit.
   Runtime: coq/theories/GenRt.v, GenRtJobs.v; the body calls coq/gen/GenJobs.v; proofs: coq/theories/GenRemoveAllEq.v. *)
From EAS Require Import Base Sched GenRt GenRtJobs.
From EASGen Require Import GenJobs.
From Coq Require Import String List.
Import ListNotations.

Inductive gen_removeall_status := GenRemoveAllOk | GenRemoveAllError (what : string).
'''


def is_call(n: ast.AST, name: str) -> bool:
    return (isinstance(n, ast.Call) and isinstance(n.func, ast.Name) and n.func.id == name and len(n.args) == 1
            and not n.keywords and not isinstance(n.args[0], ast.Starred))


def generate(repo: Path) -> str:
    path = repo / 'src/eascheduler/schedulers/async_scheduler.py'
    mod = ast.parse(path.read_text(encoding='utf-8'), filename=str(path))
    # R2: the builtins are not shadowed anywhere in the module
    for n in ast.walk(mod):
        if isinstance(n, ast.Name) and n.id in ('tuple', 'reversed') and not isinstance(n.ctx, ast.Load):
            raise Unrecognised(f'{n.id} is assigned')
        if isinstance(n, (ast.FunctionDef, ast.AsyncFunctionDef, ast.ClassDef)) and n.name in ('tuple', 'reversed'):
            raise Unrecognised(f'{n.name} is redefined')
        if isinstance(n, ast.alias) and (n.asname or n.name) in ('tuple', 'reversed'):
            raise Unrecognised(f'{n.name} is imported')
        if isinstance(n, ast.arg) and n.arg in ('tuple', 'reversed'):
            raise Unrecognised(f'{n.arg} is a parameter')
    cls = [n for n in mod.body if isinstance(n, ast.ClassDef) and n.name == 'AsyncScheduler']
    if len(cls) != 1:
        raise Unrecognised('class AsyncScheduler')
    fns = [n for n in cls[0].body if isinstance(n, (ast.FunctionDef, ast.AsyncFunctionDef)) and n.name == 'remove_all']
    if len(fns) != 1 or not isinstance(fns[0], ast.FunctionDef):
        raise Unrecognised('exactly one plain def remove_all expected')
    fn = fns[0]
    # `jobs` must be a plain attribute of the class (R1): no property / method of that name here
    for n in cls[0].body:
        if isinstance(n, (ast.FunctionDef, ast.AsyncFunctionDef)) and n.name == 'jobs':
            raise Unrecognised('jobs is a method / property')
    if [src(d) for d in fn.decorator_list] not in ([], ['override']):
        raise Unrecognised('decorators of remove_all')
    a = fn.args
    if ([x.arg for x in a.args] != ['self'] or a.posonlyargs or a.kwonlyargs or a.vararg or a.kwarg or a.defaults
            or a.kw_defaults):
        raise Unrecognised('arguments of remove_all')
    if fn.returns is not None and src(fn.returns) != 'Self':
        raise Unrecognised('return annotation of remove_all')
    body = fn.body
    if len(body) != 2:
        raise Unrecognised(f'body of remove_all: {len(body)} statements, expected `for` and `return self`')
    loop, ret = body
    if not isinstance(loop, ast.For) or loop.orelse or loop.type_comment:
        raise Unrecognised('first statement is not a plain `for` without else')
    if not isinstance(loop.target, ast.Name):
        raise Unrecognised('loop target is not a name')
    x = loop.target.id
    if x == 'self':
        raise Unrecognised('loop variable shadows self')
    it = loop.iter
    if not is_call(it, 'tuple'):
        raise Unrecognised(f'iterable is not tuple(...): {src(it)}')
    if not is_call(it.args[0], 'reversed'):
        raise Unrecognised(f'snapshot is not tuple(reversed(...)): {src(it)}')
    if not is_self_attr(it.args[0].args[0], 'jobs'):
        raise Unrecognised(f'snapshot is not taken of self.jobs: {src(it)}')
    if len(loop.body) != 1:
        raise Unrecognised(f'loop body has {len(loop.body)} statements')
    st = loop.body[0]
    if not (isinstance(st, ast.Expr) and isinstance(st.value, ast.Call)):
        raise Unrecognised(f'loop body is not a call statement: {src(st)}')
    c = st.value
    if c.args or c.keywords:
        raise Unrecognised(f'call with arguments: {src(st)}')
    f = c.func
    if not (isinstance(f, ast.Attribute) and isinstance(f.value, ast.Name) and f.value.id == x):
        raise Unrecognised(f'not a method call on the loop variable: {src(st)}')
    if f.attr != 'job_finish':
        raise Unrecognised(f'method {f.attr} is called, expected job_finish')
    if not (isinstance(ret, ast.Return) and isinstance(ret.value, ast.Name) and ret.value.id == 'self'):
        raise Unrecognised(f'last statement is not `return self`: {src(ret)}')

    v = f'v_{x}'
    text = HEADER + '\nDefinition gen_removeall_status_v : gen_removeall_status := GenRemoveAllOk.\n\n'
    text += (
        f'(* for {x} in <snapshot>: {x}.job_finish()      (R3 R4 R5) *)\n'
        f'Fixpoint g_remove_all_loop (E : env) (R : jrec) (v_snapshot : list nat) (s : st) {{struct v_snapshot}} : MJ :=\n'
        f'let kret := fun s : st => Some (s, JRet) in\n'
        f'let kx := fun (s : st) (e : jexn) => Some (s, JExc e) in\n'
        f'match v_snapshot with\n'
        f'  | [] =>\n'
        f'  kret s\n'
        f'  | {v} :: v_snapshot =>\n'
        f'  let knext := fun s : st => g_remove_all_loop E R v_snapshot s in\n'
        f'  match g_job_finish E R {v} s with\n'
        f'    | None => None\n'
        f'    | Some (s, r) =>\n'
        f'    match r with\n'
        f'      | JRet => knext s\n'
        f'      | JExc e1 => kx s e1\n'
        f'    end\n'
        f'  end\n'
        f'end.\n\n'
        f'(* def remove_all(self): <snapshot> = tuple(reversed(self.jobs)), once (R1 R2); the loop; return self (R6) *)\n'
        f'Definition g_remove_all (E : env) (R : jrec) (s : st) : MJ :=\n'
        f'let kret := fun s : st => Some (s, JRet) in\n'
        f'let kx := fun (s : st) (e : jexn) => Some (s, JExc e) in\n'
        f'let v_snapshot := rev (queue s) in\n'
        f'match g_remove_all_loop E R v_snapshot s with\n'
        f'  | None => None\n'
        f'  | Some (s, r) =>\n'
        f'  match r with\n'
        f'    | JRet => kret s\n'
        f'    | JExc e2 => kx s e2\n'
        f'  end\n'
        f'end.\n')
    return text


def main() -> int:
    repo, out = Path(sys.argv[1]), Path(sys.argv[2])
    try:
        text = generate(repo)
    except (Unrecognised, OSError, SyntaxError, KeyError, IndexError, AttributeError) as e:
        msg = str(e).replace('"', "'").replace('\n', ' ').replace('*)', '* )')[:300]
        text = (HEADER + f'\n(* remove_all NOT translated: {msg} *)\n'
                f'Definition gen_removeall_status_v : gen_removeall_status := GenRemoveAllError "{msg}".\n')
        print(f'gen_removeall: not recognised: {msg}', file=sys.stderr)
    old = out.read_text() if out.exists() else None
    if old != text:
        out.write_text(text)
    return 0            # fail closed inside Coq: GenRemoveAllEq.v does not compile without the definitions


if __name__ == '__main__':
    sys.exit(main())
