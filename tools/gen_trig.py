#!/usr/bin/env python3
"""gen_trig.py — fail-closed translator: the builder DSL and the `copy` methods of /repo  ->  coq/gen/GenTrig.v.

Translated statement by statement (Python `ast` -> Gallina, in the runtime of coq/theories/GenRtTrig.v: a HEAP of
objects with identity, dynamically typed values, explicit exceptions):
  builder/triggers.py   TriggerObject.__init__ / offset / earliest / latest / jitter / only_on (only_at is the alias),
                        TriggerBuilder.group / interval / time, the validator instance `_get_producer`
  builder/filters.py    FilterObject.__init__, FilterBuilder.any / all / not_ / time / weekdays / days / months,
                        the validator instance `_get_producer_filter`
  builder/helper.py     BuilderTypeValidator.__call__ (specialised to each module-level instance), get_time_replacer
  producers/*.py        __init__, copy, _copy_filter, add_filter of TimeProducer, IntervalProducer, GroupProducer,
                        the four producer operations and the seven filters, after MRO resolution (every method is
                        translated once per concrete class; `super().__init__` and `self.m()` are resolved statically)
  helpers/time_replace.py   TimeReplacer.__init__ / copy
coq/theories/GenTrigEq.v (hand-written, re-checked against the regenerated file on every run) proves that every
generated builder call computes the operation of Builder.v on an object graph that it OWNS (fresh, tree shaped,
disjoint from everything that existed) and leaves every existing heap cell as it was.  Anything outside the vocabulary
raises Unrecognised; the output then carries [gen_trig_status_v = GenTrigError "..."] and NO definitions, so
GenTrigEq.v does not compile (fail closed).

The translation: every Python value is a [val]; a local is `v_<name>` (renaming changes no proof); an assignment is a
`let`; every call / attribute read / attribute store is sequenced with [bind] in Python's evaluation order; `if` is
[cond] with the rest of the block repeated in every branch that falls through; `return` / `raise` end the block.

TRUSTED translation rules (what GenTrigEq.v cannot check):
  T1  An object is a heap cell (class tag, slots); `x.a` reads the slot, `x.a = v` (also with a `Final` annotation)
      writes it in place; `Cls(args)` evaluates the arguments, appends a cell with no slots and runs the MRO-resolved
      `__init__` on it; a class without `__init__` up to `object` allocates only.  `__slots__` are not checked.
  T2  Methods are specialised per concrete class of `self` (the classes of GenRtTrig.cls; single inheritance is
      checked): `self.__class__` is that class, `super().__init__` the next definition in its MRO (a no-op when it is
      `object`'s), `self.m(...)` the MRO-resolved `m`.  A call `x.copy()` / `x.add_filter(f)` on any other receiver
      dispatches on the class tag of x (generated [g_dispatch], through the record [trec]).  Objects of classes
      outside the list (sun producers, holiday filters) do not occur: their builders are not translated.
  T3  `isinstance(x, K)` reads the class tag of x and the generated subclass table [sub_K] (from the `class`
      statements); None, numbers and tuples are instances of no builder / producer / filter class.
      `getattr(x, '<name>')` with a literal name is `x.<name>`.
  T4  A module-level `<name>: Final = BuilderTypeValidator(A, B, 'attr')` is translated as `__call__` with
      `self.type_in / type_out / var_name` replaced by A, B, 'attr' (the `__init__` is checked to store exactly these).
  T5  tuples, lists, frozensets and generator expressions are the list of their elements in order ([VTuple]);
      `[e for x in t]` / `(e for x in t)` evaluate e for every element in order, eagerly (the consumers `tuple(...)`,
      `__init__` read them completely and at once); `( *t, x )` appends; `t[<literal>]` indexes (IndexError = EOther).
      A frozenset of ints is the list it was built from (the model's filters hold lists, membership is order-free).
  T6  Instants, Times, float seconds are integer nanoseconds ([VZ]) as in gen_prod.py T1-T5; the argument parsers of
      builder/helper.py are applied to arguments that are ALREADY PARSED (what harness/bld_runner.py passes):
      `get_timedelta(x).in_seconds()`, `get_instant(x)`, `get_time(x)`, `get_weekdays/get_days/get_months(x)` return x;
      `get_pos_timedelta_secs(x)` returns x if 0 < x and raises ValueError otherwise;
      `check_dst_handling(t, f, b)` returns (f, b) for explicit policies (used verbatim: C20); `to_enum(E, x)` is x.
      Parsing itself is the subject of C17 / C19 / C20 (gen_instant.py, gen_dst.py).
  T7  Strings (messages, f-strings) are [VOpaque]; building them has no effect.  ValueError / TypeError are
      EValueError / ETypeError of Base.v.
  T8  `*name` parameters are one tuple-valued parameter; keyword-only parameters follow the positional ones; a call
      inside the translated code is resolved against the signature of the callee (defaults must be literals).
  T9  `only_at = only_on` in a class body makes the two names one function.
  T10 The link between a builder operation of Builder.v and a generated call ([gen_bop] in GenTrigEq.v) is what
      harness/bld_runner.py does for that operation; `objs[i].m(...)` on something that is not a TriggerObject is
      AttributeError (= EOther, no effect).  A stuck translation ([None]: an operation on a value of the wrong shape,
      or out of fuel) is never a result: the theorems show it does not occur for represented objects and enough fuel.

usage: gen_trig.py <repo_root> <out_file>
"""
from __future__ import annotations

import ast
import os
import re
import sys
from pathlib import Path

sys.path.insert(0, str(Path(__file__).resolve().parent))
from gen_sched import Unrecognised, src, is_none  # noqa: E402  (shared machinery)
from gen_prod import exits  # noqa: E402

FILES = ['builder/triggers.py', 'builder/filters.py', 'builder/helper.py', 'producers/base.py',
         'producers/prod_time.py', 'producers/prod_interval.py', 'producers/prod_group.py',
         'producers/prod_operation.py', 'producers/prod_filter.py', 'helpers/time_replace.py']
# the classes that are instantiated; must be the constructors of GenRtTrig.cls, in this order
CONCRETE = ['TimeReplacer', 'TimeProducer', 'IntervalProducer', 'GroupProducer', 'OffsetProducerOperation',
            'EarliestProducerOperation', 'LatestProducerOperation', 'JitterProducerOperation',
            'AnyGroupProducerFilter', 'AllGroupProducerFilter', 'InvertingProducerFilter', 'TimeProducerFilter',
            'DayOfWeekProducerFilter', 'DayOfMonthProducerFilter', 'MonthOfYearProducerFilter',
            'TriggerObject', 'FilterObject']
# entry points of the builder API: class -> methods
ROOTS = {'TriggerObject': ['offset', 'earliest', 'latest', 'jitter', 'only_on'],
         'TriggerBuilder': ['time', 'interval', 'group'],
         'FilterBuilder': ['any', 'all', 'not_', 'time', 'weekdays', 'days', 'months']}
ALIASES = {('TriggerObject', 'only_at'): 'only_on'}
DYNAMIC = ['copy', 'add_filter']            # methods called on receivers other than self
VALIDATOR = 'BuilderTypeValidator'
FUNCTIONS = {'get_time_replacer': 'builder/helper.py'}
PRIM1 = {'get_pos_timedelta_secs': 'get_pos_timedelta_secs_', 'get_instant': 'get_instant_', 'get_time': 'get_time_',
         'get_weekdays': 'get_numbers_', 'get_days': 'get_numbers_', 'get_months': 'get_numbers_',
         'tuple': 'tuple_', 'frozenset': 'frozenset_'}
ENUMS = {'SkippedTimeBehavior': 'to_enum_sk', 'RepeatedTimeBehavior': 'to_enum_rp'}
EXC = {'ValueError': 'EValueError', 'TypeError': 'ETypeError'}
CMP = {ast.LtE: 'v_le', ast.Lt: 'v_lt', ast.GtE: 'v_ge', ast.Gt: 'v_gt'}
NOT_TRANSLATED = ['the sun builders (dawn ... sun_azimuth)', 'FilterBuilder.holidays / work_days / not_work_days',
                  '__eq__', '__repr__', 'get_next / allow (gen_prod.py)', 'JobBuilder.at (calls _get_producer)']

HEADER = '''(* GenTrig.v — WRITTEN BY tools/gen_trig.py FROM /repo/src/eascheduler/builder/*.py, producers/*.py AND
   helpers/time_replace.py ON EVERY RUN.  Do not edit.  Runtime: coq/theories/GenRtTrig.v; proofs: coq/theories/GenTrigEq.v. *)
From EAS Require Import Base Civil Time Filters Replace Producers GenRtTrig.
From Coq Require Import String.

Inductive gen_trig_status := GenTrigOk | GenTrigError (what : string).
Open Scope string_scope.
Open Scope Z_scope.
'''


class Fn:
    """one function to translate: the def, the concrete class of self (None: no self), the class that defines it,
    and what is statically known about self (validator instances)"""

    def __init__(self, fn: ast.FunctionDef, conc: str | None, owner: str | None, kind: str,
                 statics: dict | None = None) -> None:
        self.fn, self.conc, self.owner, self.kind, self.statics = fn, conc, owner, kind, statics or {}


class Gen:
    def __init__(self, repo: Path) -> None:
        self.mods: dict[str, ast.Module] = {}
        for f in FILES:
            path = repo / 'src/eascheduler' / f
            self.mods[f] = ast.parse(path.read_text(encoding='utf-8'), filename=str(path))
        self.classes: dict[str, ast.ClassDef] = {}
        for f, m in self.mods.items():
            for n in m.body:
                if isinstance(n, ast.ClassDef):
                    if n.name in self.classes:
                        raise Unrecognised(f'class {n.name} defined twice')
                    self.classes[n.name] = n
        for c in CONCRETE + list(ROOTS):
            if c not in self.classes:
                raise Unrecognised(f'class {c} is missing')
        self.done: dict[tuple, str] = {}
        self.busy: set[tuple] = set()
        self.out: list[str] = []
        self.subs: dict[str, str] = {}
        self.n = 0

    # -- classes ----------------------------------------------------------------------------------------
    def mro(self, c: str) -> list[str]:
        out = []
        while c in self.classes:
            out.append(c)
            bases = [b for b in self.classes[c].bases if not (isinstance(b, ast.Subscript) and src(b.value) == 'Generic')]
            if len(bases) > 1:
                raise Unrecognised(f'multiple inheritance: class {c}')
            if not bases:
                break
            if not isinstance(bases[0], ast.Name):
                raise Unrecognised(f'base of {c}: {src(bases[0])}')
            c = bases[0].id
            if c not in self.classes and c not in ('object', 'Exception'):
                raise Unrecognised(f'base class {c} is not among the translated files')
        return out

    def own(self, k: str, name: str) -> ast.FunctionDef | None:
        fns = [n for n in self.classes[k].body if isinstance(n, ast.FunctionDef) and n.name == name]
        if len(fns) > 1:
            raise Unrecognised(f'{k}.{name} defined twice')
        for n in self.classes[k].body:
            if isinstance(n, (ast.Assign, ast.AnnAssign)):
                tg = n.targets if isinstance(n, ast.Assign) else [n.target]
                if any(isinstance(t, ast.Name) and t.id == name for t in tg) and (k, name) not in ALIASES:
                    raise Unrecognised(f'{k}.{name} is bound by an assignment in the class body')
        return fns[0] if fns else None

    def resolve(self, c: str, name: str, after: str | None = None) -> tuple[str, ast.FunctionDef] | None:
        """the definition of `name` that an instance of c sees (after: the one super() sees inside class `after`)"""
        chain = self.mro(c)
        if after is not None:
            chain = chain[chain.index(after) + 1:]
        for k in chain:
            fn = self.own(k, name)
            if fn is not None:
                return k, fn
        return None

    def sub_table(self, k: str) -> str:
        if k not in self.classes:
            raise Unrecognised(f'isinstance against {k}')
        if k not in self.subs:
            rows = ' '.join(f'| C_{c} => {"true" if k in self.mro(c) else "false"}' for c in CONCRETE)
            self.subs[k] = f'Definition sub_{k} (c : cls) : bool :=\n  match c with {rows} end.'
            self.out.append(self.subs[k])
        return f'sub_{k}'

    # -- requests ---------------------------------------------------------------------------------------
    def fresh(self) -> str:
        self.n += 1
        return f't{self.n}'

    def request(self, key: tuple) -> str:
        if key in self.done:
            return self.done[key]
        if key in self.busy:
            raise Unrecognised(f'recursive static call: {key}')
        self.busy.add(key)
        try:
            name, text = getattr(self, 'make_' + key[0])(*key[1:])
        except Unrecognised as e:
            if str(e).startswith('in '):
                raise
            raise Unrecognised(f'in {".".join(str(x) for x in key[1:])}: {e}') from None
        self.busy.discard(key)
        self.done[key] = name
        if text:
            self.out.append(text)
        return name

    def params(self, fn: ast.FunctionDef, drop_self: bool) -> list[tuple[str, ast.AST | None, bool]]:
        """(name, default, has_default) in the order of the generated function"""
        a = fn.args
        if a.posonlyargs or a.kwarg:
            raise Unrecognised(f'signature of {fn.name}')
        pos = list(a.args)
        nd = len(a.defaults)
        out = [(p.arg, a.defaults[i - (len(pos) - nd)] if i >= len(pos) - nd else None, i >= len(pos) - nd)
               for i, p in enumerate(pos)]
        if drop_self:
            if not out:
                raise Unrecognised(f'{fn.name} has no self')
            out = out[1:]
        if a.vararg:
            out.append((a.vararg.arg, None, False))
        for p, d in zip(a.kwonlyargs, a.kw_defaults):
            out.append((p.arg, d, d is not None))
        return out

    def define(self, name: str, what: str, ps: list[str], body: str) -> str:
        args = ''.join(f' (v_{p} : val)' for p in ps)
        return f'(* {what} *)\nDefinition {name} (R : trec){args} : TM val :=\n{body}.'

    def decorators(self, fn: ast.FunctionDef, allowed: tuple) -> None:
        d = [src(x) for x in fn.decorator_list]
        if d not in allowed:
            raise Unrecognised(f'decorators {d} of {fn.name}')

    def class_independent(self, fn: ast.FunctionDef) -> bool:
        """the body does not depend on the concrete class of self: no self.__class__, no super(), no self.m(...)"""
        me = fn.args.args[0].arg if fn.args.args else None
        for n in ast.walk(fn):
            if isinstance(n, ast.Attribute) and n.attr == '__class__':
                return False
            if isinstance(n, ast.Name) and n.id == 'super':
                return False
            if (isinstance(n, ast.Call) and isinstance(n.func, ast.Attribute) and isinstance(n.func.value, ast.Name)
                    and n.func.value.id == me):
                return False
        return True

    def make_shared(self, k: str, name: str) -> tuple[str, str]:
        fn = self.own(k, name)
        short = {'__init__': 'init'}.get(name, name)
        gname = f'g_{k}__{short}'
        ps = self.params(fn, drop_self=False)
        body = Body(self, Fn(fn, k, k, 'meth'), ps[0][0]).block(fn.body, {p for p, _, _ in ps})
        return gname, self.define(gname, f'{k}.{name}  (the same for every subclass)', [p for p, _, _ in ps], body)

    def make_meth(self, c: str, k: str, name: str) -> tuple[str, str]:
        fn = self.own(k, name)
        self.decorators(fn, ([], ['override']))
        if self.class_independent(fn):
            return self.request(('shared', k, name)), ''
        res = self.resolve(c, name)
        short = {'__init__': 'init'}.get(name, name)
        gname = f'g_{c}__{short}' if res and res[0] == k else f'g_{c}__{short}__in_{k}'
        ps = self.params(fn, drop_self=False)
        f = Fn(fn, c, k, 'meth')
        body = Body(self, f, [p for p, _, _ in ps][0]).block(fn.body, {p for p, _, _ in ps})
        return gname, self.define(gname, f'{k}.{name}  (self : {c})', [p for p, _, _ in ps], body)

    def make_new(self, c: str) -> tuple[str, str]:
        res = self.resolve(c, '__init__')
        gname = f'g_{c}__new'
        if res is None:
            return gname, self.define(gname, f'{c}()', [], f'alloc C_{c}')
        k, fn = res
        init = self.request(('meth', c, k, '__init__'))
        ps = [p for p, _, _ in self.params(fn, drop_self=True)]
        args = ''.join(f' v_{p}' for p in ps)
        body = f'bind (alloc C_{c}) (fun v_self =>\nbind ({init} R v_self{args}) (fun _ =>\nret v_self))'
        return gname, self.define(gname, f'{c}(...)', ps, body)

    def make_static(self, k: str, name: str) -> tuple[str, str]:
        fn = self.own(k, name)
        if fn is None:
            raise Unrecognised(f'{k}.{name} is missing')
        self.decorators(fn, (['staticmethod'],))
        ps = [p for p, _, _ in self.params(fn, drop_self=False)]
        gname = f'g_{k}__{name}'
        body = Body(self, Fn(fn, None, k, 'static'), None).block(fn.body, set(ps))
        return gname, self.define(gname, f'{k}.{name}  (static)', ps, body)

    def make_func(self, name: str) -> tuple[str, str]:
        fns = [n for n in self.mods[FUNCTIONS[name]].body if isinstance(n, ast.FunctionDef) and n.name == name]
        if len(fns) != 1:
            raise Unrecognised(f'function {name}')
        self.decorators(fns[0], ([],))
        ps = [p for p, _, _ in self.params(fns[0], drop_self=False)]
        body = Body(self, Fn(fns[0], None, None, 'func'), None).block(fns[0].body, set(ps))
        return f'g_{name}', self.define(f'g_{name}', f'{FUNCTIONS[name]}: {name}', ps, body)

    def validators(self) -> dict[str, ast.Call]:
        out = {}
        for m in self.mods.values():
            for n in m.body:
                if (isinstance(n, ast.AnnAssign) and isinstance(n.target, ast.Name) and isinstance(n.value, ast.Call)
                        and src(n.value.func) == VALIDATOR):
                    out[n.target.id] = n.value
                elif isinstance(n, ast.Assign) and isinstance(n.value, ast.Call) and src(n.value.func) == VALIDATOR:
                    raise Unrecognised(f'validator bound without annotation: {src(n)}')
        return out

    def make_validator(self, name: str) -> tuple[str, str]:
        call = self.validators()[name]
        init = self.own(VALIDATOR, '__init__')
        call_fn = self.own(VALIDATOR, '__call__')
        if init is None or call_fn is None or self.mro(VALIDATOR) != [VALIDATOR]:
            raise Unrecognised(f'{VALIDATOR} has changed shape')
        ips = [p for p, _, _ in self.params(init, drop_self=True)]
        if call.keywords or len(call.args) != len(ips):
            raise Unrecognised(f'arguments of {src(call)}')
        # the constructor must store every parameter in the attribute of the same name, and nothing else
        stored = []
        for s in init.body:
            if (isinstance(s, (ast.AnnAssign, ast.Assign)) and isinstance(s.value, ast.Name)
                    and src(s.target if isinstance(s, ast.AnnAssign) else s.targets[0]) == f'self.{s.value.id}'):
                stored.append(s.value.id)
            else:
                raise Unrecognised(f'{VALIDATOR}.__init__: {src(s)}')
        if stored != ips:
            raise Unrecognised(f'{VALIDATOR}.__init__ stores {stored}')
        statics = {}
        for p, a in zip(ips, call.args):
            if isinstance(a, ast.Name) and a.id in self.classes:
                statics[p] = ('cls', a.id)
            elif isinstance(a, ast.Constant) and isinstance(a.value, str):
                statics[p] = ('str', a.value)
            else:
                raise Unrecognised(f'argument {src(a)} of {src(call)}')
        self.decorators(call_fn, ([],))
        ps = [p for p, _, _ in self.params(call_fn, drop_self=True)]
        f = Fn(call_fn, None, VALIDATOR, 'validator', statics)
        body = Body(self, f, None).block(call_fn.body, set(ps))
        return f'g_{name}', self.define(f'g_{name}', f'{name} = {src(call)}:  {VALIDATOR}.__call__', ps, body)

    def dispatch(self) -> str:
        parts = []
        for m in DYNAMIC:
            rows = []
            for c in CONCRETE:
                res = self.resolve(c, m)
                if res is None:
                    continue
                g = self.request(('meth', c, res[0], m))
                ps = self.params(res[1], drop_self=True)
                if any(d for _, _, d in ps):
                    raise Unrecognised(f'defaults in the dynamically called {c}.{m}')
                pat = '[' + '; '.join(f'a_{p}' for p, _, _ in ps) + ']'
                rows.append(f'    | C_{c}, {pat} => {g} R v_self' + ''.join(f' a_{p}' for p, _, _ in ps))
            parts.append(f'  if String.eqb name "{m}" then\n    match c, args with\n' + '\n'.join(rows)
                         + '\n    | _, _ => stuck\n    end\n  else')
        return ('(* x.m(args) on a receiver other than self: by the class of x *)\n'
                'Definition g_dispatch (R : trec) (name : string) (v_self : val) (args : list val) : TM val :=\n'
                '  bind (class_of_ v_self) (fun c =>\n' + '\n'.join(parts) + ' stuck).')


class Body:
    """translation of one function body"""

    def __init__(self, g: Gen, f: Fn, self_name: str | None) -> None:
        self.g, self.f, self.self_name = g, f, self_name if f.kind == 'meth' else None
        self.static_self = f.fn.args.args[0].arg if f.kind == 'validator' else None

    # -- helpers ----------------------------------------------------------------------------------------
    def bindc(self, m: str, k) -> str:
        t = self.g.fresh()
        return f'bind ({m}) (fun {t} =>\n{k(t)})'

    def is_self(self, n: ast.AST) -> bool:
        return self.self_name is not None and isinstance(n, ast.Name) and n.id == self.self_name

    def static_attr(self, n: ast.AST, kind: str) -> str | None:
        """self.<attr> of a validator instance, or a literal"""
        if (self.static_self and isinstance(n, ast.Attribute) and isinstance(n.value, ast.Name)
                and n.value.id == self.static_self):
            v = self.f.statics.get(n.attr)
            if v is None or v[0] != kind:
                raise Unrecognised(f'{src(n)} is not a constant {kind}')
            return v[1]
        if kind == 'cls' and isinstance(n, ast.Name) and n.id in self.g.classes:
            return n.id
        if kind == 'str' and isinstance(n, ast.Constant) and isinstance(n.value, str):
            return n.value
        return None

    def many(self, nodes: list[ast.AST], env: set, k) -> str:
        """evaluate the expressions left to right, then k(list of atoms)"""
        def go(i: int, acc: list[str]) -> str:
            if i == len(nodes):
                return k(acc)
            return self.ex(nodes[i], env, lambda a: go(i + 1, acc + [a]))
        return go(0, [])

    def resolve_args(self, fn: ast.FunctionDef, drop_self: bool, call: ast.Call) -> list[ast.AST]:
        ps = self.g.params(fn, drop_self)
        if any(isinstance(a, ast.Starred) for a in call.args) or any(kw.arg is None for kw in call.keywords):
            raise Unrecognised(f'star arguments in {src(call)}')
        if fn.args.vararg:
            raise Unrecognised(f'call of a function with *{fn.args.vararg.arg}: {src(call)}')
        npos = len(fn.args.args) - (1 if drop_self else 0)
        if len(call.args) > npos:
            raise Unrecognised(f'too many arguments in {src(call)}')
        given: dict[str, ast.AST] = {}
        for (p, _, _), a in zip(ps, call.args):
            given[p] = a
        names = [p for p, _, _ in ps]
        for kw in call.keywords:
            if kw.arg not in names or kw.arg in given:
                raise Unrecognised(f'keyword {kw.arg} in {src(call)}')
            given[kw.arg] = kw.value
        # Python evaluates positional arguments, then keywords, in source order; reordering is only sound when the
        # keywords come in signature order
        order = [names.index(kw.arg) for kw in call.keywords]
        if order != sorted(order) or (order and order[0] < len(call.args)):
            raise Unrecognised(f'keyword order in {src(call)}')
        out = []
        for p, d, has in ps:
            if p in given:
                out.append(given[p])
            elif has and (is_none(d) or isinstance(d, ast.Constant) and isinstance(d.value, int)):
                out.append(d)
            else:
                raise Unrecognised(f'argument {p} is missing in {src(call)}')
        return out

    # -- expressions ------------------------------------------------------------------------------------
    def pure(self, n: ast.AST, env: set) -> str | None:
        if isinstance(n, ast.Name):
            if n.id in env:
                return f'v_{n.id}'
            return None
        if is_none(n):
            return 'VNone'
        if isinstance(n, ast.Constant) and isinstance(n.value, bool):
            return f'(VBool {"true" if n.value else "false"})'
        if isinstance(n, ast.Constant) and isinstance(n.value, int):
            return f'(VZ {n.value})' if n.value >= 0 else f'(VZ ({n.value}))'
        if isinstance(n, ast.Constant) and isinstance(n.value, str) or isinstance(n, ast.JoinedStr):
            return 'VOpaque'
        if isinstance(n, ast.Tuple) and not n.elts:
            return '(VTuple [])'
        if isinstance(n, ast.UnaryOp) and isinstance(n.op, ast.Not):
            a = self.pure(n.operand, env)
            return None if a is None else f'(v_not {a})'
        if isinstance(n, ast.Compare) and len(n.ops) == 1:
            a, b = self.pure(n.left, env), self.pure(n.comparators[0], env)
            if a is None or b is None:
                return None
            return self.compare(n, a, b)
        if isinstance(n, ast.BoolOp):
            parts = [self.pure(v, env) for v in n.values]
            if any(p is None for p in parts):
                return None
            return self.boolop(n, parts)
        return None

    def compare(self, n: ast.Compare, a: str, b: str) -> str:
        op = n.ops[0]
        if isinstance(op, (ast.Is, ast.IsNot)):
            if not is_none(n.comparators[0]):
                raise Unrecognised(f'identity test {src(n)}')
            return f'(v_is_none {a})' if isinstance(op, ast.Is) else f'(v_not (v_is_none {a}))'
        if type(op) in CMP:
            return f'({CMP[type(op)]} {a} {b})'
        raise Unrecognised(f'comparison {src(n)}')

    def boolop(self, n: ast.BoolOp, parts: list[str]) -> str:
        f = 'v_and' if isinstance(n.op, ast.And) else 'v_or'
        acc = parts[-1]
        for p in reversed(parts[:-1]):
            acc = f'({f} {p} {acc})'
        return acc

    def ex(self, n: ast.AST, env: set, k) -> str:
        """evaluate n, then k(atom)"""
        p = self.pure(n, env)
        if p is not None:
            return k(p)
        if isinstance(n, ast.Name):
            raise Unrecognised(f'name {n.id}')
        if isinstance(n, ast.Attribute):
            if self.static_self and isinstance(n.value, ast.Name) and n.value.id == self.static_self:
                raise Unrecognised(f'{src(n)} used as a value')
            if n.attr.startswith('__'):
                raise Unrecognised(f'attribute {src(n)}')
            return self.ex(n.value, env, lambda o: self.bindc(f'get_attr {o} "{n.attr}"', k))
        if isinstance(n, ast.UnaryOp) and isinstance(n.op, ast.Not):
            return self.ex(n.operand, env, lambda a: k(f'(v_not {a})'))
        if isinstance(n, ast.Compare):
            if len(n.ops) != 1:
                raise Unrecognised(f'chained comparison {src(n)}')
            return self.ex(n.left, env, lambda a: self.ex(n.comparators[0], env, lambda b: k(self.compare(n, a, b))))
        if isinstance(n, ast.BoolOp):
            # the operands after the first must have no effect (short circuit)
            rest = [self.pure(v, env) for v in n.values[1:]]
            if any(r is None for r in rest):
                raise Unrecognised(f'short-circuit over effects: {src(n)}')
            return self.ex(n.values[0], env, lambda a: k(self.boolop(n, [a] + rest)))
        if isinstance(n, ast.IfExp):
            a = self.ex(n.body, env, lambda x: f'ret {x}')
            b = self.ex(n.orelse, env, lambda x: f'ret {x}')
            return self.ex(n.test, env, lambda c: self.bindc(f'cond {c}\n({a})\n({b})', k))
        if isinstance(n, (ast.ListComp, ast.GeneratorExp)):
            if len(n.generators) != 1:
                raise Unrecognised(f'comprehension {src(n)}')
            gen = n.generators[0]
            if gen.ifs or gen.is_async or not isinstance(gen.target, ast.Name):
                raise Unrecognised(f'comprehension {src(n)}')
            x = gen.target.id
            elt = self.ex(n.elt, env | {x}, lambda a: f'ret {a}')
            return self.ex(gen.iter, env, lambda it: self.bindc(f'map_m (fun v_{x} =>\n{elt}) {it}', k))
        if isinstance(n, (ast.Tuple, ast.List)):
            if (isinstance(n, ast.Tuple) and len(n.elts) == 2 and isinstance(n.elts[0], ast.Starred)
                    and not isinstance(n.elts[1], ast.Starred)):
                return self.ex(n.elts[0].value, env, lambda a: self.ex(n.elts[1], env, lambda b:
                               self.bindc(f'tuple_snoc {a} {b}', k)))
            if any(isinstance(e, ast.Starred) for e in n.elts):
                raise Unrecognised(f'display {src(n)}')
            return self.many(n.elts, env, lambda atoms: k('(VTuple [' + '; '.join(atoms) + '])'))
        if isinstance(n, ast.Subscript):
            if not (isinstance(n.slice, ast.Constant) and isinstance(n.slice.value, int) and n.slice.value >= 0):
                raise Unrecognised(f'subscript {src(n)}')
            return self.ex(n.value, env, lambda a: self.bindc(f'index_ {a} {n.slice.value}%nat', k))
        if isinstance(n, ast.Call):
            return self.call(n, env, k)
        raise Unrecognised(f'expression {src(n)}')

    def construct(self, c: str, n: ast.Call, env: set, k) -> str:
        if c not in CONCRETE:
            raise Unrecognised(f'instantiation of {c}')
        res = self.g.resolve(c, '__init__')
        new = self.g.request(('new', c))
        if res is None:
            if n.args or n.keywords:
                raise Unrecognised(f'arguments for {c}()')
            return self.bindc(f'{new} R', k)
        args = self.resolve_args(res[1], True, n)
        return self.many(args, env, lambda atoms: self.bindc(f'{new} R' + ''.join(f' {a}' for a in atoms), k))

    def call(self, n: ast.Call, env: set, k) -> str:
        f = n.func
        plain = not n.keywords and not any(isinstance(a, ast.Starred) for a in n.args)
        # self.__class__(...)
        if isinstance(f, ast.Attribute) and f.attr == '__class__' and self.is_self(f.value):
            return self.construct(self.f.conc, n, env, k)
        # super().__init__(...)
        if (isinstance(f, ast.Attribute) and isinstance(f.value, ast.Call) and src(f.value) == 'super()'
                and self.f.kind == 'meth'):
            if f.attr != self.f.fn.name:
                raise Unrecognised(f'{src(n)} inside {self.f.fn.name}')
            res = self.g.resolve(self.f.conc, f.attr, after=self.f.owner)
            if res is None:
                if f.attr != '__init__' or n.args or n.keywords:
                    raise Unrecognised(f'{src(n)}: nothing to call')
                return k('VNone')              # object.__init__()
            g = self.g.request(('meth', self.f.conc, res[0], f.attr))
            args = self.resolve_args(res[1], True, n)
            return self.many(args, env, lambda atoms: self.bindc(
                f'{g} R v_{self.self_name}' + ''.join(f' {a}' for a in atoms), k))
        if isinstance(f, ast.Name) and f.id not in env:
            if f.id in self.g.classes:
                return self.construct(f.id, n, env, k)
            if f.id == 'isinstance' and plain and len(n.args) == 2:
                c = self.static_attr(n.args[1], 'cls')
                if c is None:
                    raise Unrecognised(f'class in {src(n)}')
                sub = self.g.sub_table(c)
                return self.ex(n.args[0], env, lambda a: self.bindc(f'isinstance_ {sub} {a}', k))
            if f.id == 'getattr' and plain and len(n.args) == 2:
                s = self.static_attr(n.args[1], 'str')
                if s is None:
                    raise Unrecognised(f'attribute name in {src(n)}')
                return self.ex(n.args[0], env, lambda a: self.bindc(f'get_attr {a} "{s}"', k))
            if f.id in PRIM1 and plain and len(n.args) == 1:
                return self.ex(n.args[0], env, lambda a: self.bindc(f'{PRIM1[f.id]} {a}', k))
            if f.id == 'check_dst_handling' and plain and len(n.args) == 3:
                return self.many(n.args, env, lambda at: self.bindc('check_dst_handling_ ' + ' '.join(at), k))
            if f.id == 'to_enum' and plain and len(n.args) == 2 and src(n.args[0]) in ENUMS:
                return self.ex(n.args[1], env, lambda a: self.bindc(f'{ENUMS[src(n.args[0])]} {a}', k))
            if f.id in self.g.validators() and plain and len(n.args) == 1:
                g = self.g.request(('validator', f.id))
                return self.ex(n.args[0], env, lambda a: self.bindc(f'{g} R {a}', k))
            if f.id in FUNCTIONS:
                g = self.g.request(('func', f.id))
                fn = [x for x in self.g.mods[FUNCTIONS[f.id]].body if isinstance(x, ast.FunctionDef) and x.name == f.id][0]
                args = self.resolve_args(fn, False, n)
                return self.many(args, env, lambda at: self.bindc(f'{g} R' + ''.join(f' {a}' for a in at), k))
            raise Unrecognised(f'call {src(n)}')
        if isinstance(f, ast.Attribute):
            # get_timedelta(x).in_seconds()
            if (f.attr == 'in_seconds' and not n.args and not n.keywords and isinstance(f.value, ast.Call)
                    and src(f.value.func) == 'get_timedelta' and len(f.value.args) == 1 and not f.value.keywords):
                return self.ex(f.value.args[0], env, lambda a: self.bindc(f'get_timedelta_secs_ {a}', k))
            # self.m(...)
            if self.is_self(f.value):
                res = self.g.resolve(self.f.conc, f.attr)
                if res is None:
                    raise Unrecognised(f'{src(n)}: no such method')
                g = self.g.request(('meth', self.f.conc, res[0], f.attr))
                args = self.resolve_args(res[1], True, n)
                return self.many(args, env, lambda at: self.bindc(
                    f'{g} R v_{self.self_name}' + ''.join(f' {a}' for a in at), k))
            # x.m(...)
            if f.attr in DYNAMIC and plain:
                return self.ex(f.value, env, lambda o: self.many(n.args, env, lambda at: self.bindc(
                    f'r_call R "{f.attr}" {o} [' + '; '.join(at) + ']', k)))
        raise Unrecognised(f'call {src(n)}')

    # -- statements -------------------------------------------------------------------------------------
    def block(self, stmts: list[ast.stmt], env: set) -> str:
        if not stmts:
            return 'ret VNone'
        s, rest = stmts[0], stmts[1:]
        if isinstance(s, ast.Expr) and isinstance(s.value, ast.Constant) and isinstance(s.value.value, str):
            return self.block(rest, env)                                   # docstring
        if isinstance(s, ast.Pass):
            return self.block(rest, env)
        if isinstance(s, ast.Expr):
            return self.ex(s.value, env, lambda _a: self.block(rest, env))
        if isinstance(s, ast.Return):
            if s.value is None:
                return 'ret VNone'
            return self.ex(s.value, env, lambda a: f'ret {a}')
        if isinstance(s, ast.Raise):
            if s.cause is not None and not is_none(s.cause):
                raise Unrecognised(f'{src(s)}')
            e = s.exc
            if isinstance(e, ast.Call) and isinstance(e.func, ast.Name) and e.func.id in EXC and not e.keywords:
                return self.many(e.args, env, lambda _at: f'raise_ {EXC[e.func.id]}')
            raise Unrecognised(f'{src(s)}')
        if isinstance(s, (ast.Assign, ast.AnnAssign)):
            if isinstance(s, ast.Assign):
                if len(s.targets) != 1:
                    raise Unrecognised(f'{src(s)}')
                tgt = s.targets[0]
            else:
                tgt = s.target
                if s.value is None:
                    return self.block(rest, env)                           # a bare annotation
            if isinstance(tgt, ast.Name):
                return self.ex(s.value, env, lambda a: f'let v_{tgt.id} := {a} in\n' + self.block(rest, env | {tgt.id}))
            if isinstance(tgt, ast.Attribute):
                if tgt.attr.startswith('__'):
                    raise Unrecognised(f'{src(s)}')
                return self.ex(s.value, env, lambda a: self.ex(tgt.value, env, lambda o: (
                    f'bind (set_attr {o} "{tgt.attr}" {a}) (fun _ =>\n' + self.block(rest, env) + ')')))
            if (isinstance(tgt, ast.Tuple) and len(tgt.elts) == 2 and all(isinstance(e, ast.Name) for e in tgt.elts)
                    and tgt.elts[0].id != tgt.elts[1].id):
                x, y = tgt.elts[0].id, tgt.elts[1].id
                return self.ex(s.value, env, lambda a: f'unpack2 {a} (fun v_{x} v_{y} =>\n'
                               + self.block(rest, env | {x, y}) + ')')
            raise Unrecognised(f'{src(s)}')
        if isinstance(s, ast.If):
            a = self.block(s.body + ([] if exits(s.body) else rest), env)
            b = self.block(s.orelse + ([] if s.orelse and exits(s.orelse) else rest), env)
            return self.ex(s.test, env, lambda c: f'cond {c}\n({a})\n({b})')
        raise Unrecognised(f'statement {src(s)[:60]}')


def indent(text: str) -> str:
    out, depth = [], 0
    for line in text.split('\n'):
        out.append('  ' * min(depth, 20) + line)
        depth += line.count('(') - line.count(')')
    return '\n'.join(out)


def runtime_classes(out: Path) -> list[str] | None:
    rt = out.resolve().parent.parent / 'theories' / 'GenRtTrig.v'
    if not rt.exists():
        return None
    m = re.search(r'Inductive cls :=(.*?)\.\n', rt.read_text(), re.S)
    return re.findall(r'C_(\w+)', m.group(1)) if m else None


def generate(repo: Path, out: Path) -> str:
    rc = runtime_classes(out)
    if rc is not None and rc != CONCRETE:
        raise Unrecognised('the class list differs from GenRtTrig.cls')
    g = Gen(repo)
    for c in CONCRETE:
        g.request(('new', c))
    disp = g.dispatch()
    g.out.append(disp)
    for k, names in ROOTS.items():
        for name in names:
            if k in CONCRETE:
                res = g.resolve(k, name)
                if res is None:
                    raise Unrecognised(f'{k}.{name} is missing')
                g.request(('meth', k, res[0], name))
            else:
                g.request(('static', k, name))
    for (k, alias), target in ALIASES.items():
        ok = any(isinstance(n, ast.Assign) and len(n.targets) == 1 and src(n.targets[0]) == alias
                 and src(n.value) == target for n in g.classes[k].body)
        if not ok or g.own(k, alias) is not None:
            raise Unrecognised(f'{k}.{alias} is no longer `{alias} = {target}`')
        g.out.append(f'Definition g_{k}__{alias} := g_{k}__{target}.')
    text = HEADER + '\nDefinition gen_trig_status_v : gen_trig_status := GenTrigOk.\n\n'
    text += '\n\n'.join(d if d.startswith('Definition sub_') else indent(d) for d in g.out)
    text += '\n\n(* not translated: ' + '; '.join(NOT_TRANSLATED) + ' *)\n'
    return text


def main() -> int:
    repo, out = Path(sys.argv[1]), Path(sys.argv[2])
    try:
        text = generate(repo, out)
    except Exception as e:      # noqa: BLE001   whatever goes wrong, the output must not keep an older translation
        if os.environ.get('GEN_TRIG_DEBUG'):
            raise
        msg = (type(e).__name__ + ': ' if not isinstance(e, Unrecognised) else '') + str(e)
        msg = msg.replace('"', "'").replace('\n', ' ')[:300]
        text = HEADER + f'\nDefinition gen_trig_status_v : gen_trig_status := GenTrigError "{msg}".\n'
        print(f'gen_trig: not recognised: {msg}', file=sys.stderr)
    old = out.read_text() if out.exists() else None
    if old != text:
        out.write_text(text)
    return 0            # fail closed inside Coq: GenTrigEq.v does not compile without the definitions


if __name__ == '__main__':
    sys.exit(main())
