#!/usr/bin/env python3
"""gen_taskmgr.py — fail-closed translator:
   src/eascheduler/task_managers/{base,sequential,parallel}.py  ->  coq/gen/GenTaskMgr.v.

For each of the five concrete manager classes (SequentialTaskManager, LimitingSequentialTaskManager,
SequentialDeduplicatingTaskManager, ParallelTaskManager, LimitingParallelTaskManager) every method that the class
has after method resolution (its own and the inherited ones: create_task, _task_start, _task_done, _get_next_task,
_remove_task) is translated statement by statement into Gallina, in the runtime of coq/theories/GenRtTaskMgr.v
(explicit state = the state of TaskMgr.v plus the table of done-callback registrations, explicit exceptions,
continuation passing for if / try / return / raise, narrowing of Optional values).  A `self.m(...)` call is
resolved along the class's MRO at translation time (virtual dispatch: `_task_done` of the base class calls the
`_get_next_task` of the concrete class), so every concrete class gets its own copy of the inherited methods, in
a Coq module of the class's name.  Per class a dispatcher [run_cb] says what each callback that can be handed to
add_done_callback runs.  coq/theories/GenTaskMgrEq.v proves that the generated create_task computes the model's
[submit m] and the generated callbacks compute the model's [done_cb m] (what TaskMgr.v runs at an [HDone] handle).

The machinery of gen_sched.py is reused by import (Unrecognised, the CPS translation of `if` with a general test,
`try: ... except ValueError: pass`, block sequencing, indent); gen_sched.py itself is unchanged.

The translation is syntax directed over a small vocabulary; anything outside it raises Unrecognised and the
generated file then carries [gen_taskmgr_status_v = GenTaskMgrError "..."] and NO definitions, which makes
GenTaskMgrEq.v fail to compile (fail closed).

TRUSTED (what the translation and GenRtTaskMgr.v assume; nothing below is proved):
  T1  coroutine objects, tasks, task names and de-duplication keys are numbers; `asyncio.create_task(coro, name=n)`
      is the model's [spawn] (task exists, first step scheduled with call_soon) and RETURNS THE COROUTINE'S NUMBER
      (a task is identified with the coroutine it wraps); the task name has no effect;
  T2  `coro.close()` (on a coroutine taken from the queue or the one being submitted) is the model's [close];
  T3  `task.cancel()` executed by manager code is the model's [task_cancel] plus the ghost log entry [mcanc]
      ("cancelled by the manager");
  T4  `task.add_done_callback(cb)` appends (task, cb) to the registration table [regs]; asyncio runs the registered
      callbacks, with the task as the only argument and ignoring what they return, at the task's [HDone] handle -
      that is TaskMgr.run_done, which runs [done_cb m]; cb is one of the bound methods self._task_done,
      self.tasks.discard (self.tasks a set), self._remove_task;
  T5  `self.task` is the model's [running]; `self.queue` ([deque] of (coro, name), or [OrderedDict] key -> (coro, name))
      is the model's [queue]; `self.tasks` ([set] or [deque] of tasks) is the model's [tracked]; which container an
      attribute is, is read from the `X: Final[...] = deque() / OrderedDict() / set()` statement of __init__;
  T6  deque: `append` = ++ [x], `popleft()` = head / tail (IndexError when empty), `pop()` = TaskMgr.unsnoc (IndexError
      when empty), `remove(x)` = Base.remove_first (ValueError when x is absent), `len` = length, truth = non-empty;
  T7  OrderedDict: the model's list holds (coro, key) in insertion order and does not keep the task name, which reads
      back as [noname]; `pop(key, None)` = TaskMgr.take_key, `popitem(last=False)` = head / tail (KeyError when
      empty), `d[key] = v` = GenRtTaskMgr.od_set (an existing key keeps its position, a new key goes to the end);
  T8  set: kept as a list in insertion order; `add` appends unless present, `discard` = Base.remove_first;
  T9  ghost state of the model: entering the public `create_task(coro[, key], name=...)` appends (coro, key) to the
      submission log [subk] (for the managers without a key parameter the logged number is the name: the model's
      [Submit c k] carries one number); putting a coroutine into the queue gives it the phase [Queued];
  T10 `self.max_queue`, `self.parallel`, `self.action` are `Final` attributes assigned once in __init__ from the
      constructor arguments: they are parameters of the generated functions; `to_enum(Policy, action)` yields an enum
      member (policies given as strings are not modelled); POLICY_* module constants and `Policy.MEMBER` denote the
      constructors SSkip SSkipFirst SSkipLast / PSkip PCancelFirst PCancelLast; `is` on enum members, on tasks and on
      None is equality; the guard `if not isinstance(x, int) or x < 1: raise ValueError()` of __init__ is emitted as
      [init_guard] (true = the constructor raises);
  T11 `task.cancelled()` / `task.done()` read the model's phase (Done / Processed, kind DCanc);
  T12 __init__ (beyond T5 / T10), __repr__, __slots__ and type annotations carry no behaviour.

usage: gen_taskmgr.py <repo_root> <out_file>
"""
from __future__ import annotations

import ast
import re
import sys
from pathlib import Path

sys.path.insert(0, str(Path(__file__).resolve().parent))
import gen_sched                                                     # noqa: E402
from gen_sched import Unrecognised, exits, indent, is_none, is_self_attr, src   # noqa: E402

PKG = 'src/eascheduler/task_managers'
FILES = {'base': ['TaskManagerBase'],
         'sequential': ['SequentialTaskPolicy', 'SequentialTaskManagerBase', 'SequentialTaskManager',
                        'LimitingSequentialTaskManager', 'SequentialDeduplicatingTaskManager'],
         'parallel': ['ParallelTaskPolicy', 'ParallelTaskManager', 'LimitingParallelTaskManager']}
CONCRETE = [('sequential', 'SequentialTaskManager'), ('sequential', 'LimitingSequentialTaskManager'),
            ('sequential', 'SequentialDeduplicatingTaskManager'),
            ('parallel', 'ParallelTaskManager'), ('parallel', 'LimitingParallelTaskManager')]
ENUMS = {'SequentialTaskPolicy': ('spol', {'SKIP': 'SSkip', 'SKIP_FIRST': 'SSkipFirst', 'SKIP_LAST': 'SSkipLast'},
                                  {'SKIP': 'skip', 'SKIP_FIRST': 'skip_first', 'SKIP_LAST': 'skip_last'}),
         'ParallelTaskPolicy': ('ppol', {'SKIP': 'PSkip', 'CANCEL_FIRST': 'PCancelFirst', 'CANCEL_LAST': 'PCancelLast'},
                                {'SKIP': 'skip', 'CANCEL_FIRST': 'cancel_first', 'CANCEL_LAST': 'cancel_last'})}
KNOWN_METHODS = {'create_task', '_task_start', '_task_done', '_get_next_task', '_remove_task'}
NOT_TRANSLATED = {'__init__', '__repr__'}

# python annotation (unparsed) -> type of the translation
PARAM_TYPES = {'Coroutine': 'coro', 'str | None': 'name', 'Hashable': 'key', 'Task | None': 'opt:task', 'Task': 'task'}
RET_TYPES = {'Task | None': 'opt:task', 'None | tuple[Coroutine, str | None]': 'opt:entry', 'None': 'unit'}
# attribute name, annotation, initial value -> container kind (T5)
ATTRS = {('task', 'Task | None', 'None'): 'opttask',
         ('queue', 'Final[deque[tuple[Coroutine, str | None]]]', 'deque()'): 'deque_entry',
         ('queue', 'Final[OrderedDict[Hashable, tuple[Coroutine, str | None]]]', 'OrderedDict()'): 'odict',
         ('tasks', 'Final[set[Task]]', 'set()'): 'set_task',
         ('tasks', 'Final[deque[Task]]', 'deque()'): 'deque_task'}
CONFIG_NAT = {'max_queue', 'parallel'}
CBIDS = {'_task_done': 'CbTaskDone', '_remove_task': 'CbRemoveTask'}


def coq_type(t: str) -> str:
    if t.startswith('opt:'):
        return f'option {coq_type(t[4:])}' if ' ' not in coq_type(t[4:]) else f'option ({coq_type(t[4:])})'
    return {'coro': 'nat', 'name': 'nat', 'key': 'nat', 'task': 'nat', 'nat': 'nat', 'entry': 'nat * nat',
            'unit': 'unit', 'spol': 'spol', 'ppol': 'ppol'}[t]


class ClassInfo:
    def __init__(self, name: str, node: ast.ClassDef, module: 'ModuleInfo') -> None:
        self.name, self.node, self.module = name, node, module
        self.methods = {n.name: n for n in node.body if isinstance(n, ast.FunctionDef)}
        self.bases = [src(b) for b in node.bases]


class ModuleInfo:
    """one source file: its classes, enum constants, and what it imports from asyncio"""

    def __init__(self, name: str, path: Path) -> None:
        self.name = name
        tree = ast.parse(path.read_text(encoding='utf-8'), filename=str(path))
        self.classes: dict[str, ClassInfo] = {}
        self.consts: dict[str, tuple[str, str]] = {}          # POLICY_X -> (coq type, constructor)
        self.asyncio_create_task = False
        for n in tree.body:
            if isinstance(n, ast.ImportFrom):
                names = {a.name: a.asname for a in n.names}
                if any(v is not None for v in names.values()):
                    raise Unrecognised(f'{name}: import ... as ...')
                if n.module == 'asyncio' and 'create_task' in names:
                    self.asyncio_create_task = True
                elif 'create_task' in names:
                    raise Unrecognised(f'{name}: create_task imported from {n.module}')
                continue
            if isinstance(n, ast.If) and src(n.test) == 'TYPE_CHECKING' and not n.orelse \
                    and all(isinstance(x, ast.ImportFrom) for x in n.body):
                continue
            if isinstance(n, ast.ClassDef):
                if n.decorator_list or n.keywords:
                    raise Unrecognised(f'{name}: decorated class {n.name}')
                self.classes[n.name] = ClassInfo(n.name, n, self)
                continue
            if isinstance(n, ast.Assign) and len(n.targets) == 1 and isinstance(n.targets[0], ast.Name) \
                    and n.targets[0].id.startswith('POLICY_'):
                v = n.value
                if isinstance(v, ast.Attribute) and isinstance(v.value, ast.Name) and v.value.id in ENUMS \
                        and v.attr in ENUMS[v.value.id][1]:
                    self.consts[n.targets[0].id] = (ENUMS[v.value.id][0], ENUMS[v.value.id][1][v.attr])
                    continue
                raise Unrecognised(f'{name}: constant {src(n)}')
            if isinstance(n, ast.AnnAssign) and isinstance(n.target, ast.Name) and n.target.id.startswith('HINT_') \
                    and src(n.annotation) == 'TypeAlias':
                continue
            raise Unrecognised(f'{name}: module-level statement {src(n)[:60]}')
        if sorted(self.classes) != sorted(FILES[name]):
            raise Unrecognised(f'{name}: classes {sorted(self.classes)}')
        for cname, (_, members, values) in ENUMS.items():
            if cname in self.classes:
                c = self.classes[cname]
                if c.bases != ['str', 'Enum']:
                    raise Unrecognised(f'bases of {cname}')
                got = {}
                for m in c.node.body:
                    if isinstance(m, ast.Assign) and len(m.targets) == 1 and isinstance(m.targets[0], ast.Name) \
                            and isinstance(m.value, ast.Constant):
                        got[m.targets[0].id] = m.value.value
                    else:
                        raise Unrecognised(f'member of {cname}: {src(m)[:60]}')
                if got != values:
                    raise Unrecognised(f'members of {cname}: {got}')


class Ctx(gen_sched.Ctx):
    def __init__(self, tr: 'TMTranslator') -> None:
        super().__init__(tr)
        self.aliases: dict[str, str] = {}          # local name -> attribute whose container object it is
        self.ret = 'unit'                          # return type of the method

    def copy(self) -> 'Ctx':
        c = Ctx(self.tr)
        c.locals = dict(self.locals)
        c.alias = set(self.alias)
        c.aliases = dict(self.aliases)
        c.kx, c.kbreak, c.knext, c.exc_src, c.ret = self.kx, self.kbreak, self.knext, self.exc_src, self.ret
        return c


class TMTranslator(gen_sched.Translator):
    """translator of the methods of ONE concrete class"""

    def __init__(self, cls: ClassInfo, mro: list[ClassInfo], attrs: dict[str, str], config: list[tuple[str, str]]) -> None:
        super().__init__()
        self.cls, self.mro, self.attrs, self.config = cls, mro, attrs, config
        self.calls: dict[str, set[str]] = {}       # call graph among the methods
        self.current = ''
        self.owner = cls                           # the class in which the method being translated is defined
        self.sigs: dict[str, tuple[list[tuple[str, str]], str]] = {}     # method -> ([(param, type)], return type)

    # -- resolution -------------------------------------------------------------------------------------
    def resolve(self, meth: str) -> tuple[ClassInfo, ast.FunctionDef]:
        for c in self.mro:
            if meth in c.methods:
                return c, c.methods[meth]
        raise Unrecognised(f'{self.cls.name} has no method {meth}')

    def cfg_args(self) -> str:
        return ''.join(f' c_{n}' for n, _ in self.config)

    def coq_name(self, meth: str) -> str:
        return meth.lstrip('_')

    def container(self, n: ast.AST, ctx: Ctx) -> str | None:
        """the attribute whose container object n denotes"""
        if is_self_attr(n) and self.attrs.get(n.attr) in ('deque_entry', 'odict', 'set_task', 'deque_task'):
            return n.attr
        if isinstance(n, ast.Name) and n.id in ctx.aliases:
            return ctx.aliases[n.id]
        if isinstance(n, ast.NamedExpr) and isinstance(n.target, ast.Name):
            a = self.container(n.value, ctx)
            if a is not None:
                if n.target.id in ctx.locals:
                    raise Unrecognised(f'{n.target.id} is rebound to a container')
                ctx.aliases[n.target.id] = a
            return a
        return None

    def cont_list(self, attr: str) -> str:
        return '(rt_queue s)' if attr == 'queue' else '(rt_tasks s)'

    def bind(self, ctx: Ctx, name: str, ty: str, narrow: bool = False) -> str:
        if name in ctx.aliases:
            raise Unrecognised(f'{name} (an alias of a container) is rebound')
        if name in ctx.locals and not narrow:
            # a Python local is function-scoped, a Gallina let is not: a rebinding inside a branch would be lost
            raise Unrecognised(f'{name} is assigned twice')
        v = f'v_{name}'
        ctx.locals[name] = (ty, v)
        return v

    # -- expressions ------------------------------------------------------------------------------------
    def expr(self, n: ast.AST, ctx: Ctx) -> tuple[str, str, list]:
        kx = ctx.kx
        if isinstance(n, ast.Name):
            if n.id in ctx.locals:
                t, c = ctx.locals[n.id]
                return t, c, []
            if n.id in self.owner.module.consts:       # a global of the module in which the method is defined
                t, k = self.owner.module.consts[n.id]
                return t, k, []
            raise Unrecognised(f'name {n.id}')
        if is_none(n):
            return 'none', 'None', []
        if isinstance(n, ast.Constant) and isinstance(n.value, int) and not isinstance(n.value, bool) and n.value >= 0:
            return 'nat', str(n.value), []
        if isinstance(n, ast.NamedExpr) and isinstance(n.target, ast.Name):
            if self.container(n.value, ctx) is not None:
                raise Unrecognised(f'container alias used as a value: {src(n)}')
            t, c, pre = self.expr(n.value, ctx)
            if t == 'none':
                raise Unrecognised(f'walrus of None: {src(n)}')
            v = self.bind(ctx, n.target.id, t)
            return t, v, pre + [lambda body, v=v, c=c: f'let {v} := {c} in\n{body}']
        if is_self_attr(n):
            kind = self.attrs.get(n.attr)
            if kind == 'opttask':
                return 'opt:task', '(rt_task s)', []
            if kind in ('nat', 'spol', 'ppol'):
                return kind, f'c_{n.attr}', []
            raise Unrecognised(f'attribute {src(n)} as a value')
        if isinstance(n, ast.Attribute) and isinstance(n.value, ast.Name) and n.value.id in ENUMS \
                and n.attr in ENUMS[n.value.id][1]:
            return ENUMS[n.value.id][0], ENUMS[n.value.id][1][n.attr], []
        if isinstance(n, ast.Tuple) and len(n.elts) == 2:
            ta, ca, pa = self.expr(n.elts[0], ctx)
            tb, cb, pb = self.expr(n.elts[1], ctx)
            if ta == 'coro' and tb == 'name' and not pa and not pb:
                return 'entry', f'({ca}, {cb})', []
            raise Unrecognised(f'tuple {src(n)}')
        if isinstance(n, ast.Subscript) and isinstance(n.slice, ast.Constant) and n.slice.value in (0, 1) \
                and not isinstance(n.slice.value, bool):
            t, c, pre = self.expr(n.value, ctx)
            i = n.slice.value
            if t == 'entry':
                return ('coro', f'(fst {c})', pre) if i == 0 else ('name', f'(snd {c})', pre)
            if t == 'oditem':
                return ('key', f'(fst {c})', pre) if i == 0 else ('entry', f'(snd {c})', pre)
            raise Unrecognised(f'subscript of a {t}: {src(n)}')
        if isinstance(n, ast.Call):
            return self.call_expr(n, ctx)
        raise Unrecognised(f'expression {src(n)}')

    def call_expr(self, n: ast.Call, ctx: Ctx) -> tuple[str, str, list]:
        f, kx = n.func, ctx.kx
        # asyncio.create_task(coro, name=name)                                                        (T1)
        if isinstance(f, ast.Name) and f.id == 'create_task':
            if not self.owner.module.asyncio_create_task:
                raise Unrecognised('create_task is not asyncio.create_task')
            if len(n.args) == 1 and len(n.keywords) == 1 and n.keywords[0].arg == 'name':
                t, c, pre = self.expr(n.args[0], ctx)
                tn, _, pn = self.expr(n.keywords[0].value, ctx)
                if t == 'coro' and tn == 'name' and not pn:
                    return 'task', c, pre + [lambda body, c=c: f'let s := rt_spawn {c} s in\n{body}']
            raise Unrecognised(f'call {src(n)}')
        if isinstance(f, ast.Name) and f.id == 'len' and len(n.args) == 1 and not n.keywords:
            a = self.container(n.args[0], ctx)
            if a is not None:
                return 'nat', f'(List.length {self.cont_list(a)})', []
            raise Unrecognised(f'len of {src(n.args[0])}')
        # self.<method>(...)
        if is_self_attr(f):
            return self.method_call(f.attr, n, ctx)
        if isinstance(f, ast.Attribute):
            a = self.container(f.value, ctx)
            meth = f.attr
            if a is not None:
                kind = self.attrs[a]
                setter = 'rt_set_queue' if a == 'queue' else 'rt_set_tasks'
                elem = 'entry' if a == 'queue' else 'task'
                if meth == 'popleft' and not n.args and not n.keywords and kind in ('deque_entry', 'deque_task'):
                    h, q = self.fresh('h'), self.fresh('q')
                    return elem, h, [lambda body, h=h, q=q, L=self.cont_list(a): (
                        f'match {L} with\n| [] => {kx} s XIndex\n| {h} :: {q} =>\nlet s := {setter} {q} s in\n{body}\nend')]
                if meth == 'pop' and not n.args and not n.keywords and kind in ('deque_entry', 'deque_task'):
                    h, q = self.fresh('h'), self.fresh('q')
                    return elem, h, [lambda body, h=h, q=q, L=self.cont_list(a): (
                        f'match unsnoc {L} with\n| None => {kx} s XIndex\n| Some ({q}, {h}) =>\nlet s := {setter} {q} s in\n{body}\nend')]
                if meth == 'pop' and kind == 'odict' and len(n.args) == 2 and is_none(n.args[1]) and not n.keywords:
                    t, c, pre = self.expr(n.args[0], ctx)
                    if t == 'key' and not pre:
                        o = self.fresh('o')
                        return 'opt:entry', o, [lambda body, o=o, c=c: (
                            f'match rt_od_pop {c} s with\n| (s, {o}) =>\n{body}\nend')]
                if meth == 'popitem' and kind == 'odict' and not n.args and len(n.keywords) == 1 \
                        and n.keywords[0].arg == 'last' and isinstance(n.keywords[0].value, ast.Constant) \
                        and n.keywords[0].value.value is False:
                    h, q = self.fresh('h'), self.fresh('q')
                    return 'oditem', f'(od_item {h})', [lambda body, h=h, q=q: (
                        f'match (rt_queue s) with\n| [] => {kx} s XKey\n| {h} :: {q} =>\nlet s := rt_set_queue {q} s in\n{body}\nend')]
            raise Unrecognised(f'call {src(n)}')
        raise Unrecognised(f'call {src(n)}')

    def method_call(self, meth: str, n: ast.Call, ctx: Ctx) -> tuple[str, str, list]:
        if meth not in KNOWN_METHODS or meth == 'create_task':
            raise Unrecognised(f'call of self.{meth}')
        _, fn = self.resolve(meth)
        params, ret = self.signature(fn)
        if n.keywords or len(n.args) != len(params):
            raise Unrecognised(f'arguments of {src(n)}')
        args, pre = [], []
        for a, (_, pt) in zip(n.args, params):
            t, c, p = self.expr(a, ctx)
            if p:
                raise Unrecognised(f'argument with an effect: {src(a)}')
            args.append(self.coerce(t, c, pt, src(a)))
        self.calls.setdefault(self.current, set()).add(meth)
        v, e = self.fresh('r'), self.fresh('e')
        callee = ' '.join([self.coq_name(meth) + self.cfg_args()] + args + ['s'])
        return ret, v, [lambda body, v=v, e=e, kx=ctx.kx: (
            f'match {callee} with\n| (s, Ret {v}) =>\n{body}\n| (s, Exc {e}) => {kx} s {e}\nend')]

    def coerce(self, t: str, c: str, want: str, what: str) -> str:
        if t == want:
            return c
        if want.startswith('opt:') and t == want[4:]:
            return f'(Some {c})'
        if want.startswith('opt:') and t == 'none':
            return 'None'
        if want == 'unit' and t == 'none':
            return 'tt'
        raise Unrecognised(f'{what}: a {t} where a {want} is expected')

    # -- conditions -------------------------------------------------------------------------------------
    def test(self, n: ast.AST, ctx: Ctx) -> tuple[str, list]:
        if isinstance(n, ast.UnaryOp) and isinstance(n.op, ast.Not):
            c, pre = self.test(n.operand, ctx)
            return (c[5:] if c.startswith('negb ') else f'negb {c}'), pre
        if isinstance(n, ast.BoolOp):
            parts, pre = [], []
            for v in n.values:
                c, p = self.test(v, ctx)
                if p and parts:
                    raise Unrecognised(f'effect after a short-circuit operator: {src(n)}')
                parts.append(c)
                pre += p
            return '(' + (' || ' if isinstance(n.op, ast.Or) else ' && ').join(parts) + ')', pre
        a = self.container(n, ctx)
        if a is not None:
            return f'negb (is_nil {self.cont_list(a)})', []
        if isinstance(n, ast.Call) and isinstance(n.func, ast.Attribute) and n.func.attr in ('cancelled', 'done') \
                and not n.args and not n.keywords:
            t, c, pre = self.expr(n.func.value, ctx)
            if t == 'task':
                return f'rt_{n.func.attr} {c} s', pre
            raise Unrecognised(f'{n.func.attr}() of a {t}')
        if isinstance(n, ast.Compare) and len(n.ops) == 1:
            op = n.ops[0]
            ta, ca, pa = self.expr(n.left, ctx)
            tb, cb, pb = self.expr(n.comparators[0], ctx)
            pre = pa + pb
            if pb and re.search(r'\bs\b', ca):
                raise Unrecognised(f'the left operand reads the state before an effect of the right one: {src(n)}')
            if isinstance(op, (ast.Is, ast.IsNot)):
                neg = 'negb ' if isinstance(op, ast.IsNot) else ''
                if ta == tb and ta in ('spol', 'ppol'):
                    return f'{neg}({ta}_eqb {ca} {cb})', pre
                tasky = {'task', 'opt:task', 'none'}
                if ta in tasky and tb in tasky and (ta, tb) != ('none', 'none'):
                    return (f'{neg}(opt_eqb Nat.eqb {self.coerce(ta, ca, "opt:task", src(n))} '
                            f'{self.coerce(tb, cb, "opt:task", src(n))})'), pre
            if ta == 'nat' and tb == 'nat':
                if isinstance(op, ast.GtE):
                    return f'({cb} <=? {ca})', pre
                if isinstance(op, ast.Gt):
                    return f'({cb} <? {ca})', pre
                if isinstance(op, ast.LtE):
                    return f'({ca} <=? {cb})', pre
                if isinstance(op, ast.Lt):
                    return f'({ca} <? {cb})', pre
                if isinstance(op, ast.Eq):
                    return f'(Nat.eqb {ca} {cb})', pre
                if isinstance(op, ast.NotEq):
                    return f'negb (Nat.eqb {ca} {cb})', pre
        raise Unrecognised(f'condition {src(n)}')

    # -- statements -------------------------------------------------------------------------------------
    def block(self, stmts: list[ast.stmt], ctx: Ctx, k: str) -> str:
        if not stmts:
            return k
        st, rest = stmts[0], stmts[1:]
        if isinstance(st, ast.Return):
            if st.value is None:
                return f'kret s {self.coerce("none", "None", ctx.ret, "return")}'
            t, c, pre = self.expr(st.value, ctx)
            return self.wrap(pre, f'kret s {self.coerce(t, c, ctx.ret, src(st))}')
        if isinstance(st, ast.Raise):
            if isinstance(st.exc, ast.Call) and isinstance(st.exc.func, ast.Name) and not st.exc.args \
                    and not st.exc.keywords and st.cause is None:
                x = {'ValueError': 'XValue', 'NotImplementedError': 'XNotImplemented'}.get(st.exc.func.id)
                if x:
                    return f'{ctx.kx} s {x}'
            raise Unrecognised(f'raise {src(st)}')
        if isinstance(st, ast.Assign):
            return self.assign_multi(st.targets, st.value, ctx, lambda: self.block(rest, ctx, k))
        if isinstance(st, ast.AnnAssign) and st.value is not None and isinstance(st.target, ast.Name):
            return self.assign_multi([st.target], st.value, ctx, lambda: self.block(rest, ctx, k))
        if isinstance(st, (ast.While, ast.For, ast.Break, ast.Continue)):
            raise Unrecognised('loops')
        return super().block(stmts, ctx, k)          # docstring / pass / call statement / if / try

    def assign_multi(self, targets: list[ast.AST], value: ast.AST, ctx: Ctx, cont) -> str:
        a = self.container(value, ctx)
        if a is not None:                             # queue = self.queue
            for t in targets:
                if not isinstance(t, ast.Name) or t.id in ctx.locals:
                    raise Unrecognised(f'assignment {src(t)} = {src(value)}')
                ctx.aliases[t.id] = a
            return cont()
        ty, c, pre = self.expr(value, ctx)
        lets = []
        for t in targets:
            if isinstance(t, ast.Name):
                if ty == 'none':
                    raise Unrecognised(f'{t.id} = None')
                lets.append(f'let {self.bind(ctx, t.id, ty)} := {c} in')
            elif is_self_attr(t) and self.attrs.get(t.attr) == 'opttask':
                lets.append(f'let s := rt_set_task {self.coerce(ty, c, "opt:task", src(t))} s in')
            elif isinstance(t, ast.Tuple) and len(t.elts) == 2 and all(isinstance(e, ast.Name) for e in t.elts) \
                    and ty == 'entry':
                va, vb = self.bind(ctx, t.elts[0].id, 'coro'), self.bind(ctx, t.elts[1].id, 'name')
                lets.append(f"let '({va}, {vb}) := {c} in")
            elif isinstance(t, ast.Subscript) and self.container(t.value, ctx) is not None \
                    and self.attrs[self.container(t.value, ctx)] == 'odict' and ty == 'entry':
                tk, ck, pk = self.expr(t.slice, ctx)
                if tk != 'key' or pk:
                    raise Unrecognised(f'subscript {src(t)}')
                lets.append(f'let s := rt_od_set {ck} {c} s in')
            else:
                raise Unrecognised(f'assignment {src(t)} = {src(value)}')
        return self.wrap(pre, '\n'.join(lets) + '\n' + cont())

    def assign(self, target, value, ctx, cont):         # reached from gen_sched.block for AnnAssign on attributes
        raise Unrecognised(f'assignment {src(target)} = {src(value)}')

    def call_stmt(self, c: ast.Call, ctx: Ctx, cont) -> str:
        f = c.func
        if is_self_attr(f):                            # self.m(...) for its effect
            _, _, pre = self.method_call(f.attr, c, ctx)
            return self.wrap(pre, cont())
        if isinstance(f, ast.Attribute) and not c.keywords:
            a = self.container(f.value, ctx)
            if a is not None and len(c.args) == 1:
                kind = self.attrs[a]
                t, ca, pre = self.expr(c.args[0], ctx)
                if pre:
                    raise Unrecognised(f'argument with an effect: {src(c)}')
                if f.attr == 'append' and kind == 'deque_entry' and t == 'entry':
                    return f'let s := rt_queue_append {ca} s in\n{cont()}'
                if f.attr == 'append' and kind == 'deque_task' and t == 'task':
                    return f'let s := rt_tasks_append {ca} s in\n{cont()}'
                if f.attr == 'add' and kind == 'set_task' and t == 'task':
                    return f'let s := rt_tasks_add {ca} s in\n{cont()}'
                if f.attr == 'discard' and kind == 'set_task' and t == 'task':
                    return f'let s := rt_tasks_discard {ca} s in\n{cont()}'
                if f.attr == 'remove' and kind == 'deque_task' and t == 'task':
                    return (f'if memb {ca} (rt_tasks s) then\nlet s := rt_set_tasks (remove_first {ca} (rt_tasks s)) s in\n'
                            f'{cont()}\nelse {ctx.kx} s XValue')
                raise Unrecognised(f'call {src(c)}')
            if a is None and f.attr in ('close', 'cancel') and not c.args:
                t, cv, pre = self.expr(f.value, ctx)
                if f.attr == 'close' and t == 'coro':
                    return self.wrap(pre, f'let s := rt_close {cv} s in\n{cont()}')
                if f.attr == 'cancel' and t == 'task':
                    return self.wrap(pre, f'let s := rt_cancel {cv} s in\n{cont()}')
                raise Unrecognised(f'{f.attr}() of a {t}: {src(c)}')
            if a is None and f.attr == 'add_done_callback' and len(c.args) == 1:
                t, cv, pre = self.expr(f.value, ctx)
                if t == 'task' and not pre:
                    return f'let s := rt_add_done_callback {cv} {self.callback(c.args[0], ctx)} s in\n{cont()}'
        raise Unrecognised(f'call {src(c)}')

    def callback(self, n: ast.AST, ctx: Ctx) -> str:                                                    # (T4)
        if is_self_attr(n) and n.attr in CBIDS:
            self.resolve(n.attr)
            return CBIDS[n.attr]
        if isinstance(n, ast.Attribute) and n.attr == 'discard' and is_self_attr(n.value) \
                and self.attrs.get(n.value.attr) == 'set_task':
            return 'CbTasksDiscard'
        raise Unrecognised(f'callback {src(n)}')

    def if_stmt(self, st: ast.If, rest: list[ast.stmt], ctx: Ctx, k: str) -> str:
        t = st.test
        if isinstance(t, ast.Compare) and len(t.ops) == 1 and is_none(t.comparators[0]) \
                and isinstance(t.ops[0], (ast.Is, ast.IsNot)):
            # None tests with narrowing:  if [(x :=] E [)] is [not] None
            lhs, name = t.left, None
            if isinstance(lhs, ast.NamedExpr) and isinstance(lhs.target, ast.Name):
                name, lhs = lhs.target.id, lhs.value
                if name in ctx.locals:
                    raise Unrecognised(f'{name} is assigned twice')
            elif isinstance(lhs, ast.Name) and lhs.id in ctx.locals:
                name = lhs.id
            ty, c, pre = self.expr(lhs, ctx)
            if not ty.startswith('opt:'):
                raise Unrecognised(f'None test on a {ty}: {src(t)}')
            if st.orelse:
                raise Unrecognised('None test with an else branch')
            cs, cn = ctx.copy(), ctx.copy()           # where the value is there / is None
            pat = '_'
            if name is not None:
                pat = self.bind(cs, name, ty[4:], narrow=True)
                cn.locals.pop(name, None)             # known to be None: not usable as a value
            is_not = isinstance(t.ops[0], ast.IsNot)
            body_ctx, rest_ctx = (cs, cn) if is_not else (cn, cs)
            if exits(st.body):
                body = self.block(st.body, body_ctx, k)
                after = self.block(rest, rest_ctx, k)
                some, none = (body, after) if is_not else (after, body)
                return self.wrap(pre, f'match {c} with\n| Some {pat} =>\n{some}\n| None =>\n{none}\nend')
            # the body falls through: what follows sees the un-narrowed value
            kn = self.fresh('k')
            c0 = ctx.copy()
            if isinstance(t.left, ast.NamedExpr):
                self.bind(c0, name, ty)
                bound = f'let v_{name} := {c} in\n'
                c = f'v_{name}'
            else:
                bound = ''
            after = self.block(rest, c0, k)
            body = self.block(st.body, body_ctx, f'{kn} s')
            some, none = (body, f'{kn} s') if is_not else (f'{kn} s', body)
            return self.wrap(pre, f'{bound}let {kn} := fun s : st =>\n{after}\nin\n'
                                  f'match {c} with\n| Some {pat} =>\n{some}\n| None =>\n{none}\nend')
        return super().if_stmt(st, rest, ctx, k)

    def while_stmt(self, st, ctx, cont):
        raise Unrecognised('loops')

    # -- methods ----------------------------------------------------------------------------------------
    def signature(self, fn: ast.FunctionDef) -> tuple[list[tuple[str, str]], str]:
        a = fn.args
        if a.vararg or a.kwarg or a.posonlyargs or a.defaults or not a.args or a.args[0].arg != 'self':
            raise Unrecognised(f'signature of {fn.name}')
        if any(d is None or not is_none(d) for d in a.kw_defaults):
            raise Unrecognised(f'keyword defaults of {fn.name}')
        params = []
        for p in a.args[1:] + a.kwonlyargs:
            ty = PARAM_TYPES.get(src(p.annotation)) if p.annotation is not None else None
            if ty is None:
                raise Unrecognised(f'parameter {p.arg} of {fn.name}')
            params.append((p.arg, ty))
        ret = RET_TYPES.get(src(fn.returns)) if fn.returns is not None else None
        if ret is None:
            raise Unrecognised(f'return annotation of {fn.name}')
        if [src(d) for d in fn.decorator_list] not in ([], ['override']):
            raise Unrecognised(f'decorators of {fn.name}')
        return params, ret

    def cfg_sig(self) -> str:
        return ''.join(f' (c_{n} : {t})' for n, t in self.config)

    def method(self, meth: str) -> str:
        owner, fn = self.resolve(meth)
        params, ret = self.signature(fn)
        self.current, self.owner = meth, owner
        self.calls.setdefault(meth, set())
        ctx = Ctx(self)
        ctx.ret = ret
        sig = []
        for p, ty in params:
            ctx.locals[p] = (ty, f'v_{p}')
            sig.append(f' (v_{p} : {coq_type(ty)})')
        enter = ''
        if meth == 'create_task':                     # (T9) the ghost submission log
            names = [p for p, _ in params]
            if names == ['coro', 'name']:
                enter = 'let s := rt_enter_create_task v_coro v_name s in\n'
            elif names == ['coro', 'key', 'name']:
                enter = 'let s := rt_enter_create_task v_coro v_key s in\n'
            else:
                raise Unrecognised(f'parameters of create_task: {names}')
        body = self.block(fn.body, ctx, f'kret s {self.coerce("none", "None", ret, "end of " + meth)}')
        rt = coq_type(ret)
        rt = f'({rt})' if ' ' in rt else rt
        return (f'(* {owner.name}.{meth} *)\n'
                f'Definition {self.coq_name(meth)}{self.cfg_sig()}{"".join(sig)} (s : st) : M {rt} :=\n'
                f'let kret := fun (s : st) (v : {coq_type(ret)}) => (s, Ret v) in\n'
                f'let kx := fun (s : st) (e : gexn) => (s, @Exc {rt} e) in\n{enter}{body}.\n')

    def run_cb(self, have: set[str]) -> str:
        lines = [f'Definition run_cb{self.cfg_sig()} (cb : cbid) (v_task : nat) (s : st) : M unit :=', 'match cb with']
        for meth, cb in CBIDS.items():
            if meth in have:
                params, _ = self.signature(self.resolve(meth)[1])
                if len(params) != 1:
                    raise Unrecognised(f'{meth} as a done-callback takes {len(params)} arguments')
                arg = self.coerce('task', 'v_task', params[0][1], meth)
                lines.append(f'| {cb} => ignore_ret ({self.coq_name(meth)}{self.cfg_args()} {arg} s)')
            else:
                lines.append(f'| {cb} => (s, Exc XAttribute)')
        if self.attrs.get('tasks') == 'set_task':
            lines.append('| CbTasksDiscard => (rt_tasks_discard v_task s, Ret tt)')
        else:
            lines.append('| CbTasksDiscard => (s, Exc XAttribute)')
        lines.append('end.')
        return '\n'.join(lines) + '\n'


def init_info(mro: list[ClassInfo]) -> tuple[dict[str, str], list[tuple[str, str]], list[str]]:
    """walk the __init__ chain: attribute kinds (T5), config parameters in constructor order and guards (T10)"""
    attrs: dict[str, str] = {}
    config: list[tuple[str, str]] = []
    guards: list[str] = []

    def walk(i: int) -> None:
        while i < len(mro) and '__init__' not in mro[i].methods:
            i += 1
        if i == len(mro):
            return                                    # object.__init__
        c = mro[i]
        fn = c.methods['__init__']
        a = fn.args
        if a.vararg or a.kwarg or a.kwonlyargs or a.posonlyargs or a.args[0].arg != 'self':
            raise Unrecognised(f'signature of {c.name}.__init__')
        params = [p.arg for p in a.args[1:]]
        for st in fn.body:
            if isinstance(st, ast.Expr) and isinstance(st.value, ast.Constant):
                continue
            if isinstance(st, ast.Expr) and src(st.value) == 'super().__init__()':
                walk(i + 1)
                continue
            if isinstance(st, ast.If) and not st.orelse and len(st.body) == 1 and src(st.body[0]) == 'raise ValueError()':
                for p in params:
                    if src(st.test) == f'not isinstance({p}, int) or {p} < 1' and p in CONFIG_NAT:
                        guards.append(f'(c_{p} <? 1)')
                        break
                else:
                    raise Unrecognised(f'guard of {c.name}.__init__: {src(st.test)}')
                continue
            if isinstance(st, ast.AnnAssign) and is_self_attr(st.target) and st.value is not None:
                attr, ann, val = st.target.attr, src(st.annotation), src(st.value)
                if attr in attrs:
                    raise Unrecognised(f'{attr} is assigned twice in the __init__ chain of {mro[0].name}')
                if (attr, ann, val) in ATTRS:
                    attrs[attr] = ATTRS[(attr, ann, val)]
                    continue
                if attr in CONFIG_NAT and ann == 'Final' and val == attr and attr in params:
                    attrs[attr] = 'nat'
                    config.append((attr, 'nat'))
                    continue
                if attr == 'action' and attr in params and ann.startswith('Final[') and ann[6:-1] in ENUMS \
                        and val == f'to_enum({ann[6:-1]}, action)':
                    attrs[attr] = ENUMS[ann[6:-1]][0]
                    config.append((attr, attrs[attr]))
                    continue
            raise Unrecognised(f'{c.name}.__init__: {src(st)[:70]}')
        if [n for n, _ in config if n in params] != [p for p in params]:
            raise Unrecognised(f'{c.name}.__init__: constructor arguments {params} vs attributes {config}')

    walk(0)
    return attrs, config, guards


def translate_class(cls: ClassInfo, classes: dict[str, ClassInfo]) -> str:
    mro, c = [], cls
    while True:
        mro.append(c)
        if len(c.bases) == 0:
            break
        if len(c.bases) != 1 or c.bases[0] not in classes:
            raise Unrecognised(f'bases of {c.name}: {c.bases}')
        c = classes[c.bases[0]]
    for c in mro:
        for n in c.node.body:
            if isinstance(n, ast.FunctionDef):
                if n.name not in KNOWN_METHODS | NOT_TRANSLATED:
                    raise Unrecognised(f'{c.name} has a method this translator does not know: {n.name}')
            elif isinstance(n, ast.Assign) and src(n.targets[0]) == '__slots__':
                continue
            elif isinstance(n, ast.Expr) and isinstance(n.value, ast.Constant):
                continue
            else:
                raise Unrecognised(f'member of {c.name}: {src(n)[:60]}')
    attrs, config, guards = init_info(mro)
    tr = TMTranslator(cls, mro, attrs, config)
    have = {m for c in mro for m in c.methods if m in KNOWN_METHODS}
    if 'create_task' not in have:
        raise Unrecognised(f'{cls.name} has no create_task')
    defs = {m: tr.method(m) for m in sorted(have)}
    # definitions in call order; recursion is outside the vocabulary
    order, state = [], {}

    def visit(m: str) -> None:
        if state.get(m) == 1:
            raise Unrecognised(f'recursion through {m} in {cls.name}')
        if state.get(m) == 2:
            return
        state[m] = 1
        for d in sorted(tr.calls.get(m, ())):
            visit(d)
        state[m] = 2
        order.append(m)

    for m in sorted(have):
        visit(m)
    guard = ' || '.join(guards) if guards else 'false'
    text = f'Module {cls.name}.\n\n'
    text += f'Definition init_guard{tr.cfg_sig()} : bool := {guard}.\n\n'
    text += '\n'.join(indent(defs[m]) + '\n' for m in order)
    text += '\n' + indent(tr.run_cb(have)) + '\n'
    text += f'\nEnd {cls.name}.\n'
    return text


HEADER = '''(* GenTaskMgr.v — WRITTEN BY tools/gen_taskmgr.py FROM /repo/src/eascheduler/task_managers/*.py ON EVERY RUN.
   Do not edit.  See coq/theories/GenRtTaskMgr.v for the runtime and coq/theories/GenTaskMgrEq.v for the proofs. *)
From EAS Require Import Base TaskMgr GenRtTaskMgr.
From Coq Require Import String.
Open Scope nat_scope.

Inductive gen_taskmgr_status := GenTaskMgrOk | GenTaskMgrError (what : string).
'''


def generate(repo: Path) -> str:
    mods = {name: ModuleInfo(name, repo / PKG / f'{name}.py') for name in FILES}
    classes: dict[str, ClassInfo] = {}
    for m in mods.values():
        classes.update(m.classes)
    text = HEADER + '\nDefinition gen_taskmgr_status_v : gen_taskmgr_status := GenTaskMgrOk.\n\n'
    for mod, cname in CONCRETE:
        text += translate_class(mods[mod].classes[cname], classes) + '\n'
    text += f'(* not translated: {", ".join(sorted(NOT_TRANSLATED))} (beyond the attribute declarations and guards) *)\n'
    return text


def main() -> int:
    repo, out = Path(sys.argv[1]), Path(sys.argv[2])
    try:
        text = generate(repo)
    except (Unrecognised, OSError, SyntaxError, KeyError, IndexError, AttributeError, TypeError) as e:
        msg = (type(e).__name__ + ': ' + str(e)).replace('"', "'").replace('\n', ' ')[:300]
        text = HEADER + f'\nDefinition gen_taskmgr_status_v : gen_taskmgr_status := GenTaskMgrError "{msg}".\n'
        print(f'gen_taskmgr: not recognised: {msg}', file=sys.stderr)
        # fail closed inside Coq: GenTaskMgrEq.v does not compile without the definitions
    old = out.read_text() if out.exists() else None
    if old != text:
        out.write_text(text)
    return 0


if __name__ == '__main__':
    sys.exit(main())
