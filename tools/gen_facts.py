#!/usr/bin/env python3
"""gen_facts.py — fail-closed translator from /repo's source to coq/gen/Generated.v.

Reads src/eascheduler/**.py with `ast` and emits
  * the numeric constants the model is parameterised by (taken from named anchor sites), and
  * the loop / recursion skeleton of every function reachable from a get_next (kind of each loop,
    on which expressions get_next is called).
Anything it does not recognise is emitted as [gen_error "<site>"], which makes the `reflexivity`
obligations of ProdTerm.v / the constant lemmas fail (fail closed).

usage: gen_facts.py <repo_root> <out_file>
"""
from __future__ import annotations

import ast
import sys
from pathlib import Path


class Unrecognised(Exception):
    pass


def parse(path: Path) -> ast.Module:
    return ast.parse(path.read_text(encoding='utf-8'), filename=str(path))


def find_func(mod: ast.AST, name: str, cls: str | None = None) -> ast.FunctionDef:
    scope = mod
    if cls is not None:
        for n in ast.walk(mod):
            if isinstance(n, ast.ClassDef) and n.name == cls:
                scope = n
                break
        else:
            raise Unrecognised(f'class {cls}')
    for n in ast.walk(scope):
        if isinstance(n, (ast.FunctionDef, ast.AsyncFunctionDef)) and n.name == name:
            return n
    raise Unrecognised(f'function {cls}.{name}')


def const_num(node: ast.AST):
    if isinstance(node, ast.Constant) and isinstance(node.value, (int, float)) and not isinstance(node.value, bool):
        return node.value
    if isinstance(node, ast.UnaryOp) and isinstance(node.op, ast.USub):
        v = const_num(node.operand)
        return -v
    raise Unrecognised(ast.dump(node))


def call_name(node: ast.AST) -> str:
    if isinstance(node, ast.Call):
        f = node.func
        if isinstance(f, ast.Name):
            return f.id
        if isinstance(f, ast.Attribute):
            return f.attr
    return ''


# --------------------------------------------------------------------------------------------------
# constants
def c_loop_bound(src: Path) -> int:
    """`yield from range(1, N)` in producers/base.py:not_infinite_loop -> N - 1 rounds"""
    fn = find_func(parse(src / 'producers/base.py'), 'not_infinite_loop')
    for n in ast.walk(fn):
        if isinstance(n, ast.YieldFrom) and call_name(n.value) == 'range':
            args = n.value.args
            if len(args) == 2:
                lo, hi = const_num(args[0]), const_num(args[1])
                if isinstance(lo, int) and isinstance(hi, int) and hi > lo:
                    # the generator must raise afterwards
                    if any(isinstance(m, ast.Raise) for m in ast.walk(fn)):
                        return hi - lo
    raise Unrecognised('not_infinite_loop')


def c_past_tolerance_ns(src: Path) -> int:
    """`next_run < Instant.now().subtract(milliseconds=M)` in JobBase.set_next_run"""
    fn = find_func(parse(src / 'jobs/base.py'), 'set_next_run', 'JobBase')
    found = []
    for n in ast.walk(fn):
        if isinstance(n, ast.Compare) and len(n.ops) == 1 and isinstance(n.ops[0], ast.Lt):
            rhs = n.comparators[0]
            if call_name(rhs) == 'subtract' and isinstance(n.left, ast.Name) and n.left.id == 'next_run':
                inner = rhs.func.value
                if call_name(inner) != 'now':
                    raise Unrecognised('set_next_run: not Instant.now()')
                unit = {'milliseconds': 10**6, 'seconds': 10**9, 'microseconds': 10**3, 'nanoseconds': 1,
                        'minutes': 60 * 10**9, 'hours': 3600 * 10**9}
                total = 0
                if rhs.args:
                    raise Unrecognised('set_next_run: positional args')
                for kw in rhs.keywords:
                    if kw.arg not in unit:
                        raise Unrecognised(f'set_next_run unit {kw.arg}')
                    v = const_num(kw.value)
                    if not isinstance(v, int):
                        raise Unrecognised('set_next_run non-int tolerance')
                    total += v * unit[kw.arg]
                found.append(total)
    if len(found) != 1:
        raise Unrecognised('set_next_run tolerance site')
    return found[0]


def c_after_search(src: Path) -> int:
    """`for _ in range(N)` in helpers/time_replace.py:find_time_after_dst_switch"""
    fn = find_func(parse(src / 'helpers/time_replace.py'), 'find_time_after_dst_switch')
    for n in ast.walk(fn):
        if isinstance(n, ast.For) and call_name(n.iter) == 'range' and len(n.iter.args) == 1:
            v = const_num(n.iter.args[0])
            if isinstance(v, int) and v > 0:
                return v
    raise Unrecognised('find_time_after_dst_switch range')


def c_sun(src: Path) -> tuple[int, int, int]:
    fn = find_func(parse(src / 'producers/prod_sun.py'), '_get_next_sun', 'SunProducer')
    tries = cache = evict = None
    for n in ast.walk(fn):
        if isinstance(n, ast.Assign) and len(n.targets) == 1 and isinstance(n.targets[0], ast.Name) \
                and n.targets[0].id == 'tries':
            tries = const_num(n.value)
        if isinstance(n, ast.If) and isinstance(n.test, ast.Compare) and call_name(n.test.left) == 'len' \
                and isinstance(n.test.ops[0], ast.GtE):
            cache = const_num(n.test.comparators[0])
            for m in ast.walk(n):
                if isinstance(m, ast.For) and call_name(m.iter) == 'range':
                    evict = const_num(m.iter.args[0])
    if not all(isinstance(v, int) and v > 0 for v in (tries, cache, evict)):
        raise Unrecognised('_get_next_sun constants')
    return tries, cache, evict


def c_jitter_eps(src: Path) -> float:
    fn = find_func(parse(src / 'producers/prod_operation.py'), 'apply_operation', 'JitterProducerOperation')
    for n in ast.walk(fn):
        if isinstance(n, ast.Assign) and len(n.targets) == 1 and isinstance(n.targets[0], ast.Name) \
                and n.targets[0].id == 'diff':
            v = n.value
            if isinstance(v, ast.BinOp) and isinstance(v.op, ast.Add):
                return const_num(v.right)
    raise Unrecognised('jitter epsilon')


# --------------------------------------------------------------------------------------------------
# loop skeleton
LOOP_FILES = [
    'producers/base.py', 'producers/prod_time.py', 'producers/prod_interval.py', 'producers/prod_group.py',
    'producers/prod_operation.py', 'producers/prod_sun.py', 'producers/prod_filter.py',
    'helpers/time_replace.py',
]


def coq_str(s: str) -> str:
    return '"' + s.replace('"', '""') + '"'


def loop_kind(node: ast.AST) -> str:
    if isinstance(node, ast.While):
        return f'LWhile {coq_str(ast.unparse(node.test))}'
    if isinstance(node, (ast.For, ast.AsyncFor)):
        it = node.iter
        if call_name(it) == 'not_infinite_loop' and not it.args and not it.keywords:
            return 'LNotInfinite'
        if call_name(it) == 'range' and isinstance(it.func, ast.Name):
            try:
                vals = [const_num(a) for a in it.args]
            except Unrecognised:
                # range over a simple expression of constants/locals is still finite
                return f'LRangeExpr {coq_str(ast.unparse(it))}'
            if len(vals) == 1 and isinstance(vals[0], int):
                return f'LRange {vals[0]}'
            return f'LRangeExpr {coq_str(ast.unparse(it))}'
        if isinstance(it, (ast.Name, ast.Attribute, ast.Tuple, ast.List)):
            return f'LFinite {coq_str(ast.unparse(it))}'
        return f'LUnknown {coq_str(ast.unparse(it))}'
    raise Unrecognised('loop kind')


def comprehension_kind(gen: ast.comprehension) -> str:
    it = gen.iter
    if isinstance(it, (ast.Name, ast.Attribute, ast.Tuple, ast.List)):
        return f'LFinite {coq_str(ast.unparse(it))}'
    return f'LUnknown {coq_str(ast.unparse(it))}'


def func_skeleton(fn: ast.FunctionDef) -> tuple[list[str], list[str]]:
    loops: list[str] = []
    calls: list[str] = []

    class V(ast.NodeVisitor):
        def visit_While(self, n):
            loops.append(loop_kind(n)); self.generic_visit(n)

        def visit_For(self, n):
            loops.append(loop_kind(n)); self.generic_visit(n)

        def visit_comprehension(self, n):
            loops.append(comprehension_kind(n)); self.generic_visit(n)

        def visit_Call(self, n):
            f = n.func
            if isinstance(f, ast.Attribute) and f.attr in ('get_next', '_get_next_sun', 'apply_operation',
                                                            'replace', 'allow', 'func', '_sun_func'):
                calls.append(f'{ast.unparse(f)}')
            elif isinstance(f, ast.Name) and f.id in ('find_time_after_dst_switch',):
                calls.append(f.id)
            self.generic_visit(n)

        def visit_FunctionDef(self, n):
            if n is fn:
                self.generic_visit(n)
            # nested defs are skipped (there are none); fail closed if there are
            else:
                loops.append(f'LUnknown {coq_str("nested def " + n.name)}')
    V().visit(fn)
    return loops, calls


def skeleton(src: Path) -> list[tuple[str, list[str], list[str]]]:
    out = []
    for rel in LOOP_FILES:
        mod = parse(src / rel)
        for node in mod.body:
            if isinstance(node, ast.FunctionDef):
                lo, ca = func_skeleton(node)
                if lo or ca:
                    out.append((f'{rel}:{node.name}', lo, ca))
            elif isinstance(node, ast.ClassDef):
                for m in node.body:
                    if isinstance(m, ast.FunctionDef):
                        lo, ca = func_skeleton(m)
                        if lo or ca:
                            out.append((f'{rel}:{node.name}.{m.name}', lo, ca))
    return out


# --------------------------------------------------------------------------------------------------
def main() -> int:
    repo, out = Path(sys.argv[1]), Path(sys.argv[2])
    src = repo / 'src' / 'eascheduler'
    lines = [
        '(* Generated.v — WRITTEN BY tools/gen_facts.py FROM /repo ON EVERY RUN.  Do not edit. *)',
        'From Coq Require Import ZArith String List.',
        'Import ListNotations.',
        'Open Scope Z_scope.',
        'Open Scope string_scope.',
        '',
        'Inductive loop_kind :=',
        '  | LNotInfinite                 (* for _ in not_infinite_loop() *)',
        '  | LRange (n : Z)               (* for _ in range(<literal>) *)',
        '  | LRangeExpr (e : string)      (* for _ in range(<expression>) *)',
        '  | LFinite (e : string)         (* iteration over a name / attribute / tuple *)',
        '  | LWhile (test : string)       (* while <source text> *)',
        '  | LUnknown (what : string).',
        '',
        'Inductive gen_status := GenOk | GenError (site : string).',
        '',
    ]
    errors: list[str] = []

    def emit_const(name: str, ty: str, fn, fmt=lambda v: str(v)):
        try:
            v = fn(src)
            lines.append(f'Definition {name} : {ty} := {fmt(v)}.')
            return v
        except (Unrecognised, OSError, SyntaxError, KeyError, IndexError, AttributeError, TypeError) as e:
            errors.append(f'{name}: {e}')
            lines.append(f'Definition {name} : {ty} := {"1%positive" if ty == "positive" else "0"}.')
            return None

    emit_const('loop_bound', 'positive', c_loop_bound, lambda v: f'{v}%positive')
    emit_const('past_tolerance_ns', 'Z', c_past_tolerance_ns)
    emit_const('after_search_minutes', 'Z', c_after_search)
    try:
        tries, cache, evict = c_sun(src)
    except (Unrecognised, OSError, SyntaxError, AttributeError, TypeError, IndexError) as e:
        errors.append(f'sun constants: {e}')
        tries, cache, evict = 0, 0, 0
    lines.append(f'Definition sun_tries : Z := {tries}.')
    lines.append(f'Definition sun_cache_limit : Z := {cache}.')
    lines.append(f'Definition sun_cache_evict : Z := {evict}.')
    try:
        eps = c_jitter_eps(src)
        # 0.0001 s expressed in ns, exactly as whenever converts float seconds (round half even on ns)
        eps_ns = round(eps * 10**9)
        lines.append(f'Definition jitter_eps_ns : Z := {eps_ns}.')
    except (Unrecognised, OSError, SyntaxError, AttributeError, TypeError) as e:
        errors.append(f'jitter eps: {e}')
        lines.append('Definition jitter_eps_ns : Z := 0.')

    lines.append('')
    try:
        sk = skeleton(src)
    except (Unrecognised, OSError, SyntaxError) as e:
        errors.append(f'skeleton: {e}')
        sk = []
    lines.append('Definition gen_loops : list (string * list loop_kind) := [')
    lines.append(';\n'.join(f'  ({coq_str(name)}, [{"; ".join(lo)}])' for name, lo, _ in sk))
    lines.append('].')
    lines.append('')
    lines.append('Definition gen_calls : list (string * list string) := [')
    lines.append(';\n'.join(f'  ({coq_str(name)}, [{"; ".join(coq_str(c) for c in ca)}])' for name, _, ca in sk))
    lines.append('].')
    lines.append('')
    if errors:
        lines.append(f'Definition gen_status_v : gen_status := GenError {coq_str(" | ".join(errors))}.')
    else:
        lines.append('Definition gen_status_v : gen_status := GenOk.')
    text = '\n'.join(lines) + '\n'
    if not out.exists() or out.read_text() != text:
        out.write_text(text)
    return 0


if __name__ == '__main__':
    sys.exit(main())
