#!/usr/bin/env python3
"""gen_sun.py — fail-closed translator: src/eascheduler/producers/prod_sun.py  ->  coq/gen/GenSun.v.

Translated statement by statement (Python `ast` -> Gallina, runtime coq/theories/GenRtProd.v + GenRtSun.v) with the
machinery of gen_prod.py (CPS texts, join continuations, locals kept as `v_<name>`):
  SunProducer._get_next_sun                 g_sun_get_next_sun    (the SUN_CACHE OrderedDict, the 366-date search, rounding, eviction)
  SunProducer.get_next                      g_sun_get_next
  SunProducer._cache_key                    g_sun_cache_key       (inherited by Dawn / Sunrise / Noon / Sunset / Dusk)
  SunElevationProducerCompare._cache_key    g_elev_cache_key
  SunAzimuthProducerCompare._cache_key      g_az_cache_key
  set_location                              g_set_location        (its state is the module global OBSERVER)
coq/theories/GenSunEq.v (hand-written, re-checked against the regenerated file on every run) proves that the
generated _get_next_sun / get_next compute Producers.next_sun_raw / the PSun case of Producers.get_next (value,
cache state, exception, out of fuel), closes the dispatch of GenProdEq.pknot with the generated sun producer
([pknot_sun], [gen_get_next_is_model_sun]) and restates the theorems of SunFacts.v for the generated code.
Anything outside the vocabulary raises Unrecognised; the output then carries [gen_sun_status_v = GenSunError "..."]
and NO definitions, so GenSunEq.v does not compile (fail closed).  The class layout of prod_sun.py that the
hand-written dispatch relies on (bases and members of every class, the astral function each of the five plain
classes hands to SunProducer.__init__, the one-line astral call of SunElevationProducerCompare._sun_func, the
initial values of OBSERVER and SUN_CACHE) is checked too.

NOT translated (say so in DESIGN): SunAzimuthProducerCompare._sun_func (the float search on sun.azimuth: floats are
opaque here; see harness/prod_az.py and finding F17), get_azimuth_and_elevation, every __init__ / copy / __eq__.

TRUSTED translation rules, in addition to T1, T2, T8, T11, T13 of gen_prod.py (what GenSunEq.v cannot check):
  S1  astral is an oracle: `self.func(observer, date)` is [astral_call E key observer date] = the environment's event
      table [sun_ev E key date] of the CONFIGURED location (the observer argument is the configured OBSERVER - the
      only Observer the method can reach - and is not looked at); no event = ValueError.  Which astral function a
      class passes as `func` (sun.dawn ... sun.dusk, time_at_elevation with the object's own parameters) is part
      of the identity of the model's [key]; the harness records astral per (location, key, UTC date).
  S2  the module global OBSERVER is [observer_global W E] = the Observer [w_observer W loc] of the environment's
      configured location [location E = Some loc], None when no location is set.  In set_location (which changes
      it) OBSERVER is the state of the function; `Observer(a, b, c)` is the opaque constructor [w_mk_observer W].
  S3  floats (latitude, longitude, elevation, azimuth) are opaque values named by a Z; == on them is = on the names
      (no NaN).  A class object / SunDirection member is named by a nat.
  S4  a tuple of hashables is the list of its components ([pykey]); `+` on tuples is `++`.
  S5  SUN_CACHE, the OrderedDict, is the model's [scache] (oldest first); a key tuple k denotes the model key
      [w_abs W k] (an operation on a tuple that denotes no model key is stuck = None, never a value):
      .get(k) = slookup, .move_to_end(k) = remove + append (KeyError if absent), len() = length,
      .popitem(last=False) / .popitem(last=True) / .popitem() = drop the first / last / last entry (KeyError if
      empty), d[k] = v = replace in place or append.  GenSunEq.world_ok says when W is a faithful reading: w_abs
      inverts the key format (UTC date, latitude, longitude, elevation) + _cache_key() on every (key, date, location).
  S6  `dt.to_tz('UTC').date()` (and `.py_date()`) is the day number [utc_date dt] = floor(dt / 86400 s);
      `x.add(hours=k)` / `x.add(seconds=k)` (k an int literal) are x + k * 3600 * NS / x + k * NS.
  S7  a Python datetime returned by astral is its Z nanoseconds and has microsecond resolution: the truth value of
      `x.microsecond` is [py_subsecond x <> 0] (x is not on a full second), `x.replace(microsecond=0)` is
      [py_floor_second x]; `Instant.from_py_datetime(x)` is x.
  S8  `for i in range(n): ... else: ...` is [for_range n]: i = 0 .. n-1, `break` skips the else clause and carries
      the variables that the statements after the loop read; the else clause must leave the function.
      `try: A except ValueError: B else: C` runs C outside the handler; a bare `raise` in B re-raises ValueError.
  S9  exceptions: LocationNotSetError = XErr ELocationNotSet, RuntimeError = XErr EOther, KeyError = XErr EKeyError,
      TypeError = XErr ETypeError, ValueError = XErr EValueError (`except ValueError` catches exactly that).
  S10 isinstance(x, (int, float, str, tuple)) reads the dynamic type of an argument ([py_isinstance]); the text of
      an error message (`msg = f'...'`) is not modelled.

usage: gen_sun.py <repo_root> <out_file>
"""
from __future__ import annotations

import ast
import os
import sys
from pathlib import Path

sys.path.insert(0, str(Path(__file__).resolve().parent))
from gen_sched import Unrecognised, src, is_self_attr, is_none  # noqa: E402
import gen_prod as GP  # noqa: E402
from gen_prod import COQTY, NARROW, ANNOT, NUMERIC, Method, Ctx, cname, exits, assigned_names, indent  # noqa: E402

# the vocabulary of types is extended in THIS process only (gen_prod.py itself is unchanged)
COQTY.update({'num': 'Z', 'observer': 'observer', 'optobserver': 'option observer', 'pykey': 'pykey',
              'suncache': 'unit', 'utc': 'Z', 'udate': 'Z', 'pydate': 'Z', 'pydt': 'Z', 'float': 'Z', 'class': 'nat',
              'direction': 'nat', 'pyarg': 'pyarg', 'unit': 'unit', 'astral': 'observer -> Z -> pres Z'})
NARROW.update({'optobserver': 'observer'})
ANNOT.update({'tuple[Hashable, ...]': 'pykey', 'None': 'unit', 'float | str': 'pyarg',
              'float | tuple[float, float]': 'pyarg'})
NUMERIC.add('num')

HASHABLE = {'udate': 'VDate', 'float': 'VFloat', 'class': 'VClass', 'direction': 'VDir'}
PYTYPES = {'int': 'TInt', 'float': 'TFloat', 'str': 'TStr', 'tuple': 'TTuple'}
RERAISE = '$reraise'


def int_const(n: ast.AST) -> int | None:
    if isinstance(n, ast.Constant) and isinstance(n.value, int) and not isinstance(n.value, bool):
        return n.value
    return None


def loaded_names(stmts: list[ast.stmt]) -> set[str]:
    return {n.id for st in stmts for n in ast.walk(st) if isinstance(n, ast.Name) and isinstance(n.ctx, ast.Load)}


class SunMethod(Method):
    def __init__(self, cls, name, gname, fields, virtuals=None, pure=False, pure_virtuals=None, global_state=False):
        super().__init__('producers/prod_sun.py', cls, name, gname, fields, None, virtuals, pure)
        self.pure_virtuals = pure_virtuals or {}          # name -> result type (a method of self without effect)
        self.global_state = global_state                  # the state of the function is the global OBSERVER


class SunT(GP.Translator):
    EXN = {**GP.Translator.EXN, 'ValueError': 'XErr EValueError'}
    RAISES = {'LocationNotSetError': 'XErr ELocationNotSet', 'RuntimeError': 'XErr EOther',
              'TypeError': 'XErr ETypeError', 'ValueError': 'XErr EValueError'}

    # -- expressions ------------------------------------------------------------------------------------
    def expr(self, n, ctx):
        if isinstance(n, ast.Name) and n.id not in ctx.locals:
            if n.id == 'OBSERVER' and not self.m.global_state:
                self.effect('reading OBSERVER')
                return 'optobserver', '(observer_global W E)', []
            if n.id == 'SUN_CACHE':
                self.effect('SUN_CACHE')
                return 'suncache', 'tt', []
        if isinstance(n, ast.Tuple) and n.elts:
            parts, pre = [], []
            for el in n.elts:
                t, c, p = self.expr(el, ctx)
                if t not in HASHABLE:
                    raise Unrecognised(f'tuple element {src(el)} (a {t})')
                parts.append(f'{HASHABLE[t]} {c}')
                pre += p
            return 'pykey', '[' + '; '.join(parts) + ']', pre
        if isinstance(n, ast.BinOp) and isinstance(n.op, ast.Add):
            ta, ca, pa = self.expr(n.left, ctx)
            tb, cb, pb = self.expr(n.right, ctx)
            if ta == 'pykey' and tb == 'pykey':
                return 'pykey', f'({ca} ++ {cb})', pa + pb
            if ta == 'num' and tb == 'num':
                return 'num', f'({ca} + {cb})', pa + pb
            raise Unrecognised(f'arithmetic {src(n)} ({ta} + {tb})')
        return super().expr(n, ctx)

    def attribute(self, n, ctx):
        t, c, pre = self.expr(n.value, ctx)
        if t == 'observer' and n.attr in ('latitude', 'longitude', 'elevation'):
            return 'float', f'(o_{n.attr} {c})', pre
        if t == 'pydt' and n.attr == 'microsecond':
            return 'subsecond', f'(py_subsecond {c})', pre        # only its truth value may be used (rule S7)
        raise Unrecognised(f'attribute {src(n)} (of a {t})')

    def args_of(self, n: ast.Call, want: tuple[str, ...], ctx):
        if n.keywords or len(n.args) != len(want):
            raise Unrecognised(f'call {src(n)}')
        out, pre = [], []
        for a, w in zip(n.args, want):
            t, c, p = self.expr(a, ctx)
            if t != w:
                raise Unrecognised(f'argument {src(a)} of {src(n.func)}: a {t}, expected {w}')
            out.append(c)
            pre += p
        return out, pre

    def call(self, n, ctx):
        f = n.func
        if isinstance(f, ast.Name):
            if f.id == 'len' and len(n.args) == 1 and not n.keywords:
                t, c, pre = self.expr(n.args[0], ctx)
                if t == 'suncache':
                    self.effect('len(SUN_CACHE)')
                    return 'num', '(od_len s)', pre
                raise Unrecognised(f'len of a {t}')
            if f.id == 'isinstance' and len(n.args) == 2 and not n.keywords and isinstance(n.args[1], ast.Tuple):
                t, c, pre = self.expr(n.args[0], ctx)
                tys = [PYTYPES.get(e.id) if isinstance(e, ast.Name) else None for e in n.args[1].elts]
                if t != 'pyarg' or None in tys or pre:
                    raise Unrecognised(f'call {src(n)}')
                return 'bool', f'(py_isinstance {c} [{"; ".join(tys)}])', []
            if f.id == 'Observer' and self.m.global_state:
                a, pre = self.args_of(n, ('pyarg', 'pyarg', 'pyarg'), ctx)
                v, e, kx = self.fresh('o'), self.fresh('e'), ctx.kx
                return 'observer', v, pre + [lambda body: f'match w_mk_observer W {" ".join(a)} with\n'
                                             f'| PExc {e} => {kx} s {e}\n| PRet {v} =>\n{body}\nend']
            return super().call(n, ctx)
        if not isinstance(f, ast.Attribute):
            raise Unrecognised(f'call {src(n)}')
        meth = f.attr
        noargs = not n.args and not n.keywords
        if is_self_attr(f) and meth in self.m.pure_virtuals and noargs:
            return self.m.pure_virtuals[meth], f'({cname(meth)} tt)', []
        if is_self_attr(f) and any(a == meth and t == 'astral' for a, t in self.m.fields):
            a, pre = self.args_of(n, ('observer', 'pydate'), ctx)
            self.effect('astral')
            v, e, kx = self.fresh('r'), self.fresh('e'), ctx.kx
            return 'pydt', v, pre + [lambda body: f'match {cname(meth)} {a[0]} {a[1]} with\n| PExc {e} => {kx} s {e}\n'
                                                 f'| PRet {v} =>\n{body}\nend']
        if isinstance(f.value, ast.Name) and f.value.id == 'Instant' and 'Instant' not in ctx.locals \
                and meth == 'from_py_datetime':
            a, pre = self.args_of(n, ('pydt',), ctx)
            return 'instant', a[0], pre
        if is_self_attr(f):
            return super().call(n, ctx)
        t, c, pre = self.expr(f.value, ctx)
        if t == 'instant' and meth == 'to_tz' and len(n.args) == 1 and not n.keywords \
                and isinstance(n.args[0], ast.Constant) and n.args[0].value == 'UTC':
            return 'utc', c, pre
        if t == 'utc' and meth == 'date' and noargs:
            return 'udate', f'(utc_date {c})', pre
        if t == 'udate' and meth == 'py_date' and noargs:
            return 'pydate', c, pre
        if t == 'instant' and meth == 'add' and not n.args and len(n.keywords) == 1 \
                and n.keywords[0].arg in ('hours', 'seconds') and int_const(n.keywords[0].value) is not None:
            k = int_const(n.keywords[0].value)
            unit = '3600 * NS' if n.keywords[0].arg == 'hours' else 'NS'
            return 'instant', f'({c} + {k} * {unit})' if k >= 0 else f'({c} + ({k}) * {unit})', pre
        if t == 'pydt' and meth == 'replace' and not n.args and len(n.keywords) == 1 \
                and n.keywords[0].arg == 'microsecond' and int_const(n.keywords[0].value) == 0:
            return 'pydt', f'(py_floor_second {c})', pre
        if t == 'suncache' and meth == 'get':
            self.effect('SUN_CACHE.get')
            a, pa = self.args_of(n, ('pykey',), ctx)
            v = self.fresh('g')
            return 'optinstant', v, pre + pa + [lambda body: f'match od_get W {a[0]} s with\n| None => None\n'
                                                             f'| Some {v} =>\n{body}\nend']
        # everything else: the vocabulary of gen_prod.py (the receiver is translated again there)
        return super().call(n, ctx)

    # -- conditions -------------------------------------------------------------------------------------
    def test(self, n, ctx, top=False):
        if isinstance(n, ast.Attribute):
            t, c, pre = self.expr(n, ctx)
            if t == 'subsecond':
                return f'(negb ({c} =? 0))', pre
            if t == 'bool':
                return c, pre
            raise Unrecognised(f'condition {src(n)} (a {t})')
        return super().test(n, ctx, top)

    # -- statements -------------------------------------------------------------------------------------
    def block(self, stmts, ctx, k):
        if stmts:
            st, rest = stmts[0], stmts[1:]
            if isinstance(st, ast.Global):
                if not self.m.global_state or st.names != ['OBSERVER']:
                    raise Unrecognised(f'statement {src(st)}')
                return self.block(rest, ctx, k)
            if isinstance(st, ast.Expr) and isinstance(st.value, ast.Call) and isinstance(st.value.func, ast.Attribute):
                c = st.value
                t, _, pre = self.expr(c.func.value, ctx)
                if t == 'suncache' and not pre:
                    self.effect('SUN_CACHE')
                    if c.func.attr == 'move_to_end':
                        a, pa = self.args_of(c, ('pykey',), ctx)
                        return self.wrap(pa, f'match od_move_to_end W {a[0]} s with\n| None => None\n'
                                             f'| Some None => {ctx.kx} s (XErr EKeyError)\n| Some (Some s) =>\n'
                                             f'{self.block(rest, ctx, k)}\nend')
                    if c.func.attr == 'popitem' and not c.args and len(c.keywords) <= 1:
                        last = True
                        if c.keywords:
                            kw = c.keywords[0]
                            if kw.arg != 'last' or not (isinstance(kw.value, ast.Constant)
                                                        and isinstance(kw.value.value, bool)):
                                raise Unrecognised(f'statement {src(st)}')
                            last = kw.value.value
                        op = 'od_popitem_last' if last else 'od_popitem_first'
                        return (f'match {op} s with\n| None => {ctx.kx} s (XErr EKeyError)\n| Some s =>\n'
                                f'{self.block(rest, ctx, k)}\nend')
                raise Unrecognised(f'statement {src(st)[:80]}')
        return super().block(stmts, ctx, k)

    def assign(self, target, value, rest, ctx, k):
        if isinstance(target, ast.Subscript):
            t, _, pre = self.expr(target.value, ctx)
            tk, ck, pk = self.expr(target.slice, ctx)
            tv, cv, pv = self.expr(value, ctx)
            if t != 'suncache' or tk != 'pykey' or tv != 'instant' or pre:
                raise Unrecognised(f'assignment {src(target)} = {src(value)} ({t}[{tk}] = {tv})')
            self.effect('SUN_CACHE[...] = ')
            return self.wrap(pv + pk, f'match od_set W {ck} {cv} s with\n| None => None\n| Some s =>\n'
                                      f'{self.block(rest, ctx, k)}\nend')
        if isinstance(target, ast.Name) and target.id == 'OBSERVER' and self.m.global_state \
                and 'OBSERVER' not in ctx.locals:
            t, c, pre = self.expr(value, ctx)
            if t != 'observer':
                raise Unrecognised(f'OBSERVER = {src(value)} (a {t})')
            return self.wrap(pre, f'let s := Some {c} in\n{self.block(rest, ctx, k)}')
        if isinstance(target, ast.Name) and target.id in ('OBSERVER', 'SUN_CACHE'):
            raise Unrecognised(f'assignment to {target.id}')
        return super().assign(target, value, rest, ctx, k)

    def raise_stmt(self, st, ctx):
        self.effect('raise')
        if st.exc is None and st.cause is None:
            r = ctx.locals.get(RERAISE)
            if r is None:
                raise Unrecognised('bare raise outside an except clause')
            return f'{ctx.kx} s ({r[1]})'
        e = st.exc
        if st.cause is None and isinstance(e, ast.Call) and isinstance(e.func, ast.Name) and not e.keywords \
                and e.func.id in self.RAISES:
            if not e.args or (len(e.args) == 1 and isinstance(e.args[0], ast.Name) and e.args[0].id == 'msg'):
                return f'{ctx.kx} s ({self.RAISES[e.func.id]})'
        return super().raise_stmt(st, ctx)

    def try_stmt(self, st, rest, ctx, k):
        """try / except <known exception> / else (rule S8)"""
        self.effect('try')
        if st.finalbody or not st.handlers:
            raise Unrecognised('try with finally / no handler')
        assigned = assigned_names(st.body) | assigned_names(st.handlers) | assigned_names(st.orelse)
        normal_exits = exits(st.orelse) if st.orelse else exits(st.body)
        all_exit = normal_exits and all(exits(h.body) for h in st.handlers)
        if all_exit and rest:
            raise Unrecognised('statements after a try whose paths all leave')
        kjoin, finish = (k, lambda t: t) if all_exit else self.join(assigned, ctx, rest, k)
        hc0 = ctx.copy()
        for n in assigned_names(st.body):
            hc0.locals.pop(n, None)                    # may or may not have been assigned when the handler runs
        cases, seen = [], set()
        for h in st.handlers:
            hn = h.type.id if isinstance(h.type, ast.Name) else None
            if hn not in self.EXN or h.name:
                raise Unrecognised(f'except {src(h.type) if h.type else ""}{" as " + h.name if h.name else ""}')
            if hn in seen:
                raise Unrecognised(f'two handlers for {hn}')
            seen.add(hn)
            hc = hc0.copy()
            hc.locals[RERAISE] = ('exn', self.EXN[hn])
            cases.append(f'| {self.EXN[hn]} =>\n{self.block(h.body, hc, self.drop_reraise(kjoin))}')
        kxn, e = self.fresh('kx'), self.fresh('e')
        c2 = ctx.copy()
        c2.kx = kxn

        def after_body(c: Ctx) -> str:
            if not st.orelse:
                return kjoin(c)
            c3 = c.copy()
            c3.kx = ctx.kx                              # the else clause is not protected by the handlers
            return self.block(st.orelse, c3, kjoin)
        body = self.block(st.body, c2, after_body)
        handler = '\n'.join(cases)
        return finish(f'let {kxn} := fun (s : pstate) ({e} : pexn) =>\nmatch {e} with\n{handler}\n'
                      f'| _ => {ctx.kx} s {e}\nend\nin\n{body}')

    @staticmethod
    def drop_reraise(kont):
        def k2(c: Ctx) -> str:
            c = c.copy()
            c.locals.pop(RERAISE, None)
            return kont(c)
        return k2

    def loop_stmt(self, st, rest, ctx, k):
        it = st.iter if isinstance(st, ast.For) else None
        if (isinstance(st, ast.For) and isinstance(st.target, ast.Name) and isinstance(it, ast.Call)
                and isinstance(it.func, ast.Name) and it.func.id == 'range' and len(it.args) == 1 and not it.keywords
                and not (st.target.id == '_' and isinstance(it.args[0], ast.Constant) and not st.orelse)):
            return self.range_loop(st, rest, ctx, k)
        return super().loop_stmt(st, rest, ctx, k)

    def range_loop(self, st: ast.For, rest, ctx, k) -> str:
        """for <i> in range(<n>): body  else: <leaves>     (rule S8)"""
        self.effect('a loop')
        tn, cn, pn = self.expr(st.iter.args[0], ctx)
        if tn != 'num' or pn:
            raise Unrecognised(f'range({src(st.iter.args[0])}) (a {tn})')
        if not st.orelse or not exits(st.orelse):
            raise Unrecognised('a range loop over a computed bound needs an else clause that leaves')
        idx = st.target.id
        assigned = assigned_names(st.body)
        if idx in assigned or (idx != '_' and idx in ctx.locals):
            raise Unrecognised(f'the loop index {idx} is assigned elsewhere')
        carried = [(n, ctx.locals[n][0]) for n in sorted(assigned) if n in ctx.locals]
        for n, t in carried:
            if t not in COQTY:
                raise Unrecognised(f'loop-carried variable {n} (a {t})')
        live = loaded_names(rest)
        payload = [n for n in sorted(assigned) if n in live]
        X = 'unit' if not carried else ' * '.join(COQTY[t] for _, t in carried)
        Xt = f'({X})%type' if len(carried) > 1 else X
        A = COQTY[self.ret]
        unpack = '' if not carried else (f"let '({', '.join('v_' + n for n, _ in carried)}) := x in\n"
                                         if len(carried) > 1 else f'let v_{carried[0][0]} := x in\n')
        BMARK = f'\x00B{self.fresh("b")}\x00'
        btypes: list[dict[str, str]] = []

        def kbreak(c: Ctx) -> str:
            ts = {}
            for n in payload:
                if n not in c.locals or c.locals[n][0] not in COQTY:
                    raise Unrecognised(f'{n} is read after the loop but is not bound at a break')
                if c.locals[n][1] != f'v_{n}':
                    raise Unrecognised(f'{n} is narrowed at a break')
                ts[n] = c.locals[n][0]
            btypes.append(ts)
            tup = 'tt' if not payload else '(' + ', '.join(f'v_{n}' for n in payload) + ')' if len(payload) > 1 \
                else f'v_{payload[0]}'
            return f'r_break {tup} s'
        lc = ctx.copy()
        lc.kx = 'kx'
        lc.knext = lambda c: f'r_next {self.carried_tuple(carried, c)} s'
        lc.kbreak = kbreak
        if idx != '_':
            lc.locals[idx] = ('num', f'v_{idx}')
        body = self.block(st.body, lc.copy(), lc.knext)
        if any(b != btypes[0] for b in btypes):
            raise Unrecognised('the variables carried by the breaks of a loop differ in type')
        if not btypes and payload:
            raise Unrecognised('a loop without break whose variables are read afterwards')
        bts = btypes[0] if btypes else {}
        B = 'unit' if not payload else ' * '.join(COQTY[bts[n]] for n in payload)
        Bt = f'({B})%type' if len(payload) > 1 else B
        head = f'let kret := @r_return {Xt} {BMARK} {A} in\nlet kx := @r_raise {Xt} {BMARK} {A} in\n'
        ivar = f'v_{idx}' if idx != '_' else '_'
        step = f'(fun ({ivar} : Z) (x : {Xt}) (s : pstate) =>\n{unpack}{head}{body})'.replace(BMARK, Bt)
        # after the range ran out: the else clause (it leaves); names first bound inside the loop are not visible
        ec = ctx.copy()
        for n in assigned:
            if n not in dict(carried):
                ec.locals.pop(n, None)

        def no_fall(c: Ctx) -> str:
            raise Unrecognised('the else clause of a loop falls through')
        els = self.block(st.orelse, ec, no_fall)
        # after a break: exactly the payload is visible among the assigned names (a stale outer value never is)
        after = ctx.copy()
        for n in assigned:
            after.locals.pop(n, None)
        for n in payload:
            after.locals[n] = (bts[n], f'v_{n}')
        unpack_b = '' if not payload else (f"let '({', '.join('v_' + n for n in payload)}) := b in\n"
                                           if len(payload) > 1 else f'let v_{payload[0]} := b in\n')
        e, a = self.fresh('e'), self.fresh('a')
        tail = self.block(rest, after, k)
        return (f'match for_range {cn} {step} {self.carried_tuple(carried, ctx)} s with\n| None => None\n'
                f'| Some (s, PExc {e}) => {ctx.kx} s {e}\n| Some (s, PRet (RReturned {a})) => kret {a} s\n'
                f'| Some (s, PRet (RExhausted x)) =>\n{unpack}{els}\n'
                f'| Some (s, PRet (RBroken b)) =>\n{unpack_b}{tail}\nend')

    # -- a method ---------------------------------------------------------------------------------------
    def method(self, fn: ast.FunctionDef) -> str:
        m = self.m
        a = fn.args
        if a.vararg or a.kwarg or a.kwonlyargs or a.posonlyargs or (a.defaults and not m.global_state):
            raise Unrecognised(f'signature of {fn.name}')
        params = a.args[1:] if m.cls else a.args
        if m.cls and a.args[0].arg != 'self':
            raise Unrecognised(f'signature of {fn.name}')
        ctx = Ctx()
        sig = []
        for attr, t in m.fields:
            sig.append(f'({cname(attr)} : {COQTY[t]})')
        for v, (argt, rett) in m.virtuals.items():
            sig.append(f'({cname(v)} : {" -> ".join(COQTY[t] for t in argt)} -> pstate -> PM {COQTY[rett]})')
        for v, rett in m.pure_virtuals.items():
            sig.append(f'({cname(v)} : unit -> {COQTY[rett]})')
        for p in params:
            t = ANNOT.get(src(p.annotation)) if p.annotation is not None else None
            if t is None:
                raise Unrecognised(f'annotation of parameter {p.arg} of {fn.name}')
            ctx.locals[p.arg] = (t, f'v_{p.arg}')
            sig.append(f'(v_{p.arg} : {COQTY[t]})')
        A = COQTY[self.ret]
        if m.pure:
            body = self.block(fn.body, ctx, lambda c: self.fell_off())
            return f'Definition {m.gname} {" ".join(sig)} : {A} :=\nlet kret := fun a : {A} => a in\n{body}.\n'
        if m.global_state:
            if self.ret != 'unit':
                raise Unrecognised(f'{fn.name} returns a value')
            body = self.block(fn.body, ctx, lambda c: 'g_return tt s')
            if 'pstate' in body:
                raise Unrecognised(f'{fn.name}: a construct that needs the producer state')
            return (f'Definition {m.gname} (W : sunworld) {" ".join(sig)} (s : option observer) : GM unit :=\n'
                    f'let kret := @g_return unit in\nlet kx := @g_raise unit in\n{body}.\n')
        body = self.block(fn.body, ctx, lambda c: 'p_fell_off s')
        return (f'Definition {m.gname} (E : penv) (R : prec) (W : sunworld) (fuel : nat -> nat) {" ".join(sig)} '
                f'(s : pstate) : PM {A} :=\nlet kret := @p_return {A} in\nlet kx := @p_raise {A} in\n{body}.\n')


METHODS = [
    SunMethod('SunProducer', '_cache_key', 'g_sun_cache_key', [('__class__', 'class')], pure=True),
    SunMethod('SunElevationProducerCompare', '_cache_key', 'g_elev_cache_key',
              [('__class__', 'class'), ('elevation', 'float'), ('direction', 'direction')], pure=True),
    SunMethod('SunAzimuthProducerCompare', '_cache_key', 'g_az_cache_key',
              [('__class__', 'class'), ('azimuth', 'float')], pure=True),
    SunMethod('SunProducer', '_get_next_sun', 'g_sun_get_next_sun', [('func', 'astral')],
              pure_virtuals={'_cache_key': 'pykey'}),
    SunMethod('SunProducer', 'get_next', 'g_sun_get_next', [('_filter', 'optfilter')],
              virtuals={'_get_next_sun': (('instant',), 'instant')}),
    SunMethod(None, 'set_location', 'g_set_location', [], global_state=True),
]
NOT_TRANSLATED = ('SunAzimuthProducerCompare._sun_func (float search on sun.azimuth), SunElevationProducerCompare._sun_func '
                  '(one astral call: part of the oracle, its shape is checked), get_azimuth_and_elevation, '
                  'SunFuncIgnoringCompare.__eq__, every __init__ / copy')

HEADER = '''(* GenSun.v — WRITTEN BY tools/gen_sun.py FROM /repo/src/eascheduler/producers/prod_sun.py ON EVERY RUN.  Do not edit.
   Runtime: coq/theories/GenRtProd.v, GenRtSun.v; proofs: coq/theories/GenSunEq.v. *)
From EAS Require Import Base Civil Time Filters Replace Producers GenRtProd GenRtSun.
From EASGen Require Import Generated.
From Coq Require Import String.

Inductive gen_sun_status := GenSunOk | GenSunError (what : string).
Open Scope Z_scope.
Open Scope list_scope.
'''

PLAIN = {'DawnProducer': 'dawn', 'SunriseProducer': 'sunrise', 'NoonProducer': 'noon', 'SunsetProducer': 'sunset',
         'DuskProducer': 'dusk'}
LAYOUT = {
    'SunProducer': (['DateTimeProducerBase'], {'__init__', 'copy', '_cache_key', '_get_next_sun', 'get_next'}),
    **{c: (['SunProducer'], {'__init__'}) for c in PLAIN},
    'SunFuncIgnoringCompare': ([], {'__eq__'}),
    'SunElevationProducerCompare': (['SunProducer', 'SunFuncIgnoringCompare'],
                                    {'__init__', 'copy', '_sun_func', '_cache_key'}),
    'SunAzimuthProducerCompare': (['SunProducer', 'SunFuncIgnoringCompare'],
                                  {'__init__', 'copy', '_cache_key', '_sun_func'}),
}
ELEV_SUN_FUNC = 'return sun.time_at_elevation(observer, self.elevation, date, self.direction)'


def check_layout(mod: ast.Module) -> None:
    found = {n.name: n for n in mod.body if isinstance(n, ast.ClassDef)}
    if set(found) != set(LAYOUT):
        raise Unrecognised(f'classes of prod_sun.py: {sorted(set(found) ^ set(LAYOUT))} differ from the expected layout')
    for cn, (bases, members) in LAYOUT.items():
        c = found[cn]
        if [src(b) for b in c.bases] != bases:
            raise Unrecognised(f'bases of {cn}: {[src(b) for b in c.bases]}')
        have = {n.name for n in c.body if isinstance(n, (ast.FunctionDef, ast.AsyncFunctionDef, ast.ClassDef))}
        if have != members:
            raise Unrecognised(f'members of {cn}: {sorted(have ^ members)} differ from the expected layout')
    for cn, fn in PLAIN.items():
        init = next(n for n in found[cn].body if isinstance(n, ast.FunctionDef))
        if [src(s) for s in init.body] != [f'super().__init__(sun.{fn})']:
            raise Unrecognised(f'{cn}.__init__ does not hand sun.{fn} to SunProducer.__init__')
    init = next(n for n in found['SunProducer'].body if isinstance(n, ast.FunctionDef) and n.name == '__init__')
    if [src(s) for s in init.body] != ['super().__init__()', 'self.func: Final = func']:
        raise Unrecognised('SunProducer.__init__')
    sf = next(n for n in found['SunElevationProducerCompare'].body if isinstance(n, ast.FunctionDef) and n.name == '_sun_func')
    if [src(s) for s in sf.body] != [ELEV_SUN_FUNC] or [x.arg for x in sf.args.args] != ['self', 'observer', 'date']:
        raise Unrecognised('SunElevationProducerCompare._sun_func is not the one astral call')
    for cn, call in (('SunElevationProducerCompare', 'super().__init__(self._sun_func)'),
                     ('SunAzimuthProducerCompare', 'super().__init__(self._sun_func)')):
        init = next(n for n in found[cn].body if isinstance(n, ast.FunctionDef) and n.name == '__init__')
        if src(init.body[-1]) != call:
            raise Unrecognised(f'{cn}.__init__ does not hand self._sun_func to SunProducer.__init__')
    # the module globals and who writes them
    inits = {}
    for n in mod.body:
        if isinstance(n, ast.AnnAssign) and isinstance(n.target, ast.Name) and n.value is not None:
            inits[n.target.id] = src(n.value)
        elif isinstance(n, ast.Assign):
            for t in n.targets:
                if isinstance(t, ast.Name):
                    inits[t.id] = src(n.value)
    if inits.get('OBSERVER') != 'None' or inits.get('SUN_CACHE') != 'OrderedDict()':
        raise Unrecognised(f'initial values of the module globals: {inits}')
    for fn in ast.walk(mod):
        if isinstance(fn, (ast.FunctionDef, ast.AsyncFunctionDef)):
            for n in ast.walk(fn):
                if isinstance(n, ast.Global) and (fn.name != 'set_location' or n.names != ['OBSERVER']):
                    raise Unrecognised(f'`global {", ".join(n.names)}` in {fn.name}')
                if isinstance(n, ast.Name) and n.id == 'SUN_CACHE' and fn.name != '_get_next_sun':
                    raise Unrecognised(f'SUN_CACHE is used in {fn.name}')


def generate(repo: Path) -> str:
    path = repo / 'src/eascheduler/producers/prod_sun.py'
    mod = ast.parse(path.read_text(encoding='utf-8'), filename=str(path))
    check_layout(mod)
    defs = []
    for m in METHODS:
        scope = mod.body
        if m.cls:
            scope = next(n for n in scope if isinstance(n, ast.ClassDef) and n.name == m.cls).body
        fns = [n for n in scope if isinstance(n, ast.FunctionDef) and n.name == m.name]
        if len(fns) != 1:
            raise Unrecognised(f'{m.cls}.{m.name}')
        fn = fns[0]
        if [src(d) for d in fn.decorator_list] not in ([], ['override']):
            raise Unrecognised(f'decorators of {m.cls}.{m.name}')
        ret = ANNOT.get(src(fn.returns)) if fn.returns is not None else None
        if ret is None:
            raise Unrecognised(f'return annotation of {m.cls}.{m.name}')
        try:
            defs.append(indent(SunT(m, ret).method(fn)))
            if m.global_state:
                d = fn.args.defaults
                if len(d) != 1 or not (isinstance(d[0], ast.Constant) and d[0].value == 0.0
                                       and isinstance(d[0].value, float)):
                    raise Unrecognised('default arguments of set_location')
        except Unrecognised as e:
            raise Unrecognised(f'{m.cls or "prod_sun"}.{m.name}: {e}') from None
    text = HEADER + '\nDefinition gen_sun_status_v : gen_sun_status := GenSunOk.\n\n'
    text += '\n\n'.join(defs)
    text += f'\n\n(* set_location: the default of `elevation` is the float 0.0 *)\n(* not translated: {NOT_TRANSLATED} *)\n'
    return text


def main() -> int:
    repo, out = Path(sys.argv[1]), Path(sys.argv[2])
    try:
        text = generate(repo)
    except Exception as e:      # noqa: BLE001   whatever goes wrong, the output must not keep an older translation
        if os.environ.get('GEN_SUN_DEBUG'):
            raise
        msg = (type(e).__name__ + ': ' if not isinstance(e, Unrecognised) else '') + str(e)
        msg = msg.replace('"', "'").replace('\n', ' ')[:300]
        text = HEADER + f'\nDefinition gen_sun_status_v : gen_sun_status := GenSunError "{msg}".\n'
        print(f'gen_sun: not recognised: {msg}', file=sys.stderr)
    old = out.read_text() if out.exists() else None
    if old != text:
        out.write_text(text)
    return 0            # fail closed inside Coq: GenSunEq.v does not compile without the definitions


if __name__ == '__main__':
    sys.exit(main())
