#!/usr/bin/env python3
"""gen_sched.py — fail-closed translator: src/eascheduler/schedulers/async_scheduler.py  ->  coq/gen/GenSched.v.

The methods set_enabled, run_jobs, _set_timer, add_job, remove_job and update_job of AsyncScheduler are translated
statement by statement into Gallina over the state of Sched.v, in the runtime of GenRt.v (explicit state, explicit
exceptions, open recursion through the record [rec]).  coq/theories/GenSchedEq.v then proves that the generated
functions compute exactly what the hand-written model of Sched.v computes on every well-formed state, so every
theorem about the model is a theorem about what this file says today.

The translation is syntax directed over a small vocabulary (listed in VOCAB below); anything outside it raises
Unrecognised and the generated file then carries [gen_sched_status = GenSchedError ...] and no definitions, which
makes GenSchedEq.v fail (fail closed).  What the translation ASSUMES (trusted, stated in DESIGN.md 11.6):
  * `self._loop.call_at(self._loop.time() + d, self.run_jobs)` arms ONE handle that fires run_jobs when the loop's
    clock reaches time()+d, and loop clock and wall clock are one variable: the handle is the model's [timer];
  * `TimerHandle.cancel()` next to `self.timer = None` disarms it (cancel_handle is the identity on the model);
  * `(a - b).in_seconds()` has the sign of a - b (float seconds of a whenever.TimeDelta);
  * deque / bisect.insort / `is` on jobs behave as list head, tail, remove_first, Sched.insort and index equality;
  * `process_exception(e)` is the event [EHandler src], src = the job whose execute() raised, or the loop.

usage: gen_sched.py <repo_root> <out_file>
"""
from __future__ import annotations

import ast
import sys
from pathlib import Path

METHODS = ['set_enabled', 'run_jobs', '_set_timer', 'add_job', 'remove_job', 'update_job']
RCALL = {'_set_timer': 'r_set_timer', 'run_jobs': 'r_run_jobs', 'add_job': 'r_add_job', 'remove_job': 'r_remove_job'}
NOT_TRANSLATED = ['__init__', '__repr__', 'remove_all']     # __init__: tools/gen_init.py, remove_all: tools/gen_removeall.py


class Unrecognised(Exception):
    pass


def src(node: ast.AST) -> str:
    return ast.unparse(node)


def is_self_attr(n: ast.AST, attr: str | None = None) -> bool:
    return (isinstance(n, ast.Attribute) and isinstance(n.value, ast.Name) and n.value.id == 'self'
            and (attr is None or n.attr == attr))


def is_none(n: ast.AST) -> bool:
    return isinstance(n, ast.Constant) and n.value is None


def exits(stmts: list[ast.stmt]) -> bool:
    """the block never falls through"""
    if not stmts:
        return False
    last = stmts[-1]
    if isinstance(last, (ast.Return, ast.Raise, ast.Break)):
        return True
    if isinstance(last, ast.If):
        return exits(last.body) and bool(last.orelse) and exits(last.orelse)
    return False


class Ctx:
    """translation context of one method (or loop) body"""

    def __init__(self, tr: 'Translator') -> None:
        self.tr = tr
        self.locals: dict[str, tuple[str, str]] = {}     # python name -> (type, coq name)
        self.alias: set[str] = set()                     # names bound to self.jobs (the deque object)
        self.kx = 'kx'                                   # exception continuation in force
        self.kbreak: str | None = None                   # inside a loop: what `break` does
        self.knext: str | None = None                    # inside a loop: what the end of the body does
        self.exc_src: str | None = None                  # inside an except handler: the EHandler source

    def copy(self) -> 'Ctx':
        c = Ctx(self.tr)
        c.locals = dict(self.locals)
        c.alias = set(self.alias)
        c.kx, c.kbreak, c.knext, c.exc_src = self.kx, self.kbreak, self.knext, self.exc_src
        return c


class Translator:
    def __init__(self) -> None:
        self.n = 0
        self.loops: list[tuple[str, str]] = []      # (name, definition text)

    def fresh(self, base: str) -> str:
        self.n += 1
        return f'{base}{self.n}'

    # -- expressions ------------------------------------------------------------------------------------
    def is_queue(self, n: ast.AST, ctx: Ctx) -> bool:
        return is_self_attr(n, 'jobs') or (isinstance(n, ast.Name) and n.id in ctx.alias)

    def is_now(self, n: ast.AST) -> bool:
        return (isinstance(n, ast.Call) and isinstance(n.func, ast.Attribute) and n.func.attr == 'now'
                and isinstance(n.func.value, ast.Name) and n.func.value.id == 'Instant' and not n.args and not n.keywords)

    def head(self, n: ast.AST, ctx: Ctx) -> bool:
        """<queue>[0]"""
        return (isinstance(n, ast.Subscript) and self.is_queue(n.value, ctx)
                and isinstance(n.slice, ast.Constant) and n.slice.value == 0)

    def expr(self, n: ast.AST, ctx: Ctx) -> tuple[str, str, list]:
        """-> (type, coq text, preludes).  A prelude is a function text -> text wrapped around everything that
        follows (the head of a possibly empty deque: IndexError)."""
        if isinstance(n, ast.Name):
            if n.id in ctx.locals:
                t, c = ctx.locals[n.id]
                return t, c, []
            raise Unrecognised(f'name {n.id}')
        if is_none(n):
            return 'none', 'None', []
        if isinstance(n, ast.Constant) and n.value == 0 and not isinstance(n.value, bool):
            return 'zero', '0', []
        if is_self_attr(n, '_enabled'):
            return 'bool', '(enabled s)', []
        if is_self_attr(n, 'timer'):
            return 'handle', '(timer s)', []
        if self.is_now(n):
            return 'instant', '(now s)', []
        if self.head(n, ctx):
            h = self.fresh('h')
            return 'job', h, [lambda body, h=h, kx=ctx.kx:
                              f'match queue s with\n| [] => {kx} s XIndex\n| {h} :: _ =>\n{body}\nend']
        if isinstance(n, ast.Attribute) and n.attr == 'next_run':
            t, c, pre = self.expr(n.value, ctx)
            if t != 'job':
                raise Unrecognised(f'next_run of {src(n.value)}')
            return 'optinstant', f'(jnext (jobs s {c}))', pre
        if isinstance(n, ast.BinOp) and isinstance(n.op, ast.Sub):
            ta, ca, pa = self.expr(n.left, ctx)
            tb, cb, pb = self.expr(n.right, ctx)
            if ta == 'instant' and tb == 'instant':
                return 'delta', f'({ca} - {cb})', pa + pb
            raise Unrecognised(f'difference {src(n)}')
        if (isinstance(n, ast.Call) and isinstance(n.func, ast.Attribute) and n.func.attr == 'in_seconds'
                and not n.args and not n.keywords):
            t, c, pre = self.expr(n.func.value, ctx)
            if t != 'delta':
                raise Unrecognised(f'in_seconds of {src(n.func.value)}')
            return 'seconds', c, pre
        raise Unrecognised(f'expression {src(n)}')

    def test(self, n: ast.AST, ctx: Ctx) -> tuple[str, list]:
        """a condition -> (coq bool text, preludes); walrus targets become locals / aliases of ctx"""
        if isinstance(n, ast.UnaryOp) and isinstance(n.op, ast.Not):
            c, pre = self.test(n.operand, ctx)
            if c.startswith('negb '):
                return c[5:], pre
            return f'negb {c}', pre
        if isinstance(n, ast.BoolOp):
            parts, pre = [], []
            for v in n.values:
                c, p = self.test(v, ctx)
                if p and parts:
                    raise Unrecognised(f'partial expression after a short-circuit operator: {src(n)}')
                parts.append(c)
                pre += p
            op = ' || ' if isinstance(n.op, ast.Or) else ' && '
            return '(' + op.join(parts) + ')', pre
        if isinstance(n, ast.NamedExpr):
            if is_self_attr(n.value, 'jobs'):
                ctx.alias.add(n.target.id)
                return 'negb (is_nil (queue s))', []
            raise Unrecognised(f'walrus in a truth test: {src(n)}')
        if self.is_queue(n, ctx):
            return 'negb (is_nil (queue s))', []
        if is_self_attr(n, '_enabled'):
            return '(enabled s)', []
        if isinstance(n, ast.Name) and n.id in ctx.locals and ctx.locals[n.id][0] == 'bool':
            return ctx.locals[n.id][1], []
        if isinstance(n, ast.Compare) and len(n.ops) == 1:
            op, a, b = n.ops[0], n.left, n.comparators[0]
            if (isinstance(op, ast.Is) and isinstance(a, ast.Attribute) and a.attr == 'status'
                    and isinstance(b, ast.Name) and b.id == 'STATUS_RUNNING'):
                t, c, pre = self.expr(a.value, ctx)
                if t != 'job':
                    raise Unrecognised(f'status of {src(a.value)}')
                return f'status_eqb (jstatus (jobs s {c})) Running', pre
            ta, ca, pa = self.expr(a, ctx)
            tb, cb, pb = self.expr(b, ctx)
            if isinstance(op, ast.Is) and ta == 'job' and tb == 'job':
                return f'Nat.eqb {ca} {cb}', pa + pb
            if isinstance(op, ast.Eq) and ta == 'bool' and tb == 'bool':
                return f'Bool.eqb {ca} {cb}', pa + pb
            num = {('instant', 'instant'), ('seconds', 'zero')}
            if (ta, tb) in num:
                if isinstance(op, ast.Gt):
                    return f'({cb} <? {ca})', pa + pb
                if isinstance(op, ast.LtE):
                    return f'({ca} <=? {cb})', pa + pb
                if isinstance(op, ast.Lt):
                    return f'({ca} <? {cb})', pa + pb
                if isinstance(op, ast.GtE):
                    return f'({cb} <=? {ca})', pa + pb
        raise Unrecognised(f'condition {src(n)}')

    # -- statements -------------------------------------------------------------------------------------
    def wrap(self, pre: list, body: str) -> str:
        for p in reversed(pre):
            body = p(body)
        return body

    def call(self, callee: str, ctx: Ctx, k: str) -> str:
        e = self.fresh('e')
        return (f'match {callee} with\n| None => None\n| Some (s, r) =>\n  match r with\n  | Ret => {k}\n'
                f'  | Exc {e} => {ctx.kx} s {e}\n  end\nend')

    def block(self, stmts: list[ast.stmt], ctx: Ctx, k: str) -> str:
        """translate stmts; [k] is the coq text that continues after the block (uses the state variable s)"""
        if not stmts:
            return k
        st, rest = stmts[0], stmts[1:]

        def cont(c: Ctx | None = None) -> str:
            return self.block(rest, c or ctx, k)

        # docstrings / pass
        if isinstance(st, ast.Pass) or (isinstance(st, ast.Expr) and isinstance(st.value, ast.Constant)):
            return cont()
        if isinstance(st, ast.Return):
            if st.value is None or is_none(st.value) or (isinstance(st.value, ast.Name) and st.value.id == 'self'):
                return 'kret s'
            raise Unrecognised(f'return value {src(st.value)}')
        if isinstance(st, ast.Break):
            if ctx.kbreak is None:
                raise Unrecognised('break outside a loop')
            return ctx.kbreak
        if isinstance(st, ast.Raise):
            if (isinstance(st.exc, ast.Call) and isinstance(st.exc.func, ast.Name)
                    and st.exc.func.id == 'JobExecutionTimeIsNotSetError' and not st.exc.args):
                return f'{ctx.kx} s XTimeNotSet'
            raise Unrecognised(f'raise {src(st)}')
        if isinstance(st, ast.Assign) and len(st.targets) == 1:
            return self.assign(st.targets[0], st.value, ctx, cont)
        if isinstance(st, ast.AnnAssign) and st.value is not None:
            return self.assign(st.target, st.value, ctx, cont)
        if isinstance(st, ast.Expr) and isinstance(st.value, ast.Call):
            return self.call_stmt(st.value, ctx, cont)
        if isinstance(st, ast.If):
            return self.if_stmt(st, rest, ctx, k)
        if isinstance(st, ast.While):
            return self.while_stmt(st, ctx, cont)
        if isinstance(st, ast.Try):
            return self.try_stmt(st, rest, ctx, k)
        raise Unrecognised(f'statement {src(st)[:80]}')

    def assign(self, target: ast.AST, value: ast.AST, ctx: Ctx, cont) -> str:
        if is_self_attr(target, 'timer'):
            if is_none(value):
                return f'let s := set_timer_f None s in\n{cont()}'
            # self._loop.call_at(self._loop.time() + d, self.run_jobs)
            v = value
            if (isinstance(v, ast.Call) and isinstance(v.func, ast.Attribute) and v.func.attr == 'call_at'
                    and is_self_attr(v.func.value, '_loop') and len(v.args) == 2 and not v.keywords
                    and is_self_attr(v.args[1], 'run_jobs')):
                when = v.args[0]
                if (isinstance(when, ast.BinOp) and isinstance(when.op, ast.Add) and isinstance(when.left, ast.Call)
                        and isinstance(when.left.func, ast.Attribute) and when.left.func.attr == 'time'
                        and is_self_attr(when.left.func.value, '_loop') and not when.left.args):
                    t, c, pre = self.expr(when.right, ctx)
                    if t == 'seconds' and not pre:
                        return f'let s := set_timer_f (Some (now s + {c})) s in\n{cont()}'
            raise Unrecognised(f'self.timer = {src(value)}')
        if is_self_attr(target, '_enabled'):
            t, c, pre = self.expr(value, ctx)
            if t == 'bool' and not pre:
                return f'let s := set_enabled_f {c} s in\n{cont()}'
            raise Unrecognised(f'self._enabled = {src(value)}')
        if isinstance(target, ast.Name):
            name = target.id
            if is_self_attr(value, 'jobs'):
                ctx.alias.add(name)
                ctx.locals.pop(name, None)
                return cont()
            if name in ctx.alias:
                raise Unrecognised(f'{name} (an alias of self.jobs) is rebound')
            # a comparison result
            if isinstance(value, ast.Compare):
                c, pre = self.test(value, ctx)
                v = f'v_{name}'
                ctx.locals[name] = ('bool', v)
                return self.wrap(pre, f'let {v} := {c} in\n{cont()}')
            t, c, pre = self.expr(value, ctx)
            if t in ('job', 'seconds', 'instant', 'optinstant', 'handle', 'bool'):
                v = f'v_{name}'
                ctx.locals[name] = (t, v)
                return self.wrap(pre, f'let {v} := {c} in\n{cont()}')
        raise Unrecognised(f'assignment {src(target)} = {src(value)}')

    def call_stmt(self, c: ast.Call, ctx: Ctx, cont) -> str:
        f = c.func
        if c.keywords:
            raise Unrecognised(f'call {src(c)}')
        # self.<method>(...)
        if is_self_attr(f) and f.attr in RCALL:
            args = []
            for a in c.args:
                t, ca, pre = self.expr(a, ctx)
                if t != 'job' or pre:
                    raise Unrecognised(f'argument {src(a)}')
                args.append(ca)
            want = 1 if f.attr in ('add_job', 'remove_job') else 0
            if len(args) != want:
                raise Unrecognised(f'call {src(c)}')
            return self.call(' '.join([f'{RCALL[f.attr]} R'] + args + ['s']), ctx, cont())
        if isinstance(f, ast.Attribute) and isinstance(f.value, ast.Name):
            obj, meth = f.value.id, f.attr
            if meth == 'cancel' and not c.args and obj in ctx.locals and ctx.locals[obj][0] == 'handle':
                return f'let s := cancel_handle {ctx.locals[obj][1]} s in\n{cont()}'
            if meth == 'popleft' and not c.args and obj in ctx.alias:
                q = self.fresh('q')
                return f'match queue s with\n| [] => {ctx.kx} s XIndex\n| _ :: {q} =>\nlet s := set_queue {q} s in\n{cont()}\nend'
            if meth == 'remove' and len(c.args) == 1 and obj in ctx.alias:
                t, ca, pre = self.expr(c.args[0], ctx)
                if t == 'job' and not pre:
                    return (f'if memb {ca} (queue s) then\nlet s := set_queue (remove_first {ca} (queue s)) s in\n{cont()}\n'
                            f'else {ctx.kx} s XValue')
            if meth == 'execute' and not c.args and obj in ctx.locals and ctx.locals[obj][0] == 'job':
                return self.call(f'r_execute R {ctx.locals[obj][1]} s', ctx, cont())
        if isinstance(f, ast.Name) and f.id == 'insort' and len(c.args) == 2 and self.is_queue(c.args[0], ctx):
            t, ca, pre = self.expr(c.args[1], ctx)
            if t == 'job' and not pre:
                return f'let s := set_queue (insort s {ca} (queue s)) s in\n{cont()}'
        if isinstance(f, ast.Name) and f.id == 'process_exception' and len(c.args) == 1 and ctx.exc_src is not None:
            return f'let s := add_ev (EHandler {ctx.exc_src}) s in\n{cont()}'
        raise Unrecognised(f'call {src(c)}')

    def if_stmt(self, st: ast.If, rest: list[ast.stmt], ctx: Ctx, k: str) -> str:
        t = st.test
        # None tests with narrowing:  if (x := E) is None / is not None   |   if x is None
        if isinstance(t, ast.Compare) and len(t.ops) == 1 and is_none(t.comparators[0]) \
                and isinstance(t.ops[0], (ast.Is, ast.IsNot)):
            lhs = t.left
            pre_let = ''
            pre: list = []
            if isinstance(lhs, ast.NamedExpr):
                name = lhs.target.id
                ty, c, pre = self.expr(lhs.value, ctx)
                v = f'v_{name}'
                pre_let = f'let {v} := {c} in\n'
                ctx.locals[name] = (ty, v)
            elif isinstance(lhs, ast.Name) and lhs.id in ctx.locals:
                name = lhs.id
                ty, v = ctx.locals[name]
            else:
                raise Unrecognised(f'None test on {src(lhs)}')
            if ty not in ('optinstant', 'handle'):
                raise Unrecognised(f'None test on a {ty}: {src(t)}')
            if st.orelse:
                raise Unrecognised('None test with an else branch')
            if isinstance(t.ops[0], ast.Is):
                if not exits(st.body):
                    raise Unrecognised('`if x is None:` whose body falls through')
                none_branch = self.block(st.body, ctx.copy(), k)
                c2 = ctx.copy()
                if ty == 'optinstant':
                    c2.locals[name] = ('instant', v)       # narrowed: rebound by the match below
                some_branch = self.block(rest, c2, k)
                body = f'{pre_let}match {v} with\n| None =>\n{none_branch}\n| Some {v} =>\n{some_branch}\nend'
                return self.wrap(pre, body)
            # is not None: the body may fall through; the value keeps its option type inside
            kn = self.fresh('k')
            after = self.block(rest, ctx.copy(), k)
            inner = self.block(st.body, ctx.copy(), f'{kn} s')
            body = (f'{pre_let}let {kn} := fun s : st =>\n{after}\nin\nmatch {v} with\n| Some _ =>\n{inner}\n'
                    f'| None => {kn} s\nend')
            return self.wrap(pre, body)
        c, pre = self.test(t, ctx)
        if exits(st.body) and not st.orelse:
            then = self.block(st.body, ctx.copy(), k)
            els = self.block(rest, ctx, k)
            return self.wrap(pre, f'if {c} then\n{then}\nelse\n{els}')
        kn = self.fresh('k')
        after = self.block(rest, ctx.copy(), k)
        then = self.block(st.body, ctx.copy(), f'{kn} s')
        els = self.block(st.orelse, ctx.copy(), f'{kn} s') if st.orelse else f'{kn} s'
        return self.wrap(pre, f'let {kn} := fun s : st =>\n{after}\nin\nif {c} then\n{then}\nelse\n{els}')

    def while_stmt(self, st: ast.While, ctx: Ctx, cont) -> str:
        if st.orelse:
            raise Unrecognised('while ... else')
        if ctx.kbreak is not None:
            raise Unrecognised('nested loops')
        if self.loops:
            raise Unrecognised('more than one loop (rec has one loop entry)')
        c, pre = self.test(st.test, ctx)
        if pre:
            raise Unrecognised('partial loop condition')
        lc = Ctx(self)
        lc.alias = set(ctx.alias)            # the loop body is its own function: only the alias survives
        lc.kbreak = 'kret s'
        body = self.block(st.body, lc, 'r_run_jobs_loop R s')
        self.loops.append(('g_run_jobs_loop', f'if {c} then\n{body}\nelse kret s'))
        return self.call('r_run_jobs_loop R s', ctx, cont())

    def try_stmt(self, st: ast.Try, rest: list[ast.stmt], ctx: Ctx, k: str) -> str:
        if st.orelse or st.finalbody or len(st.handlers) != 1:
            raise Unrecognised('try with else / finally / several handlers')
        h = st.handlers[0]
        hname = h.type.id if isinstance(h.type, ast.Name) else None
        kn = self.fresh('k')
        after = self.block(rest, ctx.copy(), k)
        if hname == 'ValueError' and len(h.body) == 1 and isinstance(h.body[0], ast.Pass):
            # try: <deque>.remove(x)  except ValueError: pass
            kxn = self.fresh('kx')
            c2 = ctx.copy()
            c2.kx = kxn
            body = self.block(st.body, c2, f'{kn} s')
            e = self.fresh('e')
            return (f'let {kn} := fun s : st =>\n{after}\nin\n'
                    f'let {kxn} := fun (s : st) ({e} : gexn) => match {e} with XValue => {kn} s | _ => {ctx.kx} s {e} end in\n{body}')
        if hname == 'Exception' and h.name:
            # the source tag of the handler event: the job whose execute() is in the try body, else the loop
            def walk_outside_inner_try(nodes):
                for n in nodes:
                    if isinstance(n, ast.Try):
                        continue            # an inner try has its own handler
                    yield n
                    yield from walk_outside_inner_try(ast.iter_child_nodes(n))
            srcs = [n.func.value.id for n in walk_outside_inner_try(st.body)
                    if isinstance(n, ast.Call) and isinstance(n.func, ast.Attribute) and n.func.attr == 'execute'
                    and isinstance(n.func.value, ast.Name)]
            if len(srcs) == 1 and srcs[0] in ctx.locals and ctx.locals[srcs[0]][0] == 'job':
                tag = f'(HJob {ctx.locals[srcs[0]][1]})'
            elif not srcs:
                tag = 'HLoop'
            else:
                raise Unrecognised('cannot attribute the exception handler')
            kxn = self.fresh('kx')
            hc = ctx.copy()
            hc.exc_src = tag
            handler = self.block(h.body, hc, f'{kn} s')
            c2 = ctx.copy()
            c2.kx = kxn
            body = self.block(st.body, c2, f'{kn} s')
            e = self.fresh('e')
            return (f'let {kn} := fun s : st =>\n{after}\nin\n'
                    f'let {kxn} := fun (s : st) ({e} : gexn) =>\n{handler}\nin\n{body}')
        raise Unrecognised(f'except {src(h.type) if h.type else ""}')

    # -- methods ----------------------------------------------------------------------------------------
    def method(self, fn: ast.FunctionDef) -> str:
        params = [a.arg for a in fn.args.args]
        if params[0] != 'self' or fn.args.vararg or fn.args.kwarg or fn.args.kwonlyargs or fn.args.defaults:
            raise Unrecognised(f'signature of {fn.name}')
        ctx = Ctx(self)
        sig = []
        for p in params[1:]:
            ty = {'enabled': 'bool', 'job': 'job'}.get(p)
            if ty is None:
                raise Unrecognised(f'parameter {p} of {fn.name}')
            ctx.locals[p] = (ty, f'v_{p}')
            sig.append(f'(v_{p} : {"bool" if ty == "bool" else "nat"})')
        body = self.block(fn.body, ctx, 'kret s')
        name = 'g_' + fn.name.lstrip('_')
        return (f'Definition {name} (R : rec) {" ".join(sig)} (s : st) : M :=\n'
                f'let kret := fun s : st => Some (s, Ret) in\n'
                f'let kx := fun (s : st) (e : gexn) => Some (s, Exc e) in\n{body}.\n')


HEADER = '''(* GenSched.v — WRITTEN BY tools/gen_sched.py FROM /repo/src/eascheduler/schedulers/async_scheduler.py ON EVERY RUN.
   Do not edit.  See coq/theories/GenRt.v for the runtime and coq/theories/GenSchedEq.v for the proofs. *)
From EAS Require Import Base Sched GenRt.
From Coq Require Import String.

Inductive gen_sched_status := GenSchedOk | GenSchedError (what : string).
'''


def indent(text: str) -> str:
    out, depth = [], 0
    for line in text.splitlines():
        s = line.strip()
        if s.startswith('end') or s.startswith('in') and (s == 'in' or s.startswith('in ')):
            depth = max(0, depth - 1)
        out.append('  ' * min(depth, 12) + s)
        if s.startswith('match ') and not s.endswith('end') or s.endswith(':= fun s : st =>') or s.endswith('=>') and s.startswith('let '):
            depth += 1
    return '\n'.join(out)


def generate(repo: Path) -> str:
    path = repo / 'src/eascheduler/schedulers/async_scheduler.py'
    mod = ast.parse(path.read_text(encoding='utf-8'), filename=str(path))
    cls = [n for n in mod.body if isinstance(n, ast.ClassDef) and n.name == 'AsyncScheduler']
    if len(cls) != 1:
        raise Unrecognised('class AsyncScheduler')
    fns = {n.name: n for n in cls[0].body if isinstance(n, ast.FunctionDef)}
    extra = sorted(set(fns) - set(METHODS) - set(NOT_TRANSLATED))
    if extra:
        raise Unrecognised(f'methods this translator does not know: {extra}')
    for n in cls[0].body:
        if isinstance(n, (ast.AsyncFunctionDef, ast.ClassDef)):
            raise Unrecognised(f'unexpected member {n.name}')
    tr = Translator()
    defs = []
    for m in METHODS:
        if m not in fns:
            raise Unrecognised(f'method {m} is missing')
        if fns[m].decorator_list and [src(d) for d in fns[m].decorator_list] != ['override']:
            raise Unrecognised(f'decorators of {m}')
        defs.append(tr.method(fns[m]))
    if len(tr.loops) != 1:
        raise Unrecognised('expected exactly one loop (in run_jobs)')
    lname, lbody = tr.loops[0]
    loop_def = (f'Definition {lname} (R : rec) (s : st) : M :=\n'
                f'let kret := fun s : st => Some (s, Ret) in\n'
                f'let kx := fun (s : st) (e : gexn) => Some (s, Exc e) in\n{lbody}.\n')
    text = HEADER + '\nDefinition gen_sched_status_v : gen_sched_status := GenSchedOk.\n\n'
    text += '\n'.join(indent(d) + '\n' for d in [loop_def] + defs)
    text += f'\n(* not translated: {", ".join(NOT_TRANSLATED)} *)\n'
    return text


def main() -> int:
    repo, out = Path(sys.argv[1]), Path(sys.argv[2])
    try:
        text = generate(repo)
        rc = 0
    except (Unrecognised, OSError, SyntaxError, KeyError, IndexError, AttributeError) as e:
        msg = str(e).replace('"', "'").replace('\n', ' ')[:300]
        text = HEADER + f'\nDefinition gen_sched_status_v : gen_sched_status := GenSchedError "{msg}".\n'
        print(f'gen_sched: not recognised: {msg}', file=sys.stderr)
        rc = 0          # fail closed inside Coq: GenSchedEq.v does not compile without the definitions
    old = out.read_text() if out.exists() else None
    if old != text:
        out.write_text(text)
    return rc


if __name__ == '__main__':
    sys.exit(main())
