#!/usr/bin/env python3
"""gen_dst.py — fail-closed translator: src/eascheduler/helpers/dst_param.py  ->  coq/gen/GenDst.v.

The functions _iter_nr, _iter_date, find_time, _setup, check_dst_handling and the `required` methods of
DstHandlingRequiredBool / DstHandlingRequiredDate are translated statement by statement into Gallina, in the runtime
of coq/theories/GenRtDst.v (explicit module globals, explicit exceptions, `for` / `while` as combinators over a body
that answers Next / Brk / Retn / Throw / Stuck, continuation passing for if / try / match / return / raise / break).
coq/theories/GenDstEq.v then proves that the generated functions compute what the hand-written model of Dst.v
computes, so the theorems of DstFacts.v are theorems about what the file says today.  Shared with gen_sched.py (by
import, gen_sched.py is unchanged): Unrecognised, src, is_none.

Anything outside the vocabulary raises Unrecognised: the generated file then carries
[gen_dst_status_v = GenDstError "..."] and no definitions, and GenDstEq.v does not compile (fail closed).

TRUSTED translation rules (what the translation ASSUMES; everything else is proved in GenDstEq.v):
  T1  whenever.Time is the number of nanoseconds since midnight (Z); Time(h, m, s, ns) = h*HOUR + m*MINUTE + s*NS + ns;
      .hour / .minute / .second / .nanosecond are its mixed-radix digits; .replace(hour=, minute=, second=,
      nanosecond=) swaps digits (GenRtDst.time_replace); <= on Time is <= on that number.
  T2  whenever.SystemDateTime is its instant (Z ns).  SystemDateTime.now() reads the world's clock [w_now]; ALL reads
      during one call see the same instant (so both find_time rounds of one _setup() use the same year).
      .year / .month are local_year / local_month of Time.to_local over the world's table [w_tz].
      Instant.now().to_tz('UTC').year (not in the pinned source; kept so that this change is translated and
      refuted rather than unrecognised) is local_year of the bare instant.
  T3  SystemDateTime(y, m, d) is local midnight with disambiguate='compatible': the earlier instant of a repeated
      midnight, a skipped midnight moved forward by the gap; it does not raise (GenRtDst.sdt_make = Dst.sys_midnight;
      no answer on the table = stuck).
  T4  dt.add(hours=n) adds n elapsed hours to the instant.
  T5  dt.replace_time(t, disambiguate='raise') raises SkippedTime when no instant of the table shows (date of dt, t),
      RepeatedTime when two or more do, and returns otherwise (Dst.replace_raise over Time.candidates); its value
      is not used.
  T6  a generator function is the LIST of the values it yields (collected newest first in [acc], reversed at the
      end) and `for x in gen(...)` iterates over that list:
      generator bodies only read the world and (checked) contain no raise / try / global access, so laziness cannot
      be observed.  A generator that is stuck makes its consumer stuck.
  T7  a tuple of ints is a list; reversed(<tuple>) is an ITERATOR; `for x in it` takes all items; `x in it` is only
      accepted after a complete `for ... in it` over the same name in the same function (no break / return in that
      loop): then a tuple still holds its items and an iterator is exhausted, the test is False and consumes
      nothing (GenRtDst.it_mem_after).  range(a, b) = Dst.zrange.
  T8  `while` runs at most GenRtDst.LOOP_FUEL (= Dst.WALK_FUEL = 40) rounds, then the runtime is stuck.
  T9  log.debug / log.error(...) have no effect on the result; their arguments (f-strings with dt.date()) are not
      translated.  Exception messages are not modelled: `msg = '...'` is dropped, ValueError(msg) is XValue.
  T10 `for n in (<str constants>): del globals()[n]` (removing the set-up functions from the module after a
      successful set-up) has no effect on this or later calls: _setup() is only called while a global is None and a
      _setup() that returned normally is followed by the two asserts.
  T11 classes: DstHandlingRequiredBool(v) / DstHandlingRequiredDate(l, u) are the constructors RBool / RDate of
      Dst.req (the translator checks that __init__ stores each parameter in the attribute of the same name);
      x.required(t) dispatches on the constructor to the translated method; on None it raises AttributeError.
      DstHandlingRequiredBase is never instantiated (checked: no constructor call), __repr__ is not translated.
  T12 the str literals 'forward' / 'backward' are Coq strings, `match` on them is String.eqb; `x is False` /
      `x is True` on find_time's result is a test on the constructor FBool; unpacking a bool raises TypeError.
  T13 a variable annotated HINT_CLOCK_FORWARD / HINT_CLOCK_BACKWARD is an option; assigning an enum member wraps it
      in Some; SkippedTimeBehavior.X / RepeatedTimeBehavior.X are the constructors of Replace.skipped_pol /
      repeated_pol; check_dst_handling returns the pair of these variables as they are (options).
  T14 module globals TIME_FORWARD / TIME_BACKWARD are the fields g_fwd / g_bwd of Dst.globals, initially as assigned
      at module level (checked: None); a function that touches them (directly or through a callee) takes and
      returns the record, also when it raises.
  T15 a `try` body may not assign a variable that is bound before the `try` (checked), so the handler sees the locals
      as they were at `try`; what the body binds is visible in the else-clause only.

usage: gen_dst.py <repo_root> <out_file>
"""
from __future__ import annotations

import ast
import sys
from pathlib import Path

sys.path.insert(0, str(Path(__file__).resolve().parent))
from gen_sched import Unrecognised, is_none, src  # noqa: E402

FUNCS = ['_iter_nr', '_iter_date', 'find_time', '_setup', 'check_dst_handling']
GLOBALS = {'TIME_FORWARD': 'fwd', 'TIME_BACKWARD': 'bwd'}
CLASSES = {'DstHandlingRequiredBool': ('RBool', ['value'], ['bool']),
           'DstHandlingRequiredDate': ('RDate', ['lower', 'upper'], ['time', 'time'])}
BASE_CLASS = 'DstHandlingRequiredBase'
ENUMS = {'SkippedTimeBehavior': ('skip', {'SKIP': 'SkSkip', 'EARLIER': 'SkEarlier', 'LATER': 'SkLater', 'AFTER': 'SkAfter'}),
         'RepeatedTimeBehavior': ('rep', {'SKIP': 'RpSkip', 'EARLIER': 'RpEarlier', 'LATER': 'RpLater', 'TWICE': 'RpTwice'})}
EXN_CLASS = {'SkippedTime': 'XSkipped', 'RepeatedTime': 'XRepeated', 'ValueError': 'XValue', 'TypeError': 'XType',
             'AttributeError': 'XAttr', 'AssertionError': 'XAssert', 'NotImplementedError': 'XNotImplemented'}
ALL_EXN = ['XSkipped', 'XRepeated', 'XValue', 'XType', 'XAttr', 'XAssert', 'XNotImplemented']
ANNOT = {'int': 'int', 'bool': 'bool', 'Time': 'time', 'Iterable[int]': 'iterable', 'None': 'none',
         'HINT_CLOCK_FORWARD': 'optskip', 'HINT_CLOCK_BACKWARD': 'optrep',
         "bool | tuple[Literal['forward', 'backward'], Time, Time]": 'ftval',
         'tuple[HINT_SKIPPED, HINT_REPEATED]': ('tuple', 'optskip', 'optrep'),
         'Generator[int, None, None]': ('list', 'int'),
         'Generator[tuple[SystemDateTime, Time], None, None]': ('list', ('tuple', 'sdt', 'time'))}
COQ_TY = {'int': 'Z', 'bool': 'bool', 'time': 'Z', 'sdt': 'Z', 'inttuple': 'list Z', 'iterable': 'iterable',
          'str': 'string', 'ftval': 'ftval', 'req': 'req', 'optreq': 'option req', 'skip': 'skipped_pol',
          'rep': 'repeated_pol', 'optskip': 'option skipped_pol', 'optrep': 'option repeated_pol', 'exn': 'dexn',
          'none': 'unit', 'globals': 'globals', 'utc': 'Z'}
OPT_OF = {'optskip': 'skip', 'optrep': 'rep', 'optreq': 'req'}


def cty(t) -> str:
    if isinstance(t, tuple):
        if t[0] == 'list':
            return f'(list {cty(t[1])})'
        if t[0] == 'tuple':
            return '(' + ' * '.join(cty(x) for x in t[1:]) + ')%type'
    if t in COQ_TY:
        return COQ_TY[t]
    raise Unrecognised(f'no Coq type for {t}')


def tup(names: list[str]) -> str:
    return 'tt' if not names else names[0] if len(names) == 1 else '(' + ', '.join(names) + ')'


def tup_ty(types: list) -> str:
    return 'unit' if not types else cty(types[0]) if len(types) == 1 else '(' + ' * '.join(cty(t) for t in types) + ')%type'


def ann_type(node: ast.AST | None, what: str):
    if node is None:
        raise Unrecognised(f'missing annotation: {what}')
    t = ANNOT.get(src(node))
    if t is None:
        raise Unrecognised(f'annotation {src(node)} ({what})')
    return t


def exits(stmts: list[ast.stmt]) -> bool:
    """the block never falls through"""
    if not stmts:
        return False
    last = stmts[-1]
    if isinstance(last, (ast.Return, ast.Raise, ast.Break, ast.Continue)):
        return True
    if isinstance(last, ast.If):
        return exits(last.body) and bool(last.orelse) and exits(last.orelse)
    if isinstance(last, ast.Match):
        p = last.cases[-1].pattern
        wild = isinstance(p, ast.MatchAs) and p.pattern is None and p.name is None and last.cases[-1].guard is None
        return wild and all(exits(c.body) for c in last.cases)
    if isinstance(last, ast.Try) and not last.finalbody:
        return exits(last.body + last.orelse) and all(exits(h.body) for h in last.handlers)
    return False


def walk_no_defs(nodes):
    for n in nodes:
        yield n
        if not isinstance(n, (ast.FunctionDef, ast.Lambda, ast.ClassDef)):
            yield from walk_no_defs(ast.iter_child_nodes(n))


def has_yield(stmts) -> bool:
    return any(isinstance(n, (ast.Yield, ast.YieldFrom)) for n in walk_no_defs(stmts))


def has_break(stmts) -> bool:
    """a break / return that leaves THIS loop body early (breaks of nested loops do not count, returns do)"""
    for st in stmts:
        if isinstance(st, (ast.Break, ast.Return)):
            return True
        if isinstance(st, (ast.For, ast.While)):
            if any(isinstance(n, ast.Return) for n in walk_no_defs(st.body + st.orelse)) or has_break(st.orelse):
                return True
            continue
        subs = []
        for f in ('body', 'orelse', 'finalbody'):
            subs += getattr(st, f, []) or []
        for h in getattr(st, 'handlers', []) or []:
            subs += h.body
        for c in getattr(st, 'cases', []) or []:
            subs += c.body
        if has_break(subs):
            return True
    return False


class Fn:
    """what the translator knows about one translated function"""

    def __init__(self, name: str, node: ast.FunctionDef, coq: str) -> None:
        self.name, self.node, self.coq = name, node, coq
        self.params: list[tuple[str, object, ast.AST | None]] = []    # (name, type, default)
        self.ret = None
        self.gen = False
        self.stateful = False
        self.globals_decl: set[str] = set()


class Loop:
    def __init__(self, threaded: list[str], candidates: list[str]) -> None:
        self.threaded = threaded
        self.candidates = candidates          # assigned in the loop, not bound before
        self.payload: list[tuple[str, object]] | None = None     # extra (name, type) carried by break


class Ctx:
    def __init__(self, fn: Fn) -> None:
        self.fn = fn
        self.locals: dict[str, tuple[object, str]] = {}    # python name -> (type, coq name); '$G', '$acc' implicit
        self.exhausted: set[str] = set()
        self.kret_raw = 'ORet'
        self.kx_raw = 'OExc'
        self.stuck = 'OStuck'
        self.loop: Loop | None = None

    def copy(self) -> 'Ctx':
        c = Ctx(self.fn)
        c.locals = dict(self.locals)
        c.exhausted = set(self.exhausted)
        c.kret_raw, c.kx_raw, c.stuck, c.loop = self.kret_raw, self.kx_raw, self.stuck, self.loop
        return c

    # payloads
    def retp(self, v: str) -> str:
        return f'(G, {v})' if self.fn.stateful else v

    def exnp(self, e: str) -> str:
        return f'(G, {e})' if self.fn.stateful else e

    def kret(self, v: str) -> str:
        return f'{self.kret_raw} {self.retp(v)}'

    def kx(self, e: str) -> str:
        return f'{self.kx_raw} {self.exnp(e)}'

    def ret_ty(self) -> str:
        t = cty(self.fn.ret)
        return f'(globals * {t})%type' if self.fn.stateful else t

    def exn_ty(self) -> str:
        return '(globals * dexn)%type' if self.fn.stateful else 'dexn'

    def bound(self, names) -> list[str]:
        """the names of [names] that are bound here, in binding order"""
        return [n for n in self.locals if n in names]

    def coq(self, names: list[str]) -> list[str]:
        return [self.locals[n][1] for n in names]

    def types(self, names: list[str]) -> list:
        return [self.locals[n][0] for n in names]


class Translator:
    ORDERED: tuple = ('int', 'time')            # types compared with < <= > >= == !=
    RET_SCALARS: tuple = ('bool', 'int', 'time')  # types returned as they are

    def __init__(self) -> None:
        self.n = 0
        self.fns: dict[str, Fn] = {}
        self.ctor_calls: set[str] = set()

    def fresh(self, base: str) -> str:
        self.n += 1
        return f'{base}{self.n}'

    # -- which variables a block may assign ---------------------------------------------------------------
    def assigned(self, stmts, fn: Fn) -> set[str]:
        out: set[str] = set()

        def tgt(t: ast.AST) -> None:
            if isinstance(t, ast.Name):
                out.add('$G' if t.id in fn.globals_decl else t.id)
            elif isinstance(t, (ast.Tuple, ast.List)):
                for e in t.elts:
                    tgt(e)
            elif isinstance(t, ast.Starred):
                tgt(t.value)
            # attribute / subscript targets are refused where they are translated

        for n in walk_no_defs(stmts):
            if isinstance(n, ast.Assign):
                for t in n.targets:
                    tgt(t)
            elif isinstance(n, (ast.AnnAssign, ast.AugAssign, ast.For, ast.NamedExpr)):
                tgt(n.target)
            elif isinstance(n, ast.ExceptHandler) and n.name:
                out.add(n.name)
            elif isinstance(n, (ast.Yield, ast.YieldFrom)):
                out.add('$acc')
            elif isinstance(n, ast.Call) and isinstance(n.func, ast.Name) and n.func.id in self.fns \
                    and self.fns[n.func.id].stateful:
                out.add('$G')
            elif isinstance(n, (ast.With, ast.AsyncWith, ast.Import, ast.ImportFrom, ast.Delete, ast.MatchAs,
                                ast.MatchStar, ast.MatchMapping)):
                if isinstance(n, ast.MatchAs) and n.name is None and n.pattern is None:
                    continue
                if isinstance(n, ast.Delete):
                    continue                      # only `del globals()[..]` is accepted, see block()
                raise Unrecognised(f'binding construct {type(n).__name__}')
        return out

    # -- calls of translated functions --------------------------------------------------------------------
    def call_fn(self, f: Fn, args: list[str], ctx: Ctx) -> tuple[object, str, list]:
        if f.stateful and not ctx.fn.stateful:
            raise Unrecognised(f'{ctx.fn.name} calls {f.name}, which touches the module globals')
        r, x, v = self.fresh('r'), self.fresh('x'), self.fresh('c')
        head = ' '.join([f.coq, 'W'] + (['G'] if f.stateful else []) + args)
        if f.stateful:
            ok = f"| ORet {r} => let '(G, {v}) := {r} in"
            exc = f'| OExc {x} => {ctx.kx_raw} {x}'
        else:
            ok = f'| ORet {v} =>'
            exc = f'| OExc {x} => {ctx.kx(x)}'
        stuck = ctx.stuck

        def pre(body: str) -> str:
            return f'match {head} with\n{ok}\n{body}\n{exc}\n| OStuck => {stuck}\nend'
        return f.ret, v, [pre]

    def bind_args(self, f: Fn, call: ast.Call, ctx: Ctx) -> tuple[list[str], list]:
        given: dict[str, ast.AST] = {}
        kwonly = {a.arg for a in f.node.args.kwonlyargs}
        pos = [p for p in f.params if p[0] not in kwonly]
        if len(call.args) > len(pos):
            raise Unrecognised(f'too many arguments: {src(call)}')
        for p, a in zip(pos, call.args):
            given[p[0]] = a
        for k in call.keywords:
            if k.arg is None or k.arg in given or k.arg not in [p[0] for p in f.params]:
                raise Unrecognised(f'keyword in {src(call)}')
            given[k.arg] = k.value
        texts, pres = [], []
        for name, ty, default in f.params:
            a = given.get(name, default)
            if a is None:
                raise Unrecognised(f'argument {name} missing in {src(call)}')
            t, c, p = self.expr(a, ctx)
            texts.append(self.coerce(t, c, ty, src(a)))
            pres += p
        return texts, pres

    def coerce(self, t, c: str, want, what: str) -> str:
        if t == want:
            return c
        if want == 'iterable' and t == 'inttuple':
            return f'(ITuple {c})'
        if want in OPT_OF and t == OPT_OF[want]:
            return f'(Some {c})'
        if want in OPT_OF and t == 'none':
            return 'None'
        if want == 'time' and t == 'time' or want == 'int' and t == 'int':
            return c
        raise Unrecognised(f'type of {what}: {t}, wanted {want}')

    def unify(self, ta, ca, tb, cb, what: str):
        if ta == tb:
            return ta, ca, cb
        for want in ('iterable', 'optskip', 'optrep', 'optreq'):
            try:
                return want, self.coerce(ta, ca, want, what), self.coerce(tb, cb, want, what)
            except Unrecognised:
                continue
        raise Unrecognised(f'branches of different types ({ta} / {tb}): {what}')

    # -- expressions ----------------------------------------------------------------------------------------
    def expr(self, n: ast.AST, ctx: Ctx) -> tuple[object, str, list]:
        """-> (type, coq text, preludes); a prelude is a function text -> text wrapped around what follows"""
        if isinstance(n, ast.Constant):
            v = n.value
            if v is None:
                return 'none', 'None', []
            if isinstance(v, bool):
                return 'bool', 'true' if v else 'false', []
            if isinstance(v, int):
                return 'int', str(v) if v >= 0 else f'({v})', []
            if isinstance(v, str) and '"' not in v and all(32 <= ord(ch) < 127 for ch in v):
                return 'str', f'"{v}"%string', []
            raise Unrecognised(f'constant {src(n)}')
        if isinstance(n, ast.Name):
            if n.id in ctx.locals:
                t, c = ctx.locals[n.id]
                if t == 'msg':
                    raise Unrecognised(f'use of the message text {n.id}')
                return t, c, []
            if n.id in GLOBALS:
                if not ctx.fn.stateful:
                    raise Unrecognised(f'{ctx.fn.name} reads {n.id} but is not known to touch the globals')
                return 'optreq', f'(g_{GLOBALS[n.id]} G)', []
            raise Unrecognised(f'name {n.id}')
        if isinstance(n, ast.Tuple) and n.elts and all(
                isinstance(e, ast.Constant) and isinstance(e.value, int) and not isinstance(e.value, bool) for e in n.elts):
            return 'inttuple', '[' + '; '.join(str(e.value) for e in n.elts) + ']', []
        if isinstance(n, ast.IfExp):
            c, pc = self.test(n.test, ctx)
            ta, ca, pa = self.expr(n.body, ctx)
            tb, cb, pb = self.expr(n.orelse, ctx)
            if pa or pb:
                raise Unrecognised(f'partial expression in a conditional expression: {src(n)}')
            t, ca, cb = self.unify(ta, ca, tb, cb, src(n))
            return t, f'(if {c} then {ca} else {cb})', pc
        if isinstance(n, ast.BinOp) and isinstance(n.op, (ast.Add, ast.Sub)):
            ta, ca, pa = self.expr(n.left, ctx)
            tb, cb, pb = self.expr(n.right, ctx)
            if ta == 'int' and tb == 'int':
                return 'int', f'({ca} {"+" if isinstance(n.op, ast.Add) else "-"} {cb})', pa + pb
            raise Unrecognised(f'arithmetic {src(n)}')
        if isinstance(n, (ast.Compare, ast.BoolOp)) or isinstance(n, ast.UnaryOp) and isinstance(n.op, ast.Not):
            c, p = self.test(n, ctx)
            return 'bool', c, p
        if isinstance(n, ast.Attribute):
            if isinstance(n.value, ast.Name) and n.value.id == 'self' and f'self.{n.attr}' in ctx.locals:
                t, c = ctx.locals[f'self.{n.attr}']
                return t, c, []
            if isinstance(n.value, ast.Name) and n.value.id in ENUMS and n.value.id not in ctx.locals:
                ty, members = ENUMS[n.value.id]
                if n.attr in members:
                    return ty, members[n.attr], []
                raise Unrecognised(f'enum member {src(n)}')
            t, c, p = self.expr(n.value, ctx)
            if t == 'sdt' and n.attr in ('year', 'month'):
                return 'int', f'(sdt_{n.attr} W {c})', p
            if t == 'utc' and n.attr == 'year':
                return 'int', f'(local_year {c})', p
            if t == 'time' and n.attr in ('hour', 'minute', 'second'):
                return 'int', f'(t_{n.attr} {c})', p
            if t == 'time' and n.attr == 'nanosecond':
                return 'int', f'(t_nano {c})', p
            raise Unrecognised(f'attribute {src(n)} of a {t}')
        if isinstance(n, ast.Call):
            return self.call_expr(n, ctx)
        raise Unrecognised(f'expression {src(n)}')

    def int_args(self, args: list[ast.AST], ctx: Ctx, what: str) -> tuple[list[str], list]:
        texts, pres = [], []
        for a in args:
            t, c, p = self.expr(a, ctx)
            if t != 'int':
                raise Unrecognised(f'{what}: argument {src(a)} is a {t}')
            texts.append(c)
            pres += p
        return texts, pres

    def call_expr(self, n: ast.Call, ctx: Ctx) -> tuple[object, str, list]:
        f = n.func
        if isinstance(f, ast.Name) and f.id not in ctx.locals:
            if f.id in self.fns:
                args, pres = self.bind_args(self.fns[f.id], n, ctx)
                t, v, p = self.call_fn(self.fns[f.id], args, ctx)
                return t, v, pres + p
            if f.id in CLASSES and not n.keywords:
                ctor, fields, ftypes = CLASSES[f.id]
                if len(n.args) != len(fields):
                    raise Unrecognised(f'constructor {src(n)}')
                texts, pres = [], []
                for a, ft in zip(n.args, ftypes):
                    t, c, p = self.expr(a, ctx)
                    texts.append(self.coerce(t, c, ft, src(a)))
                    pres += p
                self.ctor_calls.add(f.id)
                return 'req', f'({ctor} {" ".join(texts)})', pres
            if f.id == 'SystemDateTime' and len(n.args) == 3 and not n.keywords:
                a, pres = self.int_args(n.args, ctx, 'SystemDateTime')
                v, stuck = self.fresh('d'), ctx.stuck
                return 'sdt', v, pres + [lambda body: f'match sdt_make W {" ".join(a)} with\n| None => {stuck}\n| Some {v} =>\n{body}\nend']
            if f.id == 'Time' and 1 <= len(n.args) <= 4 and not n.keywords:
                a, pres = self.int_args(n.args, ctx, 'Time')
                return 'time', f'(time_of {" ".join(a + ["0"] * (4 - len(a)))})', pres
            if f.id == 'reversed' and len(n.args) == 1 and not n.keywords:
                t, c, p = self.expr(n.args[0], ctx)
                if t == 'inttuple':
                    return 'iterable', f'(it_reversed {c})', p
            if f.id == 'range' and len(n.args) == 2 and not n.keywords:
                a, pres = self.int_args(n.args, ctx, 'range')
                return ('list', 'int'), f'(py_range {a[0]} {a[1]})', pres
            if f.id == 'isinstance' and len(n.args) == 2 and not n.keywords:
                t, c, p = self.expr(n.args[0], ctx)
                cls = n.args[1]
                if t == 'exn' and isinstance(cls, ast.Name) and cls.id in EXN_CLASS and not p:
                    return 'bool', f'(match {c} with {EXN_CLASS[cls.id]} => true | _ => false end)', []
            raise Unrecognised(f'call {src(n)}')
        if isinstance(f, ast.Attribute):
            return self.method_expr(n, f, ctx)
        raise Unrecognised(f'call {src(n)}')

    def method_expr(self, n: ast.Call, f: ast.Attribute, ctx: Ctx) -> tuple[object, str, list]:
        meth = f.attr
        if isinstance(f.value, ast.Name) and f.value.id not in ctx.locals:
            if f.value.id == 'SystemDateTime' and meth == 'now' and not n.args and not n.keywords:
                return 'sdt', '(sdt_now W)', []
            if f.value.id == 'log':
                raise Unrecognised(f'value of a logging call: {src(n)}')
        # Instant.now().to_tz('UTC')
        if (meth == 'to_tz' and len(n.args) == 1 and not n.keywords and isinstance(n.args[0], ast.Constant)
                and n.args[0].value == 'UTC' and isinstance(f.value, ast.Call) and not f.value.args
                and not f.value.keywords and isinstance(f.value.func, ast.Attribute) and f.value.func.attr == 'now'
                and isinstance(f.value.func.value, ast.Name) and f.value.func.value.id == 'Instant'
                and 'Instant' not in ctx.locals):
            return 'utc', '(sdt_now W)', []
        t, c, pre = self.expr(f.value, ctx)
        if t == 'sdt' and meth == 'add' and not n.args and [k.arg for k in n.keywords] == ['hours']:
            a, p = self.int_args([n.keywords[0].value], ctx, 'add(hours=)')
            return 'sdt', f'(sdt_add_hours {c} {a[0]})', pre + p
        if t == 'time' and meth == 'replace' and not n.args and n.keywords:
            digits = {'hour': 'None', 'minute': 'None', 'second': 'None', 'nanosecond': 'None'}
            for k in n.keywords:
                if k.arg not in digits or digits[k.arg] != 'None':
                    raise Unrecognised(f'keyword of {src(n)}')
                a, p = self.int_args([k.value], ctx, 'Time.replace')
                digits[k.arg] = f'(Some {a[0]})'
                pre = pre + p
            return 'time', f'(time_replace {digits["hour"]} {digits["minute"]} {digits["second"]} {digits["nanosecond"]} {c})', pre
        if (t == 'sdt' and meth == 'replace_time' and len(n.args) == 1 and len(n.keywords) == 1
                and n.keywords[0].arg == 'disambiguate' and isinstance(n.keywords[0].value, ast.Constant)
                and n.keywords[0].value.value == 'raise'):
            ta, ca, pa = self.expr(n.args[0], ctx)
            if ta != 'time':
                raise Unrecognised(f'replace_time of a {ta}')
            ks, kr = ctx.kx('XSkipped'), ctx.kx('XRepeated')
            return 'unused', '', pre + pa + [
                lambda body: f'match sdt_replace_time_raise W {c} {ca} with\n| RFine =>\n{body}\n| RSkippedT => {ks}\n| RRepeatedT => {kr}\nend']
        if t in ('optreq', 'req') and meth == 'required' and len(n.args) == 1 and not n.keywords:
            ta, ca, pa = self.expr(n.args[0], ctx)
            if ta != 'time':
                raise Unrecognised(f'required of a {ta}')
            pres = pre + pa
            obj = c
            if t == 'optreq':
                obj, ka = self.fresh('o'), ctx.kx('XAttr')
                pres = pres + [lambda body: f'match {c} with\n| None => {ka}\n| Some {obj} =>\n{body}\nend']
            b, x, kxx, stuck = self.fresh('b'), self.fresh('x'), ctx.kx, ctx.stuck
            kxt = kxx(x)
            return 'bool', b, pres + [
                lambda body: f'match g_required W {obj} {ca} with\n| ORet {b} =>\n{body}\n| OExc {x} => {kxt}\n| OStuck => {stuck}\nend']
        raise Unrecognised(f'method call {src(n)} on a {t}')

    # -- conditions -----------------------------------------------------------------------------------------
    def test(self, n: ast.AST, ctx: Ctx) -> tuple[str, list]:
        if isinstance(n, ast.UnaryOp) and isinstance(n.op, ast.Not):
            c, pre = self.test(n.operand, ctx)
            return f'(negb {c})', pre
        if isinstance(n, ast.BoolOp):
            parts, pre = [], []
            for v in n.values:
                c, p = self.test(v, ctx)
                if p and parts:
                    raise Unrecognised(f'partial expression after a short-circuit operator: {src(n)}')
                parts.append(c)
                pre += p
            return '(' + (' || ' if isinstance(n.op, ast.Or) else ' && ').join(parts) + ')', pre
        if isinstance(n, ast.Compare):
            parts, pre = [], []
            left = n.left
            for op, right in zip(n.ops, n.comparators):
                c, p = self.compare(op, left, right, ctx)
                if p and parts:
                    raise Unrecognised(f'partial expression in a chained comparison: {src(n)}')
                parts.append(c)
                pre += p
                left = right
            return (parts[0] if len(parts) == 1 else '(' + ' && '.join(parts) + ')'), pre
        t, c, pre = self.expr(n, ctx)
        if t == 'bool':
            return c, pre
        raise Unrecognised(f'truth value of a {t}: {src(n)}')

    def compare(self, op: ast.cmpop, a: ast.AST, b: ast.AST, ctx: Ctx) -> tuple[str, list]:
        if isinstance(op, (ast.Is, ast.IsNot)):
            pos = isinstance(op, ast.Is)
            ta, ca, pa = self.expr(a, ctx)
            if is_none(b) and ta in OPT_OF:
                return (f'(is_none {ca})' if pos else f'(negb (is_none {ca}))'), pa
            if isinstance(b, ast.Constant) and isinstance(b.value, bool) and ta == 'ftval':
                c = f'(match {ca} with FBool {"true" if b.value else "false"} => true | _ => false end)'
                return (c if pos else f'(negb {c})'), pa
            raise Unrecognised(f'identity test {src(a)} is {src(b)}')
        if isinstance(op, (ast.In, ast.NotIn)):
            ta, ca, pa = self.expr(a, ctx)
            if ta == 'int' and isinstance(b, ast.Name) and b.id in ctx.locals and ctx.locals[b.id][0] == 'iterable':
                if b.id not in ctx.exhausted:
                    raise Unrecognised(f'membership test on {b.id} before a complete loop over it (rule T7)')
                c = f'(it_mem_after {ca} {ctx.locals[b.id][1]})'
                return (c if isinstance(op, ast.In) else f'(negb {c})'), pa
            raise Unrecognised(f'membership test {src(a)} in {src(b)}')
        ta, ca, pa = self.expr(a, ctx)
        tb, cb, pb = self.expr(b, ctx)
        if ta == tb and ta in self.ORDERED:
            table = {ast.Lt: f'({ca} <? {cb})', ast.LtE: f'({ca} <=? {cb})', ast.Gt: f'({cb} <? {ca})',
                     ast.GtE: f'({cb} <=? {ca})', ast.Eq: f'({ca} =? {cb})', ast.NotEq: f'(negb ({ca} =? {cb}))'}
            if type(op) in table:
                return table[type(op)], pa + pb
        if ta == tb == 'str' and isinstance(op, ast.Eq):
            return f'(String.eqb {ca} {cb})', pa + pb
        raise Unrecognised(f'comparison {src(a)} {type(op).__name__} {src(b)}')

    # -- statements -----------------------------------------------------------------------------------------
    def wrap(self, pre: list, body: str) -> str:
        for p in reversed(pre):
            body = p(body)
        return body

    def is_log_call(self, v: ast.AST, ctx: Ctx) -> bool:
        return (isinstance(v, ast.Call) and isinstance(v.func, ast.Attribute) and isinstance(v.func.value, ast.Name)
                and v.func.value.id == 'log' and 'log' not in ctx.locals
                and v.func.attr in ('debug', 'info', 'warning', 'error'))

    def is_del_globals_loop(self, st: ast.stmt) -> bool:
        """for n in (<str constants>): del globals()[n]      (rule T10)"""
        if not (isinstance(st, ast.For) and isinstance(st.target, ast.Name) and not st.orelse
                and isinstance(st.iter, ast.Tuple) and len(st.body) == 1 and isinstance(st.body[0], ast.Delete)):
            return False
        if not all(isinstance(e, ast.Constant) and isinstance(e.value, str) and e.value in FUNCS for e in st.iter.elts):
            return False
        d = st.body[0]
        if len(d.targets) != 1:
            return False
        t = d.targets[0]
        return (isinstance(t, ast.Subscript) and isinstance(t.slice, ast.Name) and t.slice.id == st.target.id
                and isinstance(t.value, ast.Call) and isinstance(t.value.func, ast.Name)
                and t.value.func.id == 'globals' and not t.value.args and not t.value.keywords)

    def block(self, stmts: list[ast.stmt], ctx: Ctx, k: str) -> str:
        """translate stmts; [k] is the coq text that continues after the block.  Coq variables carry the name of
        the Python variable (v_<name>, G, acc) and are shadowed on assignment, so a continuation TEXT always means
        'with the current values'."""
        if not stmts:
            return k
        st, rest = stmts[0], stmts[1:]

        def cont() -> str:
            return self.block(rest, ctx, k)

        if isinstance(st, ast.Pass) or (isinstance(st, ast.Expr) and isinstance(st.value, ast.Constant)):
            return cont()
        if isinstance(st, ast.Global):
            if set(st.names) - set(GLOBALS) or not ctx.fn.stateful:
                raise Unrecognised(f'global {st.names}')
            return cont()
        if isinstance(st, ast.Expr) and self.is_log_call(st.value, ctx):
            return cont()
        if self.is_del_globals_loop(st):
            return cont()
        if isinstance(st, ast.Return):
            return self.return_stmt(st, ctx)
        if isinstance(st, ast.Break):
            return self.break_stmt(ctx)
        if isinstance(st, ast.Continue):
            if ctx.loop is None:
                raise Unrecognised('continue outside a loop')
            return f'Next {tup(ctx.coq(ctx.loop.threaded))}'
        if isinstance(st, ast.Raise):
            return self.raise_stmt(st, ctx)
        if isinstance(st, ast.Assert):
            if st.msg is not None:
                raise Unrecognised('assert with a message')
            c, pre = self.test(st.test, ctx)
            return self.wrap(pre, f'if {c} then\n{cont()}\nelse {ctx.kx("XAssert")}')
        if isinstance(st, ast.Expr) and isinstance(st.value, ast.Yield):
            return self.yield_stmt(st.value, ctx, cont)
        if isinstance(st, ast.Expr) and isinstance(st.value, ast.Call):
            _t, _c, pre = self.expr(st.value, ctx)
            return self.wrap(pre, cont())
        if isinstance(st, ast.Assign) and len(st.targets) == 1:
            return self.assign(st.targets[0], st.value, None, ctx, cont)
        if isinstance(st, ast.AnnAssign) and st.value is not None:
            return self.assign(st.target, st.value, st.annotation, ctx, cont)
        if isinstance(st, ast.If):
            return self.if_stmt(st, rest, ctx, k)
        if isinstance(st, ast.Match):
            return self.match_stmt(st, rest, ctx, k)
        if isinstance(st, ast.For):
            return self.for_stmt(st, rest, ctx, k)
        if isinstance(st, ast.While):
            return self.while_stmt(st, rest, ctx, k)
        if isinstance(st, ast.Try):
            return self.try_stmt(st, rest, ctx, k)
        raise Unrecognised(f'statement {src(st)[:80]}')

    def return_stmt(self, st: ast.Return, ctx: Ctx) -> str:
        want = ctx.fn.ret
        if ctx.fn.gen:
            if st.value is not None:
                raise Unrecognised('return with a value in a generator')
            return f'{ctx.kret_raw} (rev acc)'
        if st.value is None or is_none(st.value):
            if want != 'none':
                raise Unrecognised(f'bare return in a function returning {want}')
            return ctx.kret('tt')
        v = st.value
        if isinstance(v, ast.Tuple):
            parts, pre = [], []
            for e in v.elts:
                t, c, p = self.expr(e, ctx)
                parts.append((t, c))
                pre += p
            types = tuple(t for t, _ in parts)
            if want == 'ftval' and types == ('str', 'time', 'time'):
                return self.wrap(pre, ctx.kret(f'(FTuple {" ".join(c for _, c in parts)})'))
            if isinstance(want, tuple) and want[0] == 'tuple' and len(want) - 1 == len(parts):
                cs = [self.coerce(t, c, w, src(e)) for (t, c), w, e in zip(parts, want[1:], v.elts)]
                return self.wrap(pre, ctx.kret('(' + ', '.join(cs) + ')'))
            raise Unrecognised(f'return {src(v)} in a function returning {want}')
        t, c, pre = self.expr(v, ctx)
        if want == 'ftval' and t == 'bool':
            return self.wrap(pre, ctx.kret(f'(FBool {c})'))
        if t == want and t in self.RET_SCALARS:
            return self.wrap(pre, ctx.kret(c))
        raise Unrecognised(f'return {src(v)} ({t}) in a function returning {want}')

    def raise_stmt(self, st: ast.Raise, ctx: Ctx) -> str:
        e = st.exc
        if st.cause is None and isinstance(e, ast.Call) and isinstance(e.func, ast.Name) and e.func.id in EXN_CLASS \
                and e.func.id not in ctx.locals and not e.keywords and len(e.args) <= 1:
            if e.args:
                a = e.args[0]
                ok = (isinstance(a, ast.Constant) and isinstance(a.value, str)) or isinstance(a, ast.JoinedStr) or (
                    isinstance(a, ast.Name) and a.id in ctx.locals and ctx.locals[a.id][0] in ('msg', 'str'))
                if not ok:
                    raise Unrecognised(f'exception argument {src(a)}')
            return ctx.kx(EXN_CLASS[e.func.id])
        raise Unrecognised(f'raise {src(st)}')

    def yield_stmt(self, y: ast.Yield, ctx: Ctx, cont) -> str:
        if not ctx.fn.gen or y.value is None:
            raise Unrecognised('yield')
        item = ctx.fn.ret[1]
        v = y.value
        if isinstance(v, ast.Tuple):
            parts, pre = [], []
            for e in v.elts:
                t, c, p = self.expr(e, ctx)
                parts.append((t, c))
                pre += p
            if not (isinstance(item, tuple) and item[0] == 'tuple' and tuple(t for t, _ in parts) == item[1:]):
                raise Unrecognised(f'yield {src(v)}: items are {item}')
            text = '(' + ', '.join(c for _, c in parts) + ')'
        else:
            t, text, pre = self.expr(v, ctx)
            if t != item:
                raise Unrecognised(f'yield {src(v)} ({t}): items are {item}')
        return self.wrap(pre, f'let acc := {text} :: acc in\n{cont()}')

    def bind(self, name: str, t, ctx: Ctx) -> str:
        if name in GLOBALS or name in ('W', 'G', 'acc') or not name.isidentifier():
            raise Unrecognised(f'local name {name}')
        v = f'v_{name}'
        ctx.locals[name] = (t, v)
        ctx.exhausted.discard(name)
        return v

    def assign(self, target: ast.AST, value: ast.AST, annotation, ctx: Ctx, cont) -> str:
        if isinstance(target, ast.Name):
            name = target.id
            if name in GLOBALS:
                if name not in ctx.fn.globals_decl:
                    raise Unrecognised(f'{name} assigned without a global declaration')
                t, c, pre = self.expr(value, ctx)
                c = self.coerce(t, c, 'optreq', src(value))
                return self.wrap(pre, f'let G := set_{GLOBALS[name]} {c} G in\n{cont()}')
            if isinstance(value, ast.JoinedStr):
                if name in ctx.locals and ctx.locals[name][0] != 'msg':
                    raise Unrecognised(f'{name} rebound to a message text')
                ctx.locals[name] = ('msg', '')
                return cont()
            t, c, pre = self.expr(value, ctx)
            if name in ctx.locals:
                old = ctx.locals[name][0]
                c = self.coerce(t, c, old, src(value))
                if ctx.loop is None and name in ctx.exhausted:
                    ctx.exhausted.discard(name)
                return self.wrap(pre, f'let {ctx.locals[name][1]} := {c} in\n{cont()}')
            if t in ('none', 'unused', 'msg'):
                raise Unrecognised(f'{name} = {src(value)} ({t})')
            cty(t)
            v = self.bind(name, t, ctx)
            return self.wrap(pre, f'let {v} := {c} in\n{cont()}')
        if isinstance(target, ast.Tuple) and all(isinstance(e, ast.Name) for e in target.elts):
            t, c, pre = self.expr(value, ctx)
            names = [e.id for e in target.elts]
            if t == 'ftval' and len(names) == 3 and len(set(names)) == 3:
                if any(nm in ctx.locals and ctx.locals[nm][0] != ty for nm, ty in zip(names, ('str', 'time', 'time'))):
                    raise Unrecognised(f'unpacking into variables of another type: {src(target)}')
                vs = [self.bind(nm, ty, ctx) for nm, ty in zip(names, ('str', 'time', 'time'))]
                kx = ctx.kx('XType')
                return self.wrap(pre, f'match {c} with\n| FTuple {" ".join(vs)} =>\n{cont()}\n| FBool _ => {kx}\nend')
        raise Unrecognised(f'assignment {src(target)} = {src(value)}')

    def break_stmt(self, ctx: Ctx) -> str:
        lp = ctx.loop
        if lp is None:
            raise Unrecognised('break outside a loop')
        extra = [(n, ctx.locals[n][0]) for n in ctx.bound(lp.candidates) if ctx.locals[n][0] not in ('msg', 'exn')]
        if lp.payload is None:
            lp.payload = extra
        elif lp.payload != extra:
            raise Unrecognised('breaks of one loop with different sets of bound variables')
        return f'Brk {tup(ctx.coq(lp.threaded) + [ctx.locals[n][1] for n, _ in extra])}'

    # -- if / match: a chain of guarded branches --------------------------------------------------------------
    def branches(self, brs: list[tuple[str | None, list[ast.stmt], Ctx]], rest: list[ast.stmt], ctx: Ctx, k: str) -> str:
        """brs = [(condition text | None for the last, statements, context)].  One branch that falls through gets the
        rest of the block inline; several go through a join continuation over the variables any of them assigns."""
        falls = [i for i, (_c, body, _x) in enumerate(brs) if not exits(body)]
        texts = []
        if len(falls) <= 1:
            for i, (_c, body, bctx) in enumerate(brs):
                texts.append(self.block(body + rest, bctx, k) if i in falls else self.block(body, bctx, k))
            head = ''
        else:
            mods = set()
            for _c, body, _x in brs:
                mods |= self.assigned(body, ctx.fn)
            names = ctx.bound(mods)
            kn, stv = self.fresh('k'), self.fresh('j')
            after = self.block(rest, ctx.copy(), k)
            head = f"let {kn} := fun {stv} : {tup_ty(ctx.types(names))} =>\nlet '{tup(ctx.coq(names))} := {stv} in\n{after}\nin\n"
            call = f'{kn} {tup(ctx.coq(names))}'
            for _c, body, bctx in brs:
                texts.append(self.block(body, bctx, call))
        out = texts[-1]
        for (c, _b, _x), t in zip(reversed(brs[:-1]), reversed(texts[:-1])):
            out = f'if {c} then\n{t}\nelse\n{out}'
        return head + out

    def bool_type_test(self, t: ast.AST, ctx: Ctx) -> str | None:
        """`x is False or x is True` on a find_time result: the name x"""
        if not (isinstance(t, ast.BoolOp) and isinstance(t.op, ast.Or) and len(t.values) == 2):
            return None
        seen, name = set(), None
        for v in t.values:
            if not (isinstance(v, ast.Compare) and len(v.ops) == 1 and isinstance(v.ops[0], ast.Is)
                    and isinstance(v.left, ast.Name) and isinstance(v.comparators[0], ast.Constant)
                    and isinstance(v.comparators[0].value, bool)):
                return None
            if name not in (None, v.left.id):
                return None
            name = v.left.id
            seen.add(v.comparators[0].value)
        if seen == {True, False} and name in ctx.locals and ctx.locals[name][0] == 'ftval':
            return name
        return None

    def if_stmt(self, st: ast.If, rest: list[ast.stmt], ctx: Ctx, k: str) -> str:
        name = self.bool_type_test(st.test, ctx)
        if name is not None:
            if st.orelse or not exits(st.body):
                raise Unrecognised('bool test on a find_time result whose body falls through')
            c2 = ctx.copy()
            old = ctx.locals[name][1]
            c2.locals[name] = ('bool', old)
            then = self.block(st.body, c2, k)
            els = self.block(rest, ctx.copy(), k)
            return f'match {old} with\n| FBool {old} =>\n{then}\n| FTuple _ _ _ =>\n{els}\nend'
        c, pre = self.test(st.test, ctx)
        return self.wrap(pre, self.branches([(c, st.body, ctx.copy()), (None, st.orelse, ctx.copy())], rest, ctx, k))

    def case_test(self, t, c: str, p: ast.pattern, ctx: Ctx) -> str:
        """the condition under which the subject c (of type t) matches the pattern p"""
        if t == 'str' and isinstance(p, ast.MatchValue) and isinstance(p.value, ast.Constant) \
                and isinstance(p.value.value, str):
            _t, lit, _p = self.expr(p.value, ctx)
            return f'String.eqb {c} {lit}'
        raise Unrecognised(f'case pattern {src(p)} on a {t}')

    def match_stmt(self, st: ast.Match, rest: list[ast.stmt], ctx: Ctx, k: str) -> str:
        t, c, pre = self.expr(st.subject, ctx)
        if pre:
            raise Unrecognised(f'match on a partial expression')
        brs = []
        for i, case in enumerate(st.cases):
            if case.guard is not None:
                raise Unrecognised('case with a guard')
            p = case.pattern
            if isinstance(p, ast.MatchAs) and p.pattern is None and p.name is None and i == len(st.cases) - 1:
                brs.append((None, case.body, ctx.copy()))
            else:
                brs.append((self.case_test(t, c, p, ctx), case.body, ctx.copy()))
        if brs[-1][0] is not None:
            brs.append((None, [], ctx.copy()))
        return self.branches(brs, rest, ctx, k)

    # -- loops ------------------------------------------------------------------------------------------------
    def loop_parts(self, body: list[ast.stmt], targets: list[tuple[str, object]], ctx: Ctx):
        """-> (loop descriptor, body context)"""
        assigned = self.assigned(body, ctx.fn)
        for nm, _t in targets:
            if nm in ctx.locals:
                raise Unrecognised(f'loop variable {nm} is already bound')
        threaded = ctx.bound(assigned)
        cands = sorted((assigned | {nm for nm, _ in targets}) - set(ctx.locals))
        lp = Loop(threaded, cands)
        bc = ctx.copy()
        for nm, t in targets:
            self.bind(nm, t, bc)
        bc.loop, bc.kret_raw, bc.kx_raw, bc.stuck = lp, 'Retn', 'Throw', 'Stuck'
        return lp, bc

    def loop_tail(self, call: str, lp: Loop, orelse: list[ast.stmt], rest: list[ast.stmt], ctx: Ctx, k: str) -> str:
        thr = tup(ctx.coq(lp.threaded))
        st, b, r, x = self.fresh('s'), self.fresh('b'), self.fresh('r'), self.fresh('x')
        tail = f'| Retn {r} => {ctx.kret_raw} {r}\n| Throw {x} => {ctx.kx_raw} {x}\n| Stuck => {ctx.stuck}\nend'
        if lp.payload is None:
            nxt = self.block(orelse + rest, ctx.copy(), k)
            return (f"match {call} with\n| Next {st} =>\nlet '{thr} := {st} in\n{nxt}\n"
                    f'| Brk {b} => match {b} with end\n{tail}')
        extra = lp.payload
        ac = ctx.copy()
        ev = [self.bind(nm, t, ac) for nm, t in extra]
        pay = tup(ctx.coq(lp.threaded) + ev)
        if exits(orelse):
            nxt = self.block(orelse, ctx.copy(), k)
            brk = self.block(rest, ac, k)
            return (f"match {call} with\n| Next {st} =>\nlet '{thr} := {st} in\n{nxt}\n"
                    f"| Brk {b} =>\nlet '{pay} := {b} in\n{brk}\n{tail}")
        kn, j = self.fresh('k'), self.fresh('j')
        after = self.block(rest, ctx.copy(), k)
        nxt = self.block(orelse, ctx.copy(), f'{kn} {thr}')
        return (f"let {kn} := fun {j} : {tup_ty(ctx.types(lp.threaded))} =>\nlet '{thr} := {j} in\n{after}\nin\n"
                f"match {call} with\n| Next {st} =>\nlet '{thr} := {st} in\n{nxt}\n"
                f"| Brk {b} =>\nlet '{pay} := {b} in\n{kn} {thr}\n{tail}")

    def loop_types(self, lp: Loop, ctx: Ctx) -> str:
        s_ty = tup_ty(ctx.types(lp.threaded))
        b_ty = 'Empty_set' if lp.payload is None else tup_ty(ctx.types(lp.threaded) + [t for _n, t in lp.payload])
        return f'(St:={s_ty}) (B:={b_ty}) (R:={ctx.ret_ty()}) (X:={ctx.exn_ty()})'

    def for_stmt(self, st: ast.For, rest: list[ast.stmt], ctx: Ctx, k: str) -> str:
        it, pre, exhausts = st.iter, [], None
        if isinstance(it, ast.Tuple) and it.elts and not all(
                isinstance(e, ast.Constant) and isinstance(e.value, int) and not isinstance(e.value, bool) for e in it.elts):
            parts = []
            for e in it.elts:
                t, c, p = self.expr(e, ctx)
                parts.append((t, c))
                pre += p
            item = parts[0][0]
            if any(t != item for t, _ in parts) or item not in ('bool', 'time', 'int'):
                raise Unrecognised(f'loop over {src(it)}')
            lst = '[' + '; '.join(c for _, c in parts) + ']'
        else:
            t, c, pre = self.expr(it, ctx)
            if t == 'iterable':
                item, lst = 'int', f'(it_items {c})'
                if isinstance(it, ast.Name) and not has_break(st.body):
                    exhausts = it.id
            elif t == 'inttuple':
                item, lst = 'int', c
            elif isinstance(t, tuple) and t[0] == 'list':
                item, lst = t[1], c
            else:
                raise Unrecognised(f'loop over a {t}: {src(it)}')
        # targets
        if isinstance(st.target, ast.Name):
            targets = [(st.target.id, item)]
        elif (isinstance(st.target, ast.Tuple) and all(isinstance(e, ast.Name) for e in st.target.elts)
              and isinstance(item, tuple) and item[0] == 'tuple' and len(item) - 1 == len(st.target.elts)
              and len({e.id for e in st.target.elts}) == len(st.target.elts)):
            targets = [(e.id, ty) for e, ty in zip(st.target.elts, item[1:])]
        else:
            raise Unrecognised(f'loop target {src(st.target)} over items {item}')
        lp, bc = self.loop_parts(st.body, targets, ctx)
        thr = tup(ctx.coq(lp.threaded))
        body = self.block(st.body, bc, f'Next {thr}')
        a, s = self.fresh('a'), self.fresh('s')
        pat = tup([bc.locals[nm][1] for nm, _ in targets])
        call = (f"for_each {self.loop_types(lp, bc)} {lst}\n(fun ({a} : {cty(item)}) ({s} : {tup_ty(ctx.types(lp.threaded))}) =>\n"
                f"let '{pat} := {a} in\nlet '{thr} := {s} in\n{body})\n{thr}")
        after = ctx.copy()
        if exhausts is not None:
            after.exhausted.add(exhausts)
        return self.wrap(pre, self.loop_tail(call, lp, st.orelse, rest, after, k))

    def while_stmt(self, st: ast.While, rest: list[ast.stmt], ctx: Ctx, k: str) -> str:
        if st.orelse:
            raise Unrecognised('while ... else')
        lp, bc = self.loop_parts(st.body, [], ctx)
        c, pre = self.test(st.test, ctx)
        if pre:
            raise Unrecognised('partial loop condition')
        thr = tup(ctx.coq(lp.threaded))
        body = self.block(st.body, bc, f'Next {thr}')
        s1, s2 = self.fresh('s'), self.fresh('s')
        sty = tup_ty(ctx.types(lp.threaded))
        call = (f"while_loop {self.loop_types(lp, bc)} LOOP_FUEL\n(fun {s1} : {sty} =>\nlet '{thr} := {s1} in\n{c})\n"
                f"(fun {s2} : {sty} =>\nlet '{thr} := {s2} in\n{body})\n{thr}")
        return self.loop_tail(call, lp, [], rest, ctx.copy(), k)

    # -- try --------------------------------------------------------------------------------------------------
    def try_stmt(self, st: ast.Try, rest: list[ast.stmt], ctx: Ctx, k: str) -> str:
        if st.finalbody or len(st.handlers) != 1:
            raise Unrecognised('try with finally / several handlers')
        if ctx.fn.gen:
            raise Unrecognised('try in a generator (rule T6)')
        h = st.handlers[0]
        classes = [h.type] if isinstance(h.type, ast.Name) else list(h.type.elts) if isinstance(h.type, ast.Tuple) else None
        if not classes or not all(isinstance(c, ast.Name) and c.id in EXN_CLASS and c.id not in ctx.locals for c in classes):
            raise Unrecognised(f'except {src(h.type) if h.type else ""}')
        caught = [EXN_CLASS[c.id] for c in classes]
        if (self.assigned(st.body, ctx.fn) - {'$G'}) & set(ctx.locals):
            raise Unrecognised('a try body that assigns a variable bound before the try (rule T15)')
        # the three ways on: handler, else-clause, and what follows the statement
        hc = ctx.copy()
        e = self.fresh('e')
        if h.name:
            if h.name in ctx.locals:
                raise Unrecognised(f'except ... as {h.name}: the name is already bound')
            hc.locals[h.name] = ('exn', e)
        # Python unbinds `as e` at the end of the handler: the name is not visible afterwards (nor is it here)
        kxn, x = self.fresh('kx'), self.fresh('x')
        # the body first (with a placeholder for what follows it): what it binds is visible in the else-clause
        bc = ctx.copy()
        bc.kx_raw = kxn
        hole = f'(*@{kxn}@*)'
        body = self.block(st.body, bc, hole)
        oc = ctx.copy()
        for nm, tv in bc.locals.items():
            if nm not in oc.locals:
                oc.locals[nm] = tv
        parts = [(None, h.body, hc), (None, st.orelse, oc)]
        falls = [i for i, (_c, b, _x) in enumerate(parts) if not exits(b)]
        head = ''
        if len(falls) <= 1:
            handler = self.block(h.body + (rest if 0 in falls else []), hc, k)
            ok = self.block(st.orelse + (rest if 1 in falls else []), oc, k)
        else:
            mods = self.assigned(h.body, ctx.fn) | self.assigned(st.orelse, ctx.fn) | self.assigned(st.body, ctx.fn)
            names = ctx.bound(mods)
            kn, j = self.fresh('k'), self.fresh('j')
            after = self.block(rest, ctx.copy(), k)
            head = f"let {kn} := fun {j} : {tup_ty(ctx.types(names))} =>\nlet '{tup(ctx.coq(names))} := {j} in\n{after}\nin\n"
            call = f'{kn} {tup(ctx.coq(names))}'
            handler = self.block(h.body, hc, call)
            ok = self.block(st.orelse, oc, call)
        unpack = f"let '(G, {e}) := {x} in" if ctx.fn.stateful else f'let {e} := {x} in'
        others = [c for c in ALL_EXN if c not in caught]
        arms = f'| {" | ".join(caught)} =>\n{handler}\n' + (f'| {" | ".join(others)} => {ctx.kx_raw} {x}\n' if others else '')
        kx_def = f'let {kxn} := fun {x} : {ctx.exn_ty()} =>\n{unpack}\nmatch {e} with\n{arms}end\nin\n'
        body = body.replace(hole, ok)
        return head + kx_def + body

    # -- functions --------------------------------------------------------------------------------------------
    def declare(self, name: str, node: ast.FunctionDef, coq: str, self_fields: list[tuple[str, object]] | None = None) -> Fn:
        f = Fn(name, node, coq)
        a = node.args
        if a.vararg or a.kwarg or a.posonlyargs or node.decorator_list:
            raise Unrecognised(f'signature of {name}')
        plain = list(a.args)
        if self_fields is not None:
            if not plain or plain[0].arg != 'self':
                raise Unrecognised(f'method {name} without self')
            plain = plain[1:]
        defaults = [None] * (len(plain) - len(a.defaults)) + list(a.defaults)
        for p, d in list(zip(plain, defaults)) + list(zip(a.kwonlyargs, a.kw_defaults)):
            f.params.append((p.arg, ann_type(p.annotation, f'{name}({p.arg})'), d))
        f.ret = ann_type(node.returns, f'result of {name}')
        f.gen = has_yield(node.body)
        if f.gen != (isinstance(f.ret, tuple) and f.ret[0] == 'list'):
            raise Unrecognised(f'{name}: generator and annotation disagree')
        for n in walk_no_defs(node.body):
            if isinstance(n, ast.Global):
                f.globals_decl |= set(n.names)
            if isinstance(n, ast.Nonlocal):
                raise Unrecognised('nonlocal')
        return f

    def touches_globals(self, f: Fn) -> bool:
        for n in walk_no_defs(f.node.body):
            if isinstance(n, ast.Global) or isinstance(n, ast.Name) and n.id in GLOBALS:
                return True
            if isinstance(n, ast.Call) and isinstance(n.func, ast.Name) and n.func.id in self.fns \
                    and self.fns[n.func.id].stateful:
                return True
        return False

    def function(self, f: Fn, fields: list[tuple[str, object]] | None = None) -> str:
        ctx = Ctx(f)
        sig = []
        if f.stateful:
            if f.gen:
                raise Unrecognised(f'generator {f.name} touches the module globals (rule T6)')
            ctx.locals['$G'] = ('globals', 'G')
            sig.append('(G : globals)')
        for nm, t in fields or []:
            v = f'v_self_{nm}'
            ctx.locals[f'self.{nm}'] = (t, v)
            sig.append(f'({v} : {cty(t)})')
        for nm, t, _d in f.params:
            v = self.bind(nm, t, ctx)
            sig.append(f'({v} : {cty(t)})')
        if f.gen:
            for n in walk_no_defs(f.node.body):
                if isinstance(n, (ast.Raise, ast.Try, ast.Assert, ast.YieldFrom)):
                    raise Unrecognised(f'{type(n).__name__} in generator {f.name} (rule T6)')
            ctx.locals['$acc'] = (f.ret, 'acc')
            end = 'ORet (rev acc)'
        elif f.ret == 'none':
            end = ctx.kret('tt')
        else:
            end = None
        if end is None:
            if not exits(f.node.body):
                raise Unrecognised(f'{f.name} may fall off its end but does not return None')
            end = 'OStuck'
        body = self.block(f.node.body, ctx, end)
        if f.gen:
            body = f'let acc : {cty(f.ret)} := [] in\n{body}'
        return f'Definition {f.coq} (W : world) {" ".join(sig)} : out {ctx.ret_ty()} {ctx.exn_ty()} :=\n{body}.\n'

    # -- classes ----------------------------------------------------------------------------------------------
    def class_fields(self, cls: ast.ClassDef) -> list[tuple[str, object]]:
        ctor, fields, ftypes = CLASSES[cls.name]
        if [src(b) for b in cls.bases] != [BASE_CLASS] or cls.keywords or cls.decorator_list:
            raise Unrecognised(f'bases of {cls.name}')
        members = {n.name: n for n in cls.body if isinstance(n, ast.FunctionDef)}
        if set(members) != {'__init__', 'required', '__repr__'} or len(members) != len(cls.body):
            raise Unrecognised(f'members of {cls.name}: {sorted(members)}')
        init = members['__init__']
        a = init.args
        if a.vararg or a.kwarg or a.kwonlyargs or a.defaults or a.posonlyargs or init.decorator_list \
                or [p.arg for p in a.args] != ['self'] + fields:
            raise Unrecognised(f'{cls.name}.__init__ signature')
        for p, ft in zip(a.args[1:], ftypes):
            if ann_type(p.annotation, f'{cls.name}.__init__({p.arg})') != ft:
                raise Unrecognised(f'{cls.name}.__init__: type of {p.arg}')
        stored = []
        for st in init.body:
            tgt, val = (st.target, st.value) if isinstance(st, ast.AnnAssign) else \
                (st.targets[0], st.value) if isinstance(st, ast.Assign) and len(st.targets) == 1 else (None, None)
            if not (isinstance(tgt, ast.Attribute) and isinstance(tgt.value, ast.Name) and tgt.value.id == 'self'
                    and isinstance(val, ast.Name) and val.id == tgt.attr):
                raise Unrecognised(f'{cls.name}.__init__: {src(st)}')
            stored.append(tgt.attr)
        if stored != fields:
            raise Unrecognised(f'{cls.name}.__init__ stores {stored}')
        return list(zip(fields, ftypes))


HEADER = '''(* GenDst.v — WRITTEN BY tools/gen_dst.py FROM /repo/src/eascheduler/helpers/dst_param.py ON EVERY RUN.
   Do not edit.  See coq/theories/GenRtDst.v for the runtime and coq/theories/GenDstEq.v for the proofs. *)
From EAS Require Import Base Civil Time Replace Dst GenRtDst.
From Coq Require Import String.

Inductive gen_dst_status := GenDstOk | GenDstError (what : string).
'''


def indent(text: str) -> str:
    out, depth = [], 0
    for line in text.splitlines():
        s = line.strip()
        if s.startswith('end') or s == 'in' or s.startswith('in '):
            depth = max(0, depth - 1)
        out.append('  ' * min(depth, 14) + s)
        if (s.startswith('match ') and not s.endswith('end')) or (s.startswith('let ') and s.endswith('=>')):
            depth += 1
    return '\n'.join(out)


def generate(repo: Path) -> str:
    path = repo / 'src/eascheduler/helpers/dst_param.py'
    mod = ast.parse(path.read_text(encoding='utf-8'), filename=str(path))
    tr = Translator()
    fdefs: dict[str, ast.FunctionDef] = {}
    cdefs: dict[str, ast.ClassDef] = {}
    init: dict[str, str] = {}
    for n in mod.body:
        if isinstance(n, (ast.Import, ast.ImportFrom)):
            continue
        if isinstance(n, ast.FunctionDef):
            fdefs[n.name] = n
        elif isinstance(n, ast.ClassDef):
            cdefs[n.name] = n
        elif isinstance(n, ast.AnnAssign) and isinstance(n.target, ast.Name) and n.target.id in GLOBALS:
            if n.value is None or not is_none(n.value) or n.target.id in init:
                raise Unrecognised(f'initial value of {n.target.id}')
            init[n.target.id] = 'None'
        elif isinstance(n, ast.AnnAssign) and isinstance(n.target, ast.Name) and src(n.annotation) == 'TypeAlias':
            want = {'HINT_CLOCK_FORWARD': 'HINT_SKIPPED | None', 'HINT_CLOCK_BACKWARD': 'HINT_REPEATED | None'}
            if want.get(n.target.id) != src(n.value):
                raise Unrecognised(f'type alias {src(n)}')
        elif isinstance(n, ast.Assign) and src(n) == "log = logging.getLogger('EAScheduler')":
            continue
        else:
            raise Unrecognised(f'module-level statement {src(n)[:80]}')
    if set(init) != set(GLOBALS):
        raise Unrecognised('the module globals TIME_FORWARD / TIME_BACKWARD')
    if sorted(fdefs) != sorted(FUNCS):
        raise Unrecognised(f'functions of the module: {sorted(fdefs)}')
    if sorted(cdefs) != sorted(list(CLASSES) + [BASE_CLASS]):
        raise Unrecognised(f'classes of the module: {sorted(cdefs)}')
    for n in ast.walk(mod):
        if isinstance(n, (ast.AsyncFunctionDef, ast.Lambda, ast.Await, ast.With, ast.AsyncWith)):
            raise Unrecognised(f'{type(n).__name__}')
    # methods
    defs = []
    disp = []
    for cname, (ctor, fields, _ft) in CLASSES.items():
        fl = tr.class_fields(cdefs[cname])
        node = [m for m in cdefs[cname].body if m.name == 'required'][0]
        f = tr.declare(f'{cname}.required', node, f'g_{cname}_required', fl)
        if [p[1] for p in f.params] != ['time'] or f.ret != 'bool' or tr.touches_globals(f):
            raise Unrecognised(f'signature of {cname}.required')
        defs.append(tr.function(f, fl))
        vs = [f'a{i}' for i in range(len(fields))]
        disp.append(f'| {ctor} {" ".join(vs)} => g_{cname}_required W {" ".join(vs)} t')
    defs.append('Definition g_required (W : world) (r : req) (t : Z) : out bool dexn :=\nmatch r with\n'
                + '\n'.join(disp) + '\nend.\n')
    # functions, callees first; which of them touch the globals
    for name in FUNCS:
        tr.fns[name] = tr.declare(name, fdefs[name], 'g_' + name.lstrip('_'))
    for _ in FUNCS:
        for f in tr.fns.values():
            f.stateful = f.stateful or tr.touches_globals(f)
    for name in FUNCS:
        for n in walk_no_defs(fdefs[name].body):
            if isinstance(n, ast.Call) and isinstance(n.func, ast.Name) and n.func.id in FUNCS \
                    and FUNCS.index(n.func.id) >= FUNCS.index(name):
                raise Unrecognised(f'{name} calls {n.func.id}: recursion')
        defs.append(tr.function(tr.fns[name]))
    for n in ast.walk(mod):
        if isinstance(n, ast.Call) and isinstance(n.func, ast.Name) and n.func.id == BASE_CLASS:
            raise Unrecognised(f'{BASE_CLASS} is instantiated')
    text = HEADER + '\nDefinition gen_dst_status_v : gen_dst_status := GenDstOk.\n\n'
    text += ('Definition g_globals0 : globals := {| g_fwd := ' + init['TIME_FORWARD'] + '; g_bwd := '
             + init['TIME_BACKWARD'] + ' |}.\n\n')
    text += '\n'.join(indent(d) + '\n' for d in defs)
    text += f'\n(* not translated: {BASE_CLASS}, __init__ (checked shape) and __repr__ of the classes *)\n'
    return text


def main() -> int:
    repo, out = Path(sys.argv[1]), Path(sys.argv[2])
    try:
        text = generate(repo)
    except (Unrecognised, OSError, SyntaxError, KeyError, IndexError, AttributeError, TypeError) as e:
        msg = str(e).replace('"', "'").replace('\n', ' ')[:300]
        text = HEADER + f'\nDefinition gen_dst_status_v : gen_dst_status := GenDstError "{msg}".\n'
        print(f'gen_dst: not recognised: {msg}', file=sys.stderr)
    old = out.read_text() if out.exists() else None
    if old != text:
        out.write_text(text)
    return 0          # fail closed inside Coq: GenDstEq.v does not compile without the definitions


if __name__ == '__main__':
    sys.exit(main())
