#!/usr/bin/env python3
"""gen_jobs.py — fail-closed translator: src/eascheduler/jobs/{base,job_onetime,job_countdown,job_datetime,
event_handler}.py  ->  coq/gen/GenJobs.v.

The methods of the job classes (JobBase.link_scheduler / set_next_run / update_first / update_next / execute /
__lt__ / job_finish / job_pause / job_resume, the overrides of OneTimeJob, CountdownJob (+ set_countdown, reset) and
DateTimeJob, and JobCallbackHandler.run) are translated statement by statement into Gallina over the state of
Sched.v, in the runtime of GenRtJobs.v.  coq/theories/GenJobsEq.v proves that the generated functions compute what
the hand-written model of Sched.v computes (execute = GenRt.exec_open and the generated scheduler with the generated
execute still agrees with the model; set_next_run, the callback handler, the API operations, link_scheduler).

Same architecture as gen_sched.py (whose Unrecognised / src / is_self_attr / is_none / exits / indent are imported;
gen_sched.py itself is not changed): continuation passing for if / try / return / raise, narrowing of Optional
values by `match`, one definition per method.  Anything outside the vocabulary raises Unrecognised and the generated
file then carries [gen_jobs_status_v = GenJobsError "..."] and NO definitions, so GenJobsEq.v fails (fail closed).

What the translation ASSUMES (trusted; everything else is proved in GenJobsEq.v against Sched.v):
  T1  a job object is an index j, its attributes status / next_run / _scheduler / _seconds / execution_time are the
      fields jstatus / jnext / jlinked / jsecs / jexec_t of [jobs s j]; there is ONE scheduler, so `_scheduler is
      None` is [negb jlinked], `_scheduler is scheduler` is [jlinked], `self._scheduler = scheduler` sets jlinked;
  T2  a maximal run of consecutive stores `self.<attr> = <local or constant>` is ONE update of the job table
      (the table is a function nat -> job: nothing can observe the state between two adjacent plain stores);
  T3  `self.<m>(...)` on a job dispatches on the class of the object = [match jkind] over the three concrete classes
      OneTimeJob / CountdownJob / DateTimeJob, resolved through the class bodies read from the files (a method that
      no subclass overrides is called directly; a method the class does not have is AttributeError);
  T4  `self._scheduler.<m>(self)` / `<local scheduler>.<m>(self)` for m in add_job / remove_job / update_job is the
      callee [jr_<m>] of the record (AttributeError when `_scheduler` is None); GenJobsEq.v plugs in the GENERATED
      scheduler;
  T5  `self.executor.execute()` is [run_executor]: the event EExec (+ the handler event when the callable raises;
      the executor catches, execute() returns);  `self.producer.get_next(Instant.now())` is [get_next]: the event
      EProd and the environment's answer (a value, an exception, or out of fuel);
  T6  `self.on_update.run(self)` / `self.on_finished.run(self)` call the translated JobCallbackHandler.run on the
      handler's tuple = [callbacks CbUpd/CbFin (jobs s j)] (on_finished: the store's _job_finished first when the
      job is stored); `for c in self._callbacks` over an immutable tuple is structural recursion over that list;
      `callback(job)` is [call_cb]; `process_exception(e)` in the handler is the event EHandler (HCb cb);
      in register / remove / clear the tuple `self._callbacks` of the handler w of job j is read as [callbacks w
      (jobs s j)] and stored with [set_callbacks] (its inverse: user callbacks -> jcbu / jcbf, the store's
      callback -> jstored); `in`, `!=` on callbacks are identity ([cbk_memb], [cbk_eqb]); `+= (c,)` appends;
      `tuple(x for x in self._callbacks if x != c)` is [filter];
  T7  `Instant.now()` is [now s]; `.subtract(milliseconds=n)` is `- n*10^6`, `.add(seconds=self._seconds)` is
      `+ jsecs` (the model keeps the countdown in ns); `<` / `<=` on instants / numbers are Z.ltb / Z.leb;
  T8  SKIPPED statements (no counterpart in the model): `self.last_run = Instant.now()`, `msg = '<text>'`;
      return VALUES are not modelled (`return self` / `self.status` / True / False all become "returned");
      `isinstance(secs, (int, float))` and `isinstance(other_job, JobBase)` are taken to be true (typed model);
  T9  exception classes are mapped to Base.err as listed in EXC below;
  T10 `__init__` is not translated: a new job is Sched.new_job (status CREATED, no next run, not linked, both
      handlers empty); `__repr__` and the `id` property are not translated either.

usage: gen_jobs.py <repo_root> <out_file>
"""
from __future__ import annotations

import ast
import sys
from pathlib import Path

sys.path.insert(0, str(Path(__file__).resolve().parent))
from gen_sched import Unrecognised, exits, indent, is_none, is_self_attr, src  # noqa: E402

FILES = {
    'JobBase': 'src/eascheduler/jobs/base.py',
    'OneTimeJob': 'src/eascheduler/jobs/job_onetime.py',
    'CountdownJob': 'src/eascheduler/jobs/job_countdown.py',
    'DateTimeJob': 'src/eascheduler/jobs/job_datetime.py',
    'JobCallbackHandler': 'src/eascheduler/jobs/event_handler.py',
}
KINDS = [('KOnce', 'OneTimeJob'), ('KCountdown', 'CountdownJob'), ('KAt', 'DateTimeJob')]
# methods that are translated, per class; every other member must be in NOT_TRANSLATED (fail closed)
METHODS = {
    'JobBase': ['link_scheduler', 'set_next_run', 'update_first', 'update_next', 'execute', 'job_finish', 'job_pause',
                'job_resume'],
    'OneTimeJob': ['update_next', 'update_first', 'job_pause', 'job_resume'],
    'CountdownJob': ['update_next', 'set_countdown', 'reset', 'job_resume'],
    'DateTimeJob': ['update_next'],
    'JobCallbackHandler': ['run', 'register', 'remove', 'clear'],
}
PURE = {'JobBase': ['__lt__']}
NOT_TRANSLATED = {
    'JobBase': ['__init__', '__repr__', 'id'],
    'OneTimeJob': ['__init__'], 'CountdownJob': ['__init__'], 'DateTimeJob': ['__init__'],
    'JobCallbackHandler': ['__init__'],
}
# the entry points for which a dispatcher on the job's class is emitted
ENTRY = ['set_next_run', 'update_first', 'update_next', 'execute', 'job_finish', 'job_pause', 'job_resume',
         'set_countdown', 'reset', 'link_scheduler']
PARAMS = {'next_run': 'optinstant', 'secs': 'secs', 'scheduler': 'sched'}
COQ_TY = {'optinstant': 'option Z', 'secs': 'Z', 'sched': None}      # the one scheduler is not passed
EXC = {
    'JobAlreadyFinishedError': 'JErr EAlreadyFinished', 'JobNotLinkedToSchedulerError': 'JErr ENotLinked',
    'ScheduledRunInThePastError': 'JErr EPast', 'ValueError': 'JErr EValueError', 'TypeError': 'JErr ETypeError',
    'NotImplementedError': 'JNotImplemented',
}
STATUS = {'STATUS_CREATED': 'Created', 'STATUS_RUNNING': 'Running', 'STATUS_PAUSED': 'Paused',
          'STATUS_FINISHED': 'Finished'}
STATUS_MEMBERS = {'STATUS_CREATED': 'CREATED', 'STATUS_RUNNING': 'RUNNING', 'STATUS_PAUSED': 'PAUSED',
                  'STATUS_FINISHED': 'FINISHED'}
SCHED_CALLS = {'add_job': 'jr_add_job', 'remove_job': 'jr_remove_job', 'update_job': 'jr_update_job'}
HANDLERS = {'on_update': 'CbUpd', 'on_finished': 'CbFin'}
STORE_ATTR = {'next_run': 'with_next', 'status': 'with_status', '_scheduler': 'with_linked', '_seconds': 'with_secs'}


def is_now(n: ast.AST) -> bool:
    return (isinstance(n, ast.Call) and isinstance(n.func, ast.Attribute) and n.func.attr == 'now'
            and isinstance(n.func.value, ast.Name) and n.func.value.id == 'Instant' and not n.args and not n.keywords)


def is_self(n: ast.AST) -> bool:
    return isinstance(n, ast.Name) and n.id == 'self'


class Ctx:
    """translation context of one method body"""

    def __init__(self) -> None:
        self.locals: dict[str, tuple[str, str]] = {}     # python name -> (type, coq text)
        self.kx = 'kx'                                   # exception continuation in force
        self.exc_src: str | None = None                  # inside an except handler: the EHandler source
        self.handler = False                             # translating JobCallbackHandler
        self.in_loop = False

    def copy(self) -> 'Ctx':
        c = Ctx()
        c.locals = dict(self.locals)
        c.kx, c.exc_src, c.handler, c.in_loop = self.kx, self.exc_src, self.handler, self.in_loop
        return c


class JT:
    def __init__(self, classes: dict[str, dict[str, ast.FunctionDef]]) -> None:
        self.n = 0
        self.classes = classes
        self.defs: list[str] = []            # definition texts in dependency order
        self.done: dict[tuple, str] = {}
        self.active: set[tuple] = set()
        self.skipped: list[str] = []

    def fresh(self, base: str) -> str:
        self.n += 1
        return f'{base}{self.n}'

    # -- expressions ------------------------------------------------------------------------------------
    def expr(self, n: ast.AST, ctx: Ctx) -> tuple[str, str]:
        if isinstance(n, ast.Name):
            if n.id in ctx.locals:
                return ctx.locals[n.id]
            raise Unrecognised(f'name {n.id}')
        if is_none(n):
            return 'none', 'None'
        if isinstance(n, ast.Constant) and isinstance(n.value, int) and not isinstance(n.value, bool):
            return 'int', str(n.value) if n.value >= 0 else f'({n.value})'
        if not ctx.handler:
            if is_self_attr(n, 'execution_time'):
                return 'instant', '(jexec_t (jobs s v_self))'
            if is_self_attr(n, '_seconds'):
                return 'secs', '(jsecs (jobs s v_self))'
        if isinstance(n, ast.Attribute) and n.attr == 'next_run':
            t, c = self.expr(n.value, ctx)
            if t == 'job':
                return 'optinstant', f'(jnext (jobs s {c}))'
            raise Unrecognised(f'next_run of {src(n.value)}')
        if is_now(n):
            return 'instant', '(now s)'
        if (isinstance(n, ast.Call) and isinstance(n.func, ast.Attribute) and n.func.attr in ('subtract', 'add')
                and not n.args and len(n.keywords) == 1):
            t, c = self.expr(n.func.value, ctx)
            kw = n.keywords[0]
            if t == 'instant' and n.func.attr == 'subtract' and kw.arg == 'milliseconds':
                tv, cv = self.expr(kw.value, ctx)
                if tv == 'int':
                    return 'instant', f'({c} - {cv} * 1000000)'
            if t == 'instant' and n.func.attr == 'add' and kw.arg == 'seconds' and is_self_attr(kw.value, '_seconds'):
                tv, cv = self.expr(kw.value, ctx)
                if tv == 'secs':
                    return 'instant', f'({c} + {cv})'
        raise Unrecognised(f'expression {src(n)}')

    def as_opt(self, t: str, c: str, what: str) -> str:
        if t == 'optinstant':
            return c
        if t == 'instant':
            return f'(Some {c})'
        if t == 'none':
            return 'None'
        raise Unrecognised(f'{what}: an Instant or None is expected')

    def test(self, n: ast.AST, ctx: Ctx) -> str:
        if isinstance(n, ast.UnaryOp) and isinstance(n.op, ast.Not):
            c = self.test(n.operand, ctx)
            return c[5:] if c.startswith('negb ') else f'negb {c}'
        if (isinstance(n, ast.Call) and isinstance(n.func, ast.Name) and n.func.id == 'isinstance' and len(n.args) == 2
                and isinstance(n.args[0], ast.Name) and n.args[0].id in ctx.locals):
            self.skipped.append(f'{src(n)} is taken to be True')
            return 'true'
        if isinstance(n, ast.Compare) and len(n.ops) == 1:
            op, a, b = n.ops[0], n.left, n.comparators[0]
            if (isinstance(op, (ast.In, ast.NotIn)) and ctx.handler and not ctx.in_loop and is_self_attr(b, '_callbacks')
                    and isinstance(a, ast.Name) and ctx.locals.get(a.id, ('', ''))[0] == 'cbk'):
                c = f'cbk_memb {ctx.locals[a.id][1]} (callbacks w (jobs s v_owner))'
                return c if isinstance(op, ast.In) else f'negb ({c})'
            if isinstance(op, (ast.Is, ast.IsNot)) and not ctx.handler:
                pos = isinstance(op, ast.Is)
                if is_self_attr(a, 'status') and isinstance(b, ast.Name) and b.id in STATUS:
                    c = f'status_is s v_self {STATUS[b.id]}'
                    return c if pos else f'negb ({c})'
                if is_self_attr(a, '_scheduler') and is_none(b):
                    return 'negb (jlinked (jobs s v_self))' if pos else 'jlinked (jobs s v_self)'
                if (is_self_attr(a, '_scheduler') and isinstance(b, ast.Name) and b.id in ctx.locals
                        and ctx.locals[b.id][0] == 'sched'):
                    return 'jlinked (jobs s v_self)' if pos else 'negb (jlinked (jobs s v_self))'
            if isinstance(op, (ast.Lt, ast.LtE, ast.Gt, ast.GtE)):
                ta, ca = self.expr(a, ctx)
                tb, cb = self.expr(b, ctx)
                if (ta, tb) in {('instant', 'instant'), ('secs', 'int')}:
                    if isinstance(op, ast.Lt):
                        return f'({ca} <? {cb})'
                    if isinstance(op, ast.LtE):
                        return f'({ca} <=? {cb})'
                    if isinstance(op, ast.Gt):
                        return f'({cb} <? {ca})'
                    return f'({cb} <=? {ca})'
        raise Unrecognised(f'condition {src(n)}')

    # -- statements -------------------------------------------------------------------------------------
    def mcall(self, callee: str, ctx: Ctx, k: str) -> str:
        """call of a generated job method (result type MJ)"""
        e = self.fresh('e')
        return (f'match {callee} with\n| None => None\n| Some (s, r) =>\n  match r with\n  | JRet => {k}\n'
                f'  | JExc {e} => {ctx.kx} s {e}\n  end\nend')

    def scall(self, callee: str, ctx: Ctx, k: str) -> str:
        """call of a scheduler method through the record (result type GenRt.M)"""
        e = self.fresh('e')
        return (f'match {callee} with\n| None => None\n| Some (s, r) =>\n  match r with\n  | Ret => {k}\n'
                f'  | Exc {e} => {ctx.kx} s (JSched {e})\n  end\nend')

    def is_store(self, st: ast.stmt) -> bool:
        return (isinstance(st, ast.Assign) and len(st.targets) == 1 and is_self_attr(st.targets[0])
                and st.targets[0].attr in STORE_ATTR)

    def store_value(self, attr: str, value: ast.AST, ctx: Ctx) -> str:
        if attr == 'status':
            if isinstance(value, ast.Name) and value.id in STATUS:
                return STATUS[value.id]
            raise Unrecognised(f'self.status = {src(value)}')
        if not isinstance(value, (ast.Name, ast.Constant)):
            raise Unrecognised(f'self.{attr} = {src(value)}: only a local or a constant may be stored')
        t, c = self.expr(value, ctx)
        if attr == 'next_run':
            return self.as_opt(t, c, 'self.next_run')
        if attr == '_scheduler':
            if t == 'none':
                return 'false'
            if t == 'sched':
                return 'true'
        if attr == '_seconds' and t == 'secs':
            return c
        raise Unrecognised(f'self.{attr} = {src(value)}')

    def handler_store(self, st: ast.stmt, ctx: Ctx) -> str | None:
        """a store into self._callbacks of a JobCallbackHandler -> the new tuple as a coq list, else None"""
        cur = '(callbacks w (jobs s v_owner))'
        # self._callbacks += (callback, )
        if (isinstance(st, ast.AugAssign) and isinstance(st.op, ast.Add) and is_self_attr(st.target, '_callbacks')
                and isinstance(st.value, ast.Tuple) and len(st.value.elts) == 1
                and isinstance(st.value.elts[0], ast.Name)
                and ctx.locals.get(st.value.elts[0].id, ('', ''))[0] == 'cbk'):
            return f'({cur} ++ [{ctx.locals[st.value.elts[0].id][1]}])'
        if isinstance(st, ast.Assign) and len(st.targets) == 1 and is_self_attr(st.targets[0], '_callbacks'):
            v = st.value
            # self._callbacks = ()
            if isinstance(v, ast.Tuple) and not v.elts:
                return '[]'
            # self._callbacks = tuple(x for x in self._callbacks if x != callback)
            if (isinstance(v, ast.Call) and isinstance(v.func, ast.Name) and v.func.id == 'tuple' and len(v.args) == 1
                    and not v.keywords and isinstance(v.args[0], ast.GeneratorExp)):
                g = v.args[0]
                if len(g.generators) == 1:
                    c = g.generators[0]
                    if (isinstance(c.target, ast.Name) and isinstance(g.elt, ast.Name) and g.elt.id == c.target.id
                            and is_self_attr(c.iter, '_callbacks') and not c.is_async and len(c.ifs) == 1):
                        f = c.ifs[0]
                        if (isinstance(f, ast.Compare) and len(f.ops) == 1 and isinstance(f.ops[0], ast.NotEq)
                                and isinstance(f.left, ast.Name) and f.left.id == c.target.id
                                and isinstance(f.comparators[0], ast.Name)
                                and ctx.locals.get(f.comparators[0].id, ('', ''))[0] == 'cbk'
                                and f.comparators[0].id != c.target.id):
                            x = f'v_{c.target.id}'
                            return (f'(filter (fun {x} : cbk => negb (cbk_eqb {x} '
                                    f'{ctx.locals[f.comparators[0].id][1]})) {cur})')
            raise Unrecognised(f'store into the callback tuple: {src(st)}')
        return None

    def block(self, stmts: list[ast.stmt], ctx: Ctx, k: str) -> str:
        """translate stmts; [k] is the coq text that continues after the block (uses the state variable s)"""
        if not stmts:
            return k
        st, rest = stmts[0], stmts[1:]
        if isinstance(st, ast.Pass) or (isinstance(st, ast.Expr) and isinstance(st.value, ast.Constant)):
            return self.block(rest, ctx, k)
        if isinstance(st, ast.Return):
            v = st.value
            if (v is None or is_none(v) or is_self(v) or is_self_attr(v, 'status')
                    or (isinstance(v, ast.Constant) and isinstance(v.value, bool))):
                return 'kret s'
            raise Unrecognised(f'return value {src(v)}')
        if isinstance(st, ast.Raise):
            x = st.exc
            if isinstance(x, ast.Call) and isinstance(x.func, ast.Name) and x.func.id in EXC and not x.keywords:
                if all(isinstance(a, ast.Name) and ctx.locals.get(a.id, ('', ''))[0] == 'str' for a in x.args):
                    return f'{ctx.kx} s ({EXC[x.func.id]})'
            raise Unrecognised(f'raise {src(st)}')
        if ctx.handler and not ctx.in_loop:
            lst = self.handler_store(st, ctx)
            if lst is not None:
                return f'let s := set_callbacks w v_owner {lst} s in\n{self.block(rest, ctx, k)}'
        if not ctx.handler and self.is_store(st):
            # T2: a maximal run of consecutive plain stores is one update of the job table
            run = [st]
            while rest and self.is_store(rest[0]):
                run.append(rest[0])
                rest = rest[1:]
            b = '(jobs s v_self)'
            for a in run:
                attr = a.targets[0].attr
                b = f'({STORE_ATTR[attr]} {b} {self.store_value(attr, a.value, ctx)})'
            return f'let s := set_job v_self {b} s in\n{self.block(rest, ctx, k)}'
        if isinstance(st, ast.Assign) and len(st.targets) == 1:
            tg, v = st.targets[0], st.value
            if is_self_attr(tg, 'last_run') and is_now(v) and not ctx.handler:
                self.skipped.append('self.last_run = Instant.now()')
                return self.block(rest, ctx, k)
            if isinstance(tg, ast.Name) and isinstance(v, ast.Constant) and isinstance(v.value, str):
                ctx.locals[tg.id] = ('str', '')
                self.skipped.append(f'{tg.id} = <text>')
                return self.block(rest, ctx, k)
            if (isinstance(tg, ast.Name) and isinstance(v, ast.Call) and isinstance(v.func, ast.Attribute)
                    and v.func.attr == 'get_next' and is_self_attr(v.func.value, 'producer') and len(v.args) == 1
                    and not v.keywords and not ctx.handler):
                t, c = self.expr(v.args[0], ctx)
                if t != 'instant':
                    raise Unrecognised(f'argument of get_next: {src(v.args[0])}')
                name = f'v_{tg.id}'
                e = self.fresh('e')
                ctx.locals[tg.id] = ('instant', name)
                return (f'match get_next E v_self {c} s with\n| (s, r) =>\n  match r with\n  | Ok {name} =>\n'
                        f'{self.block(rest, ctx, k)}\n  | Raise {e} => {ctx.kx} s (JErr {e})\n  | OutOfFuel => None\n  end\nend')
            raise Unrecognised(f'assignment {src(st)}')
        if isinstance(st, ast.Expr) and isinstance(st.value, ast.Call):
            return self.call_stmt(st.value, ctx, lambda: self.block(rest, ctx, k))
        if isinstance(st, ast.If):
            return self.if_stmt(st, rest, ctx, k)
        if isinstance(st, ast.Try) and ctx.handler and ctx.in_loop:
            return self.try_stmt(st, rest, ctx, k)
        raise Unrecognised(f'statement {src(st)[:80]}')

    def call_stmt(self, c: ast.Call, ctx: Ctx, cont) -> str:
        f = c.func
        if c.keywords:
            raise Unrecognised(f'call {src(c)}')
        if ctx.handler:
            # callback(job)
            if (isinstance(f, ast.Name) and ctx.locals.get(f.id, ('', ''))[0] == 'cbk' and len(c.args) == 1
                    and isinstance(c.args[0], ast.Name) and ctx.locals.get(c.args[0].id, ('', ''))[0] == 'job'):
                return self.mcall(f'call_cb E w {ctx.locals[c.args[0].id][1]} {ctx.locals[f.id][1]} s', ctx, cont())
            if isinstance(f, ast.Name) and f.id == 'process_exception' and len(c.args) == 1 and ctx.exc_src is not None:
                return f'let s := add_ev (EHandler {ctx.exc_src}) s in\n{cont()}'
            raise Unrecognised(f'call {src(c)}')
        # self.<method>(...)
        if is_self_attr(f) and f.attr in ENTRY:
            name, params = self.dispatcher(f.attr)
            if len(c.args) != len(params):
                raise Unrecognised(f'call {src(c)}')
            args = []
            for a, (_, ty) in zip(c.args, params):
                t, ca = self.expr(a, ctx)
                if ty == 'optinstant':
                    args.append(self.as_opt(t, ca, src(c)))
                elif ty == 'secs' and t == 'secs':
                    args.append(ca)
                elif ty == 'sched' and t == 'sched':
                    pass
                else:
                    raise Unrecognised(f'argument {src(a)} of {src(c)}')
            return self.mcall(' '.join([name, 'E R v_self'] + args + ['s']), ctx, cont())
        # self._scheduler.<m>(self) / <scheduler local>.<m>(self)
        if isinstance(f, ast.Attribute) and f.attr in SCHED_CALLS and len(c.args) == 1 and is_self(c.args[0]):
            callee = f'{SCHED_CALLS[f.attr]} R v_self s'
            if is_self_attr(f.value, '_scheduler'):
                return (f'if jlinked (jobs s v_self) then\n{self.scall(callee, ctx, cont())}\n'
                        f'else {ctx.kx} s JAttribute')
            if isinstance(f.value, ast.Name) and ctx.locals.get(f.value.id, ('', ''))[0] == 'sched':
                return self.scall(callee, ctx, cont())
        # self.on_update.run(self) / self.on_finished.run(self)
        if (isinstance(f, ast.Attribute) and f.attr == 'run' and is_self_attr(f.value) and f.value.attr in HANDLERS
                and len(c.args) == 1 and is_self(c.args[0])):
            w = HANDLERS[f.value.attr]
            name = self.handler_run()
            return self.mcall(f'{name} E {w} v_self (callbacks {w} (jobs s v_self)) s', ctx, cont())
        # self.executor.execute()
        if isinstance(f, ast.Attribute) and f.attr == 'execute' and is_self_attr(f.value, 'executor') and not c.args:
            return f'let s := run_executor E v_self s in\n{cont()}'
        raise Unrecognised(f'call {src(c)}')

    def if_stmt(self, st: ast.If, rest: list[ast.stmt], ctx: Ctx, k: str) -> str:
        t = st.test
        if isinstance(t, ast.Compare) and len(t.ops) == 1 and is_none(t.comparators[0]) \
                and isinstance(t.ops[0], ast.Is) and not ctx.handler:
            lhs = t.left
            # if (scheduler := self._scheduler) is None: <exits>
            if isinstance(lhs, ast.NamedExpr) and is_self_attr(lhs.value, '_scheduler'):
                if st.orelse or not exits(st.body):
                    raise Unrecognised('`if (x := self._scheduler) is None:` must leave the method')
                then = self.block(st.body, ctx.copy(), k)
                c2 = ctx.copy()
                c2.locals[lhs.target.id] = ('sched', '')
                return f'if negb (jlinked (jobs s v_self)) then\n{then}\nelse\n{self.block(rest, c2, k)}'
            # if x is None: A else: B     with x an Optional[Instant] local: narrowing by match
            if isinstance(lhs, ast.Name) and ctx.locals.get(lhs.id, ('', ''))[0] == 'optinstant':
                name, v = lhs.id, ctx.locals[lhs.id][1]
                cn, cs = ctx.copy(), ctx.copy()
                cn.locals[name] = ('none', 'None')
                cs.locals[name] = ('instant', v)              # rebound by the match below
                if exits(st.body) and not st.orelse:
                    return (f'match {v} with\n| None =>\n{self.block(st.body, cn, k)}\n| Some {v} =>\n'
                            f'{self.block(rest, cs, k)}\nend')
                kn = self.fresh('k')
                after = self.block(rest, ctx.copy(), k)
                nb = self.block(st.body, cn, f'{kn} s')
                sb = self.block(st.orelse, cs, f'{kn} s') if st.orelse else f'{kn} s'
                return (f'let {kn} := fun s : st =>\n{after}\nin\nmatch {v} with\n| None =>\n{nb}\n| Some {v} =>\n{sb}\nend')
        c = self.test(t, ctx)
        if exits(st.body) and not st.orelse:
            then = self.block(st.body, ctx.copy(), k)
            els = self.block(rest, ctx, k)
            return f'if {c} then\n{then}\nelse\n{els}'
        kn = self.fresh('k')
        after = self.block(rest, ctx.copy(), k)
        then = self.block(st.body, ctx.copy(), f'{kn} s')
        els = self.block(st.orelse, ctx.copy(), f'{kn} s') if st.orelse else f'{kn} s'
        return f'let {kn} := fun s : st =>\n{after}\nin\nif {c} then\n{then}\nelse\n{els}'

    def try_stmt(self, st: ast.Try, rest: list[ast.stmt], ctx: Ctx, k: str) -> str:
        if st.orelse or st.finalbody or len(st.handlers) != 1:
            raise Unrecognised('try with else / finally / several handlers')
        h = st.handlers[0]
        if not (isinstance(h.type, ast.Name) and h.type.id == 'Exception' and h.name):
            raise Unrecognised(f'except {src(h.type) if h.type else ""}')
        # whom the handler event names: the callback called in the try body
        cbs = [n.func.id for n in ast.walk(ast.Module(body=st.body, type_ignores=[]))
               if isinstance(n, ast.Call) and isinstance(n.func, ast.Name)
               and ctx.locals.get(n.func.id, ('', ''))[0] == 'cbk']
        if len(cbs) != 1:
            raise Unrecognised('cannot attribute the exception handler to one callback')
        kn, kxn, e = self.fresh('k'), self.fresh('kx'), self.fresh('e')
        after = self.block(rest, ctx.copy(), k)
        hc = ctx.copy()
        hc.exc_src = f'(cbk_src {ctx.locals[cbs[0]][1]})'
        handler = self.block(h.body, hc, f'{kn} s')
        c2 = ctx.copy()
        c2.kx = kxn
        body = self.block(st.body, c2, f'{kn} s')
        return (f'let {kn} := fun s : st =>\n{after}\nin\n'
                f'let {kxn} := fun (s : st) ({e} : jexn) =>\n{handler}\nin\n{body}')

    # -- methods ----------------------------------------------------------------------------------------
    PRE = ('let kret := fun s : st => Some (s, JRet) in\n'
           'let kx := fun (s : st) (e : jexn) => Some (s, JExc e) in\n')

    def params_of(self, fn: ast.FunctionDef) -> list[tuple[str, str]]:
        a = fn.args
        names = [x.arg for x in a.args]
        if not names or names[0] != 'self' or a.vararg or a.kwarg or a.kwonlyargs or a.defaults or a.posonlyargs:
            raise Unrecognised(f'signature of {fn.name}')
        out = []
        for p in names[1:]:
            if p not in PARAMS:
                raise Unrecognised(f'parameter {p} of {fn.name}')
            out.append((p, PARAMS[p]))
        return out

    def sig(self, params: list[tuple[str, str]]) -> tuple[str, str]:
        """-> (binders, argument names) for the parameters that exist in the model"""
        bs = [f'(v_{p} : {COQ_TY[t]})' for p, t in params if COQ_TY[t]]
        return ' '.join(bs), ' '.join(f'v_{p}' for p, t in params if COQ_TY[t])

    def resolve(self, cls: str, m: str) -> str | None:
        if m in self.classes[cls]:
            return cls
        if m in self.classes['JobBase']:
            return 'JobBase'
        return None

    def method(self, cls: str, m: str) -> str:
        key = ('m', cls, m)
        if key in self.done:
            return self.done[key]
        if key in self.active:
            raise Unrecognised(f'recursion among the job methods at {cls}.{m}')
        if m not in METHODS[cls]:
            raise Unrecognised(f'{cls}.{m} is not a method this translator knows')
        self.active.add(key)
        fn = self.classes[cls][m]
        if [src(d) for d in fn.decorator_list] not in ([], ['override']):
            raise Unrecognised(f'decorators of {cls}.{m}')
        params = self.params_of(fn)
        ctx = Ctx()
        ctx.locals['self'] = ('job', 'v_self')
        for p, t in params:
            ctx.locals[p] = (t, f'v_{p}')
        body = self.block(fn.body, ctx, 'kret s')
        name = f'g_{cls}_{m}'
        bs, _ = self.sig(params)
        self.defs.append(f'Definition {name} (E : env) (R : jrec) (v_self : nat) {bs} (s : st) : MJ :=\n{self.PRE}{body}.\n')
        self.active.discard(key)
        self.done[key] = name
        return name

    def dispatcher(self, m: str) -> tuple[str, list[tuple[str, str]]]:
        key = ('d', m)
        if key in self.done:
            return self.done[key]
        if key in self.active:
            raise Unrecognised(f'recursion among the job methods at {m}')
        self.active.add(key)
        targets = [(k, self.resolve(cls, m)) for k, cls in KINDS]
        if all(t is None for _, t in targets):
            raise Unrecognised(f'no class has a method {m}')
        plist = {tuple(self.params_of(self.classes[t][m])) for _, t in targets if t}
        if len(plist) != 1:
            raise Unrecognised(f'the overrides of {m} have different parameters')
        params = list(plist.pop())
        bs, args = self.sig(params)
        names = {t: self.method(t, m) for _, t in targets if t}
        name = f'g_{m}'
        head = f'Definition {name} (E : env) (R : jrec) (v_self : nat) {bs} (s : st) : MJ :=\n'
        if len({t for _, t in targets}) == 1:
            body = f'{names[targets[0][1]]} E R v_self {args} s'
        else:
            rows = [f'| {k} => {names[t]} E R v_self {args} s' if t else f'| {k} => Some (s, JExc JAttribute)'
                    for k, t in targets]
            body = 'match jkind (jobs s v_self) with\n' + '\n'.join(rows) + '\nend'
        self.defs.append(head + body + '.\n')
        self.active.discard(key)
        self.done[key] = (name, params)
        return name, params

    def handler_run(self) -> str:
        """JobCallbackHandler.run: `for callback in self._callbacks: <body>` -> structural recursion"""
        key = ('h', 'run')
        if key in self.done:
            return self.done[key]
        fn = self.classes['JobCallbackHandler']['run']
        a = fn.args
        if ([x.arg for x in a.args] != ['self', 'job'] or a.vararg or a.kwarg or a.kwonlyargs or a.defaults
                or fn.decorator_list):
            raise Unrecognised('signature of JobCallbackHandler.run')
        body = [s for s in fn.body if not (isinstance(s, ast.Expr) and isinstance(s.value, ast.Constant))]
        if not body or not isinstance(body[0], ast.For):
            raise Unrecognised('JobCallbackHandler.run: a `for` over self._callbacks is expected')
        loop, rest = body[0], body[1:]
        if loop.orelse or not isinstance(loop.target, ast.Name) or not is_self_attr(loop.iter, '_callbacks'):
            raise Unrecognised(f'loop header: for {src(loop.target)} in {src(loop.iter)}')
        for n in ast.walk(loop):
            if isinstance(n, (ast.Break, ast.Continue, ast.Return)):
                raise Unrecognised('break / continue / return inside the callback loop')
        name = 'g_JobCallbackHandler_run'
        ctx = Ctx()
        ctx.handler = True
        ctx.locals['job'] = ('job', 'v_job')
        after = self.block(rest, ctx.copy(), 'kret s')
        lc = ctx.copy()
        lc.in_loop = True
        lc.locals[loop.target.id] = ('cbk', f'v_{loop.target.id}')
        inner = self.block(loop.body, lc, 'knext s')
        self.defs.append(
            f'Fixpoint {name} (E : env) (w : cbwhich) (v_job : nat) (v_callbacks : list cbk) (s : st) '
            f'{{struct v_callbacks}} : MJ :=\n{self.PRE}match v_callbacks with\n| [] =>\n{after}\n'
            f'| v_{loop.target.id} :: v_callbacks =>\nlet knext := fun s : st => {name} E w v_job v_callbacks s in\n'
            f'{inner}\nend.\n')
        self.done[key] = name
        return name

    def handler_method(self, m: str) -> None:
        """register / remove / clear of the handler [w] of job [v_owner]"""
        fn = self.classes['JobCallbackHandler'][m]
        a = fn.args
        names = [x.arg for x in a.args]
        if (names[:1] != ['self'] or any(p != 'callback' for p in names[1:]) or len(names) > 2 or a.vararg or a.kwarg
                or a.kwonlyargs or a.defaults or fn.decorator_list):
            raise Unrecognised(f'signature of JobCallbackHandler.{m}')
        ctx = Ctx()
        ctx.handler = True
        bs = ''
        for p in names[1:]:
            ctx.locals[p] = ('cbk', f'v_{p}')
            bs += f'(v_{p} : cbk) '
        body = self.block(fn.body, ctx, 'kret s')
        self.defs.append(f'Definition g_JobCallbackHandler_{m} (w : cbwhich) (v_owner : nat) {bs}(s : st) : MJ :=\n'
                         f'{self.PRE}{body}.\n')

    # -- JobBase.__lt__: a pure boolean function of two jobs ---------------------------------------------
    def pure_block(self, stmts: list[ast.stmt], ctx: Ctx) -> str:
        if not stmts:
            raise Unrecognised('__lt__ falls off its end')
        st, rest = stmts[0], stmts[1:]
        if isinstance(st, ast.Expr) and isinstance(st.value, ast.Constant):
            return self.pure_block(rest, ctx)
        if isinstance(st, ast.Return):
            v = st.value
            if isinstance(v, ast.Constant) and isinstance(v.value, bool):
                return 'true' if v.value else 'false'
            return self.test(v, ctx)
        if isinstance(st, ast.If) and not st.orelse and len(st.body) == 1 and isinstance(st.body[0], ast.Return):
            t, ret = st.test, st.body[0].value
            # if not isinstance(other_job, JobBase): return NotImplemented      (typed model: never taken)
            if (isinstance(t, ast.UnaryOp) and isinstance(t.op, ast.Not) and isinstance(t.operand, ast.Call)
                    and isinstance(t.operand.func, ast.Name) and t.operand.func.id == 'isinstance'
                    and isinstance(ret, ast.Name) and ret.id == 'NotImplemented'):
                self.test(t.operand, ctx)
                return self.pure_block(rest, ctx)
            # if (x := <job>.next_run) is None: return <bool>
            if (isinstance(t, ast.Compare) and len(t.ops) == 1 and isinstance(t.ops[0], ast.Is)
                    and is_none(t.comparators[0]) and isinstance(t.left, ast.NamedExpr)
                    and isinstance(ret, ast.Constant) and isinstance(ret.value, bool)):
                ty, c = self.expr(t.left.value, ctx)
                if ty == 'optinstant':
                    v = f'v_{t.left.target.id}'
                    c2 = ctx.copy()
                    c2.locals[t.left.target.id] = ('instant', v)
                    return (f'match {c} with\n| None => {"true" if ret.value else "false"}\n| Some {v} =>\n'
                            f'{self.pure_block(rest, c2)}\nend')
        raise Unrecognised(f'statement of __lt__: {src(st)[:80]}')

    def lt(self) -> None:
        fn = self.classes['JobBase']['__lt__']
        a = fn.args
        if [x.arg for x in a.args] != ['self', 'other_job'] or a.vararg or a.kwarg or a.kwonlyargs or a.defaults \
                or fn.decorator_list:
            raise Unrecognised('signature of __lt__')
        ctx = Ctx()
        ctx.handler = True          # no attribute vocabulary of `self` beyond next_run
        ctx.locals['self'] = ('job', 'v_self')
        ctx.locals['other_job'] = ('job', 'v_other_job')
        self.defs.append(f'Definition g_JobBase_lt (v_self v_other_job : nat) (s : st) : bool :=\n'
                         f'{self.pure_block(fn.body, ctx)}.\n')


HEADER = '''(* GenJobs.v — WRITTEN BY tools/gen_jobs.py FROM /repo/src/eascheduler/jobs/*.py ON EVERY RUN.
   Do not edit.  See coq/theories/GenRtJobs.v for the runtime and coq/theories/GenJobsEq.v for the proofs. *)
From EAS Require Import Base Sched GenRt GenRtJobs.
From Coq Require Import String.

Inductive gen_jobs_status := GenJobsOk | GenJobsError (what : string).
'''


def load(repo: Path) -> dict[str, dict[str, ast.FunctionDef]]:
    classes: dict[str, dict[str, ast.FunctionDef]] = {}
    for cls, rel in FILES.items():
        path = repo / rel
        mod = ast.parse(path.read_text(encoding='utf-8'), filename=str(path))
        found = [n for n in mod.body if isinstance(n, ast.ClassDef) and n.name == cls]
        if len(found) != 1:
            raise Unrecognised(f'class {cls} in {rel}')
        node = found[0]
        bases = [src(b) for b in node.bases]
        want = {'JobBase': ['Generic[IdType]'], 'JobCallbackHandler': []}.get(cls, ['JobBase'])
        if bases != want or node.keywords or node.decorator_list:
            raise Unrecognised(f'bases of {cls}: {bases}')
        other = [n.name for n in mod.body if isinstance(n, ast.ClassDef) and n.name not in (cls, 'JobStatusEnum')]
        if other:
            raise Unrecognised(f'unexpected classes in {rel}: {other}')
        fns: dict[str, ast.FunctionDef] = {}
        for n in node.body:
            if isinstance(n, ast.FunctionDef):
                if n.name in fns:
                    raise Unrecognised(f'{cls}.{n.name} is defined twice')
                fns[n.name] = n
            elif isinstance(n, ast.Expr) and isinstance(n.value, ast.Constant):
                pass                                            # docstring
            elif (isinstance(n, ast.Assign) and len(n.targets) == 1 and isinstance(n.targets[0], ast.Name)
                  and n.targets[0].id == '__slots__'):
                pass
            else:
                raise Unrecognised(f'unexpected member of {cls}: {src(n)[:60]}')
        known = set(METHODS[cls]) | set(PURE.get(cls, [])) | set(NOT_TRANSLATED[cls])
        extra = sorted(set(fns) - known)
        if extra:
            raise Unrecognised(f'methods of {cls} this translator does not know: {extra}')
        missing = sorted((set(METHODS[cls]) | set(PURE.get(cls, []))) - set(fns))
        if missing:
            raise Unrecognised(f'methods of {cls} that are missing: {missing}')
        classes[cls] = fns
        if cls == 'JobBase':
            # STATUS_X: Final = JobStatusEnum.X
            seen = {}
            for n in mod.body:
                if isinstance(n, ast.AnnAssign) and isinstance(n.target, ast.Name) and n.target.id in STATUS_MEMBERS:
                    seen[n.target.id] = src(n.value) if n.value else ''
            if seen != {k: f'JobStatusEnum.{v}' for k, v in STATUS_MEMBERS.items()}:
                raise Unrecognised(f'the STATUS_* constants: {seen}')
    return classes


def generate(repo: Path) -> str:
    tr = JT(load(repo))
    tr.handler_run()
    for m in ENTRY:
        tr.dispatcher(m)
    tr.lt()
    for m in METHODS['JobCallbackHandler']:
        if m != 'run':
            tr.handler_method(m)
    for cls, ms in METHODS.items():
        for m in ms:
            if cls != 'JobCallbackHandler':
                tr.method(cls, m)          # a method every concrete class overrides is still translated
    text = HEADER + '\nDefinition gen_jobs_status_v : gen_jobs_status := GenJobsOk.\n\n'
    text += '\n'.join(indent(d) + '\n' for d in tr.defs)
    nt = '; '.join(f'{c}: {", ".join(v)}' for c, v in NOT_TRANSLATED.items())
    text += f'\n(* not translated: {nt} *)\n(* skipped / assumed: {"; ".join(sorted(set(tr.skipped)))} *)\n'
    return text


def main() -> int:
    repo, out = Path(sys.argv[1]), Path(sys.argv[2])
    try:
        text = generate(repo)
    except (Unrecognised, OSError, SyntaxError, KeyError, IndexError, AttributeError, TypeError) as e:
        msg = str(e).replace('"', "'").replace('\n', ' ')[:300]
        text = HEADER + f'\nDefinition gen_jobs_status_v : gen_jobs_status := GenJobsError "{msg}".\n'
        print(f'gen_jobs: not recognised: {msg}', file=sys.stderr)
    old = out.read_text() if out.exists() else None
    if old != text:
        out.write_text(text)
    return 0          # fail closed inside Coq: GenJobsEq.v does not compile without the definitions


if __name__ == '__main__':
    sys.exit(main())
