#!/bin/sh
# tools/coverage_report.sh — measurement only: which lines / branches of /repo/src/eascheduler do the implementation-side
# harness subprocesses of the 20 quick checks exercise?  (a sitecustomize.py written for the duration of this script starts coverage in
# every harness subprocess.)  Evidence and replays of these runs go to a scratch directory.
cd /verif || exit 2
rm -rf .scratch/cov/data; mkdir -p .scratch/cov/data .scratch/cov/out
cat > .scratch/cov/coveragerc <<EOT
[run]
branch = True
parallel = True
source = /repo/src/eascheduler
data_file = /verif/.scratch/cov/data/.coverage
disable_warnings = no-data-collected,module-not-measured,module-not-imported
EOT
# the hook exists only while this script runs (a leftover marker once slowed every check down by an order of magnitude)
cat > sitecustomize.py <<'EOT'
import os
_HERE = os.path.dirname(os.path.abspath(__file__))
if os.path.exists(os.path.join(_HERE, '.scratch', 'cov', 'ENABLED')):
    try:
        os.environ['COVERAGE_PROCESS_START'] = os.path.join(_HERE, '.scratch', 'cov', 'coveragerc')
        import coverage
        coverage.process_startup()
    except Exception:       # noqa: BLE001
        pass
EOT
trap 'rm -f /verif/sitecustomize.py /verif/.scratch/cov/ENABLED' EXIT INT TERM
touch .scratch/cov/ENABLED
for c in C01 C02 C03 C04 C05 C06 C07 C08 C09 C10 C11 C12 C13 C14 C15 C16 C17 C18 C19 C20; do
  VERIF_OUT=/verif/.scratch/cov/out ./check $c 2>&1 | tail -1 | cut -c1-160
done
rm -f .scratch/cov/ENABLED
cd .scratch/cov && /venv/bin/python -m coverage combine --rcfile=coveragerc >/dev/null 2>&1
/venv/bin/python -m coverage report --rcfile=coveragerc --show-missing --skip-empty 2>&1 | tee report.txt | tail -60
