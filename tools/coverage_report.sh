#!/bin/sh
# tools/coverage_report.sh — measurement only: which lines / branches of /repo/src/eascheduler do the implementation-side
# harness subprocesses of the 20 quick checks exercise?  (sitecustomize.py starts coverage in every harness subprocess
# while the marker file .scratch/cov/ENABLED exists.)  Evidence and replays of these runs go to a scratch directory.
cd /verif || exit 2
rm -rf .scratch/cov/data; mkdir -p .scratch/cov/data .scratch/cov/out
cat > .scratch/cov/coveragerc <<EOT
[run]
branch = True
parallel = True
source = /repo/src/eascheduler
data_file = /verif/.scratch/cov/data/.coverage
disable_warnings = no-data-collected,module-not-measured,module-not-imported
EOT
touch .scratch/cov/ENABLED
for c in C01 C02 C03 C04 C05 C06 C07 C08 C09 C10 C11 C12 C13 C14 C15 C16 C17 C18 C19 C20; do
  VERIF_OUT=/verif/.scratch/cov/out ./check $c 2>&1 | tail -1 | cut -c1-160
done
rm -f .scratch/cov/ENABLED
cd .scratch/cov && /venv/bin/python -m coverage combine --rcfile=coveragerc >/dev/null 2>&1
/venv/bin/python -m coverage report --rcfile=coveragerc --show-missing --skip-empty 2>&1 | tee report.txt | tail -60
