#!/usr/bin/env python3
"""gen_builder.py — fail-closed translator: src/eascheduler/{builder/jobs.py, job_stores/memory.py,
job_control/{base,job_countdown,job_datetime,job_onetime}.py, executor/base.py}  ->  coq/gen/GenBuilder.v.

What lies between the public API and the job classes is translated statement by statement into Gallina over the state
of Sched.v, in the runtime of GenRtBuilder.v (+ GenRt.v / GenRtJobs.v), and CALLS the definitions generated from the job
classes (coq/gen/GenJobs.v, tools/gen_jobs.py): JobBuilder._add_job / countdown / once / at, InMemoryStore.add_job /
_job_finished / pop / get / __getitem__ / __contains__ / __len__, the methods and properties of the control classes,
SyncExecutor.execute, AsyncExecutor._execute / execute.  coq/theories/GenBuilderEq.v proves that the generated
functions compute what the hand-written model computes (Sched.create / step_op, the store, exec_pre, wrap_beh).

Same architecture as gen_sched.py / gen_jobs.py (whose Unrecognised / src / is_self_attr / is_none / exits / indent are
imported; neither file is changed): continuation passing for if / try / return / raise, one definition per method.
Anything outside the vocabulary raises Unrecognised and the generated file then carries
[gen_builder_status_v = GenBuilderError "..."] and NO definitions, so GenBuilderEq.v fails (fail closed).

What the translation ASSUMES (trusted; everything else is proved in GenBuilderEq.v against the models):
  B1  objects: a job object is its index j in [jobs s] (T1 of gen_jobs.py); a control object is the index of its `_job`
      (`self._job` is [v_self]); the executor of job j is identified with j; the builder's `self._scheduler` is the ONE
      scheduler, `self._job_store` the one InMemoryStore or None: `self._job_store is not None` is the flag [hs];
  B2  `job = CountdownJob / OneTimeJob / DateTimeJob(self._executor(coro_func, args, kwargs), CONV(x), job_id=job_id)`:
      building the executor has no effect on the model; the conversion CONV (get_pos_timedelta_secs / get_instant /
      _get_producer) is a PRIMITIVE whose result is handed in ([cres]: the model's value, or the exception it raised -
      then the entry point raises it and nothing else happens); `__init__` is not translated: the new object is
      Sched.new_job of that class in the first free slot ([alloc_obj]; CountdownJob.__init__ validates secs > 0 once
      more, which the conversion has already done); `job_id` is the key the job ends up with (an explicit id, or the
      JOB_ID_FUNC default);
  B3  `<job>.link_scheduler(self._scheduler)` / `<job>.job_finish()` / `self._job.<m>(...)` are the dispatchers
      g_<m> of GenJobs.v (dynamic dispatch on the job's class, T3 of gen_jobs.py); GenBuilderEq.v plugs in the generated
      scheduler closed with the generated execute (GenJobsEq.knot2);
  B4  `except Exception:` catches every exception of the model's vocabulary (GenRtJobs.jexn: all of them are
      subclasses of Exception); a bare `raise` inside the handler re-raises the exception that was caught;
  B5  InMemoryStore._jobs is the association list [store s]: `k in d` = store_has, `d[k] = j` = [store_put] (a new key
      is consed, as in Sched.create), `d.pop(k)` = store_remove or KeyError, `d.get(k)` / `d[k]` = [store_find],
      `len(d)`= length; `job.id` is [jkey]; the bound method `self._job_finished` is the callback [CbStore] of
      GenRtJobs.v, and `<job>.on_finished.register(...)` is g_JobCallbackHandler_register of GenJobs.v;
  B6  SKIPPED (no counterpart in the model): `msg = f'...'`; return VALUES of the state-changing methods (`return
      self` / `job` / `<Control>(job)`); `isinstance(other, BaseControl)` is [other <> None] (a typed model: the other
      object is a control, or it is not);
  B7  `nr.to_system_tz().local().py_datetime()` is an uninterpreted function [tz] of the instant (the system time
      zone is not modelled here): next_run_datetime is None exactly when next_run is;
  B8  SyncExecutor: `self._func(*self._args, **self._kwargs)` is [call_func] (event EExec; raises when the environment
      says so - an Exception; BaseExceptions of user code are not modelled); `process_exception(e)` is the event
      EHandler (HExec j);
  B9  AsyncExecutor._execute is translated as ONE resumption of the wrapper coroutine: `await self._func(...)` ends
      as AsyncExec.uout says (parked / returned / an Exception / a CancelledError); every resumption re-enters the
      await inside the same `try`; `except Exception` does not catch the CancelledError; the result is what the task
      sees (TaskMgr.next) and whether process_exception was called.  AsyncExecutor.execute: which coroutine is handed
      to `self.task_manager.create_task` ([CoWrapper] = `self._execute()`);
  B10 not translated: every `__init__`, JobBuilder's constructor arguments, InMemoryStore.items,
      BaseControl.last_run_datetime (last_run is not modelled), ExecutorBase / JobStoreBase (abstract).

usage: gen_builder.py <repo_root> <out_file>
"""
from __future__ import annotations

import ast
import sys
from pathlib import Path

sys.path.insert(0, str(Path(__file__).resolve().parent))
from gen_sched import Unrecognised, exits, indent, is_none, is_self_attr, src  # noqa: E402

P = 'src/eascheduler/'
FILES = {
    'JobBuilder': P + 'builder/jobs.py',
    'InMemoryStore': P + 'job_stores/memory.py',
    'BaseControl': P + 'job_control/base.py',
    'CountdownJobControl': P + 'job_control/job_countdown.py',
    'DateTimeJobControl': P + 'job_control/job_datetime.py',
    'OneTimeJobControl': P + 'job_control/job_onetime.py',
    'SyncExecutor': P + 'executor/base.py',
    'AsyncExecutor': P + 'executor/base.py',
}
BASES = {
    'JobBuilder': [], 'InMemoryStore': ['JobStoreBase', 'Generic[JOB_ID_TYPE, JOB_TYPE]'], 'BaseControl': [],
    'CountdownJobControl': ['BaseControl'], 'DateTimeJobControl': ['BaseControl'], 'OneTimeJobControl': ['BaseControl'],
    'SyncExecutor': ['ExecutorBase'], 'AsyncExecutor': ['ExecutorBase'],
}
OTHER_CLASSES = {P + 'executor/base.py': {'ExecutorBase'}}           # classes of these files that are not translated
# state-changing methods: class -> {method: [parameter types by position]}
EFFECT = {
    'InMemoryStore': {'add_job': ['job'], '_job_finished': ['job']},
    'JobBuilder': {'_add_job': ['job']},
    'BaseControl': {'cancel': []},
    'CountdownJobControl': {'set_countdown': ['secs'], 'stop': [], 'reset': []},
    'DateTimeJobControl': {'pause': [], 'resume': []},
    'OneTimeJobControl': {},
    'SyncExecutor': {'execute': []},
}
ENTRY = {'countdown': 'KCountdown', 'once': 'KOnce', 'at': 'KAt'}
VALUE = {
    'InMemoryStore': {'pop': ['key'], 'get': ['key'], '__getitem__': ['key'], '__contains__': ['key'], '__len__': []},
    'BaseControl': {'__eq__': ['optctl'], 'id': [], 'status': [], 'next_run_datetime': []},
}
NOT_TRANSLATED = {
    'JobBuilder': ['__init__'], 'InMemoryStore': ['__init__', 'items'], 'BaseControl': ['last_run_datetime'],
    'CountdownJobControl': ['__init__'], 'DateTimeJobControl': ['__init__'], 'OneTimeJobControl': ['__init__'],
    'SyncExecutor': ['__init__'], 'AsyncExecutor': ['__init__'],
}
ASYNC = {'AsyncExecutor': ['_execute', 'execute']}
COQ_TY = {'job': 'nat', 'secs': 'Z', 'key': 'Z', 'optctl': 'option nat'}
# what the job constructors take: class -> (kind, conversion, cres payload type, new_job arguments)
JOBCLS = {
    'CountdownJob': ('KCountdown', 'get_pos_timedelta_secs', 'Z', lambda v: f'0 {v}'),
    'OneTimeJob': ('KOnce', 'get_instant', 'Z', lambda v: f'{v} 0'),
    'DateTimeJob': ('KAt', '_get_producer', 'unit', lambda v: '0 0'),
}
CONTROL_OF = {'CountdownJob': 'CountdownJobControl', 'OneTimeJob': 'OneTimeJobControl', 'DateTimeJob': 'DateTimeJobControl'}
JOBCALLS = {'job_finish': [], 'job_pause': [], 'job_resume': [], 'reset': [], 'set_countdown': ['secs']}
EXC = {'KeyError': 'JErr EKeyError'}
PROPS = {'id', 'status', 'next_run_datetime', 'last_run_datetime'}


def is_name(n: ast.AST, ident: str | None = None) -> bool:
    return isinstance(n, ast.Name) and (ident is None or n.id == ident)


def is_user_call(n: ast.AST) -> bool:
    """self._func(*self._args, **self._kwargs)"""
    return (isinstance(n, ast.Call) and is_self_attr(n.func, '_func') and len(n.args) == 1
            and isinstance(n.args[0], ast.Starred) and is_self_attr(n.args[0].value, '_args')
            and len(n.keywords) == 1 and n.keywords[0].arg is None and is_self_attr(n.keywords[0].value, '_kwargs'))


class Ctx:
    def __init__(self, cls: str) -> None:
        self.cls = cls
        self.locals: dict[str, tuple[str, str]] = {}     # python name -> (type, coq text)
        self.kx = 'kx'
        self.caught: tuple[str, str] | None = None       # inside `except`: (variable of the caught exception, outer kx)
        self.exc_name: str | None = None                 # `except Exception as <name>`

    def copy(self) -> 'Ctx':
        c = Ctx(self.cls)
        c.locals = dict(self.locals)
        c.kx, c.caught, c.exc_name = self.kx, self.caught, self.exc_name
        return c

    def has(self, name: str, ty: str) -> bool:
        return self.locals.get(name, ('', ''))[0] == ty


class BT:
    def __init__(self) -> None:
        self.n = 0
        self.skipped: list[str] = []

    def fresh(self, base: str) -> str:
        self.n += 1
        return f'{base}{self.n}'

    # -- calls with an effect ---------------------------------------------------------------------------
    def mcall(self, callee: str, ctx: Ctx, k: str) -> str:
        e = self.fresh('e')
        return (f'match {callee} with\n| None => None\n| Some (s, r) =>\n  match r with\n  | JRet => {k}\n'
                f'  | JExc {e} => {ctx.kx} s {e}\n  end\nend')

    def job_of(self, n: ast.AST, ctx: Ctx) -> str | None:
        """an expression that denotes a job object -> its coq text"""
        if isinstance(n, ast.Name) and ctx.has(n.id, 'job'):
            return ctx.locals[n.id][1]
        if is_self_attr(n, '_job') and ctx.cls.endswith('Control'):
            return 'v_self'
        return None

    def key_of(self, n: ast.AST, ctx: Ctx) -> str | None:
        if isinstance(n, ast.Name) and ctx.has(n.id, 'key'):
            return ctx.locals[n.id][1]
        if isinstance(n, ast.Attribute) and n.attr == 'id':
            j = self.job_of(n.value, ctx)
            if j is not None:
                return f'(jkey (jobs s {j}))'
        return None

    def call_stmt(self, c: ast.Call, ctx: Ctx, cont) -> str:
        f = c.func
        if is_user_call(c) and ctx.cls == 'SyncExecutor':
            return self.mcall('call_func E v_self s', ctx, cont())
        if c.keywords:
            raise Unrecognised(f'call {src(c)}')
        if (is_name(f, 'process_exception') and len(c.args) == 1 and ctx.exc_name is not None
                and is_name(c.args[0], ctx.exc_name) and ctx.cls == 'SyncExecutor'):
            return f'let s := add_ev (EHandler (HExec v_self)) s in\n{cont()}'
        if not isinstance(f, ast.Attribute):
            raise Unrecognised(f'call {src(c)}')
        # <job>.<method of the job classes>(...)
        j = self.job_of(f.value, ctx)
        if j is not None:
            if f.attr == 'link_scheduler' and ctx.cls == 'JobBuilder' and len(c.args) == 1 \
                    and is_self_attr(c.args[0], '_scheduler'):
                return self.mcall(f'g_link_scheduler E R {j} s', ctx, cont())
            if f.attr in JOBCALLS and len(c.args) == len(JOBCALLS[f.attr]):
                args = []
                for a, ty in zip(c.args, JOBCALLS[f.attr]):
                    if not (isinstance(a, ast.Name) and ctx.has(a.id, ty)):
                        raise Unrecognised(f'argument {src(a)} of {src(c)}')
                    args.append(ctx.locals[a.id][1])
                return self.mcall(' '.join([f'g_{f.attr} E R {j}'] + args + ['s']), ctx, cont())
        # <job>.on_finished.register(self._job_finished)
        if (f.attr == 'register' and isinstance(f.value, ast.Attribute) and f.value.attr == 'on_finished'
                and ctx.cls == 'InMemoryStore' and len(c.args) == 1 and is_self_attr(c.args[0], '_job_finished')):
            j = self.job_of(f.value.value, ctx)
            if j is not None:
                return self.mcall(f'g_JobCallbackHandler_register CbFin {j} CbStore s', ctx, cont())
        # self._job_store.add_job(job)
        if f.attr == 'add_job' and is_self_attr(f.value, '_job_store') and ctx.cls == 'JobBuilder' and len(c.args) == 1:
            j = self.job_of(c.args[0], ctx)
            if j is not None:
                return self.mcall(f'g_InMemoryStore_add_job {j} s', ctx, cont())
        # self._add_job(job)
        if is_self_attr(f, '_add_job') and ctx.cls == 'JobBuilder' and len(c.args) == 1:
            j = self.job_of(c.args[0], ctx)
            if j is not None:
                return self.mcall(f'g_JobBuilder_add_job E R hs {j} s', ctx, cont())
        # self._jobs.pop(<key>)   as a statement
        if f.attr == 'pop' and is_self_attr(f.value, '_jobs') and ctx.cls == 'InMemoryStore' and len(c.args) == 1:
            k = self.key_of(c.args[0], ctx)
            if k is not None:
                return (f'if store_has {k} (store s) then\nlet s := set_store (store_remove {k} (store s)) s in\n'
                        f'{cont()}\nelse {ctx.kx} s (JErr EKeyError)')
        raise Unrecognised(f'call {src(c)}')

    # -- conditions -------------------------------------------------------------------------------------
    def test(self, n: ast.AST, ctx: Ctx) -> tuple[str, str]:
        """-> (prelude lets, coq bool)"""
        if isinstance(n, ast.UnaryOp) and isinstance(n.op, ast.Not):
            pre, c = self.test(n.operand, ctx)
            return pre, f'negb ({c})'
        if isinstance(n, ast.Compare) and len(n.ops) == 1:
            op, a, b = n.ops[0], n.left, n.comparators[0]
            if (isinstance(op, (ast.Is, ast.IsNot)) and is_self_attr(a, '_job_store') and is_none(b)
                    and ctx.cls == 'JobBuilder'):
                return '', ('negb hs' if isinstance(op, ast.Is) else 'hs')
            if isinstance(op, (ast.In, ast.NotIn)) and is_self_attr(b, '_jobs') and ctx.cls == 'InMemoryStore':
                pre = ''
                if isinstance(a, ast.NamedExpr):
                    k = self.key_of(a.value, ctx)
                    if k is None:
                        raise Unrecognised(f'walrus {src(a)}')
                    v = f'v_{a.target.id}'
                    pre = f'let {v} := {k} in\n'
                    ctx.locals[a.target.id] = ('key', v)
                    k = v
                else:
                    k = self.key_of(a, ctx)
                if k is not None:
                    c = f'store_has {k} (store s)'
                    return pre, (c if isinstance(op, ast.In) else f'negb ({c})')
        raise Unrecognised(f'condition {src(n)}')

    # -- statements -------------------------------------------------------------------------------------
    def block(self, stmts: list[ast.stmt], ctx: Ctx, k: str) -> str:
        if not stmts:
            return k
        st, rest = stmts[0], stmts[1:]
        if isinstance(st, ast.Pass) or (isinstance(st, ast.Expr) and isinstance(st.value, ast.Constant)):
            return self.block(rest, ctx, k)
        if isinstance(st, ast.Return):
            v = st.value
            ok = (v is None or is_none(v) or is_name(v, 'self') or (isinstance(v, ast.Name) and ctx.has(v.id, 'job')))
            if (not ok and isinstance(v, ast.Call) and isinstance(v.func, ast.Name) and len(v.args) == 1
                    and not v.keywords and isinstance(v.args[0], ast.Name) and ctx.has(v.args[0].id, 'job')):
                # return <Control>(job): the control class must be the one of the job's class
                ok = ctx.locals.get('%control', ('', ''))[1] == v.func.id
            if ok:
                return 'kret s'
            raise Unrecognised(f'return value {src(v)}')
        if isinstance(st, ast.Raise):
            if st.exc is None and st.cause is None:
                if ctx.caught is None:
                    raise Unrecognised('bare raise outside a handler')
                e, kx = ctx.caught
                return f'{kx} s {e}'
            x = st.exc
            if (isinstance(x, ast.Call) and isinstance(x.func, ast.Name) and x.func.id in EXC and not x.keywords
                    and all(isinstance(a, ast.Name) and ctx.has(a.id, 'str') for a in x.args)):
                return f'{ctx.kx} s ({EXC[x.func.id]})'
            raise Unrecognised(f'raise {src(st)}')
        if isinstance(st, ast.Assign) and len(st.targets) == 1:
            tg, v = st.targets[0], st.value
            if isinstance(tg, ast.Name) and (isinstance(v, ast.JoinedStr)
                                             or (isinstance(v, ast.Constant) and isinstance(v.value, str))):
                ctx.locals[tg.id] = ('str', '')
                self.skipped.append(f'{tg.id} = <text>')
                return self.block(rest, ctx, k)
            # self._jobs[<key>] = <job>
            if (isinstance(tg, ast.Subscript) and is_self_attr(tg.value, '_jobs') and ctx.cls == 'InMemoryStore'):
                kk, j = self.key_of(tg.slice, ctx), self.job_of(v, ctx)
                if kk is not None and j is not None:
                    return f'let s := set_store (store_put {kk} {j} (store s)) s in\n{self.block(rest, ctx, k)}'
            raise Unrecognised(f'assignment {src(st)}')
        if isinstance(st, ast.Expr) and isinstance(st.value, ast.Call):
            return self.call_stmt(st.value, ctx, lambda: self.block(rest, ctx, k))
        if isinstance(st, ast.If):
            pre, c = self.test(st.test, ctx)
            if exits(st.body) and not st.orelse:
                then = self.block(st.body, ctx.copy(), k)
                return f'{pre}if {c} then\n{then}\nelse\n{self.block(rest, ctx, k)}'
            kn = self.fresh('k')
            after = self.block(rest, ctx.copy(), k)
            then = self.block(st.body, ctx.copy(), f'{kn} s')
            els = self.block(st.orelse, ctx.copy(), f'{kn} s') if st.orelse else f'{kn} s'
            return f'{pre}let {kn} := fun s : st =>\n{after}\nin\nif {c} then\n{then}\nelse\n{els}'
        if isinstance(st, ast.Try):
            return self.try_stmt(st, rest, ctx, k)
        raise Unrecognised(f'statement {src(st)[:80]}')

    def try_stmt(self, st: ast.Try, rest: list[ast.stmt], ctx: Ctx, k: str) -> str:
        if st.orelse or st.finalbody or len(st.handlers) != 1:
            raise Unrecognised('try with else / finally / several handlers')
        h = st.handlers[0]
        if not is_name(h.type, 'Exception'):
            raise Unrecognised(f'except {src(h.type) if h.type else ""}')
        kn, kxn, e = self.fresh('k'), self.fresh('kx'), self.fresh('e')
        after = self.block(rest, ctx.copy(), k)
        hc = ctx.copy()
        hc.caught = (e, ctx.kx)
        hc.exc_name = h.name
        handler = self.block(h.body, hc, f'{kn} s')
        c2 = ctx.copy()
        c2.kx = kxn
        body = self.block(st.body, c2, f'{kn} s')
        return (f'let {kn} := fun s : st =>\n{after}\nin\n'
                f'let {kxn} := fun (s : st) ({e} : jexn) =>\n{handler}\nin\n{body}')

    PRE = ('let kret := fun s : st => Some (s, JRet) in\n'
           'let kx := fun (s : st) (e : jexn) => Some (s, JExc e) in\n')

    def plain_params(self, fn: ast.FunctionDef, types: list[str], what: str) -> list[tuple[str, str]]:
        a = fn.args
        names = [x.arg for x in a.args]
        if (not names or names[0] != 'self' or a.vararg or a.kwarg or a.kwonlyargs or a.defaults or a.posonlyargs
                or len(names) - 1 != len(types)):
            raise Unrecognised(f'signature of {what}')
        return list(zip(names[1:], types))

    def cname(self, cls: str, m: str) -> str:
        return f'g_{cls}_{m.strip("_")}' if m != '_add_job' else 'g_JobBuilder_add_job'

    def effect_method(self, cls: str, m: str, fn: ast.FunctionDef) -> str:
        params = self.plain_params(fn, EFFECT[cls][m], f'{cls}.{m}')
        ctx = Ctx(cls)
        bs = []
        for p, t in params:
            ctx.locals[p] = (t, f'v_{p}')
            bs.append(f'(v_{p} : {COQ_TY[t]})')
        body = self.block(fn.body, ctx, 'kret s')
        if cls == 'InMemoryStore':
            head = ''
        elif cls == 'JobBuilder':
            head = '(E : env) (R : jrec) (hs : bool) '
        elif cls == 'SyncExecutor':
            head = '(E : env) (v_self : nat) '
        else:
            head = '(E : env) (R : jrec) (v_self : nat) '
        return f'Definition {self.cname(cls, m)} {head}{" ".join(bs)} (s : st) : MJ :=\n{self.PRE}{body}.\n'

    # -- JobBuilder.countdown / once / at -----------------------------------------------------------------
    def entry(self, m: str, fn: ast.FunctionDef) -> str:
        a = fn.args
        names = [x.arg for x in a.args]
        if (len(names) != 3 or names[0] != 'self' or a.vararg is None or a.kwarg is None or len(a.kwonlyargs) != 1
                or a.defaults or a.posonlyargs or len(a.kw_defaults) != 1 or not is_none(a.kw_defaults[0])
                or fn.decorator_list):
            raise Unrecognised(f'signature of JobBuilder.{m}')
        x, func, va, kw, jid = names[1], names[2], a.vararg.arg, a.kwarg.arg, a.kwonlyargs[0].arg
        body = [s for s in fn.body if not (isinstance(s, ast.Expr) and isinstance(s.value, ast.Constant))]
        if not body or not (isinstance(body[0], ast.Assign) and len(body[0].targets) == 1
                            and isinstance(body[0].targets[0], ast.Name) and isinstance(body[0].value, ast.Call)):
            raise Unrecognised(f'JobBuilder.{m}: `job = <JobClass>(...)` is expected first')
        jname, c = body[0].targets[0].id, body[0].value
        if not (isinstance(c.func, ast.Name) and c.func.id in JOBCLS):
            raise Unrecognised(f'constructor {src(c.func)}')
        kind, conv, pty, fields = JOBCLS[c.func.id]
        if kind != ENTRY[m]:
            raise Unrecognised(f'JobBuilder.{m} creates a {c.func.id}')
        ex = c.args[0] if c.args else None
        if not (len(c.args) == 2 and isinstance(ex, ast.Call) and is_self_attr(ex.func, '_executor')
                and [src(y) for y in ex.args] == [func, va, kw] and not ex.keywords):
            raise Unrecognised(f'executor argument of {src(c)[:80]}')
        cv = c.args[1]
        if not (isinstance(cv, ast.Call) and is_name(cv.func, conv) and len(cv.args) == 1 and is_name(cv.args[0], x)
                and not cv.keywords):
            raise Unrecognised(f'conversion argument {src(cv)}: {conv}({x}) is expected')
        if not (len(c.keywords) == 1 and c.keywords[0].arg == 'job_id' and is_name(c.keywords[0].value, jid)):
            raise Unrecognised(f'keywords of {src(c)[:80]}')
        ctx = Ctx('JobBuilder')
        ctx.locals[jname] = ('job', f'v_{jname}')
        ctx.locals['%control'] = ('', CONTROL_OF[c.func.id])
        val, e = self.fresh('c'), self.fresh('e')
        rest = self.block(body[1:], ctx, 'kret s')
        return (f'Definition g_JobBuilder_{m} (E : env) (R : jrec) (hs : bool) (v_{x} : cres {pty}) (v_{jid} : Z) '
                f'(s : st) : MJ :=\n{self.PRE}match v_{x} with\n| CExc {e} => kx s (JErr {e})\n| CVal {val} =>\n'
                f'let v_{jname} := njobs s in\nlet s := alloc_obj (new_job {kind} {fields(val)} v_{jid}) s in\n{rest}\nend.\n')

    # -- value-returning methods --------------------------------------------------------------------------
    def value_method(self, cls: str, m: str, fn: ast.FunctionDef) -> str:
        decos = [src(d) for d in fn.decorator_list]
        if decos != (['property'] if m in PROPS else []):
            raise Unrecognised(f'decorators of {cls}.{m}')
        params = self.plain_params(fn, VALUE[cls][m], f'{cls}.{m}')
        body = [s for s in fn.body if not (isinstance(s, ast.Expr) and isinstance(s.value, ast.Constant))]
        name = f'g_{cls}_{m.strip("_")}'
        if cls == 'InMemoryStore':
            if len(body) != 1 or not isinstance(body[0], ast.Return) or body[0].value is None:
                raise Unrecognised(f'{cls}.{m}: a single return is expected')
            v = body[0].value
            kname = f'v_{params[0][0]}' if params else ''
            arg = f'({kname} : Z) ' if params else ''

            def is_key(n: ast.AST) -> bool:
                return bool(params) and is_name(n, params[0][0])
            if (m == 'pop' and isinstance(v, ast.Call) and isinstance(v.func, ast.Attribute) and v.func.attr == 'pop'
                    and is_self_attr(v.func.value, '_jobs') and len(v.args) == 1 and is_key(v.args[0]) and not v.keywords):
                return (f'Definition {name} {arg}(s : st) : st * cres nat :=\nmatch store_find {kname} (store s) with\n'
                        f'| Some j => (set_store (store_remove {kname} (store s)) s, CVal j)\n'
                        f'| None => (s, CExc EKeyError)\nend.\n')
            if (m == 'get' and isinstance(v, ast.Call) and isinstance(v.func, ast.Attribute) and v.func.attr == 'get'
                    and is_self_attr(v.func.value, '_jobs') and len(v.args) == 1 and is_key(v.args[0]) and not v.keywords):
                return f'Definition {name} {arg}(s : st) : option nat :=\nstore_find {kname} (store s).\n'
            if m == '__getitem__' and isinstance(v, ast.Subscript) and is_self_attr(v.value, '_jobs') and is_key(v.slice):
                return (f'Definition {name} {arg}(s : st) : cres nat :=\nmatch store_find {kname} (store s) with\n'
                        f'| Some j => CVal j\n| None => CExc EKeyError\nend.\n')
            if (m == '__contains__' and isinstance(v, ast.Compare) and len(v.ops) == 1 and isinstance(v.ops[0], ast.In)
                    and is_key(v.left) and is_self_attr(v.comparators[0], '_jobs')):
                return f'Definition {name} {arg}(s : st) : bool :=\nstore_has {kname} (store s).\n'
            if (m == '__len__' and isinstance(v, ast.Call) and is_name(v.func, 'len') and len(v.args) == 1
                    and is_self_attr(v.args[0], '_jobs') and not v.keywords):
                return f'Definition {name} (s : st) : nat :=\nList.length (store s).\n'
            raise Unrecognised(f'{cls}.{m}: {src(v)}')
        # BaseControl
        if m == '__eq__':
            o = params[0][0]
            if (len(body) == 2 and isinstance(body[0], ast.If) and not body[0].orelse and len(body[0].body) == 1
                    and isinstance(body[0].body[0], ast.Return) and isinstance(body[1], ast.Return)):
                t, r0, r1 = body[0].test, body[0].body[0].value, body[1].value
                if (isinstance(t, ast.UnaryOp) and isinstance(t.op, ast.Not) and isinstance(t.operand, ast.Call)
                        and is_name(t.operand.func, 'isinstance') and len(t.operand.args) == 2
                        and is_name(t.operand.args[0], o) and is_name(t.operand.args[1], 'BaseControl')
                        and isinstance(r0, ast.Constant) and r0.value is False
                        and isinstance(r1, ast.Compare) and len(r1.ops) == 1 and isinstance(r1.ops[0], ast.Is)
                        and is_self_attr(r1.left, '_job') and isinstance(r1.comparators[0], ast.Attribute)
                        and r1.comparators[0].attr == '_job' and is_name(r1.comparators[0].value, o)):
                    return (f'Definition {name} (v_self : nat) (v_{o} : option nat) : bool :=\nmatch v_{o} with\n'
                            f'| None => false\n| Some v_{o} => Nat.eqb v_self v_{o}\nend.\n')
            raise Unrecognised('BaseControl.__eq__')
        if m in ('id', 'status'):
            v = body[0].value if len(body) == 1 and isinstance(body[0], ast.Return) else None
            if isinstance(v, ast.Attribute) and v.attr == m and is_self_attr(v.value, '_job'):
                f, ty = ('jkey', 'Z') if m == 'id' else ('jstatus', 'status')
                return f'Definition {name} (v_self : nat) (s : st) : {ty} :=\n{f} (jobs s v_self).\n'
            raise Unrecognised(f'BaseControl.{m}')
        if m == 'next_run_datetime':
            if (len(body) == 2 and isinstance(body[0], ast.If) and not body[0].orelse and len(body[0].body) == 1
                    and isinstance(body[0].body[0], ast.Return) and is_none(body[0].body[0].value)
                    and isinstance(body[1], ast.Return)):
                t, r1 = body[0].test, body[1].value
                if (isinstance(t, ast.Compare) and len(t.ops) == 1 and isinstance(t.ops[0], ast.Is)
                        and is_none(t.comparators[0]) and isinstance(t.left, ast.NamedExpr)
                        and isinstance(t.left.value, ast.Attribute) and t.left.value.attr == 'next_run'
                        and is_self_attr(t.left.value.value, '_job')
                        and src(r1) == f'{t.left.target.id}.to_system_tz().local().py_datetime()'):
                    v = f'v_{t.left.target.id}'
                    return (f'Definition {name} (tz : Z -> Z) (v_self : nat) (s : st) : option Z :=\n'
                            f'match jnext (jobs s v_self) with\n| None => None\n| Some {v} => Some (tz {v})\nend.\n')
            raise Unrecognised('BaseControl.next_run_datetime')
        raise Unrecognised(f'{cls}.{m}')

    # -- AsyncExecutor ------------------------------------------------------------------------------------
    def ablock(self, stmts: list[ast.stmt], kx: str, exc_name: str | None, k: str, seen: list) -> str:
        if not stmts:
            return k
        st, rest = stmts[0], stmts[1:]
        if isinstance(st, ast.Pass) or (isinstance(st, ast.Expr) and isinstance(st.value, ast.Constant)):
            return self.ablock(rest, kx, exc_name, k, seen)
        if isinstance(st, ast.Expr) and isinstance(st.value, ast.Await) and is_user_call(st.value.value):
            if seen:
                raise Unrecognised('more than one await in _execute')
            seen.append(1)
            return (f'match v_await with\n| AsyncExec.UPark => a_parked h\n| AsyncExec.UReturn =>\n'
                    f'{self.ablock(rest, kx, exc_name, k, seen)}\n| AsyncExec.UExcn => {kx} h XcException\n'
                    f'| AsyncExec.UCancelled => {kx} h XcBase\nend')
        if (isinstance(st, ast.Expr) and isinstance(st.value, ast.Call) and is_name(st.value.func, 'process_exception')
                and exc_name is not None and len(st.value.args) == 1 and is_name(st.value.args[0], exc_name)
                and not st.value.keywords):
            return f'let h := true in\n{self.ablock(rest, kx, exc_name, k, seen)}'
        if isinstance(st, ast.Try):
            if st.orelse or st.finalbody or len(st.handlers) != 1:
                raise Unrecognised('try with else / finally / several handlers')
            h = st.handlers[0]
            if not (is_name(h.type, 'Exception') or is_name(h.type, 'BaseException')):
                raise Unrecognised(f'except {src(h.type) if h.type else ""}')
            kn, kxn, c = self.fresh('k'), self.fresh('kx'), self.fresh('c')
            after = self.ablock(rest, kx, exc_name, k, seen)
            handler = self.ablock(h.body, kx, h.name, f'{kn} h', seen)
            if is_name(h.type, 'Exception'):
                handler = f'match {c} with\n| XcException =>\n{handler}\n| XcBase => {kx} h {c}\nend'
            body = self.ablock(st.body, kxn, exc_name, f'{kn} h', seen)
            return (f'let {kn} := fun h : bool =>\n{after}\nin\nlet {kxn} := fun (h : bool) ({c} : xclass) =>\n'
                    f'{handler}\nin\n{body}')
        raise Unrecognised(f'statement of _execute: {src(st)[:80]}')

    def async_execute(self, fn: ast.AST) -> str:
        if not isinstance(fn, ast.AsyncFunctionDef) or [x.arg for x in fn.args.args] != ['self'] or fn.decorator_list:
            raise Unrecognised('AsyncExecutor._execute: `async def _execute(self)` is expected')
        seen: list = []
        body = self.ablock(fn.body, 'kx', None, 'kret h', seen)
        if not seen:
            raise Unrecognised('AsyncExecutor._execute does not await the user coroutine')
        return ('Definition g_AsyncExecutor_execute_step (v_await : AsyncExec.uout) : aout :=\n'
                'let kret := fun h : bool => a_returned h in\nlet kx := fun (h : bool) (c : xclass) => a_raised c h in\n'
                f'let h := false in\n{body}.\n')

    def async_submit(self, fn: ast.AST) -> str:
        if not isinstance(fn, ast.FunctionDef) or [x.arg for x in fn.args.args] != ['self'] \
                or [src(d) for d in fn.decorator_list] not in ([], ['override']):
            raise Unrecognised('AsyncExecutor.execute')
        body = [s for s in fn.body if not (isinstance(s, ast.Expr) and isinstance(s.value, ast.Constant))]
        if len(body) == 1 and isinstance(body[0], ast.Expr) and isinstance(body[0].value, ast.Call):
            c = body[0].value
            if (isinstance(c.func, ast.Attribute) and c.func.attr == 'create_task' and is_self_attr(c.func.value, 'task_manager')
                    and len(c.args) == 1 and not c.keywords):
                a = c.args[0]
                if isinstance(a, ast.Call) and is_self_attr(a.func, '_execute') and not a.args and not a.keywords:
                    return 'Definition g_AsyncExecutor_execute_submits : coro :=\nCoWrapper.\n'
                if is_user_call(a):
                    return 'Definition g_AsyncExecutor_execute_submits : coro :=\nCoUser.\n'
        raise Unrecognised('AsyncExecutor.execute: `self.task_manager.create_task(<coroutine>)` is expected')


HEADER = '''(* GenBuilder.v — WRITTEN BY tools/gen_builder.py FROM /repo/src/eascheduler/{builder/jobs.py, job_stores/memory.py,
   job_control/*.py, executor/base.py} ON EVERY RUN.  Do not edit.  See coq/theories/GenRtBuilder.v for the runtime and
   coq/theories/GenBuilderEq.v for the proofs. *)
From EAS Require Import Base Sched GenRt GenRtJobs GenRtBuilder.
From EASGen Require Import GenJobs.
From Coq Require Import String.

Inductive gen_builder_status := GenBuilderOk | GenBuilderError (what : string).
'''


def load(repo: Path) -> dict[str, dict[str, ast.AST]]:
    classes: dict[str, dict[str, ast.AST]] = {}
    mods: dict[str, ast.Module] = {}
    for cls, rel in FILES.items():
        if rel not in mods:
            path = repo / rel
            mods[rel] = ast.parse(path.read_text(encoding='utf-8'), filename=str(path))
        mod = mods[rel]
        found = [n for n in mod.body if isinstance(n, ast.ClassDef) and n.name == cls]
        if len(found) != 1:
            raise Unrecognised(f'class {cls} in {rel}')
        node = found[0]
        bases = [src(b) for b in node.bases]
        if bases != BASES[cls] or node.keywords or node.decorator_list:
            raise Unrecognised(f'bases of {cls}: {bases}')
        fns: dict[str, ast.AST] = {}
        for n in node.body:
            if isinstance(n, (ast.FunctionDef, ast.AsyncFunctionDef)):
                if n.name in fns:
                    raise Unrecognised(f'{cls}.{n.name} is defined twice')
                fns[n.name] = n
            elif isinstance(n, ast.Expr) and isinstance(n.value, ast.Constant):
                pass
            elif isinstance(n, ast.AnnAssign) and n.value is None and isinstance(n.target, ast.Name):
                pass                                            # `_job: JobBase`
            else:
                raise Unrecognised(f'unexpected member of {cls}: {src(n)[:60]}')
        known = (set(EFFECT.get(cls, {})) | set(VALUE.get(cls, {})) | set(NOT_TRANSLATED.get(cls, []))
                 | set(ASYNC.get(cls, [])) | (set(ENTRY) if cls == 'JobBuilder' else set()))
        extra = sorted(set(fns) - known)
        if extra:
            raise Unrecognised(f'methods of {cls} this translator does not know: {extra}')
        missing = sorted(known - set(NOT_TRANSLATED.get(cls, [])) - set(fns))
        if missing:
            raise Unrecognised(f'methods of {cls} that are missing: {missing}')
        classes[cls] = fns
    for rel, mod in mods.items():
        want = {c for c, r in FILES.items() if r == rel} | OTHER_CLASSES.get(rel, set())
        have = {n.name for n in mod.body if isinstance(n, ast.ClassDef)}
        if have != want:
            raise Unrecognised(f'classes of {rel}: {sorted(have)}')
    return classes


def generate(repo: Path) -> str:
    classes = load(repo)
    tr = BT()
    defs = []
    for cls in ('InMemoryStore',):
        for m in EFFECT[cls]:
            fn = classes[cls][m]
            if [src(d) for d in fn.decorator_list] not in ([], ['override']) or not isinstance(fn, ast.FunctionDef):
                raise Unrecognised(f'decorators of {cls}.{m}')
            defs.append(tr.effect_method(cls, m, fn))
        for m in VALUE[cls]:
            defs.append(tr.value_method(cls, m, classes[cls][m]))
    for cls in ('JobBuilder', 'BaseControl', 'CountdownJobControl', 'DateTimeJobControl', 'OneTimeJobControl',
                'SyncExecutor'):
        for m in EFFECT[cls]:
            fn = classes[cls][m]
            if [src(d) for d in fn.decorator_list] not in ([], ['override']) or not isinstance(fn, ast.FunctionDef):
                raise Unrecognised(f'decorators of {cls}.{m}')
            defs.append(tr.effect_method(cls, m, fn))
        for m in VALUE.get(cls, {}):
            defs.append(tr.value_method(cls, m, classes[cls][m]))
        if cls == 'JobBuilder':
            for m in ENTRY:
                if not isinstance(classes[cls][m], ast.FunctionDef):
                    raise Unrecognised(f'JobBuilder.{m}')
                defs.append(tr.entry(m, classes[cls][m]))
    defs.append(tr.async_execute(classes['AsyncExecutor']['_execute']))
    defs.append(tr.async_submit(classes['AsyncExecutor']['execute']))
    text = HEADER + '\nDefinition gen_builder_status_v : gen_builder_status := GenBuilderOk.\n\n'
    text += '\n'.join(indent(d) + '\n' for d in defs)
    nt = '; '.join(f'{c}: {", ".join(v)}' for c, v in NOT_TRANSLATED.items())
    text += f'\n(* not translated: {nt} *)\n(* skipped / assumed: {"; ".join(sorted(set(tr.skipped)))} *)\n'
    return text


def main() -> int:
    repo, out = Path(sys.argv[1]), Path(sys.argv[2])
    try:
        text = generate(repo)
    except (Unrecognised, OSError, SyntaxError, KeyError, IndexError, AttributeError, TypeError) as e:
        msg = str(e).replace('"', "'").replace('\n', ' ')[:300]
        text = HEADER + f'\nDefinition gen_builder_status_v : gen_builder_status := GenBuilderError "{msg}".\n'
        print(f'gen_builder: not recognised: {msg}', file=sys.stderr)
    old = out.read_text() if out.exists() else None
    if old != text:
        out.write_text(text)
    return 0          # fail closed inside Coq: GenBuilderEq.v does not compile without the definitions


if __name__ == '__main__':
    sys.exit(main())
