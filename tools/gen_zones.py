#!/usr/bin/env python3
"""gen_zones.py — extract time-zone tables (2000-2037) for the given zones by asking `whenever` (the
implementation's own time layer) under TZ=<zone>, and print them as JSON {zone: {init, trans}}.
Run with /venv/bin/python.  usage: gen_zones.py zone [zone ...]"""
import json
import os
import sys
import time

from whenever import Instant

T0 = 946684800 - 366 * 86400      # 1999-01-01 (one year of margin)
T1 = 2240611200                   # 2041-01-01 (whenever continues with the zone's POSIX rule)


def off(ts: int) -> int:
    return int(Instant.from_timestamp(ts).to_system_tz().offset.in_seconds())


def table(zone: str) -> dict:
    os.environ['TZ'] = zone
    time.tzset()
    init = off(T0)
    trans = []
    prev_t, prev_o = T0, init
    step = 6 * 3600
    t = T0 + step
    while t <= T1:
        o = off(t)
        if o != prev_o:
            # there may be more than one change inside the step: bisect for the first, then continue after it
            lo, hi = prev_t, t
            while True:
                a, b = lo, hi
                while b - a > 1:
                    m = (a + b) // 2
                    if off(m) != prev_o:
                        b = m
                    else:
                        a = m
                new_o = off(b)
                trans.append([b * 10**9, new_o])
                prev_o = new_o
                if new_o == o and off(hi) == o and all(off(x) == o for x in (b, (b + hi) // 2, hi)):
                    break
                lo = b
                if off(hi) == prev_o:
                    break
        prev_t = t
        t += step
    return {'init': init, 'trans': trans}


if __name__ == '__main__':
    out = {z: table(z) for z in sys.argv[1:]}
    json.dump(out, sys.stdout)
