#!/usr/bin/env python3
"""gen_prod.py — fail-closed translator: the trigger producers of /repo  ->  coq/gen/GenProd.v.

Translated statement by statement (Python `ast` -> Gallina, in the runtime of coq/theories/GenRtProd.v):
  producers/prod_interval.py   IntervalProducer.get_next
  producers/base.py            DateTimeProducerOperationBase.get_next
  producers/prod_operation.py  {Offset,Earliest,Latest,Jitter}ProducerOperation.apply_operation
  producers/prod_group.py      GroupProducer.get_next
  producers/prod_time.py       TimeProducer.get_next
  producers/prod_filter.py     the `allow` of the Any / All / Inverting / Time / DayOfWeek / DayOfMonth / MonthOfYear filters
  helpers/time_replace.py      TimeReplacer.replace, find_time_after_dst_switch
coq/theories/GenProdEq.v (hand-written, re-checked against the regenerated file on every run) proves that each
generated function computes what the corresponding definition of Producers.v / Filters.v / Replace.v computes.
Anything outside the vocabulary below raises Unrecognised; the output then carries
[gen_prod_status_v = GenProdError "..."] and NO definitions, so GenProdEq.v does not compile (fail closed).

The translation is generic in the control structure: assignments are `let`, `if` / `try` / `match` are translated
in continuation-passing style with a join continuation that takes the variables assigned in the branches,
`return` / `raise` / `break` / `continue` call the continuation in force, a loop is a step function over its
loop-carried variables (the variables assigned in the body that exist before the loop), `x is None` tests narrow
an Optional by a `match`.  Names of locals are kept (`v_<name>`), so renaming a local changes no proof.
Python scoping that the translation cannot express is refused: a variable first bound inside a loop body, a
`try` body or one branch only is not visible afterwards (a later use is `name ...` Unrecognised).

TRUSTED translation rules (what GenProdEq.v cannot check; T1..T14 in DESIGN 11.6):
  T1  Instant -> Z nanoseconds since the epoch; comparison operators on Instants are the order of Z.
  T2  SystemDateTime -> the Z nanoseconds of its instant, the zone being the process-wide system zone [pz E];
      `.to_system_tz()` and `.instant()` are the identity; `.date()` `.time()` `.day` `.month`
      `.py_datetime().isoweekday()` read the local date-time [to_local (pz E) i] through Civil.v
      (local_day, local_tod, local_dom, local_month, local_weekday).
  T3  Date -> its day number; `.add(days=k)` / `.subtract(days=k)` are + k / - k.  A parameter annotated
      `SystemDateTime | Date` of which only .year .month .day are read is passed as the local day number.
  T4  Time -> nanoseconds since local midnight; `LocalDateTime(y, m, d, time.hour, time.minute)` is the local
      date-time day * DAY + (tod / MINUTE) * MINUTE and `.add(minutes=1, ignore_dst=True)` adds MINUTE.
  T5  float seconds (interval, offset, jitter bounds, uniform(), TimeDelta.in_seconds()) -> integer nanoseconds;
      `+` `-` and comparisons on them are those of Z; a float literal c is the integer c * 10^9 (refused unless
      integral); `x.add(seconds=f)` / `x.subtract(seconds=f)` / `x + TimeDelta(seconds=f)` are x + f / x - f;
      `x.add(microseconds=k)` is x + 1000 k; `(a - b).in_seconds()` is a - b.
  T6  `random.uniform(a, b)` is the next draw [draw E (ndraws s) a b] of the environment (no range assumed).
  T7  `SystemDateTime(<date fields>, <time fields>, disambiguate=d)` is [sdt_make E day tod d]: the instants whose
      local time is day * DAY + tod per the zone table ([candidates]); none: SkippedTime for 'raise', the
      instant shifted by the offset after / before the gap for 'earlier' / 'later'; two or more: RepeatedTime
      for 'raise', first / last for 'earlier' / 'later'.
  T8  `for _ in not_infinite_loop()` runs [loop_bound] rounds (the constant is read from base.py by
      gen_facts.py) and then raises InfiniteLoopDetectedError = XErr EInfiniteLoop;  `for _ in range(<n>)` runs n
      rounds and falls through.
  T9  a `while` loop runs until its condition is false; the k-th `while` of a method has its own fuel
      [fuel k]; None (out of fuel) is never a value.
  T10 `self._next` of IntervalProducer is the cell [cell_get id start] / [cell_set id] of the producer state
      (the constructor stores `start` there); no other attribute of a producer or filter is assigned after
      construction (`Final`), so attributes are the constructor arguments of the model's syntax tree.
  T11 method calls on other objects dispatch on the object's class: `<producer>.get_next`, `<filter>.allow`,
      `<TimeReplacer>.replace`, `find_time_after_dst_switch` are the entries of the record [prec];
      `self.apply_operation` (abstract in the base class) is a function argument.  `<filter>.allow` is
      called as a pure boolean function (the translated `allow` methods are checked to have no effect).
  T12 `min(<call> for p in <tuple>)` is [min_over]: elements in order, the first exception propagates,
      ValueError on an empty tuple;  `any(...)` / `all(...)` over a tuple of filters are existsb / forallb;
      `x in <frozenset of int>` is zmemb.
  T13 exceptions: TimeSkippedError = XSkipped, TimeTwiceError(a, b) = XTwice a b (`.earlier` / `.later` its
      fields), whenever.SkippedTime / RepeatedTime = XWSkipped / XWRepeated, ValueError = XErr EValueError;
      `raise ... from None` is `raise ...`; falling off the end of a function annotated with a result type is
      XErr ETypeError (proved unreachable).
  T14 `match <enum attribute>: case <Enum>.<MEMBER>:` compares against the members of SkippedTimeBehavior /
      RepeatedTimeBehavior = the constructors of Replace.skipped_pol / repeated_pol (to_enum in the
      constructor guarantees membership, so `case _` is unreachable and translated for the remaining members).

usage: gen_prod.py <repo_root> <out_file>
"""
from __future__ import annotations

import ast
import os
import sys
from pathlib import Path

sys.path.insert(0, str(Path(__file__).resolve().parent))
from gen_sched import Unrecognised, src, is_self_attr, is_none  # noqa: E402  (shared machinery)

# python-side types of the translation -> Coq types
COQTY = {
    'instant': 'Z', 'sdt': 'Z', 'date': 'Z', 'tod': 'Z', 'secs': 'Z', 'delta': 'Z', 'int': 'Z', 'ldt': 'Z',
    'bool': 'bool', 'optinstant': 'option Z', 'opttod': 'option Z', 'optfilter': 'option filt', 'filter': 'filt',
    'filters': 'list filt', 'producer': 'producer', 'producers': 'list producer', 'replacer': 'treplacer',
    'intset': 'list Z', 'list:sdt': 'list Z', 'skipped_pol': 'skipped_pol', 'repeated_pol': 'repeated_pol',
}
NARROW = {'optinstant': 'instant', 'opttod': 'tod', 'optfilter': 'filter'}
ANNOT = {'Instant': 'instant', 'SystemDateTime': 'sdt', 'bool': 'bool', 'Time': 'tod',
         'SystemDateTime | Date': 'date', 'Date': 'date'}
NUMERIC = {'instant', 'sdt', 'secs', 'tod', 'int', 'date'}


def exits(stmts: list[ast.stmt]) -> bool:
    """the block never falls through"""
    if not stmts:
        return False
    last = stmts[-1]
    if isinstance(last, (ast.Return, ast.Raise, ast.Break, ast.Continue)):
        return True
    if isinstance(last, ast.If):
        return exits(last.body) and bool(last.orelse) and exits(last.orelse)
    if isinstance(last, ast.Try):
        return exits(last.body) and all(exits(h.body) for h in last.handlers)
    if isinstance(last, ast.Match):
        return all(exits(c.body) for c in last.cases)
    return False


def assigned_names(nodes: list[ast.AST]) -> set[str]:
    """every name bound anywhere inside the statements (assignment, walrus, for target, except ... as)"""
    out: set[str] = set()
    for top in nodes:
        for n in ast.walk(top):
            if isinstance(n, (ast.Assign, ast.AnnAssign, ast.AugAssign)):
                tg = n.targets if isinstance(n, ast.Assign) else [n.target]
                for t in tg:
                    for m in ast.walk(t):
                        if isinstance(m, ast.Name):
                            out.add(m.id)
            elif isinstance(n, ast.NamedExpr):
                out.add(n.target.id)
            elif isinstance(n, ast.For):
                for m in ast.walk(n.target):
                    if isinstance(m, ast.Name):
                        out.add(m.id)
            elif isinstance(n, ast.ExceptHandler) and n.name:
                out.add(n.name)
            elif isinstance(n, (ast.FunctionDef, ast.Lambda, ast.ClassDef, ast.Global, ast.Nonlocal)):
                raise Unrecognised(f'nested definition {src(n)[:40]}')
    return out


def ns_of_float(c: float | int) -> str:
    v = c * 10 ** 9
    r = round(v)
    if abs(v - r) > 1e-6:
        raise Unrecognised(f'float literal {c} is not a whole number of nanoseconds')
    return str(r) if r >= 0 else f'({r})'


class Ctx:
    """translation context of one block"""

    def __init__(self) -> None:
        self.locals: dict[str, tuple[str, object]] = {}   # python name -> (type, coq text)
        self.kx = 'kx'                                    # exception continuation in force
        self.knext = None                                 # inside a loop: end of body / continue   (Ctx -> text)
        self.kbreak = None                                # inside a loop: break                    (Ctx -> text)

    def copy(self) -> 'Ctx':
        c = Ctx()
        c.locals = dict(self.locals)
        c.kx, c.knext, c.kbreak = self.kx, self.knext, self.kbreak
        return c


class Method:
    """what the translator is told about one method (the rest is read from the source)"""

    def __init__(self, file: str, cls: str | None, name: str, gname: str, fields: list[tuple[str, str]],
                 cell: str | None = None, virtuals: dict | None = None, pure: bool = False) -> None:
        self.file, self.cls, self.name, self.gname = file, cls, name, gname
        self.fields, self.cell, self.virtuals, self.pure = fields, cell, virtuals or {}, pure


def cname(attr: str) -> str:
    return 'self_' + attr.lstrip('_')


class Translator:
    def __init__(self, m: Method, ret: str) -> None:
        self.m, self.ret = m, ret
        self.n = 0
        self.nwhile = 0
        self.S = '' if m.pure else ' s'                   # the state argument of continuations

    def fresh(self, base: str) -> str:
        self.n += 1
        return f'{base}{self.n}'

    def effect(self, what: str) -> None:
        if self.m.pure:
            raise Unrecognised(f'{what} in a method translated as a pure function')

    # -- expressions ------------------------------------------------------------------------------------
    def call_prelude(self, calltext: str, ctx: Ctx):
        self.effect(f'call {calltext}')
        v, e, kx = self.fresh('r'), self.fresh('e'), ctx.kx
        return v, (lambda body: f'match {calltext} with\n| None => None\n| Some (s, PExc {e}) => {kx} s {e}\n'
                                f'| Some (s, PRet {v}) =>\n{body}\nend')

    def kwargs1(self, c: ast.Call, allowed: tuple[str, ...]) -> tuple[str, ast.AST]:
        if c.args or len(c.keywords) != 1 or c.keywords[0].arg not in allowed:
            raise Unrecognised(f'call {src(c)}')
        return c.keywords[0].arg, c.keywords[0].value

    def seconds(self, n: ast.AST, ctx: Ctx) -> tuple[str, list]:
        t, c, pre = self.expr(n, ctx)
        if t not in ('secs', 'num'):
            raise Unrecognised(f'seconds={src(n)} (a {t})')
        return c, pre

    def expr(self, n: ast.AST, ctx: Ctx) -> tuple[str, object, list]:
        """-> (type, coq text, preludes); a prelude wraps the text of everything evaluated after it"""
        if isinstance(n, ast.Name):
            if n.id in ctx.locals:
                t, c = ctx.locals[n.id]
                return t, c, []
            raise Unrecognised(f'name {n.id}')
        if is_none(n):
            return 'none', 'None', []
        if isinstance(n, ast.Constant) and isinstance(n.value, bool):
            return 'bool', 'true' if n.value else 'false', []
        if isinstance(n, ast.Constant) and isinstance(n.value, int):
            return 'num', str(n.value), []
        if isinstance(n, ast.Constant) and isinstance(n.value, float):
            return 'secs', ns_of_float(n.value), []
        if isinstance(n, ast.NamedExpr):
            # only where nothing of the statement has been evaluated before it (see test): a later binding must
            # not capture an operand that Python has already evaluated
            raise Unrecognised(f'walrus in the middle of an expression: {src(n)}')
        if is_self_attr(n):
            if n.attr == self.m.cell:
                self.effect('reading the cell')
                v = self.fresh('c')
                return 'optinstant', v, [lambda body: f'let {v} := cell_get self_id self_start s in\n{body}']
            for a, t in self.m.fields:
                if a == n.attr:
                    return t, cname(a), []
            raise Unrecognised(f'attribute self.{n.attr}')
        if isinstance(n, ast.Tuple):
            if not n.elts:
                return 'list:?', '[]', []
            parts, pre = [], []
            for el in n.elts:
                t, c, p = self.expr(el, ctx)
                if t != 'sdt':
                    raise Unrecognised(f'tuple element {src(el)} (a {t})')
                parts.append(c)
                pre += p
            return 'list:sdt', '[' + '; '.join(parts) + ']', pre
        if isinstance(n, ast.Attribute):
            return self.attribute(n, ctx)
        if isinstance(n, ast.BinOp) and isinstance(n.op, (ast.Add, ast.Sub)):
            ta, ca, pa = self.expr(n.left, ctx)
            tb, cb, pb = self.expr(n.right, ctx)
            op = '+' if isinstance(n.op, ast.Add) else '-'
            if ta == 'instant' and tb == 'instant' and op == '-':
                return 'delta', f'({ca} - {cb})', pa + pb
            if ta == 'instant' and tb == 'delta' and op == '+':
                return 'instant', f'({ca} + {cb})', pa + pb
            if ta == 'secs' and tb in ('secs', 'num'):
                return 'secs', f'({ca} {op} {cb})', pa + pb
            raise Unrecognised(f'arithmetic {src(n)} ({ta} {op} {tb})')
        if isinstance(n, (ast.Compare, ast.BoolOp)) or isinstance(n, ast.UnaryOp) and isinstance(n.op, ast.Not):
            c, pre = self.test(n, ctx)
            return 'bool', c, pre
        if isinstance(n, ast.Call):
            return self.call(n, ctx)
        raise Unrecognised(f'expression {src(n)}')

    def attribute(self, n: ast.Attribute, ctx: Ctx) -> tuple[str, object, list]:
        t, c, pre = self.expr(n.value, ctx)
        if t == 'twice' and n.attr in ('earlier', 'later'):
            return 'sdt', c[0] if n.attr == 'earlier' else c[1], pre
        if t == 'sdt' and n.attr == 'day':
            return 'int', f'(sys_dom E {c})', pre
        if t == 'sdt' and n.attr == 'month':
            return 'int', f'(sys_month E {c})', pre
        raise Unrecognised(f'attribute {src(n)} (of a {t})')

    def call(self, n: ast.Call, ctx: Ctx) -> tuple[str, object, list]:
        f = n.func
        if isinstance(f, ast.Name):
            if f.id == 'uniform' and len(n.args) == 2 and not n.keywords:
                self.effect('uniform()')
                a, pa = self.seconds(n.args[0], ctx)
                b, pb = self.seconds(n.args[1], ctx)
                v = self.fresh('u')
                return 'secs', v, pa + pb + [lambda body: f"let '({v}, s) := uniform_ E {a} {b} s in\n{body}"]
            if f.id == 'TimeDelta':
                _, val = self.kwargs1(n, ('seconds',))
                c, pre = self.seconds(val, ctx)
                return 'delta', c, pre
            if f.id in ('min', 'any', 'all') and len(n.args) == 1 and not n.keywords:
                return self.over_generator(f.id, n.args[0], ctx)
            if f.id == 'find_time_after_dst_switch' and len(n.args) == 2 and not n.keywords:
                td, cd, pd = self.expr(n.args[0], ctx)
                tt, ct, pt = self.expr(n.args[1], ctx)
                if td != 'date' or tt != 'tod':
                    raise Unrecognised(f'call {src(n)} ({td}, {tt})')
                v, p = self.call_prelude(f'r_find_after R {cd} {ct} s', ctx)
                return 'sdt', v, pd + pt + [p]
            if f.id == 'SystemDateTime':
                return self.make_sdt(n, ctx)
            if f.id == 'LocalDateTime' and len(n.args) == 5 and not n.keywords:
                day = self.fields_of(n.args[:3], self.DATEF, 'date', ctx)
                tod = self.fields_of(n.args[3:], ('hour', 'minute'), 'tod', ctx)
                return 'ldt', f'({day} * DAY + ({tod} / MINUTE) * MINUTE)', []
            raise Unrecognised(f'call {src(n)}')
        if not isinstance(f, ast.Attribute):
            raise Unrecognised(f'call {src(n)}')
        meth = f.attr
        # self.<abstract method>(...)
        if is_self_attr(f) and meth in self.m.virtuals:
            argt, rett = self.m.virtuals[meth]
            args, pre = [], []
            if n.keywords or len(n.args) != len(argt):
                raise Unrecognised(f'call {src(n)}')
            for a, want in zip(n.args, argt):
                t, c, p = self.expr(a, ctx)
                if t != want:
                    raise Unrecognised(f'argument {src(a)} of {meth}: a {t}, expected {want}')
                args.append(c)
                pre += p
            v, p = self.call_prelude(f'{cname(meth)} {" ".join(args)} s', ctx)
            return rett, v, pre + [p]
        # dt.py_datetime().isoweekday()
        if (meth == 'isoweekday' and not n.args and not n.keywords and isinstance(f.value, ast.Call)
                and isinstance(f.value.func, ast.Attribute) and f.value.func.attr == 'py_datetime'
                and not f.value.args and not f.value.keywords):
            t, c, pre = self.expr(f.value.func.value, ctx)
            if t == 'sdt':
                return 'int', f'(sys_weekday E {c})', pre
            raise Unrecognised(f'call {src(n)}')
        t, c, pre = self.expr(f.value, ctx)
        noargs = not n.args and not n.keywords
        if t == 'instant' and meth == 'to_system_tz' and noargs:
            return 'sdt', c, pre
        if t == 'sdt' and meth == 'instant' and noargs:
            return 'instant', c, pre
        if t == 'sdt' and meth == 'date' and noargs:
            return 'date', f'(sys_date E {c})', pre
        if t == 'sdt' and meth == 'time' and noargs:
            return 'tod', f'(sys_time E {c})', pre
        if t == 'delta' and meth == 'in_seconds' and noargs:
            return 'secs', c, pre
        if t == 'instant' and meth in ('add', 'subtract'):
            kw, val = self.kwargs1(n, ('seconds', 'microseconds'))
            op = '+' if meth == 'add' else '-'
            if kw == 'seconds':
                cv, pv = self.seconds(val, ctx)
                return 'instant', f'({c} {op} {cv})', pre + pv
            if isinstance(val, ast.Constant) and isinstance(val.value, int) and not isinstance(val.value, bool):
                return 'instant', f'({c} {op} {val.value * 1000})', pre
            raise Unrecognised(f'call {src(n)}')
        if t == 'date' and meth in ('add', 'subtract'):
            _, val = self.kwargs1(n, ('days',))
            if isinstance(val, ast.Constant) and isinstance(val.value, int) and not isinstance(val.value, bool):
                return 'date', f'({c} {"+" if meth == "add" else "-"} {val.value})', pre
            raise Unrecognised(f'call {src(n)}')
        if t == 'ldt' and meth == 'add':
            # local.add(minutes=1, ignore_dst=True)
            kws = {k.arg: k.value for k in n.keywords}
            if (not n.args and set(kws) == {'minutes', 'ignore_dst'} and isinstance(kws['minutes'], ast.Constant)
                    and kws['minutes'].value == 1 and isinstance(kws['ignore_dst'], ast.Constant)
                    and kws['ignore_dst'].value is True):
                return 'ldt', f'({c} + MINUTE)', pre
            raise Unrecognised(f'call {src(n)}')
        if t == 'producer' and meth == 'get_next' and len(n.args) == 1 and not n.keywords:
            ta, ca, pa = self.expr(n.args[0], ctx)
            if ta != 'instant':
                raise Unrecognised(f'argument of get_next: {src(n.args[0])} (a {ta})')
            v, p = self.call_prelude(f'r_get_next R {c} {ca} s', ctx)
            return 'instant', v, pre + pa + [p]
        if t == 'replacer' and meth == 'replace' and len(n.args) == 1 and not n.keywords:
            ta, ca, pa = self.expr(n.args[0], ctx)
            if ta == 'sdt':
                ca = f'(sys_date E {ca})'          # rule T3: replace reads .year .month .day only
            elif ta != 'date':
                raise Unrecognised(f'argument of replace: {src(n.args[0])} (a {ta})')
            v, p = self.call_prelude(f'r_replace R {c} {ca} s', ctx)
            return 'sdt', v, pre + pa + [p]
        if t == 'filter' and meth == 'allow' and len(n.args) == 1 and not n.keywords:
            ta, ca, pa = self.expr(n.args[0], ctx)
            if ta != 'sdt':
                raise Unrecognised(f'argument of allow: {src(n.args[0])} (a {ta})')
            return 'bool', f'(r_allow R {c} {ca})', pre + pa
        raise Unrecognised(f'call {src(n)} (on a {t})')

    def over_generator(self, fn: str, g: ast.AST, ctx: Ctx) -> tuple[str, object, list]:
        if not (isinstance(g, ast.GeneratorExp) and len(g.generators) == 1 and not g.generators[0].ifs
                and not g.generators[0].is_async and isinstance(g.generators[0].target, ast.Name)):
            raise Unrecognised(f'{fn}({src(g)})')
        tl, cl, pl = self.expr(g.generators[0].iter, ctx)
        item = {'producers': 'producer', 'filters': 'filter'}.get(tl)
        if item is None:
            raise Unrecognised(f'iteration over {src(g.generators[0].iter)} (a {tl})')
        name = g.generators[0].target.id
        c2 = ctx.copy()
        c2.kx = 'kx'
        c2.locals[name] = (item, f'v_{name}')
        te, ce, pe = self.expr(g.elt, c2)
        if fn == 'min':
            if te != 'instant':
                raise Unrecognised(f'min over {src(g.elt)} (a {te})')
            body = self.wrap(pe, f'p_return {ce} s')
            fun = f'(fun (v_{name} : {COQTY[item]}) (s : pstate) =>\nlet kx := @p_raise Z in\n{body})'
            v, p = self.call_prelude(f'min_over {cl} {fun} s', ctx)
            return 'instant', v, pl + [p]
        if te != 'bool' or pe:
            raise Unrecognised(f'{fn} over {src(g.elt)}')
        q = 'existsb' if fn == 'any' else 'forallb'
        return 'bool', f'({q} (fun v_{name} : {COQTY[item]} => {ce}) {cl})', pl

    # -- conditions -------------------------------------------------------------------------------------
    def wrap(self, pre: list, body: str) -> str:
        for p in reversed(pre):
            body = p(body)
        return body

    def none_test(self, n: ast.AST, ctx: Ctx):
        """`X is None` / `X is not None`, X a name or a walrus -> (is_none?, python name, option type, coq value, pre)"""
        if not (isinstance(n, ast.Compare) and len(n.ops) == 1 and is_none(n.comparators[0])
                and isinstance(n.ops[0], (ast.Is, ast.IsNot))):
            return None
        lhs = n.left
        if isinstance(lhs, ast.NamedExpr):
            t, c, pre = self.expr(lhs.value, ctx)
            name = lhs.target.id
        elif isinstance(lhs, ast.Name):
            t, c, pre = self.expr(lhs, ctx)
            name = lhs.id
        else:
            raise Unrecognised(f'None test on {src(lhs)}')
        if t not in NARROW:
            raise Unrecognised(f'None test on a {t}: {src(n)}')
        return isinstance(n.ops[0], ast.Is), name, t, c, pre

    def walrus(self, n: ast.NamedExpr, ctx: Ctx) -> tuple[str, object, list]:
        t, c, pre = self.expr(n.value, ctx)
        if t not in COQTY:
            raise Unrecognised(f'walrus of a {t}: {src(n)}')
        v = f'v_{n.target.id}'
        ctx.locals[n.target.id] = (t, v)
        return t, v, pre + [lambda body, v=v, c=c: f'let {v} := {c} in\n{body}']

    def test(self, n: ast.AST, ctx: Ctx, top: bool = False) -> tuple[str, list]:
        """a condition -> (coq bool text, preludes); top: n is the first thing the statement evaluates"""
        if isinstance(n, ast.UnaryOp) and isinstance(n.op, ast.Not):
            c, pre = self.test(n.operand, ctx)
            return f'(negb {c})', pre
        if isinstance(n, ast.BoolOp):
            return self.boolop(n, 0, ctx, top)
        nt = self.none_test(n, ctx)
        if nt is not None:
            isn, name, t, c, pre = nt
            a, b = ('true', 'false') if isn else ('false', 'true')
            return f'match {c} with None => {a} | Some _ => {b} end', pre
        if isinstance(n, ast.Compare) and len(n.ops) == 1:
            op, a, b = n.ops[0], n.left, n.comparators[0]
            ta, ca, pa = self.walrus(a, ctx) if top and isinstance(a, ast.NamedExpr) else self.expr(a, ctx)
            tb, cb, pb = self.expr(b, ctx)
            if isinstance(op, ast.In) and ta == 'int' and tb == 'intset':
                return f'(zmemb {ca} {cb})', pa + pb
            same = ta == tb and ta in NUMERIC or (ta == 'secs' and tb == 'num')
            if same:
                if isinstance(op, ast.Gt):
                    return f'({cb} <? {ca})', pa + pb
                if isinstance(op, ast.LtE):
                    return f'({ca} <=? {cb})', pa + pb
                if isinstance(op, ast.Lt):
                    return f'({ca} <? {cb})', pa + pb
                if isinstance(op, ast.GtE):
                    return f'({cb} <=? {ca})', pa + pb
            raise Unrecognised(f'comparison {src(n)} ({ta}, {tb})')
        if isinstance(n, (ast.Compare, ast.BoolOp, ast.UnaryOp)):
            raise Unrecognised(f'condition {src(n)}')                 # e.g. a chained comparison
        t, c, pre = self.expr(n, ctx)
        if t == 'bool':
            return c, pre
        raise Unrecognised(f'condition {src(n)} (a {t})')

    def boolop(self, n: ast.BoolOp, i: int, ctx: Ctx, top: bool = False) -> tuple[str, list]:
        """operands i.. of an and / or chain; `(x := E) is not None and ...` / `... is None or ...` narrow x for
        the operands to their right (a `match`), where x is then the unwrapped value"""
        is_and = isinstance(n.op, ast.And)
        v = n.values[i]
        last = i == len(n.values) - 1
        nt = None if last else self.none_test(v, ctx)
        if nt is not None and nt[0] != is_and:
            isn, name, t, c, pre = nt
            if pre and i > 0:
                raise Unrecognised(f'partial expression after a short-circuit operator: {src(n)}')
            c2 = ctx.copy()
            c2.locals[name] = (NARROW[t], f'v_{name}')
            rest, prest = self.boolop(n, i + 1, c2)
            if prest:
                raise Unrecognised(f'partial expression after a short-circuit operator: {src(n)}')
            ctx.locals.pop(name, None) if isinstance(v.left, ast.NamedExpr) else None
            if is_and:
                return f'match {c} with Some v_{name} => {rest} | None => false end', pre
            return f'match {c} with None => true | Some v_{name} => {rest} end', pre
        c, pre = self.test(v, ctx, top and i == 0)
        if pre and i > 0:
            raise Unrecognised(f'partial expression after a short-circuit operator: {src(n)}')
        if last:
            return c, pre
        rest, prest = self.boolop(n, i + 1, ctx)
        if prest:
            raise Unrecognised(f'partial expression after a short-circuit operator: {src(n)}')
        return f'({c} {"&&" if is_and else "||"} {rest})', pre

    # -- statements -------------------------------------------------------------------------------------
    def ret_stmt(self, value: ast.AST | None, ctx: Ctx) -> str:
        if value is None:
            raise Unrecognised('return without a value')
        t, c, pre = self.expr(value, ctx)
        if t != self.ret:
            raise Unrecognised(f'return {src(value)}: a {t}, the annotation says {self.ret}')
        return self.wrap(pre, f'kret {c}{self.S}')

    def block(self, stmts: list[ast.stmt], ctx: Ctx, k) -> str:
        """translate stmts; k : Ctx -> text continues after the block"""
        if not stmts:
            return k(ctx)
        st, rest = stmts[0], stmts[1:]
        if isinstance(st, ast.Pass) or (isinstance(st, ast.Expr) and isinstance(st.value, ast.Constant)):
            return self.block(rest, ctx, k)
        if isinstance(st, ast.AnnAssign) and st.value is None and isinstance(st.target, ast.Name):
            return self.block(rest, ctx, k)                       # a declaration: `local_dts: tuple[...]`
        if isinstance(st, (ast.Return, ast.Raise, ast.Break, ast.Continue)) and rest:
            raise Unrecognised(f'statements after {src(st)[:40]}')
        if isinstance(st, ast.Return):
            return self.ret_stmt(st.value, ctx)
        if isinstance(st, ast.Break):
            if ctx.kbreak is None:
                raise Unrecognised('break outside a loop')
            return ctx.kbreak(ctx)
        if isinstance(st, ast.Continue):
            if ctx.knext is None:
                raise Unrecognised('continue outside a loop')
            return ctx.knext(ctx)
        if isinstance(st, ast.Raise):
            return self.raise_stmt(st, ctx)
        if isinstance(st, ast.Assign) and len(st.targets) == 1:
            return self.assign(st.targets[0], st.value, rest, ctx, k)
        if isinstance(st, ast.AnnAssign) and st.value is not None:
            return self.assign(st.target, st.value, rest, ctx, k)
        if isinstance(st, ast.If):
            return self.if_stmt(st, rest, ctx, k)
        if isinstance(st, (ast.While, ast.For)):
            return self.loop_stmt(st, rest, ctx, k)
        if isinstance(st, ast.Try):
            return self.try_stmt(st, rest, ctx, k)
        if isinstance(st, ast.Match):
            return self.match_stmt(st, rest, ctx, k)
        raise Unrecognised(f'statement {src(st)[:80]}')

    def raise_stmt(self, st: ast.Raise, ctx: Ctx) -> str:
        self.effect('raise')
        if st.cause is not None and not is_none(st.cause):
            raise Unrecognised(f'raise ... from {src(st.cause)}')
        e = st.exc
        if isinstance(e, ast.Call) and isinstance(e.func, ast.Name) and not e.keywords:
            if e.func.id == 'TimeSkippedError' and not e.args:
                return f'{ctx.kx} s XSkipped'
            if e.func.id == 'ValueError' and len(e.args) <= 1:
                return f'{ctx.kx} s (XErr EValueError)'            # the message is not modelled
            if e.func.id == 'TimeTwiceError' and len(e.args) == 2:
                ta, ca, pa = self.expr(e.args[0], ctx)
                tb, cb, pb = self.expr(e.args[1], ctx)
                if ta == 'sdt' and tb == 'sdt':
                    return self.wrap(pa + pb, f'{ctx.kx} s (XTwice {ca} {cb})')
        raise Unrecognised(f'raise {src(st)[:80]}')

    def assign(self, target: ast.AST, value: ast.AST, rest, ctx: Ctx, k) -> str:
        if is_self_attr(target):
            if target.attr != self.m.cell:
                raise Unrecognised(f'assignment to self.{target.attr}')
            self.effect('writing the cell')
            t, c, pre = self.expr(value, ctx)
            if t != 'instant':
                raise Unrecognised(f'self.{target.attr} = {src(value)} (a {t})')
            return self.wrap(pre, f'let s := cell_set self_id {c} s in\n{self.block(rest, ctx, k)}')
        if not isinstance(target, ast.Name):
            raise Unrecognised(f'assignment to {src(target)}')
        name = target.id
        if name == 'msg' and isinstance(value, (ast.Constant, ast.JoinedStr)):
            return self.block(rest, ctx, k)                       # the text of an error message is not modelled
        if name == 'kwargs' and isinstance(value, ast.Dict):
            return self.kwargs_dict(value, rest, ctx, k)
        t, c, pre = self.expr(value, ctx)
        if t == 'list:?' or t in COQTY:
            v = f'v_{name}'
            ctx.locals[name] = (t, v)
            return self.wrap(pre, f'let {v} := {c} in\n{self.block(rest, ctx, k)}')
        raise Unrecognised(f'assignment {name} = {src(value)} (a {t})')

    # a join point: the continuation of an if / try / match takes the variables assigned in the branches
    def join(self, assigned: set[str], ctx: Ctx, rest, k):
        """-> (kjoin, finish): kjoin is the continuation to give to the branches, finish(text) closes the construct"""
        kn = self.fresh('k')
        mark = f'\x00{kn}\x00'
        ends: list[Ctx] = []

        def kjoin(c: Ctx) -> str:
            ends.append(c)
            return mark

        def finish(text: str) -> str:
            after = ctx.copy()
            params = []
            for name in sorted(assigned):
                if not ends or not all(name in c.locals for c in ends):
                    after.locals.pop(name, None)                  # not bound on every path: not visible afterwards
                    continue
                ts = {c.locals[name][0] for c in ends} - {'list:?'}
                if len(ts) > 1 or not ts or not ts <= set(COQTY):
                    raise Unrecognised(f'{name} has different types on the paths that meet: {sorted(ts)}')
                t = ts.pop()
                after.locals[name] = (t, f'v_{name}')
                params.append((name, t))
            sig = ''.join(f' (v_{n} : {COQTY[t]})' for n, t in params) + (' (s : pstate)' if self.S else '')
            callk = kn + ''.join(f' v_{n}' for n, _ in params) + self.S
            body = self.block(rest, after, k)
            if not sig:
                return text.replace(mark, f'({body})') if text.count(mark) == 1 else \
                    f'let {kn} :=\n{body}\nin\n{text.replace(mark, kn)}'
            return f'let {kn} := fun{sig} =>\n{body}\nin\n{text.replace(mark, callk)}'
        return kjoin, finish

    def if_stmt(self, st: ast.If, rest, ctx: Ctx, k) -> str:
        assigned = assigned_names(st.body) | assigned_names(st.orelse)
        nt = self.none_test(st.test, ctx) if not isinstance(st.test, ast.BoolOp) else None
        if nt is not None:
            isn, name, t, c, pre = nt
            assigned.add(name)
            c_none, c_some = ctx.copy(), ctx.copy()
            c_none.locals[name] = ('none', 'None')
            c_some.locals[name] = (NARROW[t], f'v_{name}')
            c_then, c_else = (c_none, c_some) if isn else (c_some, c_none)

            def shape(then: str, els: str) -> str:
                a, b = (then, els) if isn else (els, then)
                return self.wrap(pre, f'match {c} with\n| None =>\n{a}\n| Some v_{name} =>\n{b}\nend')
        else:
            tc = ctx.copy()
            cond, pre = self.test(st.test, tc, top=True)
            for n in ast.walk(st.test):
                if isinstance(n, ast.NamedExpr):
                    assigned.add(n.target.id)
            c_then, c_else = tc.copy(), tc.copy()

            def shape(then: str, els: str) -> str:
                return self.wrap(pre, f'if {cond} then\n{then}\nelse\n{els}')
        if exits(st.body) and not st.orelse:
            return shape(self.block(st.body, c_then, k), self.block(rest, c_else, k))
        if exits(st.body) and exits(st.orelse):
            if rest:
                raise Unrecognised('statements after an if whose branches both leave')
            return shape(self.block(st.body, c_then, k), self.block(st.orelse, c_else, k))
        kjoin, finish = self.join(assigned, ctx, rest, k)
        return finish(shape(self.block(st.body, c_then, kjoin), self.block(st.orelse, c_else, kjoin)))

    def carried_tuple(self, carried: list[tuple[str, str]], c: Ctx) -> str:
        for n, t in carried:
            if n not in c.locals or c.locals[n][0] != t:
                raise Unrecognised(f'loop-carried variable {n} changes its type (or is unbound) inside the loop')
        return 'tt' if not carried else '(' + ', '.join(f'v_{n}' for n, _ in carried) + ')' if len(carried) > 1 \
            else f'v_{carried[0][0]}'

    def loop_stmt(self, st, rest, ctx: Ctx, k) -> str:
        self.effect('a loop')
        if st.orelse:
            raise Unrecognised('loop ... else')
        assigned = assigned_names(st.body) | (assigned_names([st.test]) if isinstance(st, ast.While) else set())
        carried = [(n, ctx.locals[n][0]) for n in sorted(assigned) if n in ctx.locals]
        for n, t in carried:
            if t not in COQTY:
                raise Unrecognised(f'loop-carried variable {n} (a {t})')
        X = 'unit' if not carried else ' * '.join(COQTY[t] for _, t in carried)
        Xt = f'({X})%type' if len(carried) > 1 else X
        A = COQTY[self.ret]
        unpack = '' if not carried else (f"let '({', '.join('v_' + n for n, _ in carried)}) := x in\n"
                                         if len(carried) > 1 else f'let v_{carried[0][0]} := x in\n')
        lc = ctx.copy()
        lc.kx = 'kx'
        lc.knext = lambda c: f'l_next {self.carried_tuple(carried, c)} s'
        lc.kbreak = lambda c: f'l_exit {self.carried_tuple(carried, c)} s'
        head = f'let kret := @l_return {Xt} {A} in\nlet kx := @l_raise {Xt} {A} in\n'
        if isinstance(st, ast.While):
            self.nwhile += 1
            tc = lc.copy()
            cond, pre = self.test(st.test, tc)
            if pre:
                raise Unrecognised(f'partial loop condition {src(st.test)}')
            body = self.block(st.body, lc.copy(), lc.knext)
            step = (f'(fun (x : {Xt}) (s : pstate) =>\n{unpack}{head}if {cond} then\n{body}\n'
                    f'else l_exit {self.carried_tuple(carried, lc)} s)')
            loop = f'while_ (fuel {self.nwhile}%nat) {step}'
        else:
            it = st.iter
            under = isinstance(st.target, ast.Name) and st.target.id == '_'
            if (under and isinstance(it, ast.Call) and isinstance(it.func, ast.Name) and not it.keywords
                    and it.func.id == 'not_infinite_loop' and not it.args):
                comb = 'for_rounds loop_bound'
            elif (under and isinstance(it, ast.Call) and isinstance(it.func, ast.Name) and not it.keywords
                    and it.func.id == 'range' and len(it.args) == 1 and isinstance(it.args[0], ast.Constant)
                    and isinstance(it.args[0].value, int) and it.args[0].value > 0):
                comb = f'for_count {it.args[0].value}%positive'
            elif isinstance(st.target, ast.Name):
                tl, cl, pl = self.expr(it, ctx)
                if tl not in ('list:sdt', 'list:?') or pl:
                    raise Unrecognised(f'iteration over {src(it)} (a {tl})')
                comb = f'for_list {cl}'
                lc.locals[st.target.id] = ('sdt', f'v_{st.target.id}')
            else:
                raise Unrecognised(f'for {src(st.target)} in {src(it)}')
            body = self.block(st.body, lc.copy(), lc.knext)
            item = f'(v_{st.target.id} : Z) ' if comb.startswith('for_list') else ''
            step = f'(fun {item}(x : {Xt}) (s : pstate) =>\n{unpack}{head}{body})'
            loop = f'{comb} {step}'
        after = ctx.copy()
        for n in assigned:
            if n not in dict(carried):
                after.locals.pop(n, None)              # first bound inside the loop: not visible afterwards
        e, a = self.fresh('e'), self.fresh('a')
        tail = self.block(rest, after, k)
        return (f'match {loop} {self.carried_tuple(carried, ctx)} s with\n| None => None\n'
                f'| Some (s, PExc {e}) => {ctx.kx} s {e}\n| Some (s, PRet (inr {a})) => kret {a} s\n'
                f'| Some (s, PRet (inl x)) =>\n{unpack}{tail}\nend')

    EXN = {'TimeSkippedError': 'XSkipped', 'SkippedTime': 'XWSkipped', 'RepeatedTime': 'XWRepeated'}

    def try_stmt(self, st: ast.Try, rest, ctx: Ctx, k) -> str:
        self.effect('try')
        if st.orelse or st.finalbody or not st.handlers:
            raise Unrecognised('try with else / finally / no handler')
        assigned = assigned_names(st.body) | assigned_names(st.handlers)
        all_exit = exits(st.body) and all(exits(h.body) for h in st.handlers)
        if all_exit and rest:
            raise Unrecognised('statements after a try whose paths all leave')
        kjoin, finish = (k, lambda t: t) if all_exit else self.join(assigned, ctx, rest, k)
        hc0 = ctx.copy()
        for n in assigned_names(st.body):
            hc0.locals.pop(n, None)                    # may or may not have been assigned when the handler runs
        cases, seen = [], set()
        for h in st.handlers:
            hn = h.type.id if isinstance(h.type, ast.Name) else None
            hc = hc0.copy()
            if hn in self.EXN and not h.name:
                pat = self.EXN[hn]
            elif hn == 'TimeTwiceError':
                ea, la = self.fresh('ea'), self.fresh('la')
                pat = f'XTwice {ea} {la}'
                if h.name:
                    hc.locals[h.name] = ('twice', (ea, la))
            else:
                raise Unrecognised(f'except {src(h.type) if h.type else ""}{" as " + h.name if h.name else ""}')
            if hn in seen:
                raise Unrecognised(f'two handlers for {hn}')
            seen.add(hn)
            cases.append(f'| {pat} =>\n{self.block(h.body, hc, kjoin)}')
        kxn, e = self.fresh('kx'), self.fresh('e')
        c2 = ctx.copy()
        c2.kx = kxn
        body = self.block(st.body, c2, kjoin)
        handler = '\n'.join(cases)
        return finish(f'let {kxn} := fun (s : pstate) ({e} : pexn) =>\nmatch {e} with\n{handler}\n'
                      f'| _ => {ctx.kx} s {e}\nend\nin\n{body}')

    # -- helpers/time_replace.py ------------------------------------------------------------------------
    DATEF, TIMEF = ('year', 'month', 'day'), ('hour', 'minute', 'second', 'nanosecond')

    def fields_of(self, nodes: list[ast.AST], names: tuple[str, ...], want: str, ctx: Ctx) -> str:
        """nodes are <x>.<names[0]>, <x>.<names[1]>, ... of one variable x of type `want` -> coq text of x"""
        objs = set()
        for n, a in zip(nodes, names):
            if not (isinstance(n, ast.Attribute) and n.attr == a):
                raise Unrecognised(f'expected a .{a} field: {src(n)}')
            objs.add(src(n.value))
        if len(objs) != 1 or len(nodes) != len(names):
            raise Unrecognised(f'fields of different objects: {sorted(objs)}')
        t, c, pre = self.expr(nodes[0].value, ctx)
        if t != want or pre:
            raise Unrecognised(f'{src(nodes[0].value)} is a {t}, expected a {want}')
        return c

    def kwargs_dict(self, d: ast.Dict, rest, ctx: Ctx, k) -> str:
        keys = [x.value if isinstance(x, ast.Constant) else None for x in d.keys]
        if tuple(keys) != self.DATEF + self.TIMEF:
            raise Unrecognised(f'kwargs = {src(d)[:60]}')
        day = self.fields_of(d.values[:3], self.DATEF, 'date', ctx)
        tod = self.fields_of(d.values[3:], self.TIMEF, 'tod', ctx)
        ctx.locals['kwargs'] = ('sdtargs', (day, tod))
        return self.block(rest, ctx, k)

    def make_sdt(self, n: ast.Call, ctx: Ctx) -> tuple[str, object, list]:
        self.effect('SystemDateTime(...)')
        kws = n.keywords
        if not kws or kws[-1].arg != 'disambiguate' or not isinstance(kws[-1].value, ast.Constant) \
                or kws[-1].value.value not in ('raise', 'earlier', 'later'):
            raise Unrecognised(f'call {src(n)}')
        d = {'raise': 'DRaise', 'earlier': 'DEarlier', 'later': 'DLater'}[kws[-1].value.value]
        if not n.args and len(kws) == 2 and kws[0].arg is None:
            t, c, pre = self.expr(kws[0].value, ctx)
            if t != 'sdtargs' or pre:
                raise Unrecognised(f'call {src(n)}')
            day, tod = c
        elif len(kws) == 1 and len(n.args) == 5:
            # SystemDateTime(t.year, t.month, t.day, t.hour, t.minute): t a LocalDateTime on a whole minute (T4)
            l = self.fields_of(n.args, ('year', 'month', 'day', 'hour', 'minute'), 'ldt', ctx)
            day, tod = f'(local_day {l})', f'(local_tod {l})'
        else:
            raise Unrecognised(f'call {src(n)}')
        v, e, kx = self.fresh('r'), self.fresh('e'), ctx.kx
        return 'sdt', v, [lambda body: f'match sdt_make E {day} {tod} {d} with\n| PExc {e} => {kx} s {e}\n'
                                       f'| PRet {v} =>\n{body}\nend']

    ENUMS = {'SkippedTimeBehavior': ('skipped_pol', {'SKIP': 'SkSkip', 'EARLIER': 'SkEarlier', 'LATER': 'SkLater',
                                                     'AFTER': 'SkAfter'}),
             'RepeatedTimeBehavior': ('repeated_pol', {'SKIP': 'RpSkip', 'EARLIER': 'RpEarlier', 'LATER': 'RpLater',
                                                       'TWICE': 'RpTwice'})}

    def match_stmt(self, st: ast.Match, rest, ctx: Ctx, k) -> str:
        t, c, pre = self.expr(st.subject, ctx)
        if pre or t not in ('skipped_pol', 'repeated_pol'):
            raise Unrecognised(f'match {src(st.subject)} (a {t})')
        if not all(exits(cs.body) for cs in st.cases) or rest:
            raise Unrecognised('match whose cases fall through')
        enum, members = next((e, m) for e, (ty, m) in self.ENUMS.items() if ty == t)
        out, seen = [], set()
        for i, cs in enumerate(st.cases):
            p = cs.pattern
            if cs.guard is not None:
                raise Unrecognised('case with a guard')
            if isinstance(p, ast.MatchValue) and isinstance(p.value, ast.Attribute) \
                    and isinstance(p.value.value, ast.Name) and p.value.value.id == enum and p.value.attr in members:
                if p.value.attr in seen:
                    raise Unrecognised(f'case {p.value.attr} twice')
                seen.add(p.value.attr)
                out.append(f'| {members[p.value.attr]} =>\n{self.block(cs.body, ctx.copy(), k)}')
            elif isinstance(p, ast.MatchAs) and p.pattern is None and p.name is None and i == len(st.cases) - 1:
                if seen != set(members):
                    out.append(f'| _ =>\n{self.block(cs.body, ctx.copy(), k)}')
            else:
                raise Unrecognised(f'case {src(p)}')
        if seen != set(members) and not any(o.startswith('| _') for o in out):
            raise Unrecognised('match does not cover the enum (falling through a match is not translated)')
        return f'match {c} with\n' + '\n'.join(out) + '\nend'

    # -- a method ---------------------------------------------------------------------------------------
    def method(self, fn: ast.FunctionDef) -> str:
        m = self.m
        a = fn.args
        if a.vararg or a.kwarg or a.kwonlyargs or a.defaults or a.posonlyargs:
            raise Unrecognised(f'signature of {fn.name}')
        params = a.args[1:] if m.cls else a.args
        if m.cls and a.args[0].arg != 'self':
            raise Unrecognised(f'signature of {fn.name}')
        ctx = Ctx()
        sig = []
        if m.cell:
            sig.append('(self_id : nat) (self_start : option Z)')
        for attr, t in m.fields:
            sig.append(f'({cname(attr)} : {COQTY[t]})')
        for v, (argt, rett) in m.virtuals.items():
            sig.append(f'({cname(v)} : {" -> ".join(COQTY[t] for t in argt)} -> pstate -> PM {COQTY[rett]})')
        for p in params:
            t = ANNOT.get(src(p.annotation)) if p.annotation is not None else None
            if t is None:
                raise Unrecognised(f'annotation of parameter {p.arg} of {fn.name}')
            ctx.locals[p.arg] = (t, f'v_{p.arg}')
            sig.append(f'(v_{p.arg} : {COQTY[t]})')
        A = COQTY[self.ret]
        if m.pure:
            body = self.block(fn.body, ctx, lambda c: self.fell_off())
            return (f'Definition {m.gname} (E : penv) (R : prec) {" ".join(sig)} : {A} :=\n'
                    f'let kret := fun a : {A} => a in\n{body}.\n')
        body = self.block(fn.body, ctx, lambda c: 'p_fell_off s')
        return (f'Definition {m.gname} (E : penv) (R : prec) (fuel : nat -> nat) {" ".join(sig)} (s : pstate) '
                f': PM {A} :=\nlet kret := @p_return {A} in\nlet kx := @p_raise {A} in\n{body}.\n')

    def fell_off(self) -> str:
        raise Unrecognised('a pure method falls off its end')


METHODS = [
    Method('producers/prod_interval.py', 'IntervalProducer', 'get_next', 'g_interval_get_next',
           [('_interval', 'secs'), ('_filter', 'optfilter')], cell='_next'),
    Method('producers/base.py', 'DateTimeProducerOperationBase', 'get_next', 'g_op_get_next',
           [('_producer', 'producer'), ('_filter', 'optfilter')],
           virtuals={'apply_operation': (('instant', 'instant'), 'instant')}),
    Method('producers/prod_operation.py', 'OffsetProducerOperation', 'apply_operation', 'g_offset_apply',
           [('offset', 'secs')]),
    Method('producers/prod_operation.py', 'EarliestProducerOperation', 'apply_operation', 'g_earliest_apply',
           [('earliest', 'replacer')]),
    Method('producers/prod_operation.py', 'LatestProducerOperation', 'apply_operation', 'g_latest_apply',
           [('latest', 'replacer')]),
    Method('producers/prod_operation.py', 'JitterProducerOperation', 'apply_operation', 'g_jitter_apply',
           [('low', 'secs'), ('high', 'secs')]),
    Method('producers/prod_group.py', 'GroupProducer', 'get_next', 'g_group_get_next',
           [('_producers', 'producers'), ('_filter', 'optfilter')]),
    Method('producers/prod_time.py', 'TimeProducer', 'get_next', 'g_time_get_next',
           [('_time', 'replacer'), ('_filter', 'optfilter')]),
    Method('producers/prod_filter.py', 'AnyGroupProducerFilter', 'allow', 'g_any_allow', [('_filters', 'filters')], pure=True),
    Method('producers/prod_filter.py', 'AllGroupProducerFilter', 'allow', 'g_all_allow', [('_filters', 'filters')], pure=True),
    Method('producers/prod_filter.py', 'InvertingProducerFilter', 'allow', 'g_not_allow', [('_filter', 'filter')], pure=True),
    Method('producers/prod_filter.py', 'TimeProducerFilter', 'allow', 'g_timefilter_allow',
           [('_lower', 'opttod'), ('_upper', 'opttod')], pure=True),
    Method('producers/prod_filter.py', 'DayOfWeekProducerFilter', 'allow', 'g_weekday_allow', [('_weekdays', 'intset')], pure=True),
    Method('producers/prod_filter.py', 'DayOfMonthProducerFilter', 'allow', 'g_day_allow', [('_days', 'intset')], pure=True),
    Method('producers/prod_filter.py', 'MonthOfYearProducerFilter', 'allow', 'g_month_allow', [('_months', 'intset')], pure=True),
    Method('helpers/time_replace.py', None, 'find_time_after_dst_switch', 'g_find_after', []),
    Method('helpers/time_replace.py', 'TimeReplacer', 'replace', 'g_replace',
           [('_time', 'tod'), ('_skipped', 'skipped_pol'), ('_repeated', 'repeated_pol')]),
]
NOT_TRANSLATED = ('producers/prod_sun.py, producers/prod_filter_holiday.py, every __init__ / copy / __eq__ / __repr__, '
                  'not_infinite_loop (rule T8), the unused find_time_after_dst_switch of prod_operation.py')

HEADER = '''(* GenProd.v — WRITTEN BY tools/gen_prod.py FROM /repo/src/eascheduler/producers/*.py AND helpers/time_replace.py ON
   EVERY RUN.  Do not edit.  Runtime: coq/theories/GenRtProd.v; proofs: coq/theories/GenProdEq.v. *)
From EAS Require Import Base Civil Time Filters Replace Producers GenRtProd.
From EASGen Require Import Generated.
From Coq Require Import String.

Inductive gen_prod_status := GenProdOk | GenProdError (what : string).
Open Scope Z_scope.
'''

# the class layout the hand-written dispatch of GenProdEq.v ([pknot]) relies on: bases and members of every class
LAYOUT = {
    'producers/base.py': {
        'DateTimeProducerBase': (['CompareEqualityBySlotValues'], {'__init__', 'get_next', '_copy_filter', 'copy'}),
        'DateTimeProducerOperationBase': (['DateTimeProducerBase'], {'__init__', 'apply_operation', 'get_next'}),
        'ProducerFilterBase': (['CompareEqualityBySlotValues'], {'allow', 'copy'}),
    },
    'producers/prod_interval.py': {'IntervalProducer': (['DateTimeProducerBase'], {'__init__', 'copy', 'get_next'})},
    'producers/prod_group.py': {'GroupProducer': (['DateTimeProducerBase'], {'__init__', 'copy', 'get_next'})},
    'producers/prod_time.py': {'TimeProducer': (['DateTimeProducerBase'], {'__init__', 'copy', 'get_next'})},
    'producers/prod_operation.py': {
        c: (['DateTimeProducerOperationBase'], {'__init__', 'copy', 'apply_operation'})
        for c in ('OffsetProducerOperation', 'EarliestProducerOperation', 'LatestProducerOperation',
                  'JitterProducerOperation')},
    'producers/prod_filter.py': {
        'ProducerFilterGroupBase': (['ProducerFilterBase'], {'__init__', 'add_filter', 'copy'}),
        'AnyGroupProducerFilter': (['ProducerFilterGroupBase'], {'allow'}),
        'AllGroupProducerFilter': (['ProducerFilterGroupBase'], {'allow'}),
        'InvertingProducerFilter': (['ProducerFilterBase'], {'__init__', 'copy', 'allow'}),
        'TimeProducerFilter': (['ProducerFilterBase'], {'__init__', 'copy', 'allow'}),
        'DayOfWeekProducerFilter': (['ProducerFilterBase'], {'__init__', 'copy', 'allow'}),
        'DayOfMonthProducerFilter': (['ProducerFilterBase'], {'__init__', 'copy', 'allow'}),
        'MonthOfYearProducerFilter': (['ProducerFilterBase'], {'__init__', 'copy', 'allow'}),
    },
    'helpers/time_replace.py': {'TimeReplacer': ([], {'__init__', '__eq__', '__repr__', 'copy', 'replace'})},
}


def indent(text: str) -> str:
    out, depth = [], 0
    for line in text.splitlines():
        s = line.strip()
        if s.startswith('end') or s == 'in':
            depth = max(0, depth - 1)
        out.append('  ' * min(depth, 14) + s)
        if (s.startswith('match ') and not s.endswith('end')) or (s.startswith('let ') and s.endswith('=>')) \
                or (s.startswith('let ') and s.endswith(':=')):
            depth += 1
    return '\n'.join(out)


def generate(repo: Path) -> str:
    mods: dict[str, ast.Module] = {}
    for f in sorted({m.file for m in METHODS} | set(LAYOUT)):
        path = repo / 'src/eascheduler' / f
        mods[f] = ast.parse(path.read_text(encoding='utf-8'), filename=str(path))
    for f, classes in LAYOUT.items():
        found = {n.name: n for n in mods[f].body if isinstance(n, ast.ClassDef)}
        for cname_, (bases, members) in classes.items():
            if cname_ not in found:
                raise Unrecognised(f'class {cname_} is missing in {f}')
            c = found[cname_]
            if [src(b) for b in c.bases] != bases:
                raise Unrecognised(f'bases of {cname_}: {[src(b) for b in c.bases]}')
            have = {n.name for n in c.body if isinstance(n, (ast.FunctionDef, ast.AsyncFunctionDef, ast.ClassDef))}
            if have != members:
                raise Unrecognised(f'members of {cname_}: {sorted(have ^ members)} differ from the expected layout')
    defs = []
    for m in METHODS:
        scope = mods[m.file].body
        if m.cls:
            scope = next(n for n in scope if isinstance(n, ast.ClassDef) and n.name == m.cls).body
        fns = [n for n in scope if isinstance(n, ast.FunctionDef) and n.name == m.name]
        if len(fns) != 1:
            raise Unrecognised(f'{m.cls}.{m.name} in {m.file}')
        fn = fns[0]
        if [src(d) for d in fn.decorator_list] not in ([], ['override']):
            raise Unrecognised(f'decorators of {m.cls}.{m.name}')
        ret = ANNOT.get(src(fn.returns)) if fn.returns is not None else None
        if ret is None:
            raise Unrecognised(f'return annotation of {m.cls}.{m.name}')
        try:
            defs.append(indent(Translator(m, ret).method(fn)))
        except Unrecognised as e:
            raise Unrecognised(f'{m.cls or m.file}.{m.name}: {e}') from None
    text = HEADER + '\nDefinition gen_prod_status_v : gen_prod_status := GenProdOk.\n\n'
    text += '\n\n'.join(defs)
    text += f'\n\n(* not translated: {NOT_TRANSLATED} *)\n'
    return text


def main() -> int:
    repo, out = Path(sys.argv[1]), Path(sys.argv[2])
    try:
        text = generate(repo)
    except Exception as e:      # noqa: BLE001   whatever goes wrong, the output must not keep an older translation
        if os.environ.get('GEN_PROD_DEBUG'):
            raise
        msg = (type(e).__name__ + ': ' if not isinstance(e, Unrecognised) else '') + str(e)
        msg = msg.replace('"', "'").replace('\n', ' ')[:300]
        text = HEADER + f'\nDefinition gen_prod_status_v : gen_prod_status := GenProdError "{msg}".\n'
        print(f'gen_prod: not recognised: {msg}', file=sys.stderr)
    old = out.read_text() if out.exists() else None
    if old != text:
        out.write_text(text)
    return 0            # fail closed inside Coq: GenProdEq.v does not compile without the definitions


if __name__ == '__main__':
    sys.exit(main())
