#!/usr/bin/env python3
"""confirm_mutants.py <worktree> <prop> — confirm every mutant under <worktree>/mutants/<k>: demo passes on the
clean tree, with the patch the test suite is unchanged and the demo fails; then store it under /verif/seeded/."""
import json, subprocess, sys, shutil
from pathlib import Path

wt, prop = Path(sys.argv[1]), sys.argv[2]
env = {'PYTHONPATH': f'{wt}/src', 'PATH': '/usr/bin:/bin', 'PYTHONHASHSEED': '0'}
PY = '/venv/bin/python'


def sh(cmd, **kw):
    return subprocess.run(cmd, cwd=wt, env=env, capture_output=True, text=True, timeout=1200, **kw)


def suite():
    r = sh([PY, '-m', 'pytest', '-q', '-p', 'no:cacheprovider', '--timeout=900'])
    return r.stdout.strip().splitlines()[-1]

for d in sorted((wt / 'mutants').iterdir()):
    if not (d / 'patch.diff').exists():
        continue
    sh(['git', 'checkout', '--', 'src'])
    clean = sh([PY, str(d / 'demo.py')]).returncode
    ap = sh(['git', 'apply', str(d / 'patch.diff')])
    if ap.returncode != 0:
        print(d, 'patch does not apply', ap.stderr); continue
    st = suite()
    mut = sh([PY, str(d / 'demo.py')])
    sh(['git', 'checkout', '--', 'src'])
    ok = clean == 0 and mut.returncode == 1 and '112 passed' in st or '111 passed' in st and clean == 0 and mut.returncode == 1
    name = f'{prop}-{wt.name}-{d.name}'
    print(name, 'clean rc', clean, '| mutated rc', mut.returncode, '| suite:', st, '| confirmed' if ok else '| NOT confirmed')
    if ok:
        dst = Path('/verif/seeded') / name
        dst.mkdir(parents=True, exist_ok=True)
        shutil.copy(d / 'patch.diff', dst / 'patch.diff')
        shutil.copy(d / 'demo.py', dst / 'demo.py')
        note = (d / 'note.txt').read_text() if (d / 'note.txt').exists() else ''
        (dst / 'meta.json').write_text(json.dumps({
            'property': prop, 'note': note,
            'confirmed': {'demo_clean_rc': clean, 'demo_mutated_rc': mut.returncode, 'test_suite_with_patch': st,
                          'how': 'tools/confirm_mutants.py in a scratch worktree of /repo'},
            'detected_by': None}, indent=1) + '\n')
