#!/bin/sh
# tools/coqchk_all.sh — independent re-check of every compiled property file and everything it depends on with coqchk,
# and the axioms they rely on (-o).  Takes about 40 minutes and several GB; not part of a tier.  Writes coqchk_report.txt.
cd /verif/coq || exit 2
make -j14 >/dev/null 2>&1
mods=$(ls props/*.v | sed 's#props/\(.*\)\.v#EASProps.\1#')
( date -u; echo "coqchk -o -silent on: $mods"; \
  timeout 7200 coqchk -silent -o -Q theories EAS -Q gen EASGen -Q props EASProps $mods 2>&1 | tail -40 ) > /verif/coqchk_report.txt
tail -15 /verif/coqchk_report.txt
