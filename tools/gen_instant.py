#!/usr/bin/env python3
"""gen_instant.py — fail-closed translator: get_timedelta, get_pos_timedelta_secs, get_time, get_instant of
src/eascheduler/builder/helper.py  ->  coq/gen/GenInstant.v.

Same machinery as gen_dst.py (class Translator, imported and extended with the vocabulary of these four functions);
runtime coq/theories/GenRtInstant.v (on top of GenRtDst.v); coq/theories/GenInstantEq.v proves that the generated
functions compute what the model of GetInstant.v computes on the reading of the Python value.  Anything outside the
vocabulary -> [gen_instant_status_v = GenInstantError "..."] and no definitions (fail closed).  The other functions
of helper.py are not looked at (checked only: each of the four names is defined exactly once, at module level).

TRUSTED translation rules, in addition to T1, T2, T9, T12 (match as a chain of tests), T15 of gen_dst.py:
  I1  the argument is a [pyval] (GenRtInstant.v): its class and what whenever's conversions answer for it.
      `case None:` / `case C():` / `case A() | B():` are pv_isinstance tests (bool is an int; datetime.datetime is
      tested before anything it could be confused with in these functions); a `match` without `case _` falls through.
  I2  TimeDelta.from_py_timedelta / TimeDelta(seconds=) / TimeDelta.parse_common_iso / Time.from_py_time /
      Time.parse_common_iso / SystemDateTime.from_py_datetime are the partial functions td_from_py, td_seconds, td_parse,
      time_from_py, time_parse, sdt_from_py of the runtime: a value, ValueError (whenever refuses the value) or
      TypeError (wrong class).  A duration is Z nanoseconds; `.in_seconds()` keeps the sign and the model keeps ns.
  I3  `return value` in a function returning TimeDelta / Time / Instant is the value as that class (pv_as_*);
      SystemDateTime.instant() is the identity (a SystemDateTime is its instant).
  I4  value.tzinfo is (not) None = pv_dt_aware; value.year .. value.microsecond are the digits of the wall-clock fields
      (a datetime has microsecond resolution: its wall value is a multiple of 1000 ns - hypothesis [pv_wf] of the
      theorems); SystemDateTime(y, m, d, h, mi, s, nanosecond=n) = GenRtInstant.sdt_make7 (disambiguate='compatible',
      as T3 of gen_dst.py).
  I5  Instant.now() and SystemDateTime.now() read the one clock [w_now]; Instant + TimeDelta is + on Z.
  I6  now.replace_time(t, disambiguate='raise') = sdt_replace_time (THE instant showing (date of now, t); SkippedTime /
      RepeatedTime otherwise); new.add(days=1, disambiguate='raise') = sdt_add_days (the wall clock of new plus one
      calendar day, resolved the same way); < on SystemDateTime is < on instants.

usage: gen_instant.py <repo_root> <out_file>
"""
from __future__ import annotations

import ast
import sys
from pathlib import Path

sys.path.insert(0, str(Path(__file__).resolve().parent))
import gen_dst  # noqa: E402
from gen_dst import Ctx, Translator, Unrecognised, indent, src  # noqa: E402

FUNCS = ['get_timedelta', 'get_pos_timedelta_secs', 'get_time', 'get_instant']
gen_dst.ANNOT.update({'HINT_TIMEDELTA': 'pyval', 'HINT_POS_TIMEDELTA': 'pyval', 'HINT_TIME': 'pyval',
                      'HINT_INSTANT': 'pyval', 'TimeDelta': 'dur', 'float': 'dur', 'Instant': 'instant'})
gen_dst.COQ_TY.update({'pyval': 'pyval', 'dur': 'Z', 'instant': 'Z'})
PYCLASS = {'dt_datetime': 'CDatetime', 'SystemDateTime': 'CSystemDateTime', 'Instant': 'CInstant',
           'dt_timedelta': 'CPyTimedelta', 'TimeDelta': 'CTimeDelta', 'int': 'CInt', 'float': 'CFloat', 'str': 'CStr',
           'Time': 'CTime', 'dt_time': 'CPyTime'}
IMPORTS = {'dt_datetime': 'from datetime import datetime as dt_datetime', 'dt_time': 'from datetime import time as dt_time',
           'dt_timedelta': 'from datetime import timedelta as dt_timedelta'}
CONVERSIONS = {('TimeDelta', 'from_py_timedelta'): ('td_from_py', 'dur'), ('TimeDelta', 'parse_common_iso'): ('td_parse', 'dur'),
               ('Time', 'from_py_time'): ('time_from_py', 'time'), ('Time', 'parse_common_iso'): ('time_parse', 'time'),
               ('SystemDateTime', 'from_py_datetime'): ('sdt_from_py', 'sdt')}
DT_FIELDS = ('year', 'month', 'day', 'hour', 'minute', 'second', 'microsecond')
AS = {'dur': 'pv_as_timedelta', 'time': 'pv_as_time', 'instant': 'pv_as_instant'}


class InstTranslator(Translator):
    ORDERED = ('int', 'time', 'sdt', 'instant')
    RET_SCALARS = ('bool', 'int', 'time', 'dur', 'instant')

    def partial(self, prim: str, ctx: Ctx) -> tuple[str, list]:
        """a conversion of the runtime: PVal r | PExc e"""
        r, e = self.fresh('p'), self.fresh('e')
        kx = ctx.kx(e)
        return r, [lambda body: f'match {prim} with\n| PVal {r} =>\n{body}\n| PExc {e} => {kx}\nend']

    def pyval_arg(self, n: ast.Call, ctx: Ctx) -> str:
        if len(n.args) == 1 and not n.keywords:
            t, c, p = self.expr(n.args[0], ctx)
            if t == 'pyval' and not p:
                return c
        raise Unrecognised(f'argument of {src(n)}')

    def expr(self, n: ast.AST, ctx: Ctx):
        if isinstance(n, ast.Attribute) and n.attr in DT_FIELDS:
            t, c, p = self.expr(n.value, ctx)
            if t == 'pyval':
                return 'int', f'(pv_{n.attr} {c})', p
        if isinstance(n, ast.BinOp) and isinstance(n.op, (ast.Add, ast.Mult)):
            ta, ca, pa = self.expr(n.left, ctx)
            tb, cb, pb = self.expr(n.right, ctx)
            if isinstance(n.op, ast.Add) and (ta, tb) == ('instant', 'dur'):
                return 'instant', f'({ca} + {cb})', pa + pb
            if isinstance(n.op, ast.Mult) and (ta, tb) == ('int', 'int'):
                return 'int', f'({ca} * {cb})', pa + pb
        return super().expr(n, ctx)

    def call_expr(self, n: ast.Call, ctx: Ctx):
        f = n.func
        if isinstance(f, ast.Name) and f.id not in ctx.locals:
            if f.id == 'TimeDelta' and not n.args and [k.arg for k in n.keywords] == ['seconds']:
                t, c, p = self.expr(n.keywords[0].value, ctx)
                if t == 'pyval' and not p:
                    r, pre = self.partial(f'td_seconds {c}', ctx)
                    return 'dur', r, pre
            if f.id == 'SystemDateTime' and len(n.args) == 6 and [k.arg for k in n.keywords] == ['nanosecond']:
                a, pres = self.int_args(list(n.args) + [n.keywords[0].value], ctx, 'SystemDateTime')
                v, stuck = self.fresh('d'), ctx.stuck
                return 'sdt', v, pres + [lambda body: f'match sdt_make7 W {" ".join(a)} with\n| None => {stuck}\n| Some {v} =>\n{body}\nend']
        return super().call_expr(n, ctx)

    def method_expr(self, n: ast.Call, f: ast.Attribute, ctx: Ctx):
        if isinstance(f.value, ast.Name) and f.value.id not in ctx.locals:
            key = (f.value.id, f.attr)
            if key in CONVERSIONS:
                prim, ty = CONVERSIONS[key]
                r, pre = self.partial(f'{prim} {self.pyval_arg(n, ctx)}', ctx)
                return ty, r, pre
            if key == ('Instant', 'now') and not n.args and not n.keywords:
                return 'instant', '(sdt_now W)', []
        if f.attr in ('instant', 'in_seconds') and not n.args and not n.keywords:
            t, c, pre = self.expr(f.value, ctx)
            if f.attr == 'instant' and t == 'sdt':
                return 'instant', c, pre
            if f.attr == 'instant' and t == 'pyval':
                r, p = self.partial(f'pv_system_instant {c}', ctx)
                return 'instant', r, pre + p
            if f.attr == 'in_seconds' and t == 'dur':
                return 'dur', c, pre
            raise Unrecognised(f'{src(n)} on a {t}')
        raise_kw = len(n.keywords) >= 1 and n.keywords[-1].arg == 'disambiguate' \
            and isinstance(n.keywords[-1].value, ast.Constant) and n.keywords[-1].value.value == 'raise'
        if f.attr == 'replace_time' and len(n.args) == 1 and len(n.keywords) == 1 and raise_kw:
            t, c, pre = self.expr(f.value, ctx)
            ta, ca, pa = self.expr(n.args[0], ctx)
            if t == 'sdt' and ta == 'time':
                r, p = self.partial(f'sdt_replace_time W {c} {ca}', ctx)
                return 'sdt', r, pre + pa + p
        if f.attr == 'add' and not n.args and [k.arg for k in n.keywords] == ['days', 'disambiguate'] and raise_kw:
            t, c, pre = self.expr(f.value, ctx)
            a, pa = self.int_args([n.keywords[0].value], ctx, 'add(days=)')
            if t == 'sdt':
                r, p = self.partial(f'sdt_add_days W {c} {a[0]}', ctx)
                return 'sdt', r, pre + pa + p
        return super().method_expr(n, f, ctx)

    def compare(self, op, a, b, ctx: Ctx):
        if isinstance(a, ast.NamedExpr) and isinstance(a.target, ast.Name):
            # (x := E) <op> ...: x is bound (possibly anew, with another type) before the comparison
            if ctx.loop is not None:
                raise Unrecognised('walrus inside a loop')
            t, c, pre = self.expr(a.value, ctx)
            gen_dst.cty(t)
            v = self.bind(a.target.id, t, ctx)
            text, p2 = self.compare(op, ast.Name(id=a.target.id, ctx=ast.Load()), b, ctx)
            return text, pre + [lambda body: f'let {v} := {c} in\n{body}'] + p2
        if isinstance(op, (ast.Is, ast.IsNot)) and isinstance(a, ast.Attribute) and a.attr == 'tzinfo' \
                and gen_dst.is_none(b):
            t, c, p = self.expr(a.value, ctx)
            if t == 'pyval':
                return (f'(negb (pv_dt_aware {c}))' if isinstance(op, ast.Is) else f'(pv_dt_aware {c})'), p
        if isinstance(op, (ast.Lt, ast.LtE, ast.Gt, ast.GtE)):
            ta, ca, pa = self.expr(a, ctx)
            tb, cb, pb = self.expr(b, ctx)
            if (ta, tb) == ('dur', 'int'):
                table = {ast.Lt: f'({ca} <? {cb})', ast.LtE: f'({ca} <=? {cb})', ast.Gt: f'({cb} <? {ca})',
                         ast.GtE: f'({cb} <=? {ca})'}
                return table[type(op)], pa + pb
        return super().compare(op, a, b, ctx)

    def case_test(self, t, c: str, p: ast.pattern, ctx: Ctx) -> str:
        if t == 'pyval':
            if isinstance(p, ast.MatchSingleton) and p.value is None:
                return f'pv_isinstance {c} CNone'
            if isinstance(p, ast.MatchClass) and isinstance(p.cls, ast.Name) and p.cls.id in PYCLASS \
                    and p.cls.id not in ctx.locals and not p.patterns and not p.kwd_patterns:
                return f'pv_isinstance {c} {PYCLASS[p.cls.id]}'
            if isinstance(p, ast.MatchOr):
                return '(' + ' || '.join(self.case_test(t, c, q, ctx) for q in p.patterns) + ')'
        return super().case_test(t, c, p, ctx)

    def return_stmt(self, st: ast.Return, ctx: Ctx) -> str:
        v = st.value
        if isinstance(v, ast.Name) and v.id in ctx.locals and ctx.locals[v.id][0] == 'pyval' and ctx.fn.ret in AS:
            r, pre = self.partial(f'{AS[ctx.fn.ret]} {ctx.locals[v.id][1]}', ctx)
            return self.wrap(pre, ctx.kret(r))
        return super().return_stmt(st, ctx)


HEADER = '''(* GenInstant.v — WRITTEN BY tools/gen_instant.py FROM /repo/src/eascheduler/builder/helper.py ON EVERY RUN.
   Do not edit.  See coq/theories/GenRtInstant.v for the runtime and coq/theories/GenInstantEq.v for the proofs. *)
From EAS Require Import Base Civil Time Replace Dst GenRtDst GenRtInstant.
From Coq Require Import String.

Inductive gen_instant_status := GenInstantOk | GenInstantError (what : string).
'''


def generate(repo: Path) -> str:
    path = repo / 'src/eascheduler/builder/helper.py'
    mod = ast.parse(path.read_text(encoding='utf-8'), filename=str(path))
    fdefs: dict[str, ast.FunctionDef] = {}
    for n in ast.walk(mod):
        if isinstance(n, (ast.FunctionDef, ast.AsyncFunctionDef, ast.ClassDef)) and n.name in FUNCS:
            if n.name in fdefs or n not in mod.body or not isinstance(n, ast.FunctionDef):
                raise Unrecognised(f'{n.name} is defined twice or not at module level')
            fdefs[n.name] = n
    imports = {src(n) for n in mod.body if isinstance(n, (ast.Import, ast.ImportFrom))}
    for alias, line in IMPORTS.items():
        if line not in imports:
            raise Unrecognised(f'import of {alias}')
    if not any(s.startswith('from whenever import ') and all(w in s for w in ('Instant', 'SystemDateTime', 'Time', 'TimeDelta'))
               for s in imports):
        raise Unrecognised('import of the whenever classes')
    for n in mod.body:        # no rebinding of the names the rules rely on
        for t in ([n.target] if isinstance(n, (ast.AnnAssign, ast.AugAssign)) else n.targets if isinstance(n, ast.Assign) else []):
            if isinstance(t, ast.Name) and (t.id in PYCLASS or t.id in FUNCS):
                raise Unrecognised(f'module-level assignment to {t.id}')
    tr = InstTranslator()
    defs = []
    for name in FUNCS:
        if name not in fdefs:
            raise Unrecognised(f'function {name} is missing')
        tr.fns[name] = tr.declare(name, fdefs[name], 'g_' + name)
    for name in FUNCS:
        for n in gen_dst.walk_no_defs(fdefs[name].body):
            if isinstance(n, ast.Call) and isinstance(n.func, ast.Name) and n.func.id in FUNCS \
                    and FUNCS.index(n.func.id) >= FUNCS.index(name):
                raise Unrecognised(f'{name} calls {n.func.id}: recursion')
        defs.append(tr.function(tr.fns[name]))
    text = HEADER + '\nDefinition gen_instant_status_v : gen_instant_status := GenInstantOk.\n\n'
    text += '\n'.join(indent(d) + '\n' for d in defs)
    return text


def main() -> int:
    repo, out = Path(sys.argv[1]), Path(sys.argv[2])
    try:
        text = generate(repo)
    except (Unrecognised, OSError, SyntaxError, KeyError, IndexError, AttributeError, TypeError) as e:
        msg = str(e).replace('"', "'").replace('\n', ' ')[:300]
        text = HEADER + f'\nDefinition gen_instant_status_v : gen_instant_status := GenInstantError "{msg}".\n'
        print(f'gen_instant: not recognised: {msg}', file=sys.stderr)
    old = out.read_text() if out.exists() else None
    if old != text:
        out.write_text(text)
    return 0          # fail closed inside Coq: GenInstantEq.v does not compile without the definitions


if __name__ == '__main__':
    sys.exit(main())
