#!/bin/sh
# tools/try_mutant.sh <patch.diff> <prop> [<prop> ...] — try a seeded change WITHOUT touching /repo or the committed
# evidence: a scratch git worktree of /repo gets the patch, a private copy of the Coq tree is rebuilt against it
# (VERIF_REPO / VERIF_COQ / VERIF_OUT), the quick checks run, everything is removed again.
patch="$(readlink -f "$1")"; shift
tag="mt_$$"
wt="/tmp/$tag"; priv="/verif/.scratch/$tag"
git -C /repo worktree add -q --detach "$wt" HEAD || exit 2
cleanup() { [ -n "$KEEP_OUT" ] && cp -r "$priv/out" "/verif/.scratch/keep_out" 2>/dev/null; git -C /repo worktree remove --force "$wt" 2>/dev/null; rm -rf "$priv"; }
trap cleanup EXIT INT TERM
( cd "$wt" && git apply "$patch" ) || { echo "patch does not apply"; exit 2; }
mkdir -p "$priv/out"
rsync -a --exclude cases /verif/coq/ "$priv/coq/"
cd /verif
for p in "$@"; do
  VERIF_REPO="$wt" VERIF_COQ="$priv/coq" VERIF_OUT="$priv/out" ./check "$p" --tier quick 2>&1 \
    | grep -E "VIOLATION|-> OK|KNOWN-FINDING" | cut -c1-300 | sed "s/^/[$p] /"
done
