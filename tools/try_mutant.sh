#!/bin/sh
# tools/try_mutant.sh <patch.diff> <prop> [<prop> ...]  — apply a seeded change to /repo, run the quick checks, undo
patch="$1"; shift
cd /repo || exit 2
git apply --check "$patch" || { echo "patch does not apply"; exit 2; }
git apply "$patch"
cd /verif
for p in "$@"; do
  ./check "$p" --tier quick 2>&1 | grep -E "VIOLATION|-> OK|-> VIOLATION" | sed "s/^/[$p] /"
done
git -C /repo checkout -- .
rm -f /verif/replays/*.json
