#!/usr/bin/env python3
"""gen_parse.py — fail-closed translator: the argument parser of /repo  ->  coq/gen/GenParse.v.

Translated statement by statement (Python `ast` -> Gallina, in the runtime of coq/theories/GenRtParse.v on top of the
string / set primitives of coq/theories/Parse.v):
  builder/helper.py   _wrapped_range, _parse_single_value, _parse_str_options, _parse_values,
                      get_weekdays, get_days, get_months
  const.py            get_day_nr, get_month_nr, __create_names with its closures _set_in_values / add_values / to_dict,
                      and the module level (DAY_NAMES = {}, MONTH_NAMES = {}, __create_names()): the name tables are
                      COMPUTED inside Coq by the translated code from the literals of the source
coq/theories/GenParseEq.v (hand-written, re-checked against the regenerated file on every run) proves that the generated
parser computes what the definitions of Parse.v compute - value set or rejection - for every input of the model's
argument type, and that the generated tables ARE the model's tables.  Anything outside the vocabulary raises
Unrecognised; the output then carries [gen_parse_status_v = GenParseError "..."] and NO definitions, so GenParseEq.v
does not compile (fail closed).

Scheme: every function is a pure Gallina function into [result T] (Ok v | Raise e | OutOfFuel).  Assignments are
`let`; a call that can raise is `bind call (fun v => rest)` (there is no try/except in these functions: an exception
propagates); `if` is `if` / `match` with a join continuation over the variables assigned in the branches; `return` /
`raise` end the function; a `for` loop is [for_each] over its loop-carried variables.  Mutable containers (set, dict)
are threaded as values: a mutating method rebinds the name, and a function returns, next to its result, the final value of
every container it mutates that is not its own local (a dict parameter, a closure variable, a module global).  Names of
locals are kept (`v_<name>`), so renaming a local changes no proof.

TRUSTED translation rules (what GenParseEq.v cannot check):
  P1  str -> the list of its code points (Parse.str).  `s.strip()` = Parse.strip, `s.lower()` = Parse.lower,
      `s.isdigit()` = Parse.isdigit, `int(s)` = Parse.py_int (ValueError when it answers None), `'c' in s` for a
      one-character literal = zmemb (ord c) s, `s.split('c')` = Parse.split_on (ord c) s, `a, b = s.split('c', 1)` =
      Parse.split_first (ord c) s (ValueError "not enough values to unpack" when c does not occur), `s[:k]` =
      GenRtParse.py_prefix, `a < b` on str = code-point order.  Those primitives are compared with the running Python
      for every code point below U+0250 by the correspondence check of C17 (domain of the model, see Parse.v).
  P2  the argument type: HINT_NAME_OR_NR = int | str | Iterable[int | str] is Parse.pval (VInt | VStr | VList; a bool
      is an int); `isinstance(v, int)` / `isinstance(v, str)` are `match v with VInt n` / `VStr s`; a pval used as a
      str / iterated is the str / the list, anything else raises (as_str / as_list, proved unreachable).
      `*values` is the list of the positional arguments.  Other classes (float, None, bytes ...) are outside the model.
  P3  `for x in <list>` visits the elements in order and stops at the first exception ([for_each]); loop bodies contain
      no break / continue / return (refused).  `range(a, b)` = Parse.py_range, `enumerate(l, start=n)` =
      enumerate_from.
  P4  set[int] -> strictly increasing list: `set()` = [], `{a}` = canon [a], `set(range(..))` = canon, `s.add(x)` =
      zinsert, `s.update(t)` = zunion; `sorted(<set>)` is that list.  dict[str, int] -> association list in insertion
      order: `{}` = [], `k in d` = dict_mem, `d[k]` = dict_getitem (KeyError), `d[k] = v` = dict_set, `d.get(k)` =
      Parse.assoc, `d.clear()` = [], `sorted(d.items(), key=lambda x: (x[1], x[0]))` = sort_items.
  P5  no aliasing: a set / dict is only ever reached through ONE name per scope (checked: containers are never copied to
      another name; they are passed to translated functions by name only), which is what makes P4's threading sound.
  P6  int -> Z; `+` `<` `<=` `==` `!=` and chained comparisons are those of Z.
  P7  exceptions: ValueError = EValueError, TypeError = ETypeError, KeyError = EKeyError.  The MESSAGE of an exception
      (f-strings, the call of const.__get_err_msg with difflib) is not translated: building it is assumed not to raise
      and to have no effect; a message variable can only be used as the argument of `raise`.
  P8  `lookup: Callable[[str], int] | None` -> option (str -> result Z); the names get_day_nr / get_month_nr in helper.py
      are the functions of const.py (the `from eascheduler.const import` line is checked) closed over the FINAL tables.
  P9  module level of const.py: DAY_NAMES and MONTH_NAMES start as {} and __create_names() runs exactly once, at import,
      after the definitions (checked syntactically); nothing else in the package writes to them (not checked).
  P10 closures: a nested def reads / mutates the enclosing function's dict through the one name (P5); the hoisted
      function takes it as a parameter and returns its final value.  `if cut` on `int | None` is truthy_optint.
  P11 recursion: every call of a function that lies on a call cycle (_parse_str_options, _parse_values) goes through the
      record [prec] and consumes one unit of fuel ([pknot]); OutOfFuel is never a value.  Python's recursion limit
      (RecursionError on lists nested about 1000 deep) is not modelled.
  P12 `datetime.date(y, m, d)` = mk_date (day number, ValueError for a date that does not exist) and
      `.strftime('%A' | '%a' | '%B' | '%b')` are the ENGLISH names of the weekday / month of that day (Civil.v): the
      process runs under LC_ALL=C (as the correspondence run does).  Under another locale the tables get MORE keys.
  P13 Python evaluates operands and arguments left to right; the translation emits the binds in that order.
  P14 annotations are believed for the TYPE of a parameter (they select the Coq type), nothing else.

usage: gen_parse.py <repo_root> <out_file>
"""
from __future__ import annotations

import ast
import sys
from pathlib import Path

sys.path.insert(0, str(Path(__file__).resolve().parent))
from gen_sched import Unrecognised, src, is_none  # noqa: E402  (shared machinery)
from gen_prod import exits  # noqa: E402

HELPER_FUNCS = ['_wrapped_range', '_parse_single_value', '_parse_str_options', '_parse_values',
                'get_weekdays', 'get_days', 'get_months']
CONST_FUNCS = ['get_day_nr', 'get_month_nr', '__create_names']
MESSAGE_BUILDERS = ['__get_err_msg']          # const.py: builds the text of an exception (P7)

COQTY = {
    'int': 'Z', 'str': 'str', 'bool': 'bool', 'pval': 'pval', 'pvals': 'list pval', 'intset': 'list Z',
    'intlist': 'list Z', 'strlist': 'list str', 'dict': 'pdict', 'items': 'list (str * Z)', 'enum:str': 'list (Z * str)',
    'optint': 'option Z', 'lookup': 'option (str -> result Z)', 'fn': 'str -> result Z', 'date': 'Z', 'unit': 'unit',
}
ELEM = {'pvals': 'pval', 'strlist': 'str', 'intlist': 'int', 'items': ('str', 'int'), 'enum:str': ('int', 'str')}
CONTAINERS = {'intset', 'dict'}
ANNOT = {
    'str': 'str', 'int': 'int', 'str | int': 'pval', 'int | str': 'pval', 'HINT_NAME_OR_NR': 'pval',
    'Iterable[HINT_NAME_OR_NR]': 'pvals', 'Callable[[str], int] | None': 'lookup', 'int | None': 'optint',
    'Iterable[str]': 'strlist', 'dict': 'dict', 'dict[str, int]': 'dict',
}
RET_ANNOT = {'set[int]': 'intset', 'int': 'int', 'list[int]': 'intlist', 'None': 'none'}
EXC = {'ValueError': 'EValueError', 'TypeError': 'ETypeError', 'KeyError': 'EKeyError'}
HINT_ALIAS = 'int | str | Iterable[int | str]'


def coq_str(s: str) -> str:
    """a str literal -> the list of its code points"""
    body = '[' + '; '.join(str(ord(c)) for c in s) + ']'
    if s and all(c.isalnum() and ord(c) < 128 for c in s):
        body += f' (* {s} *)'
    return '(' + body + ')' if ' (*' in body else body


def tuple_pat(names: list[str]) -> str:
    if not names:
        return '_'
    if len(names) == 1:
        return names[0]
    return "'(" + ', '.join(names) + ')'


def tuple_val(texts: list[str]) -> str:
    if not texts:
        return 'tt'
    if len(texts) == 1:
        return texts[0]
    return '(' + ', '.join(texts) + ')'


def wrap(pre: list, body: str) -> str:
    for p in reversed(pre):
        body = p(body)
    return body


class Fn:
    """a translated function"""

    def __init__(self, name: str, gname: str) -> None:
        self.name, self.gname = name, gname
        self.params: list[tuple[str, str]] = []      # (python name, type)
        self.closure: list[tuple[str, str]] = []     # outer names it reads or mutates (leading parameters)
        self.outs: list[str] = []                    # containers it mutates that are not its own locals (returned)
        self.ret = 'none'
        self.recursive = False                       # lies on a call cycle: called through R (P11)
        self.needs_R = False

    def result_parts(self) -> list[str]:
        types = dict(self.params + self.closure)
        parts = [COQTY[types[o]] for o in self.outs]
        if self.ret != 'none':
            parts.append(COQTY[self.ret])
        return parts

    def result_type(self) -> str:
        parts = self.result_parts()
        one = parts[0] if len(parts) == 1 else ''
        return 'result ' + ('unit' if not parts else (f'({one})' if ' ' in one else one) if one else '(' + ' * '.join(parts) + ')')


class Ctx:
    """translation context of one block"""

    def __init__(self) -> None:
        self.locals: dict[str, tuple[str, str]] = {}   # python name -> (type, coq text)
        self.outer: dict[str, tuple[str, str]] = {}    # names of the enclosing scope (become closure parameters)
        self.funcs: dict[str, Fn] = {}                 # translated functions in scope

    def copy(self) -> 'Ctx':
        c = Ctx()
        c.locals, c.outer, c.funcs = dict(self.locals), self.outer, dict(self.funcs)
        return c


def target_names(t: ast.AST) -> list[str]:
    if isinstance(t, ast.Name):
        return [t.id]
    if isinstance(t, ast.Tuple) and all(isinstance(e, ast.Name) for e in t.elts):
        return [e.id for e in t.elts]
    raise Unrecognised(f'assignment target {src(t)}')


MUTATORS = ('add', 'update', 'clear')


def effects(nodes: list[ast.AST], funcs: dict[str, Fn]) -> tuple[list[str], list[str]]:
    """-> (names rebound by assignment / walrus / for, names mutated in place), in order of first appearance; the
    bodies of nested defs do not count (their effects arise where they are called)"""
    rebound: list[str] = []
    mutated: list[str] = []

    def add(lst: list[str], n: str) -> None:
        if n not in lst:
            lst.append(n)

    def walk(n: ast.AST) -> None:
        if isinstance(n, (ast.FunctionDef, ast.AsyncFunctionDef, ast.ClassDef, ast.Lambda)):
            if not isinstance(n, (ast.FunctionDef, ast.Lambda)):
                raise Unrecognised(f'nested definition {src(n)[:40]}')
            return
        if isinstance(n, (ast.Global, ast.Nonlocal, ast.Delete, ast.With, ast.Try, ast.While)):
            raise Unrecognised(f'statement {src(n)[:40]}')
        if isinstance(n, (ast.Assign, ast.AnnAssign, ast.AugAssign)):
            for t in (n.targets if isinstance(n, ast.Assign) else [n.target]):
                if isinstance(t, ast.Subscript) and isinstance(t.value, ast.Name):
                    add(mutated, t.value.id)
                else:
                    for x in target_names(t):
                        add(rebound, x)
        elif isinstance(n, ast.NamedExpr):
            add(rebound, n.target.id)
        elif isinstance(n, ast.For):
            for x in target_names(n.target):
                add(rebound, x)
        elif isinstance(n, ast.Call):
            f = n.func
            if isinstance(f, ast.Attribute) and f.attr in MUTATORS and isinstance(f.value, ast.Name):
                add(mutated, f.value.id)
            elif isinstance(f, ast.Name) and f.id in funcs:
                fn = funcs[f.id]
                pnames = [p for p, _ in fn.params]
                for o in fn.outs:
                    if o in pnames:
                        a = n.args[pnames.index(o)] if pnames.index(o) < len(n.args) else None
                        if not isinstance(a, ast.Name):
                            raise Unrecognised(f'container argument of {src(n)} is not a name (P5)')
                        add(mutated, a.id)
                    else:
                        add(mutated, o)
        for c in ast.iter_child_nodes(n):
            walk(c)

    for top in nodes:
        walk(top)
    return rebound, mutated


def char_const(n: ast.AST) -> int | None:
    if isinstance(n, ast.Constant) and isinstance(n.value, str) and len(n.value) == 1:
        return ord(n.value)
    return None


class Translator:
    def __init__(self, recursive: set[str]) -> None:
        self.n = 0
        self.defs: list[str] = []           # emitted definitions, in dependency order
        self.recursive = recursive          # names of the functions on a call cycle
        self.recfns: list[Fn] = []          # ... translated (fields of the record prec)
        self.cur: Fn | None = None

    def fresh(self, base: str) -> str:
        self.n += 1
        return f'{base}{self.n}'

    # -- coercions (P2, P8) --------------------------------------------------------------------------------
    def coerce(self, t: str, c: str, want: str, what: str) -> tuple[str, list]:
        if t == want:
            return c, []
        if (t, want) in (('int', 'pval'), ('str', 'pval')):
            return f'({"VInt" if t == "int" else "VStr"} {c})', []
        if (t, want) in (('pval', 'pvals'), ('pval', 'str')):
            v = self.fresh('l' if want == 'pvals' else 's')
            f = 'as_list' if want == 'pvals' else 'as_str'
            return v, [lambda body: f'bind ({f} {c}) (fun {v} =>\n{body})']
        if (t, want) in (('fn', 'lookup'), ('int', 'optint')):
            return f'(Some {c})', []
        if t == 'none' and want in ('lookup', 'optint'):
            return 'None', []
        if (t, want) == ('intset', 'intlist') or (t, want) == ('dict', 'items'):
            raise Unrecognised(f'{what}: a {t} used as {want} (iteration order of a container)')
        raise Unrecognised(f'{what}: a {t} where a {want} is needed')

    # -- expressions ---------------------------------------------------------------------------------------
    def expr(self, n: ast.AST, ctx: Ctx) -> tuple[str, str, list]:
        """-> (type, coq text, preludes); a prelude wraps the text of everything evaluated after it (P13)"""
        if isinstance(n, ast.Name):
            if n.id in ctx.locals:
                t, c = ctx.locals[n.id]
                if t == 'msg':
                    raise Unrecognised(f'message variable {n.id} used as a value (P7)')
                return t, c, []
            raise Unrecognised(f'name {n.id}')
        if is_none(n):
            return 'none', 'None', []
        if isinstance(n, ast.Constant) and isinstance(n.value, bool):
            return 'bool', 'true' if n.value else 'false', []
        if isinstance(n, ast.Constant) and isinstance(n.value, int):
            return 'int', str(n.value) if n.value >= 0 else f'({n.value})', []
        if isinstance(n, ast.Constant) and isinstance(n.value, str):
            return 'str', coq_str(n.value), []
        if isinstance(n, ast.JoinedStr):
            return 'msg', '', []
        if isinstance(n, ast.List) and n.elts and all(isinstance(e, ast.Constant) and isinstance(e.value, str) for e in n.elts):
            return 'strlist', '[' + ';\n'.join(coq_str(e.value) for e in n.elts) + ']', []
        if isinstance(n, ast.Dict) and not n.keys:
            return 'dict', '[]', []
        if isinstance(n, ast.Set) and len(n.elts) == 1:
            t, c, pre = self.expr(n.elts[0], ctx)
            if t != 'int':
                raise Unrecognised(f'set display {src(n)}')
            return 'intset', f'(canon [{c}])', pre
        if isinstance(n, ast.BinOp) and isinstance(n.op, (ast.Add, ast.Sub)):
            ta, ca, pa = self.expr(n.left, ctx)
            tb, cb, pb = self.expr(n.right, ctx)
            if ta == 'int' and tb == 'int':
                return 'int', f'({ca} {"+" if isinstance(n.op, ast.Add) else "-"} {cb})', pa + pb
            raise Unrecognised(f'arithmetic {src(n)} ({ta}, {tb})')
        if isinstance(n, ast.UnaryOp) and isinstance(n.op, ast.Not):
            t, c, pre = self.expr(n.operand, ctx)
            if t != 'bool':
                raise Unrecognised(f'not {src(n.operand)} (a {t})')
            return 'bool', f'(negb {c})', pre
        if isinstance(n, ast.Compare):
            return self.compare(n, ctx)
        if isinstance(n, ast.BoolOp):
            return self.boolop(n, ctx)
        if isinstance(n, ast.Subscript):
            return self.subscript(n, ctx)
        if isinstance(n, ast.Call):
            return self.call(n, ctx)
        raise Unrecognised(f'expression {src(n)}')

    def compare(self, n: ast.Compare, ctx: Ctx) -> tuple[str, str, list]:
        if len(n.ops) == 1 and isinstance(n.ops[0], ast.In):
            tr_, cr, pr = self.expr(n.comparators[0], ctx)
            ch = char_const(n.left)
            if tr_ == 'str' and ch is not None:
                return 'bool', f'(zmemb {ch} {cr})', pr                     # 'c' in s
            tl, cl, pl = self.expr(n.left, ctx)
            if tr_ == 'dict' and tl == 'str':
                return 'bool', f'(dict_mem {cl} {cr})', pl + pr              # k in d
            raise Unrecognised(f'membership {src(n)} ({tl} in {tr_})')
        ops = {ast.Lt: '<?', ast.LtE: '<=?', ast.Eq: '=?'}
        operands = [n.left] + list(n.comparators)
        texts, pre = [], []
        for o in operands:
            t, c, p = self.expr(o, ctx)
            if t != 'int':
                raise Unrecognised(f'comparison {src(n)}: {src(o)} is a {t}')
            if p and len(texts) >= 2:
                raise Unrecognised(f'comparison {src(n)}: a later operand can raise (it is evaluated conditionally)')
            texts.append(c)
            pre += p
        parts = []
        for i, op in enumerate(n.ops):
            a, b = texts[i], texts[i + 1]
            if type(op) in ops:
                parts.append(f'({a} {ops[type(op)]} {b})')
            elif isinstance(op, ast.Gt):
                parts.append(f'({b} <? {a})')
            elif isinstance(op, ast.GtE):
                parts.append(f'({b} <=? {a})')
            elif isinstance(op, ast.NotEq):
                parts.append(f'(negb ({a} =? {b}))')
            else:
                raise Unrecognised(f'comparison {src(n)}')
        return 'bool', parts[0] if len(parts) == 1 else '(' + ' && '.join(parts) + ')', pre

    def boolop(self, n: ast.BoolOp, ctx: Ctx) -> tuple[str, str, list]:
        vals = [self.expr(n.values[0], ctx)]
        before = dict(ctx.locals)
        vals += [self.expr(v, ctx) for v in n.values[1:]]
        if ctx.locals != before:
            raise Unrecognised(f'{src(n)}: a conditionally evaluated operand has an effect')
        if any(t != 'bool' for t, _, _ in vals):
            raise Unrecognised(f'{src(n)}: operands are not bool')
        if not any(p for _, _, p in vals[1:]):
            op = ' && ' if isinstance(n.op, ast.And) else ' || '
            return 'bool', '(' + op.join(c for _, c, _ in vals) + ')', vals[0][2]
        if not isinstance(n.op, ast.And) or len(vals) != 2:
            raise Unrecognised(f'{src(n)}: an operand that can raise')
        # a and b, where evaluating b can raise: b is evaluated only when a is true
        (_, ca, pa), (_, cb, pb) = vals
        v = self.fresh('b')
        inner = wrap(pb, f'Ok {cb}')
        return 'bool', v, pa + [lambda body: f'bind (if {ca} then\n{inner}\nelse Ok false) (fun {v} =>\n{body})']

    def subscript(self, n: ast.Subscript, ctx: Ctx) -> tuple[str, str, list]:
        t, c, pre = self.expr(n.value, ctx)
        if t == 'dict' and not isinstance(n.slice, ast.Slice):
            tk, ck, pk = self.expr(n.slice, ctx)
            if tk != 'str':
                raise Unrecognised(f'subscript {src(n)}')
            v = self.fresh('x')
            return 'int', v, pre + pk + [lambda body: f'bind (dict_getitem {ck} {c}) (fun {v} =>\n{body})']
        if t == 'str' and isinstance(n.slice, ast.Slice) and n.slice.lower is None and n.slice.step is None \
                and n.slice.upper is not None:
            tu, cu, pu = self.expr(n.slice.upper, ctx)
            if tu != 'int':
                raise Unrecognised(f'slice {src(n)} (bound is a {tu})')
            return 'str', f'(py_prefix {cu} {c})', pre + pu
        raise Unrecognised(f'subscript {src(n)} (of a {t})')

    def args(self, n: ast.Call, k: int) -> list[ast.AST]:
        if n.keywords or len(n.args) != k or any(isinstance(a, ast.Starred) for a in n.args):
            raise Unrecognised(f'call {src(n)}')
        return n.args

    def call(self, n: ast.Call, ctx: Ctx) -> tuple[str, str, list]:
        f = n.func
        if isinstance(f, ast.Name):
            if f.id in MESSAGE_BUILDERS:
                return 'msg', '', []
            if f.id in ctx.funcs:
                return self.call_fn(ctx.funcs[f.id], n, ctx)
            if f.id in ctx.locals and ctx.locals[f.id][0] == 'fn':               # lookup(value)
                (a,) = self.args(n, 1)
                t, c, pre = self.expr(a, ctx)
                c, p2 = self.coerce(t, c, 'str', src(n))
                v = self.fresh('r')
                fn = ctx.locals[f.id][1]
                return 'int', v, pre + p2 + [lambda body: f'bind ({fn} {c}) (fun {v} =>\n{body})']
            if f.id in ctx.locals or f.id in ctx.outer:
                raise Unrecognised(f'call {src(n)}: {f.id} is a variable here')
            if f.id == 'set' and not n.args and not n.keywords:
                return 'intset', '[]', []
            if f.id == 'set':
                (a,) = self.args(n, 1)
                t, c, pre = self.expr(a, ctx)
                if t != 'intlist':
                    raise Unrecognised(f'call {src(n)} (of a {t})')
                return 'intset', f'(canon {c})', pre
            if f.id == 'range':
                a, b = self.args(n, 2)
                ta, ca, pa = self.expr(a, ctx)
                tb, cb, pb = self.expr(b, ctx)
                if (ta, tb) != ('int', 'int'):
                    raise Unrecognised(f'call {src(n)}')
                return 'intlist', f'(py_range {ca} {cb})', pa + pb
            if f.id == 'int':
                (a,) = self.args(n, 1)
                t, c, pre = self.expr(a, ctx)
                if t != 'str':
                    raise Unrecognised(f'call {src(n)} (of a {t})')
                v = self.fresh('n')
                return 'int', v, pre + [lambda body: f'bind (int_of_str {c}) (fun {v} =>\n{body})']
            if f.id == 'sorted':
                return self.sorted_(n, ctx)
            if f.id == 'enumerate' and len(n.args) == 1 and len(n.keywords) == 1 and n.keywords[0].arg == 'start':
                t, c, pre = self.expr(n.args[0], ctx)
                ts, cs, ps = self.expr(n.keywords[0].value, ctx)
                if t != 'strlist' or ts != 'int':
                    raise Unrecognised(f'call {src(n)}')
                return 'enum:str', f'(enumerate_from {cs} {c})', pre + ps
            if f.id == 'dt_date':
                parts, pre = [], []
                for a in self.args(n, 3):
                    t, c, p = self.expr(a, ctx)
                    if t != 'int':
                        raise Unrecognised(f'call {src(n)}')
                    parts.append(c)
                    pre += p
                v = self.fresh('d')
                return 'date', v, pre + [lambda body: f'bind (mk_date {" ".join(parts)}) (fun {v} =>\n{body})']
            raise Unrecognised(f'call {src(n)}')
        if isinstance(f, ast.Attribute):
            t, c, pre = self.expr(f.value, ctx)
            if f.attr in ('strip', 'lower', 'isdigit') and t in ('str', 'pval'):
                self.args(n, 0)
                c, p2 = self.coerce(t, c, 'str', src(n))
                return ('bool' if f.attr == 'isdigit' else 'str'), f'({f.attr} {c})', pre + p2
            if f.attr == 'split' and t == 'str' and len(n.args) == 1 and not n.keywords and char_const(n.args[0]) is not None:
                return 'strlist', f'(split_on {char_const(n.args[0])} {c})', pre
            if f.attr == 'get' and t == 'dict':
                (a,) = self.args(n, 1)
                tk, ck, pk = self.expr(a, ctx)
                if tk != 'str':
                    raise Unrecognised(f'call {src(n)}')
                return 'optint', f'(assoc {ck} {c})', pre + pk
            if f.attr == 'strftime' and t == 'date':
                (a,) = self.args(n, 1)
                if isinstance(a, ast.Constant) and a.value in ('%A', '%a', '%B', '%b'):
                    return 'str', f'(strftime_{a.value[1]} {c})', pre
            raise Unrecognised(f'call {src(n)} (method of a {t})')
        raise Unrecognised(f'call {src(n)}')

    def sorted_(self, n: ast.Call, ctx: Ctx) -> tuple[str, str, list]:
        if len(n.args) != 1:
            raise Unrecognised(f'call {src(n)}')
        a = n.args[0]
        if not n.keywords:
            t, c, pre = self.expr(a, ctx)
            if t != 'intset':
                raise Unrecognised(f'call {src(n)} (of a {t})')
            return 'intlist', f'(sorted_of_set {c})', pre
        # sorted(d.items(), key=lambda x: (x[1], x[0]))
        kw = n.keywords[0]
        if (len(n.keywords) == 1 and kw.arg == 'key' and isinstance(kw.value, ast.Lambda)
                and isinstance(a, ast.Call) and isinstance(a.func, ast.Attribute) and a.func.attr == 'items'
                and not a.args and not a.keywords):
            lam = kw.value
            x = lam.args.args[0].arg if len(lam.args.args) == 1 else None
            if x is not None and src(lam.body) == f'({x}[1], {x}[0])':
                t, c, pre = self.expr(a.func.value, ctx)
                if t == 'dict':
                    return 'items', f'(sort_items {c})', pre
        raise Unrecognised(f'call {src(n)}')

    def call_fn(self, fn: Fn, n: ast.Call, ctx: Ctx) -> tuple[str, str, list]:
        args = self.args(n, len(fn.params))
        texts, pre, rebinds = [], [], {}
        for (pname, pty), a in zip(fn.params, args):
            if pty in CONTAINERS and not isinstance(a, ast.Name):
                raise Unrecognised(f'container argument of {src(n)} is not a name (P5)')
            t, c, p = self.expr(a, ctx)
            c, p2 = self.coerce(t, c, pty, src(n))
            texts.append(c)
            pre += p + p2
            if pname in fn.outs:
                rebinds[pname] = a.id
        clos = []
        for cn, cty in fn.closure:
            if cn not in ctx.locals or ctx.locals[cn][0] != cty:
                raise Unrecognised(f'{src(n)}: the callee reads {cn}, which is not in scope here')
            clos.append(ctx.locals[cn][1])
        if fn.recursive:
            head = f'r_{fn.gname[2:]} R'
        else:
            head = fn.gname + (' R' if fn.needs_R else '')
        if fn.recursive or fn.needs_R:
            self.cur.needs_R = True
        calltext = ' '.join([head] + clos + texts)
        types = dict(fn.params + fn.closure)
        binders = []
        for o in fn.outs:
            target = rebinds.get(o, o)
            binders.append('v_' + target)
            ctx.locals[target] = (types[o], 'v_' + target)
        r = ''
        if fn.ret != 'none':
            r = self.fresh('r')
            binders.append(r)
        return fn.ret, r, pre + [lambda body: f'bind ({calltext}) (fun {tuple_pat(binders)} =>\n{body})']

    # -- conditions (with narrowing) -------------------------------------------------------------------------
    def cond(self, n: ast.AST, ctx: Ctx):
        """-> (preludes, emit, ctx_then, ctx_else); emit(then_text, else_text) -> text"""
        if isinstance(n, ast.UnaryOp) and isinstance(n.op, ast.Not):
            pre, emit, ct, ce = self.cond(n.operand, ctx)
            return pre, (lambda t, e: emit(e, t)), ce, ct
        if (isinstance(n, ast.Call) and isinstance(n.func, ast.Name) and n.func.id == 'isinstance' and len(n.args) == 2
                and not n.keywords and isinstance(n.args[0], ast.Name) and isinstance(n.args[1], ast.Name)
                and not {'isinstance', 'int', 'str'} & set(ctx.locals)):
            x, cls = n.args[0].id, n.args[1].id
            if x in ctx.locals and ctx.locals[x][0] == 'pval' and cls in ('int', 'str'):
                cx = ctx.locals[x][1]
                con = 'VInt' if cls == 'int' else 'VStr'
                ct, ce = ctx.copy(), ctx.copy()
                ct.locals[x] = (cls, 'v_' + x)
                return [], (lambda t, e: f'match {cx} with\n| {con} v_{x} =>\n{t}\n| _ =>\n{e}\nend'), ct, ce
            raise Unrecognised(f'{src(n)}')
        if (isinstance(n, ast.Compare) and len(n.ops) == 1 and isinstance(n.ops[0], (ast.Is, ast.IsNot))
                and is_none(n.comparators[0])):
            pre = []
            left = n.left
            if isinstance(left, ast.NamedExpr):                       # (x := e) is not None
                t, c, pre = self.expr(left.value, ctx)
                x = left.target.id
                if t in CONTAINERS or t in ('msg', 'none'):
                    raise Unrecognised(f'{src(left)}')
                ctx = ctx.copy()
                ctx.locals[x] = (t, 'v_' + x)
                pre = pre + [lambda body: f'let v_{x} := {c} in\n{body}']
            elif isinstance(left, ast.Name):
                x = left.id
            else:
                raise Unrecognised(f'{src(n)}')
            if x not in ctx.locals or ctx.locals[x][0] not in ('optint', 'lookup'):
                raise Unrecognised(f'{src(n)}: {x} is not an Optional')
            t, cx = ctx.locals[x]
            cn, cs = ctx.copy(), ctx.copy()
            cs.locals[x] = ({'optint': 'int', 'lookup': 'fn'}[t], 'v_' + x)
            cn.locals.pop(x)                                          # it is None there: no use is translated
            if isinstance(n.ops[0], ast.Is):
                return pre, (lambda t_, e: f'match {cx} with\n| None =>\n{t_}\n| Some v_{x} =>\n{e}\nend'), cn, cs
            return pre, (lambda t_, e: f'match {cx} with\n| Some v_{x} =>\n{t_}\n| None =>\n{e}\nend'), cs, cn
        if isinstance(n, ast.Name) and n.id in ctx.locals and ctx.locals[n.id][0] == 'optint':      # if cut
            x, cx = n.id, ctx.locals[n.id][1]
            ct = ctx.copy()
            ct.locals[x] = ('int', 'v_' + x)
            return [], (lambda t, e: f'match truthy_optint {cx} with\n| Some v_{x} =>\n{t}\n| None =>\n{e}\nend'), ct, ctx.copy()
        if isinstance(n, ast.Name) and n.id in ctx.locals and ctx.locals[n.id][0] in ELEM:          # if values
            c = f'(nonempty {ctx.locals[n.id][1]})'
            return [], (lambda t, e: f'if {c} then\n{t}\nelse\n{e}'), ctx.copy(), ctx.copy()
        t, c, pre = self.expr(n, ctx)
        if t != 'bool':
            raise Unrecognised(f'condition {src(n)} (a {t})')
        return pre, (lambda t_, e: f'if {c} then\n{t_}\nelse\n{e}'), ctx.copy(), ctx.copy()

    # -- statements ------------------------------------------------------------------------------------------
    def block(self, stmts: list[ast.stmt], ctx: Ctx, k) -> str:
        if not stmts:
            return k(ctx)
        return self.stmt(stmts[0], ctx, lambda c: self.block(stmts[1:], c, k))

    def bind_local(self, x: str, t: str, c: str, pre: list, ctx: Ctx, cont) -> str:
        if t == 'msg':
            ctx.locals[x] = ('msg', '')
            return wrap(pre, cont(ctx))
        if t not in COQTY or t == 'unit':
            raise Unrecognised(f'{x} = <a {t}>')
        if x in self.cur_closure:
            raise Unrecognised(f'{x} of the enclosing scope is assigned (Python would make it a local)')
        ctx.locals[x] = (t, 'v_' + x)
        return wrap(pre, f'let v_{x} := {c} in\n' + cont(ctx))

    def stmt(self, st: ast.stmt, ctx: Ctx, cont) -> str:
        if isinstance(st, ast.Expr) and isinstance(st.value, ast.Constant) and isinstance(st.value.value, str):
            return cont(ctx)                                          # docstring
        if isinstance(st, (ast.Assign, ast.AnnAssign)):
            if isinstance(st, ast.Assign) and len(st.targets) != 1 or st.value is None:
                raise Unrecognised(f'{src(st)}')
            tg = st.targets[0] if isinstance(st, ast.Assign) else st.target
            return self.assign(tg, st.value, ctx, cont)
        if isinstance(st, ast.Expr) and isinstance(st.value, ast.Call):
            return self.call_stmt(st.value, ctx, cont)
        if isinstance(st, ast.If):
            return self.if_(st, ctx, cont)
        if isinstance(st, ast.For):
            return self.for_(st, ctx, cont)
        if isinstance(st, ast.Return):
            return self.return_(st.value, ctx)
        if isinstance(st, ast.Raise):
            if st.cause is not None and not is_none(st.cause):
                raise Unrecognised(f'{src(st)}')
            e = st.exc
            if (isinstance(e, ast.Call) and isinstance(e.func, ast.Name) and e.func.id in EXC and e.func.id not in ctx.locals
                    and not e.keywords and len(e.args) <= 1):
                if e.args:
                    a = e.args[0]
                    ok = (isinstance(a, ast.JoinedStr) or isinstance(a, ast.Constant) and isinstance(a.value, str)
                          or isinstance(a, ast.Name) and ctx.locals.get(a.id, ('', ''))[0] in ('msg', 'str'))
                    if not ok:
                        raise Unrecognised(f'{src(st)}: the argument is not a message')
                return f'Raise {EXC[e.func.id]}'
            raise Unrecognised(f'{src(st)}')
        if isinstance(st, ast.FunctionDef):
            fn = self.function(st, ctx, self.cur.gname + '__')
            ctx.funcs[st.name] = fn
            return cont(ctx)
        raise Unrecognised(f'statement {src(st)[:60]}')

    def return_(self, value: ast.AST | None, ctx: Ctx) -> str:
        fn = self.cur
        types = dict(fn.params + fn.closure)

        def outs() -> list[str]:
            for o in fn.outs:
                if o not in ctx.locals or ctx.locals[o][0] != types[o]:
                    raise Unrecognised(f'{o} is not available at a return of {fn.name}')
            return [ctx.locals[o][1] for o in fn.outs]
        if fn.ret == 'none':
            if value is not None and not is_none(value):
                raise Unrecognised(f'return {src(value)} in a function that returns None')
            return f'Ok {tuple_val(outs())}'
        if value is None:
            raise Unrecognised(f'{fn.name} can end without a value')
        t, c, pre = self.expr(value, ctx)
        c, p2 = self.coerce(t, c, fn.ret, f'return {src(value)}')
        return wrap(pre + p2, f'Ok {tuple_val(outs() + [c])}')

    def assign(self, tg: ast.AST, value: ast.AST, ctx: Ctx, cont) -> str:
        if isinstance(tg, ast.Name):
            if isinstance(value, ast.Name) and ctx.locals.get(value.id, ('', ''))[0] in CONTAINERS:
                raise Unrecognised(f'{tg.id} = {value.id}: a second name for a container (P5)')
            t, c, pre = self.expr(value, ctx)
            return self.bind_local(tg.id, t, c, pre, ctx, cont)
        if isinstance(tg, ast.Tuple) and len(tg.elts) == 2 and all(isinstance(e, ast.Name) for e in tg.elts):
            # a, b = s.split('c', 1)
            v = value
            if (isinstance(v, ast.Call) and isinstance(v.func, ast.Attribute) and v.func.attr == 'split' and len(v.args) == 2
                    and not v.keywords and char_const(v.args[0]) is not None
                    and isinstance(v.args[1], ast.Constant) and v.args[1].value == 1 and v.args[1].value is not True):
                t, c, pre = self.expr(v.func.value, ctx)
                if t != 'str':
                    raise Unrecognised(f'{src(v)} (of a {t})')
                a, b = (e.id for e in tg.elts)
                if a == b or a in self.cur_closure or b in self.cur_closure:
                    raise Unrecognised(f'{src(tg)}')
                ctx.locals[a] = ('str', 'v_' + a)
                ctx.locals[b] = ('str', 'v_' + b)
                return wrap(pre, f"bind (split2 {char_const(v.args[0])} {c}) (fun '(v_{a}, v_{b}) =>\n{cont(ctx)})")
            raise Unrecognised(f'{src(tg)} = {src(value)}')
        if isinstance(tg, ast.Subscript) and isinstance(tg.value, ast.Name) and not isinstance(tg.slice, ast.Slice):
            d = tg.value.id                                           # d[k] = v     (Python: v, then d, then k)
            tv, cv, pv = self.expr(value, ctx)
            if d not in ctx.locals or ctx.locals[d][0] != 'dict':
                raise Unrecognised(f'{src(tg)} = ...: {d} is not a dict')
            tk, ck, pk = self.expr(tg.slice, ctx)
            if (tk, tv) != ('str', 'int'):
                raise Unrecognised(f'{src(tg)} = {src(value)} ({tk}, {tv})')
            cd = ctx.locals[d][1]
            ctx.locals[d] = ('dict', 'v_' + d)
            return wrap(pv + pk, f'let v_{d} := dict_set {ck} {cv} {cd} in\n' + cont(ctx))
        raise Unrecognised(f'assignment to {src(tg)}')

    def call_stmt(self, n: ast.Call, ctx: Ctx, cont) -> str:
        f = n.func
        if isinstance(f, ast.Attribute) and f.attr in MUTATORS and isinstance(f.value, ast.Name):
            x = f.value.id
            if x not in ctx.locals or ctx.locals[x][0] not in CONTAINERS:
                raise Unrecognised(f'{src(n)}: {x} is not a set / dict')
            t, cx = ctx.locals[x]
            if f.attr == 'clear':
                self.args(n, 0)
                new, pre = '[]', []
            elif t == 'intset' and f.attr == 'add':
                (a,) = self.args(n, 1)
                ta, ca, pre = self.expr(a, ctx)
                if ta != 'int':
                    raise Unrecognised(f'{src(n)} (of a {ta})')
                new = f'zinsert {ca} {ctx.locals[x][1]}'
            elif t == 'intset' and f.attr == 'update':
                (a,) = self.args(n, 1)
                ta, ca, pre = self.expr(a, ctx)
                if ta not in ('intset', 'intlist'):
                    raise Unrecognised(f'{src(n)} (of a {ta})')
                new = f'zunion {ctx.locals[x][1]} {ca}'
            else:
                raise Unrecognised(f'{src(n)}')
            ctx.locals[x] = (t, 'v_' + x)
            return wrap(pre, f'let v_{x} := {new} in\n' + cont(ctx))
        if isinstance(f, ast.Name) and f.id in ctx.funcs:
            t, _, pre = self.call_fn(ctx.funcs[f.id], n, ctx)
            if t != 'none':
                raise Unrecognised(f'{src(n)}: the result is dropped')
            return wrap(pre, cont(ctx))
        raise Unrecognised(f'statement {src(n)}')

    def if_(self, st: ast.If, ctx: Ctx, cont) -> str:
        pre, emit, ct, ce = self.cond(st.test, ctx)
        if exits(st.body) or exits(st.orelse):                        # at most one branch falls through: no join
            tt = self.block(st.body, ct, cont)
            te = self.block(st.orelse, ce, cont)
            return wrap(pre, emit(tt, te))
        reb, mut = effects([st], ctx.funcs)
        cands = reb + [m for m in mut if m not in reb]
        kj = self.fresh('kj')
        calls: list[Ctx] = []

        def kjoin(c: Ctx) -> str:
            calls.append(c)
            return f'@@{kj}:{len(calls) - 1}@@'
        tt = self.block(st.body, ct, kjoin)
        te = self.block(st.orelse, ce, kjoin)
        c2 = ctx.copy()
        for c in calls:
            c2.funcs.update(c.funcs)
        jvars = []
        for x in cands:
            tys = {c.locals[x][0] if x in c.locals else None for c in calls}
            c2.locals.pop(x, None)
            if len(tys) == 1 and None not in tys:
                (t,) = tys
                c2.locals[x] = (t, '' if t == 'msg' else 'v_' + x)
                if t != 'msg':
                    jvars.append((x, t))
        text = emit(tt, te)
        for i, c in enumerate(calls):
            a = ' '.join(c.locals[x][1] for x, _ in jvars) or 'tt'
            text = text.replace(f'@@{kj}:{i}@@', f'{kj} {a}')
        binder = ' '.join(f'(v_{x} : {COQTY[t]})' for x, t in jvars) or '(_ : unit)'
        rest = cont(c2)
        return wrap(pre, f'let {kj} := fun {binder} =>\n{rest}\nin\n{text}')

    def for_(self, st: ast.For, ctx: Ctx, cont) -> str:
        if st.orelse:
            raise Unrecognised('for ... else')
        for n in ast.walk(st):
            if isinstance(n, (ast.Break, ast.Continue, ast.Return)):
                raise Unrecognised(f'{type(n).__name__.lower()} inside a for loop (P3)')
        t, c, pre = self.expr(st.iter, ctx)
        if t not in ELEM:
            raise Unrecognised(f'for ... in {src(st.iter)} (a {t})')
        el = ELEM[t]
        tnames = target_names(st.target)
        eltys = [el] if isinstance(el, str) else list(el)
        if len(tnames) != len(eltys) or len(set(tnames)) != len(tnames) or any(x in self.cur_closure for x in tnames):
            raise Unrecognised(f'for {src(st.target)} in {src(st.iter)}')
        reb, mut = effects(st.body, ctx.funcs)
        carried = [x for x in reb + [m for m in mut if m not in reb] if x in ctx.locals and x not in tnames]
        before = {x: ctx.locals[x][0] for x in carried}
        if any(ty == 'msg' for ty in before.values()):
            raise Unrecognised('a message variable carried by a loop')
        init = tuple_val([ctx.locals[x][1] for x in carried])
        bctx = ctx.copy()
        for x, ty in zip(tnames, eltys):
            bctx.locals[x] = (ty, 'v_' + x)
        for x in carried:
            bctx.locals[x] = (before[x], 'v_' + x)

        def kend(cc: Ctx) -> str:
            for x in carried:
                if x not in cc.locals or cc.locals[x][0] != before[x]:
                    raise Unrecognised(f'{x} changes its type inside a loop')
            return 'Ok ' + tuple_val([cc.locals[x][1] for x in carried])
        body = self.block(st.body, bctx, kend)
        after = ctx.copy()
        for x in tnames:
            after.locals.pop(x, None)                                 # the loop variable is not visible afterwards
        for x in carried:
            after.locals[x] = (before[x], 'v_' + x)
        pat = tuple_pat(['v_' + x for x in carried])
        rest = cont(after)
        return wrap(pre, f'bind (for_each {c} {init} (fun {tuple_pat(["v_" + x for x in tnames])} {pat} =>\n{body}))\n'
                         f'(fun {pat} =>\n{rest})')

    # -- functions -------------------------------------------------------------------------------------------
    def function(self, fnode: ast.FunctionDef, octx: Ctx, prefix: str = 'g_') -> Fn:
        a = fnode.args
        if a.kwonlyargs or a.kwarg or a.defaults or a.posonlyargs or fnode.decorator_list:
            raise Unrecognised(f'signature of {fnode.name}')
        fn = Fn(fnode.name, prefix + fnode.name.lstrip('_'))
        for p in a.args:
            ann = src(p.annotation) if p.annotation is not None else ''
            if ann not in ANNOT:
                raise Unrecognised(f'parameter {p.arg}: {ann} of {fnode.name}')
            fn.params.append((p.arg, ANNOT[ann]))
        if a.vararg is not None:                                      # *values: HINT_NAME_OR_NR   (P2)
            ann = src(a.vararg.annotation) if a.vararg.annotation is not None else ''
            if ann != 'HINT_NAME_OR_NR' or a.args:
                raise Unrecognised(f'parameter *{a.vararg.arg} of {fnode.name}')
            fn.params.append((a.vararg.arg, 'pvals'))
        rann = src(fnode.returns) if fnode.returns is not None else ''
        if rann not in RET_ANNOT:
            raise Unrecognised(f'result type {rann} of {fnode.name}')
        fn.ret = RET_ANNOT[rann]
        fn.recursive = fnode.name in self.recursive and prefix == 'g_'
        pnames = [p for p, _ in fn.params]
        if len(set(pnames)) != len(pnames):
            raise Unrecognised(f'signature of {fnode.name}')
        known = dict(octx.funcs)                                      # with a first estimate for the nested defs
        for s_ in fnode.body:
            if isinstance(s_, ast.FunctionDef):
                est = Fn(s_.name, '')
                est.params = [(p.arg, '') for p in s_.args.args]
                r_, m_ = effects(s_.body, known)
                est.outs = [m for m in m_ if m not in r_]
                known[s_.name] = est
        reb, mut = effects(fnode.body, known)
        # the names of the enclosing scope this function reads or mutates, in order of first appearance
        outer = dict(octx.outer)
        outer.update({x: tc for x, tc in octx.locals.items() if tc[0] in CONTAINERS})
        used: list[str] = []

        def walk(n: ast.AST) -> None:
            if isinstance(n, ast.FunctionDef):
                return
            if isinstance(n, ast.Name) and n.id not in used:
                used.append(n.id)
            if isinstance(n, ast.Call) and isinstance(n.func, ast.Name) and n.func.id in octx.funcs:
                for cn, _ in octx.funcs[n.func.id].closure:
                    if cn not in used:
                        used.append(cn)
            for c in ast.iter_child_nodes(n):
                walk(c)
        for s in fnode.body:
            walk(s)
        fn.closure = [(x, outer[x][0]) for x in used if x in outer and x not in pnames and x not in reb]
        cnames = [x for x, _ in fn.closure]
        types = dict(fn.params + fn.closure)
        for m in mut:
            if m in cnames or m in pnames and types[m] in CONTAINERS:
                fn.outs.append(m)
            elif m not in reb:
                raise Unrecognised(f'{fnode.name} mutates {m}, which is neither its local nor a known container')
        if fn.recursive and (fn.closure or fn.outs):
            raise Unrecognised(f'{fnode.name} is recursive and has effects')
        ctx = Ctx()
        ctx.outer = outer
        ctx.funcs = dict(octx.funcs)
        for x, t in octx.locals.items():                              # constants of the enclosing scope (P8)
            if t[0] == 'fn':
                ctx.locals[x] = t
        for x, t in fn.params + fn.closure:
            ctx.locals[x] = (t, 'v_' + x)
        if fn.recursive:
            ctx.funcs[fnode.name] = fn
        saved = self.cur, getattr(self, 'cur_closure', set())
        self.cur, self.cur_closure = fn, set(cnames)

        def kend(c: Ctx) -> str:
            if fn.ret != 'none':
                raise Unrecognised(f'{fnode.name} can end without a value')
            return self.return_(None, c)
        body = self.block(fnode.body, ctx, kend)
        self.cur, self.cur_closure = saved
        sig = ''.join(f' (v_{x} : {COQTY[t]})' for x, t in fn.closure + fn.params)
        rpar = ' (R : prec)' if fn.needs_R or fn.recursive else ''
        if fn.recursive:
            fn.needs_R = True
            self.recfns.append(fn)
        self.defs.append(f'(* {fnode.name}'
                         + (f'   [returns the final value of: {", ".join(fn.outs)}]' if fn.outs else '') + ' *)\n'
                         + f'Definition {fn.gname}{rpar}{sig} : {fn.result_type()} :=\n{body}.\n')
        return fn


HEADER = '''(* GenParse.v — WRITTEN BY tools/gen_parse.py FROM /repo/src/eascheduler/builder/helper.py AND const.py ON EVERY RUN.
   Do not edit.  See coq/theories/GenRtParse.v for the runtime and coq/theories/GenParseEq.v for the proofs. *)
From EAS Require Import Base Civil Parse GenRtParse.
From Coq Require Import String.

Inductive gen_parse_status := GenParseOk | GenParseError (what : string).
'''


def indent(text: str) -> str:
    out, depth = [], 0
    for line in text.splitlines():
        s = line.strip()
        out.append('  ' * min(depth, 14) + s)
        depth += s.count('(') - s.count(')') + s.count('[') - s.count(']')
        depth = max(depth, 0)
    return '\n'.join(out)


def functions_of(mod: ast.Module, what: str) -> dict[str, ast.FunctionDef]:
    fns: dict[str, ast.FunctionDef] = {}
    for n in mod.body:
        if isinstance(n, (ast.AsyncFunctionDef, ast.FunctionDef)):
            if n.name in fns or isinstance(n, ast.AsyncFunctionDef):
                raise Unrecognised(f'{what}: {n.name} is defined twice or async')
            fns[n.name] = n
    return fns


def call_cycles(fns: dict[str, ast.FunctionDef], names: list[str]) -> set[str]:
    """the functions among [names] that can reach themselves through calls by name (P11)"""
    graph = {f: {c.func.id for c in ast.walk(fns[f]) if isinstance(c, ast.Call) and isinstance(c.func, ast.Name)
                 and c.func.id in names} for f in names}
    out = set()
    for f in names:
        seen, todo = set(), list(graph[f])
        while todo:
            g = todo.pop()
            if g not in seen:
                seen.add(g)
                todo += graph[g]
        if f in seen:
            out.add(f)
    return out


def mentions(n: ast.AST, names: set[str]) -> bool:
    return any(isinstance(x, ast.Name) and x.id in names for x in ast.walk(n))


BUILTINS = {'set', 'range', 'int', 'str', 'sorted', 'enumerate', 'isinstance', 'ValueError', 'TypeError', 'KeyError'}


def module_binds(mod: ast.Module) -> list[tuple[str, ast.stmt]]:
    """the names bound by the statements of the module level (anywhere inside them), functions included"""
    out = []
    for top in mod.body:
        for n in ([top] if isinstance(top, (ast.FunctionDef, ast.AsyncFunctionDef, ast.ClassDef)) else ast.walk(top)):
            if isinstance(n, (ast.FunctionDef, ast.AsyncFunctionDef, ast.ClassDef)):
                out.append((n.name, top))
            elif isinstance(n, (ast.Import, ast.ImportFrom)):
                out += [((a.asname or a.name).split('.')[0], top) for a in n.names]
            elif isinstance(n, ast.Name) and isinstance(n.ctx, (ast.Store, ast.Del)):
                out.append((n.id, top))
    return out


def check_const_module(mod: ast.Module, fns: dict[str, ast.FunctionDef]) -> None:
    """P9: the shape of the module level of const.py"""
    tables = {'DAY_NAMES', 'MONTH_NAMES'}
    binds = module_binds(mod)
    if any(x in BUILTINS for x, _ in binds):
        raise Unrecognised('const.py: a builtin is rebound at module level')
    dd = [top for x, top in binds if x == 'dt_date']
    if len(dd) != 1 or src(dd[0]) != 'from datetime import date as dt_date':
        raise Unrecognised('const.py: dt_date is not datetime.date (P12)')
    for f in fns.values():
        for n in ast.walk(f):
            if isinstance(n, (ast.Global, ast.Nonlocal)) or isinstance(n, ast.Name) and isinstance(n.ctx, ast.Store) \
                    and n.id in BUILTINS | {'dt_date'} | set(CONST_FUNCS):
                raise Unrecognised(f'const.py: {f.name} rebinds a name the translation relies on')
    extra = sorted(set(fns) - set(CONST_FUNCS) - set(MESSAGE_BUILDERS))
    if extra:
        raise Unrecognised(f'const.py: functions this translator does not know: {extra}')
    inits, calls, seen_defs = [], 0, set()
    for n in mod.body:
        if isinstance(n, ast.FunctionDef):
            seen_defs.add(n.name)
        elif isinstance(n, (ast.Import, ast.ImportFrom)):
            if any((a.asname or a.name) in tables | set(CONST_FUNCS) for a in n.names):
                raise Unrecognised(f'const.py: {src(n)}')
        elif (isinstance(n, ast.AnnAssign) and isinstance(n.target, ast.Name) and n.target.id in tables
              and src(n.annotation) == 'Final[dict[str, int]]' and isinstance(n.value, ast.Dict) and not n.value.keys
              and not seen_defs):
            inits.append(n.target.id)
        elif isinstance(n, ast.Expr) and src(n) == '__create_names()' and set(CONST_FUNCS) <= seen_defs:
            calls += 1
        elif isinstance(n, ast.Delete) and src(n) == 'del __create_names' and calls == 1:
            pass
        elif mentions(n, tables | set(CONST_FUNCS)) or not isinstance(n, (ast.Assign, ast.AnnAssign, ast.Expr)):
            raise Unrecognised(f'const.py: module-level statement {src(n)[:60]}')
    if sorted(inits) != sorted(tables) or calls != 1:
        raise Unrecognised('const.py: DAY_NAMES / MONTH_NAMES = {} and one call of __create_names() expected')
    for b in MESSAGE_BUILDERS:
        if b in fns and mentions(fns[b], tables):
            raise Unrecognised(f'const.py: {b} touches the tables')


def check_helper_module(mod: ast.Module) -> None:
    """P2 / P8: the alias of the argument type and where the lookups come from"""
    alias = [n for n in mod.body if isinstance(n, ast.AnnAssign) and isinstance(n.target, ast.Name)
             and n.target.id == 'HINT_NAME_OR_NR']
    if len(alias) != 1 or alias[0].value is None or src(alias[0].value) != HINT_ALIAS:
        raise Unrecognised('helper.py: HINT_NAME_OR_NR is not ' + HINT_ALIAS)
    imports = [n for n in mod.body if isinstance(n, ast.ImportFrom) and n.module == 'eascheduler.const']
    got = sorted((a.name, a.asname) for n in imports for a in n.names)
    if got != [('get_day_nr', None), ('get_month_nr', None)]:
        raise Unrecognised(f'helper.py: imports from eascheduler.const: {got}')
    if any(x in BUILTINS for x, _ in module_binds(mod)):
        raise Unrecognised('helper.py: a builtin is rebound at module level')
    for n in mod.body:
        bound = []
        if isinstance(n, (ast.Import, ast.ImportFrom)) and n not in imports:
            bound = [(a.asname or a.name).split('.')[0] for a in n.names]
        elif isinstance(n, (ast.Assign, ast.AnnAssign, ast.AugAssign, ast.Delete, ast.ClassDef)):
            tg = n.targets if isinstance(n, (ast.Assign, ast.Delete)) else [getattr(n, 'target', None)]
            bound = [x.id for t in tg if t is not None for x in ast.walk(t) if isinstance(x, ast.Name)]
            bound += [n.name] if isinstance(n, ast.ClassDef) else []
        elif not isinstance(n, (ast.FunctionDef, ast.Import, ast.ImportFrom, ast.Expr, ast.If)):
            raise Unrecognised(f'helper.py: module-level statement {src(n)[:60]}')
        bad = set(bound) & (set(HELPER_FUNCS) | {'get_day_nr', 'get_month_nr', 'sorted', 'set', 'range', 'int', 'isinstance'})
        if bad or isinstance(n, ast.If) and mentions(n, set(HELPER_FUNCS) | {'get_day_nr', 'get_month_nr'}):
            raise Unrecognised(f'helper.py: module level rebinds {sorted(bad)}')


def generate(repo: Path) -> str:
    cpath = repo / 'src/eascheduler/const.py'
    hpath = repo / 'src/eascheduler/builder/helper.py'
    cmod = ast.parse(cpath.read_text(encoding='utf-8'), filename=str(cpath))
    hmod = ast.parse(hpath.read_text(encoding='utf-8'), filename=str(hpath))
    cfns, hfns = functions_of(cmod, 'const.py'), functions_of(hmod, 'helper.py')
    for f in CONST_FUNCS:
        if f not in cfns:
            raise Unrecognised(f'const.py: {f} is missing')
    for f in HELPER_FUNCS:
        if f not in hfns:
            raise Unrecognised(f'helper.py: {f} is missing')
    check_const_module(cmod, cfns)
    check_helper_module(hmod)
    if call_cycles(cfns, CONST_FUNCS):
        raise Unrecognised('const.py: recursion')
    tr = Translator(call_cycles(hfns, HELPER_FUNCS))

    # const.py: the functions, then the module level (P9)
    cctx = Ctx()
    cctx.outer = {'DAY_NAMES': ('dict', 'v_DAY_NAMES'), 'MONTH_NAMES': ('dict', 'v_MONTH_NAMES')}
    cf = {f: tr.function(cfns[f], cctx) for f in CONST_FUNCS}
    create = cf['__create_names']
    if create.params or create.ret != 'none' or sorted(create.outs) != ['DAY_NAMES', 'MONTH_NAMES'] \
            or sorted(x for x, _ in create.closure) != ['DAY_NAMES', 'MONTH_NAMES'] or create.needs_R:
        raise Unrecognised('const.py: __create_names is expected to fill DAY_NAMES and MONTH_NAMES and nothing else')
    pat = ', '.join('v_' + o for o in create.outs)
    level = [f'(* module level of const.py: DAY_NAMES = {{}}; MONTH_NAMES = {{}}; ...; __create_names() *)\n'
             f'Definition gen_names : {create.result_type()} := {create.gname}' + ' []' * len(create.closure) + '.\n']
    for tbl, gname in (('DAY_NAMES', 'gen_day_names'), ('MONTH_NAMES', 'gen_month_names')):
        level.append(f'Definition {gname} : pdict := match gen_names with Ok ({pat}) => v_{tbl} | _ => [] end.\n')
    final = {'DAY_NAMES': 'gen_day_names', 'MONTH_NAMES': 'gen_month_names'}

    # helper.py: get_day_nr / get_month_nr are the functions of const.py closed over the final tables (P8)
    hctx = Ctx()
    for f in ('get_day_nr', 'get_month_nr'):
        fn = cf[f]
        if [t for _, t in fn.params] != ['str'] or fn.ret != 'int' or fn.outs or fn.needs_R \
                or any(c not in final for c, _ in fn.closure):
            raise Unrecognised(f'const.py: {f} is expected to be a function str -> int that only reads the tables')
        hctx.locals[f] = ('fn', '(' + ' '.join([fn.gname] + [final[c] for c, _ in fn.closure]) + ')')
    ndefs = len(tr.defs)
    for f in HELPER_FUNCS:
        hctx.funcs[f] = tr.function(hfns[f], hctx)
    const_defs, helper_defs = tr.defs[:ndefs], tr.defs[ndefs:]

    # the record of the recursive functions and the knot (P11)
    fields, bottoms, ties = [], [], []
    for fn in tr.recfns:
        tys = [COQTY[t] for _, t in fn.params]
        fields.append(f'r_{fn.gname[2:]} : {" -> ".join(tys + [fn.result_type()])}')
        bottoms.append(f'r_{fn.gname[2:]} := fun {" ".join("_" for _ in tys)} => OutOfFuel')
        ties.append(f'r_{fn.gname[2:]} := {fn.gname} (pknot k)')
    if not tr.recfns:
        raise Unrecognised('helper.py: no recursive function found (the shape of the parser changed)')
    record = 'Record prec := {\n  ' + ';\n  '.join(fields) + '\n}.\n'
    knot = ('Fixpoint pknot (n : nat) : prec :=\n  match n with\n  | O => {| ' + ';\n           '.join(bottoms) + ' |}\n'
            '  | S k => {| ' + ';\n             '.join(ties) + ' |}\n  end.\n')
    text = HEADER + '\nDefinition gen_parse_status_v : gen_parse_status := GenParseOk.\n\n'
    text += '(* ---- const.py ---- *)\n' + '\n'.join(indent(d) + '\n' for d in const_defs) + '\n' + ''.join(level)
    text += '\n(* ---- builder/helper.py ---- *)\n' + record + '\n' + '\n'.join(indent(d) + '\n' for d in helper_defs)
    text += '\n' + knot
    text += f'\n(* not translated: {", ".join(MESSAGE_BUILDERS)} (message of an exception, P7) *)\n'
    return text


def main() -> int:
    repo, out = Path(sys.argv[1]), Path(sys.argv[2])
    try:
        text = generate(repo)
    except (Unrecognised, OSError, SyntaxError, KeyError, IndexError, AttributeError, ValueError, TypeError) as e:
        msg = (type(e).__name__ + ': ' + str(e)).replace('"', "'").replace('\n', ' ')[:300]
        text = HEADER + f'\nDefinition gen_parse_status_v : gen_parse_status := GenParseError "{msg}".\n'
        print(f'gen_parse: not recognised: {msg}', file=sys.stderr)
    old = out.read_text() if out.exists() else None
    if old != text:
        out.write_text(text)
    return 0            # fail closed inside Coq: GenParseEq.v does not compile without the definitions


if __name__ == '__main__':
    sys.exit(main())
