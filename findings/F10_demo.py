"""F10 (C16): the azimuth search of one date must end (with an instant or InfiniteLoopDetectedError).
exit 0 = every search ended, 1 = a search was still running after its time budget"""
import os, sys, time, signal, datetime
os.environ['TZ'] = 'UTC'; time.tzset()
from astral import Observer
from eascheduler.errors import InfiniteLoopDetectedError
from eascheduler.producers.prod_sun import SunAzimuthProducerCompare

class Budget(Exception):
    pass
def onalarm(*a):
    raise Budget()
signal.signal(signal.SIGALRM, onalarm)
hung = []
for lat, lon in [(52.5, 13.4), (-33.9, 151.2), (1.3, 103.8), (-54.8, -68.3)]:
    for az in (0, 10, 90, 180, 270, 350, 360):
        obs = Observer(lat, lon, 0.0)
        signal.alarm(15)
        try:
            SunAzimuthProducerCompare(az)._sun_func(obs, datetime.date(2025, 6, 1))
        except InfiniteLoopDetectedError:
            pass
        except Budget:
            hung.append((lat, lon, az))
        finally:
            signal.alarm(0)
        if len(hung) >= 2:
            break
    if len(hung) >= 2:
        break
print('searches that did not end within 15 s:', hung)
sys.exit(1 if hung else 0)
