"""F18 (C05, known finding): a group member that can never fire silences the whole group.
exit 1 = the defect shows"""
import os, sys, time
os.environ['TZ'] = 'Europe/Berlin'; time.tzset()
from whenever import Instant, Time
from eascheduler.errors.errors import InfiniteLoopDetectedError
from eascheduler.helpers import TimeReplacer
from eascheduler.producers.prod_filter import AllGroupProducerFilter, DayOfMonthProducerFilter, MonthOfYearProducerFilter
from eascheduler.producers.prod_group import GroupProducer
from eascheduler.producers.prod_interval import IntervalProducer
from eascheduler.producers.prod_time import TimeProducer

start = Instant.from_timestamp(1748822400)
dt = Instant.from_timestamp(1748908800)            # 2025-06-03 00:00Z
never = TimeProducer(TimeReplacer(Time(7, 30), 'later', 'earlier'))
f = AllGroupProducerFilter(); f.add_filter(DayOfMonthProducerFilter([31])); f.add_filter(MonthOfYearProducerFilter([2]))
never._filter = f
hourly = IntervalProducer(start, 3600)
print('hourly member alone ->', hourly.copy().get_next(dt))
try:
    print('group ->', GroupProducer([never, hourly]).get_next(dt)); rc = 0
except InfiniteLoopDetectedError:
    print('group -> InfiniteLoopDetectedError although the hourly member has an occurrence'); rc = 1
sys.exit(rc)
