"""F4 (C06): 'after' policy when the gap ends at local midnight. TZ=America/Nuuk: 2025-03-29 23:00 -> 00:00.
exit 0 = behaves as the property says, 1 = defect present"""
import os, sys, time
os.environ['TZ'] = 'America/Nuuk'; time.tzset()
from whenever import Date, Time
from eascheduler.helpers.time_replace import TimeReplacer
r = TimeReplacer(Time(23, 30), 'after', 'earlier').replace(Date(2025, 3, 29))
print(r)
sys.exit(0 if str(r).startswith('2025-03-30T00:00') else 1)
