"""F1 (C05): group filter rejects the earliest member occurrence; a later occurrence of the same member
(10:00) lies before the other member's next one (12:00) but 12:00 was returned.
exit 0 = correct, 1 = defect present"""
import os, sys, time
os.environ['TZ'] = 'UTC'; time.tzset()
from whenever import Instant
from eascheduler.builder import FilterBuilder as F, TriggerBuilder as T
from eascheduler.builder.triggers import _get_producer
start = Instant.from_utc(2025, 1, 1, 0)
g = T.group(T.interval(start, 3600), T.time('12:00:00')).only_on(F.not_(F.time('09:00:00', '09:30:00')))
r = _get_producer(g).get_next(Instant.from_utc(2025, 1, 6, 8, 30))
print(r)
sys.exit(0 if r == Instant.from_utc(2025, 1, 6, 10) else 1)
