"""F19 (C16, known finding): policy 'after' in a zone that skipped a whole day: ValueError leaves get_next.
exit 1 = the defect shows"""
import os, sys, time
os.environ['TZ'] = 'Pacific/Apia'; time.tzset()
from whenever import Instant, Time
from eascheduler.errors.errors import InfiniteLoopDetectedError
from eascheduler.helpers import TimeReplacer
from eascheduler.producers.prod_time import TimeProducer

dt = Instant.from_timestamp(1325199600)            # 2011-12-29 13:00 local; 2011-12-30 does not exist in Apia
for pol in ('later', 'skip', 'after'):
    p = TimeProducer(TimeReplacer(Time(12, 0), pol, 'earlier'))
    try:
        print(pol, '->', p.get_next(dt).to_system_tz()); rc = 0
    except InfiniteLoopDetectedError:
        print(pol, '-> InfiniteLoopDetectedError'); rc = 0
    except Exception as e:  # noqa: BLE001
        print(pol, f'-> {type(e).__name__}: {e}'); rc = 1
sys.exit(rc)
