"""F17 (C16, known finding): the azimuth trigger for a target near 0 degrees at a northern location ends with
OverflowError after several seconds of work - neither an instant nor InfiniteLoopDetectedError.
exit 1 = the defect shows, 0 = get_next ended the way C16 allows"""
import os, sys, time
os.environ['TZ'] = 'UTC'; time.tzset()
from whenever import Instant
from eascheduler.errors.errors import InfiniteLoopDetectedError
from eascheduler.producers import prod_sun

prod_sun.set_location(52.5, 13.4, 0.0)
t0 = time.perf_counter()
try:
    r = prod_sun.SunAzimuthProducerCompare(0.0).get_next(Instant.from_utc(2025, 6, 21, 3))
    print('answer', r); rc = 0
except InfiniteLoopDetectedError:
    print('InfiniteLoopDetectedError'); rc = 0
except Exception as e:  # noqa: BLE001
    print(f'{type(e).__name__}: {e} after {time.perf_counter() - t0:.1f} s'); rc = 1
sys.exit(rc)
