"""F7 (C15): only_on()/only_at() must not change the trigger it is called on. exit 0 = pure, 1 = defect"""
import os, sys, time
os.environ['TZ'] = 'UTC'; time.tzset()
from whenever import Instant
from eascheduler.builder import FilterBuilder as F, TriggerBuilder as T
from eascheduler.builder.triggers import _get_producer
base = T.time('12:00:00')
dt = Instant.from_utc(2025, 1, 4, 0)          # a Saturday
before = _get_producer(base).get_next(dt)
derived = base.only_on(F.weekdays('Mo'))
after = _get_producer(base).get_next(dt)
print(before, after, derived is base)
sys.exit(0 if before == after and derived is not base else 1)
