"""F3 (C19): a time of day as instant means the next time the wall clock shows it; on the eve of a clock
change '+24 h' is off by the size of the change. TZ=Europe/Berlin, now = 2025-03-29 12:00, '08:00'.
exit 0 = correct, 1 = defect present"""
import os, sys, time
os.environ['TZ'] = 'Europe/Berlin'; time.tzset()
from whenever import SystemDateTime, patch_current_time
from eascheduler.builder.helper import get_instant
with patch_current_time(SystemDateTime(2025, 3, 29, 12, 0), keep_ticking=False):
    r = get_instant('08:00:00').to_system_tz()
print(r)
sys.exit(0 if str(r).startswith('2025-03-30T08:00') else 1)
