"""F14 (C05/C06): TimeProducer misses the previous day's occurrence that the DST policy moved past midnight.
TZ=America/Nuuk, 23:30 with clock_forward='later': Saturday's run is Sunday 00:30.
exit 0 = correct, 1 = defect present"""
import os, sys, time
os.environ['TZ'] = 'America/Nuuk'; time.tzset()
from whenever import SystemDateTime, Time
from eascheduler.helpers.time_replace import TimeReplacer
from eascheduler.producers.prod_time import TimeProducer
p = TimeProducer(TimeReplacer(Time(23, 30), 'later', 'earlier'))
dt = SystemDateTime(2025, 3, 30, 0, 10).instant()
r = p.get_next(dt).to_system_tz()
print(r)
sys.exit(0 if str(r).startswith('2025-03-30T00:30') else 1)
