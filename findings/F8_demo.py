"""F8 (C15/C18): the sun cache must not return results of a previously configured location.
exit 0 = correct, 1 = stale result observed"""
import os, sys, time, gc
os.environ['TZ'] = 'UTC'; time.tzset()
from whenever import Instant
import eascheduler
from eascheduler.producers.prod_sun import SunriseProducer, SUN_CACHE
dt = Instant.from_utc(2025, 6, 1, 0)
locs = [(52.5, 13.4), (35.7, 139.7), (-33.9, 151.2), (40.7, -74.0), (64.1, -21.9), (1.3, 103.8)]
bad = 0
for rnd in range(6):
    for lat, lon in locs:
        eascheduler.set_location(lat, lon)
        got = SunriseProducer().get_next(dt)
        SUN_CACHE_copy = dict(SUN_CACHE)
        SUN_CACHE.clear()
        fresh = SunriseProducer().get_next(dt)
        SUN_CACHE.clear(); SUN_CACHE.update(SUN_CACHE_copy)
        if got != fresh:
            bad += 1
            print('stale', lat, lon, got, fresh)
print('stale results:', bad)
sys.exit(1 if bad else 0)
