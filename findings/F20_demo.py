"""F20 (C16, known finding): a sun elevation the sun never reaches at the location ends get_next with astral's ValueError.
exit 1 = the defect shows"""
import sys
from whenever import Instant
from eascheduler.errors.errors import InfiniteLoopDetectedError
from eascheduler.producers import prod_sun

prod_sun.set_location(52.5, 13.4, 0.0)
try:
    print(prod_sun.SunElevationProducerCompare(62.0, 'rising').get_next(Instant.from_utc(2025, 6, 21, 3))); rc = 0
except InfiniteLoopDetectedError:
    print('InfiniteLoopDetectedError'); rc = 0
except Exception as e:  # noqa: BLE001
    print(f'{type(e).__name__}: {e}'); rc = 1
sys.exit(rc)
