"""coqrun.py — build the Coq development and evaluate generated case files inside Coq."""
from __future__ import annotations

import fcntl
import os
import re
import shutil
import subprocess
import time
from concurrent.futures import ThreadPoolExecutor
from pathlib import Path

VERIF = Path(__file__).resolve().parent.parent
COQ = Path(os.environ.get('VERIF_COQ', str(VERIF / 'coq')))
REPO = Path(os.environ.get('VERIF_REPO', '/repo'))
COQ_ARGS = ['-Q', str(COQ / 'theories'), 'EAS', '-Q', str(COQ / 'gen'), 'EASGen', '-Q', str(COQ / 'props'), 'EASProps',
            '-w', '-notation-overridden,-deprecated-hint-without-locality,-deprecated-syntactic-definition']
JOBS = int(os.environ.get('VERIF_JOBS', '14'))


class Lock:
    def __init__(self) -> None:
        self.path = VERIF / '.build.lock'

    def __enter__(self):
        self.f = open(self.path, 'w')
        fcntl.flock(self.f, fcntl.LOCK_EX)
        return self

    def __exit__(self, *a):
        fcntl.flock(self.f, fcntl.LOCK_UN)
        self.f.close()


def regenerate() -> list[str]:
    """Rewrite coq/gen/*.v from /repo's working tree (only when the content changes)."""
    msgs = []
    r = subprocess.run(['python3', str(VERIF / 'tools' / 'gen_facts.py'), str(REPO), str(COQ / 'gen' / 'Generated.v')],
                       capture_output=True, text=True, timeout=120)
    if r.returncode != 0:
        msgs.append('gen_facts failed: ' + r.stderr[-2000:])
    # the scheduler core, statement by statement (fail closed inside Coq: GenSchedEq.v)
    r = subprocess.run(['python3', str(VERIF / 'tools' / 'gen_sched.py'), str(REPO), str(COQ / 'gen' / 'GenSched.v')],
                       capture_output=True, text=True, timeout=120)
    if r.returncode != 0:
        msgs.append('gen_sched failed: ' + r.stderr[-2000:])
    for tool, out in (('gen_jobs.py', 'GenJobs.v'), ('gen_taskmgr.py', 'GenTaskMgr.v'), ('gen_prod.py', 'GenProd.v'),
                      ('gen_dst.py', 'GenDst.v'), ('gen_instant.py', 'GenInstant.v'),
                      ('gen_builder.py', 'GenBuilder.v'), ('gen_sun.py', 'GenSun.v'),
                      ('gen_parse.py', 'GenParse.v'), ('gen_trig.py', 'GenTrig.v'),
                      ('gen_init.py', 'GenInit.v'), ('gen_removeall.py', 'GenRemoveAll.v')):
        target = COQ / 'gen' / out
        try:
            r = subprocess.run(['python3', str(VERIF / 'tools' / tool), str(REPO), str(target)],
                               capture_output=True, text=True, timeout=120)
            failed, err = r.returncode != 0, r.stderr[-2000:]
        except subprocess.TimeoutExpired:
            failed, err = True, 'timeout'
        if failed:          # never keep an older translation
            target.write_text(f'(* {tool} crashed *)\n')
            msgs.append(f'{tool} failed: ' + err)
    # (source the translator does not recognise is not reported here: GenSched.v then has no definitions and the
    #  property files that state the tie - C01 C02 C09 C10 (scheduler), C07 C08 (job classes), C11 C12 (task managers), C04 C05 C13 C14 C16 (producers), C20 (dst_param), C19 (get_instant), C02 C07 (builder / store / controls / executors), C18 (sun), C17 (argument parser, name tables), C15 (builder / copy), C01 C07 C08 (constructors: gen_init.py), C07 (remove_all: gen_removeall.py) - do not build, the others are not concerned)
    return msgs


def ensure_makefile() -> None:
    mk = COQ / 'Makefile'
    cp = COQ / '_CoqProject'
    if not mk.exists() or mk.stat().st_mtime < cp.stat().st_mtime:
        subprocess.run(['coq_makefile', '-f', '_CoqProject', '-o', 'Makefile'], cwd=COQ, check=True,
                       capture_output=True, timeout=120)


def make(targets: list[str], timeout: int = 3000) -> tuple[bool, str]:
    """make the given .vo targets (and what they depend on).  -> (ok, tail of the output)"""
    ensure_makefile()
    cmd = ['make', f'-j{JOBS}', '-k'] + targets
    try:
        r = subprocess.run(cmd, cwd=COQ, capture_output=True, text=True, timeout=timeout)
    except subprocess.TimeoutExpired as e:
        return False, f'make timed out after {timeout}s: {e}'
    out = (r.stdout + r.stderr)
    out = '\n'.join(l for l in out.splitlines() if not l.startswith('Warning:') and 'conda' not in l)
    return r.returncode == 0, out[-6000:]


def build(targets: list[str]) -> tuple[bool, str, list[str]]:
    with Lock():
        msgs = regenerate()
        ok, out = make(targets)
    return ok, out, msgs


def coqc_file(path: Path, timeout: int = 900) -> tuple[int, str]:
    """Compile one .v file in place (scratch) and return (rc, stdout+stderr)."""
    try:
        r = subprocess.run(['coqc', '-noglob', *COQ_ARGS, str(path)], capture_output=True, text=True, timeout=timeout,
                           cwd=path.parent)
    except subprocess.TimeoutExpired:
        return 124, f'coqc timed out after {timeout}s on {path.name}'
    return r.returncode, r.stdout + r.stderr


def check_assumptions(prop_file: Path, scratch: Path) -> dict:
    """Recompile props/Cxx.v in a scratch directory and read its Print Assumptions output."""
    dst = scratch / prop_file.name
    shutil.copy(prop_file, dst)
    t0 = time.time()
    rc, out = coqc_file(dst)
    theorems = re.findall(r'^\s*(?:Theorem|Lemma|Corollary|Example)\s+(\w+)', prop_file.read_text(), flags=re.M)
    closed = len(re.findall(r'Closed under the global context', out))
    axioms = []
    for m in re.finditer(r'Axioms:\s*(.*?)(?=\n\S|\Z)', out, flags=re.S):
        axioms.append(' '.join(m.group(1).split()))
    n_print = len(re.findall(r'^\s*Print Assumptions', prop_file.read_text(), flags=re.M))
    return {'rc': rc, 'theorems': theorems, 'closed': closed, 'axioms': axioms, 'prints': n_print,
            'out_tail': out[-3000:], 'wall_s': round(time.time() - t0, 2)}


GATE = re.compile(r'\b(Admitted|admit|Axiom|Axioms|Parameter|Parameters|Conjecture|Hypothesis|Variable\s|Unset\s+Guard|'
                  r'bypass_check|type-in-type|impredicative-set|Admit\s+Obligations|Unset\s+Positivity|'
                  r'Unset\s+Universe)')


def strip_comments(text: str) -> str:
    out, depth, i = [], 0, 0
    while i < len(text):
        if text.startswith('(*', i):
            depth += 1; i += 2
        elif text.startswith('*)', i) and depth:
            depth -= 1; i += 2
        else:
            if not depth:
                out.append(text[i])
            i += 1
    return ''.join(out)


def gate() -> list[str]:
    """Reject forbidden vernacular anywhere in coq/ (outside comments).  `Variable`/`Hypothesis` are
    allowed inside a Section only."""
    bad = []
    for p in sorted(COQ.rglob('*.v')):
        if 'cases' in p.parts:
            continue
        txt = strip_comments(p.read_text())
        depth = 0
        for ln, line in enumerate(txt.splitlines(), 1):
            if re.match(r'\s*Section\s+\w+', line):
                depth += 1
            if re.match(r'\s*End\s+\w+', line) and depth:
                depth -= 1
            for m in GATE.finditer(line):
                w = m.group(1).split()[0]
                if w in ('Variable', 'Hypothesis', 'Variables') and depth > 0:
                    continue
                if w == 'Variable' and 'Context' in line:
                    continue
                bad.append(f'{p.relative_to(VERIF)}:{ln}: {m.group(1).strip()}')
    return bad


def eval_cases(files: list[Path], timeout: int = 600) -> list[tuple[Path, int, str]]:
    def one(p: Path):
        rc, out = coqc_file(p, timeout)
        return p, rc, out
    with ThreadPoolExecutor(max_workers=JOBS) as ex:
        return list(ex.map(one, files))


def parse_eval_list(out: str) -> str | None:
    """Return the flattened text of the (last) `= ... : type` answer of an Eval, or None."""
    flat = ' '.join(out.split())
    ms = list(re.finditer(r'= (.*?) : [a-z(]', flat))
    if not ms:
        return None
    return ms[-1].group(1)


def parse_pairs(txt: str) -> list[tuple[int, int]]:
    return [(int(a), int(b)) for a, b in re.findall(r'\((\d+)%?n?a?t?, (\d+)%?n?a?t?\)', txt)]


def parse_nats(txt: str) -> list[int]:
    return [int(a) for a in re.findall(r'\d+', txt)]
