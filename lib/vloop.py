"""vloop.py — deterministic virtual time for the implementation under test.

* `VClock` owns one integer (nanoseconds since the epoch).  It drives `whenever`'s clock through
  `patch_current_time(..., keep_ticking=False)` and the asyncio loop clock of `VLoop`.
* `VLoop` is a SelectorEventLoop whose `time()` is the virtual clock and whose selector never
  blocks.  Nothing advances unless the harness says so.
* All instants used by scheduler histories are multiples of QUANTUM_NS = 2**-9 s = 1 953 125 ns, which
  are exact as float seconds, so the float arithmetic in AsyncScheduler._set_timer is exact.
"""
from __future__ import annotations

import asyncio
import contextlib

from whenever import Instant, patch_current_time

QUANTUM_NS = 1_953_125          # 2**-9 s
EPOCH0_NS = 1_735_689_600 * 10**9   # 2025-01-01T00:00:00Z; multiple of QUANTUM_NS? checked below
assert EPOCH0_NS % QUANTUM_NS == 0


class VClock:
    def __init__(self, start_ns: int) -> None:
        self.ns = start_ns
        self._cm = None
        self._patch = None

    def __enter__(self) -> 'VClock':
        self._cm = patch_current_time(Instant.from_timestamp_nanos(self.ns), keep_ticking=False)
        self._patch = self._cm.__enter__()
        return self

    def __exit__(self, *exc) -> None:
        self._cm.__exit__(*exc)
        self._cm = self._patch = None

    def advance(self, d_ns: int) -> None:
        assert d_ns >= 0
        if d_ns:
            self.ns += d_ns
            self._patch.shift(nanoseconds=d_ns)
        assert Instant.now().timestamp_nanos() == self.ns

    def set(self, ns: int) -> None:
        self.advance(ns - self.ns)


class _NoBlockSelector:
    def __init__(self, inner) -> None:
        self._inner = inner

    def select(self, timeout=None):
        return []

    def __getattr__(self, name):
        return getattr(self._inner, name)


class VLoop(asyncio.SelectorEventLoop):
    """Loop clock == the virtual clock (seconds, float, relative to `origin_ns` to keep floats exact)."""

    def __init__(self, clock: VClock, origin_ns: int) -> None:
        super().__init__()
        self._vclock = clock
        self._origin_ns = origin_ns
        self._selector = _NoBlockSelector(self._selector)
        # asyncio fires timers whose when < time() + resolution.  Timer times are float seconds (a few ns of
        # rounding after simulated months), real clocks move on, the virtual clock does not: 1 microsecond of
        # resolution absorbs the rounding; the harnesses keep instants at least 100 microseconds apart
        self._clock_resolution = 1e-6

    def time(self) -> float:
        return (self._vclock.ns - self._origin_ns) / 1e9

    def when_ns(self, handle: asyncio.TimerHandle) -> int:
        return self._origin_ns + round(handle.when() * 1e9)

    def has_due_or_ready(self) -> bool:
        if self._ready:
            return True
        sched = [h for h in self._scheduled if not h._cancelled]
        return any(h._when < self.time() + self._clock_resolution for h in sched)


async def drain(loop: VLoop, limit: int = 10_000) -> int:
    """Let the loop run ready callbacks and due timers until nothing is left (no time passes)."""
    n = 0
    while True:
        await asyncio.sleep(0)
        n += 1
        if not loop.has_due_or_ready():
            return n
        if n >= limit:
            raise RuntimeError('drain: loop does not become quiescent')


@contextlib.contextmanager
def virtual_time(start_ns: int):
    clock = VClock(start_ns)
    with clock:
        loop = VLoop(clock, start_ns)
        try:
            yield clock, loop
        finally:
            try:
                loop.run_until_complete(loop.shutdown_asyncgens())
            finally:
                loop.close()
