"""driver.py — one check run: regenerate facts, build the proofs, re-check the property theorem and its
assumptions, run the correspondence + property oracles of the property's group, decide the verdict,
write evidence and (on a violation) a replay file.  See DESIGN.md section 5."""
from __future__ import annotations

import argparse
import importlib
import json
import os
import shutil
import sys
import time
import traceback
from pathlib import Path

from lib import coqrun

VERIF = Path(__file__).resolve().parent.parent
# VERIF_OUT redirects evidence and replays (used by tools/try_mutant.sh so that trying a seeded change leaves
# the committed evidence alone); unset in every registered command
_OUT = Path(os.environ['VERIF_OUT']) if os.environ.get('VERIF_OUT') else VERIF
EVIDENCE = _OUT / 'evidence'
REPLAYS = _OUT / 'replays'
KNOWN = VERIF / 'known_findings.json'

# property -> harness module (each module serves a group of properties)
GROUPS = {
    'C01': 'harness.sched', 'C02': 'harness.sched', 'C07': 'harness.sched', 'C08': 'harness.sched',
    'C09': 'harness.sched', 'C10': 'harness.sched',
    'C03': 'harness.compose', 'C15': 'harness.bld', 'C18': 'harness.sun',
    'C04': 'harness.prod', 'C05': 'harness.prod', 'C06': 'harness.prod', 'C13': 'harness.prod', 'C14': 'harness.prod', 'C16': 'harness.prod',
    'C11': 'harness.taskmgr', 'C12': 'harness.taskmgr', 'C17': 'harness.filters', 'C19': 'harness.getinstant', 'C20': 'harness.dst',
}

TRUSTED_BASE = [
    'Rocq/Coq 8.16.1 kernel and its VM (vm_compute); no native_compute',
    'no axioms: every property theorem prints "Closed under the global context" (re-read on every run)',
    'tools/gen_facts.py: Python-ast translator of constants and loop skeleton (fail-closed)',
    'tools/gen_sched.py, gen_jobs.py, gen_builder.py, gen_taskmgr.py, gen_prod.py, gen_sun.py, gen_trig.py, gen_parse.py, '
    'gen_dst.py, gen_instant.py, gen_init.py, gen_removeall.py: Python-ast translators of the source into Gallina, statement by statement (fail-closed; the '
    'translation rules they trust are listed in their docstrings and in DESIGN.md 11.6); the generated files are proved '
    'equal to the hand-written models on every run (Gen*Eq.v)',
    'correspondence harness: virtual clock/loop, observation and canonicalisation of the implementation',
    'modelled, not verified: CPython, asyncio, whenever, astral, bisect/deque; float arithmetic on the 2^-9 s grid',
]


def _broken_theorems(out: str) -> str:
    """name the theorem / lemma a Coq error message points into: ' in <file>: <Theorem name> (line n)'"""
    import re
    names = []
    for m in re.finditer(r'File "([^"]+\.v)", line (\d+)', out):
        path, line = m.group(1), int(m.group(2))
        f = Path(path) if Path(path).is_absolute() else coqrun.COQ / path
        try:
            lines = f.read_text().splitlines()[:line]
        except OSError:
            continue
        for l in reversed(lines):
            k = re.match(r'\s*(Theorem|Lemma|Corollary|Example|Definition|Fixpoint)\s+([A-Za-z0-9_\']+)', l)
            if k:
                names.append(f'{f.name}: {k.group(1)} {k.group(2)} (error at line {line})')
                break
    names = list(dict.fromkeys(names))
    return (' in ' + '; '.join(names[:4])) if names else ''


def load_known() -> dict:
    if KNOWN.exists():
        return json.loads(KNOWN.read_text())
    return {'findings': [], 'fixed': []}


def write_evidence(prop: str, tier: str, seed: int, coverage: dict, wall: float, violations: int,
                   assumptions: list[str]) -> None:
    EVIDENCE.mkdir(parents=True, exist_ok=True)
    if coverage.get('discharged', 1) < 1 or coverage.get('obligations', 1) < 1:
        # the proof did not build on this tree: no obligation was discharged.  The evidence then only carries the
        # exploration-style counts (the schema asks for at least one discharged obligation at level 'proof')
        coverage = dict(coverage)
        coverage['proof_broken'] = True
        coverage['obligations_stated'] = coverage.pop('obligations', 0)
        coverage['obligations_discharged'] = coverage.pop('discharged', 0)
    ev = {
        'property_id': prop, 'tier': tier, 'seed': seed, 'level': 'proof', 'coverage': coverage,
        'assumptions': assumptions, 'wall_s': round(wall, 2), 'violations': violations,
    }
    (EVIDENCE / f'{prop}.json').write_text(json.dumps(ev, indent=1, default=str) + '\n')


def write_replay(prop: str, seed: int, payload: dict) -> Path:
    REPLAYS.mkdir(parents=True, exist_ok=True)
    n = 0
    while True:
        p = REPLAYS / f'{prop}-{seed}-{n}.json'
        if not p.exists():
            break
        n += 1
    p.write_text(json.dumps(payload, indent=1, default=str) + '\n')
    return p


def setup() -> int:
    t0 = time.time()
    ok, out, msgs = coqrun.build([])
    print(out[-3000:])
    for m in msgs:
        print(m)
    bad = coqrun.gate()
    for b in bad:
        print('GATE:', b)
    print(f'setup: build {"ok" if ok else "FAILED"} in {time.time() - t0:.1f}s')
    return 0 if ok and not bad else 1


def main(argv=None) -> int:
    ap = argparse.ArgumentParser()
    ap.add_argument('prop', nargs='?')
    ap.add_argument('--tier', default=os.environ.get('VERIF_TIER', 'quick'))
    ap.add_argument('--replay')
    ap.add_argument('--setup', action='store_true')
    args = ap.parse_args(argv)
    if args.setup:
        return setup()
    prop = args.prop
    if prop not in GROUPS:
        print(f'unknown or unclaimed property {prop}')
        return 2
    tier = args.tier if args.tier in ('quick', 'thorough') else 'quick'
    seed = int(os.environ.get('VERIF_SEED', '0') or 0)
    t0 = time.time()
    scratch = VERIF / '.scratch' / f'{prop}-{os.getpid()}'
    scratch.mkdir(parents=True, exist_ok=True)
    try:
        return run_check(prop, tier, seed, scratch, args.replay, t0)
    finally:
        shutil.rmtree(scratch, ignore_errors=True)


def run_check(prop: str, tier: str, seed: int, scratch: Path, replay: str | None, t0: float) -> int:
    mod = importlib.import_module(GROUPS[prop])
    known = load_known()
    my_known = [f for f in known.get('findings', []) if f['property'] == prop]

    # 1. proofs -----------------------------------------------------------------------------------
    obligations: list[dict] = []
    prop_file = coqrun.COQ / 'props' / f'{prop}.v'
    targets = [f'props/{prop}.vo'] + list(getattr(mod, 'COQ_TARGETS', []))
    ok, out, msgs = coqrun.build(targets)
    gate = coqrun.gate()
    proof_broken: list[str] = []
    if msgs:
        proof_broken += msgs
    if gate:
        proof_broken += [f'forbidden vernacular: {g}' for g in gate]
    if not ok:
        proof_broken.append('coq build failed' + _broken_theorems(out) + ': ' + out[-1500:])
    model_ok = all((coqrun.COQ / t).exists() for t in getattr(mod, 'COQ_TARGETS', []))
    ass = {'theorems': [], 'closed': 0, 'axioms': [], 'prints': 0, 'rc': 1, 'out_tail': ''}
    if ok:
        ass = coqrun.check_assumptions(prop_file, scratch)
        if ass['rc'] != 0:
            proof_broken.append(f'props/{prop}.v does not compile: ' + ass['out_tail'][-1500:])
        if ass['axioms']:
            proof_broken.append(f'props/{prop}.v depends on axioms: {ass["axioms"]}')
        if ass['closed'] != ass['prints'] or ass['prints'] == 0:
            proof_broken.append(f'props/{prop}.v: {ass["prints"]} Print Assumptions, {ass["closed"]} closed')
    n_obl = max(1, len(ass['theorems']))
    n_dis = ass['closed'] if not proof_broken else 0

    # 2. correspondence + property oracles --------------------------------------------------------
    res = {'evaluations': 0, 'distinct_nontrivial': 0, 'rule': '', 'samples': [], 'corr_failures': [],
           'spec_violations': [], 'distribution': {}}
    harness_error = None
    try:
        res = mod.run(prop, tier, seed, scratch, replay=replay, model_ok=model_ok)
    except Exception:  # noqa: BLE001
        harness_error = traceback.format_exc()
        print(harness_error)

    # 3. verdict ----------------------------------------------------------------------------------
    known_lines = []
    new_viol = []
    for v in res.get('spec_violations', []):
        kid = mod.match_known(prop, v, my_known) if hasattr(mod, 'match_known') else None
        if kid is not None:
            known_lines.append((kid, v))
        else:
            new_viol.append(v)
    # the pinned witnesses of the known findings are replayed on every run
    for f in my_known:
        still = mod.replay_known(prop, f, scratch) if hasattr(mod, 'replay_known') else None
        if still:
            print(f'KNOWN-FINDING: property={prop} {f["id"]}: {f["what"]}')
        elif still is False:
            print(f'note: known finding {f["id"]} no longer reproduces on this tree')

    rc = 0
    nviol = 0
    if new_viol:
        v = new_viol[0]
        p = write_replay(prop, seed, {'property': prop, 'kind': 'property violated on the implementation',
                                      'what': v.get('what'), 'case': v.get('case'), 'observed': v.get('observed'),
                                      'op_index': v.get('op_index'), 'seed': seed, 'tier': tier})
        print(f'VIOLATION property={prop} replay={p}')
        rc, nviol = 1, len(new_viol)
    elif proof_broken or res.get('corr_failures') or harness_error:
        # something no longer checks: search the implementation for a failing input first
        found = []
        try:
            found = mod.search(prop, seed, scratch) if hasattr(mod, 'search') else []
        except Exception:  # noqa: BLE001
            print(traceback.format_exc())
        found = [v for v in found if not (hasattr(mod, 'match_known') and mod.match_known(prop, v, my_known))]
        if found:
            v = found[0]
            p = write_replay(prop, seed, {'property': prop, 'kind': 'property violated on the implementation (search)',
                                          'what': v.get('what'), 'case': v.get('case'), 'observed': v.get('observed'),
                                          'op_index': v.get('op_index'), 'seed': seed, 'tier': tier})
            print(f'VIOLATION property={prop} replay={p}')
        else:
            cf = res.get('corr_failures', [])
            p = write_replay(prop, seed, {
                'property': prop, 'kind': 'proof obligation or correspondence no longer checks',
                'broken_obligations': proof_broken, 'harness_error': harness_error,
                'correspondence': f'model of {GROUPS[prop]} vs implementation',
                'disagreeing_case': cf[0] if cf else None, 'n_disagreements': len(cf), 'seed': seed, 'tier': tier})
            print(f'VIOLATION property={prop} replay={p} no-failing-input-found')
        rc, nviol = 1, 1

    # 4. evidence ---------------------------------------------------------------------------------
    coverage = {
        'obligations': n_obl, 'discharged': n_dis,
        'checker_cmd': f'make -C coq props/{prop}.vo && coqc props/{prop}.v (Print Assumptions) ; ./check {prop} --tier {tier}',
        'trusted_base': TRUSTED_BASE + list(getattr(mod, 'TRUSTED_EXTRA', {}).get(prop, [])),
        'theorems': ass['theorems'],
        'print_assumptions': {'closed': ass['closed'], 'axioms': ass['axioms']},
        'evaluations': res.get('evaluations', 0), 'distinct_nontrivial': res.get('distinct_nontrivial', 0),
        'rule': res.get('rule', ''), 'samples': res.get('samples', [])[:3],
        'distribution': res.get('distribution', {}),
        'correspondence_disagreements': len(res.get('corr_failures', [])),
        'property_oracle_violations': len(res.get('spec_violations', [])),
        'known_findings_matched': sorted({k for k, _ in known_lines}),
        'proof_obligations_broken': proof_broken,
        'exhaustive': False,
    }
    coverage.update(res.get('extra', {}))
    write_evidence(prop, tier, seed, coverage, time.time() - t0, nviol,
                   list(getattr(mod, 'ASSUMPTIONS', {}).get(prop, [])))
    print(f'{prop} [{tier}] obligations {n_dis}/{n_obl}, cases {res.get("evaluations", 0)}, '
          f'disagreements {len(res.get("corr_failures", []))}, oracle violations {len(res.get("spec_violations", []))} '
          f'(known {len(known_lines)}), {time.time() - t0:.1f}s -> {"OK" if rc == 0 else "VIOLATION"}')
    return rc
