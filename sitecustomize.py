"""sitecustomize.py — active only while the marker file .scratch/cov/ENABLED exists (created and removed by
tools/coverage_report.sh): lets that script measure which lines / branches of /repo/src/eascheduler the
implementation-side harness subprocesses exercise.  A measurement of the correspondence's reach (DESIGN.md 11.5b);
never part of a verdict; without the marker this file does nothing."""
import os

_HERE = os.path.dirname(os.path.abspath(__file__))
if os.path.exists(os.path.join(_HERE, '.scratch', 'cov', 'ENABLED')):
    try:
        os.environ['COVERAGE_PROCESS_START'] = os.path.join(_HERE, '.scratch', 'cov', 'coveragerc')
        import coverage
        coverage.process_startup()
    except Exception:       # noqa: BLE001
        pass
