"""sitecustomize.py — only active when VERIF_COV=1 and COVERAGE_PROCESS_START are set: lets tools/coverage_report.sh
measure which lines / branches of /repo/src/eascheduler the implementation-side harness subprocesses exercise
(a measurement of the correspondence's reach, printed into DESIGN.md 11.7; never part of a verdict)."""
import os

if os.environ.get('VERIF_COV') == '1' and os.environ.get('COVERAGE_PROCESS_START'):
    try:
        import coverage
        coverage.process_startup()
    except Exception:       # noqa: BLE001
        pass
