(* BuilderFacts.v — C15: deriving a new trigger or filter never changes an object that existed before; a trigger's
   answers do not depend on what was asked before (interval cache). *)
From EAS Require Import Base BaseFacts Civil Time Filters Replace Producers ProdStrict ProdEarliest Builder.

Lemma nth_error_firstn_lt {A} (l : list A) n i : (i < n)%nat -> nth_error (firstn n l) i = nth_error l i.
Proof.
  revert n i; induction l as [|a t IH]; intros n i H; [destruct n, i; reflexivity|].
  destruct n as [|n]; [lia|]. destruct i as [|i]; [reflexivity|]. cbn. apply IH. lia.
Qed.

Lemma run_prog_snoc ops o : run_prog (ops ++ [o]) = run_prog ops ++ [eval_bop (run_prog ops) o].
Proof. unfold run_prog. rewrite fold_left_app. reflexivity. Qed.

Lemma run_prog_length ops : length (run_prog ops) = length ops.
Proof.
  induction ops as [|o t IH] using rev_ind; [reflexivity|].
  rewrite run_prog_snoc, !app_length, IH. reflexivity.
Qed.

(* every builder call only appends: all objects that existed before are unchanged, whatever the call is *)
Theorem builder_noninterference ops more :
  firstn (length ops) (run_prog (ops ++ more)) = run_prog ops.
Proof.
  induction more as [|o t IH] using rev_ind.
  - rewrite app_nil_r, <- run_prog_length. apply firstn_all.
  - rewrite app_assoc, run_prog_snoc, firstn_app, IH.
    assert (Hz : (length ops - length (run_prog (ops ++ t)) = 0)%nat).
    { rewrite run_prog_length, app_length. lia. }
    rewrite Hz. cbn [firstn]. apply app_nil_r.
Qed.

Theorem builder_object_stable ops more i x :
  nth_error (run_prog ops) i = Some x -> nth_error (run_prog (ops ++ more)) i = Some x.
Proof.
  intros H.
  assert (Hi : (i < length ops)%nat).
  { rewrite <- (run_prog_length ops). apply nth_error_Some. congruence. }
  rewrite <- (builder_noninterference ops more) in H.
  rewrite <- H. symmetry. apply nth_error_firstn_lt. exact Hi.
Qed.

(* only_on / only_at yield a NEW object and the receiver keeps its (absent) filter *)
Theorem only_on_leaves_receiver ops i f p :
  get_trig (run_prog ops) i = Some p ->
  get_trig (run_prog (ops ++ [BOnlyOn i f])) i = Some p.
Proof.
  unfold get_trig. intros H.
  destruct (nth_error (run_prog ops) i) as [[q| |]|] eqn:E; try discriminate.
  rewrite (builder_object_stable ops [BOnlyOn i f] i _ E). exact H.
Qed.

(* ------------------------------------------------------------------------------------------- *)
(* the interval trigger answers the same from every cached point of its grid: repeating a query or asking
   other instants in between does not change an answer *)
Theorem interval_query_independent z fuel c c' iv f dt g g' :
  0 < iv -> on_grid c iv c' ->
  next_interval z fuel c iv f dt = Ok g -> next_interval z fuel c' iv f dt = Ok g' -> g = g'.
Proof.
  intros Hiv Hcc H1 H2.
  destruct (interval_earliest z fuel c iv f dt g Hiv H1) as (a1 & a2 & a3 & a4).
  destruct (interval_earliest z fuel c' iv f dt g' Hiv H2) as (b1 & b2 & b3 & b4).
  assert (b2' : on_grid c iv g') by (apply (on_grid_trans c iv c' g' Hiv Hcc); exact b2).
  assert (a2' : on_grid c' iv g) by (apply (on_grid_trans c iv c' g Hiv Hcc); exact a2).
  destruct (Z.lt_trichotomy g g') as [Hlt|[Heq|Hgt]]; [|exact Heq|].
  - specialize (b4 g (conj a1 Hlt) a2'). congruence.
  - specialize (a4 g' (conj b1 Hgt) b2'). congruence.
Qed.

(* the time-of-day trigger has no state at all *)
Theorem time_query_stateless E tr f st st2 dt :
  fst (get_next E (PTime tr f) st dt) = fst (get_next E (PTime tr f) st2 dt).
Proof. reflexivity. Qed.
