(* FiltersFacts.v — [allow f x = true <-> sem f x] and the readable forms of [sem]. *)
From EAS Require Import Base BaseFacts Civil CivilFacts Filters.

(* nested-list induction principle for [filt] *)
Lemma filt_ind' (P : filt -> Prop)
  (Hany : forall fs, Forall P fs -> P (FAny fs))
  (Hall : forall fs, Forall P fs -> P (FAll fs))
  (Hnot : forall f, P f -> P (FNot f))
  (Htime : forall lo hi, P (FTime lo hi))
  (Hwd : forall s, P (FWeekday s))
  (Hday : forall s, P (FDay s))
  (Hmon : forall s, P (FMonth s))
  (Hds : forall a n, P (FDateSet a n)) :
  forall f, P f.
Proof.
  fix IH 1. intros [fs|fs|f|lo hi|s|s|s|a n].
  - apply Hany. revert fs. fix IHl 1. intros [|g t]; constructor; [apply IH|apply IHl].
  - apply Hall. revert fs. fix IHl 1. intros [|g t]; constructor; [apply IH|apply IHl].
  - apply Hnot. apply IH.
  - apply Htime.
  - apply Hwd.
  - apply Hday.
  - apply Hmon.
  - apply Hds.
Qed.

(* ------------------------------------------------------------------------------------------- *)
(* what [sem] says, constructor by constructor *)
Lemma sem_any fs x : sem (FAny fs) x <-> exists g, In g fs /\ sem g x.
Proof.
  cbn [sem]. induction fs as [|g t IH]; [split; [tauto|intros (g & [] & _)]|].
  rewrite IH. split.
  - intros [H|(h & Hh & Hs)]; [exists g; split; [left; reflexivity|exact H]|exists h; split; [right; exact Hh|exact Hs]].
  - intros (h & [<-|Hh] & Hs); [left; exact Hs|right; exists h; auto].
Qed.

Lemma sem_all fs x : sem (FAll fs) x <-> forall g, In g fs -> sem g x.
Proof.
  cbn [sem]. induction fs as [|g t IH]; [split; [intros _ g []|tauto]|].
  rewrite IH. split.
  - intros [H Ht] h [<-|Hh]; auto.
  - intros H. split; [apply H; left; reflexivity|intros h Hh; apply H; right; exact Hh].
Qed.

Lemma sem_not f x : sem (FNot f) x <-> ~ sem f x.
Proof. reflexivity. Qed.

Lemma sem_time lo hi x :
  sem (FTime lo hi) x <->
  (forall l, lo = Some l -> l <= local_tod x) /\ (forall h, hi = Some h -> local_tod x < h).
Proof.
  cbn [sem]. destruct lo as [l|], hi as [h|]; split.
  all: try (intros [H1 H2]; split; intros ? E; inversion E; subst; assumption).
  all: try (intros [H1 H2]; split; intros ? E; try discriminate; inversion E; subst; assumption).
  all: intros [H1 H2]; split; auto.
Qed.

Lemma sem_time_both l h x : sem (FTime (Some l) (Some h)) x <-> l <= local_tod x < h.
Proof. cbn [sem]. tauto. Qed.

Lemma sem_weekday s x : sem (FWeekday s) x <-> In (weekday_of_day (local_day x)) s.
Proof. reflexivity. Qed.

Lemma sem_day s x : sem (FDay s) x <-> In (dom_of_day (local_day x)) s.
Proof. reflexivity. Qed.

Lemma sem_month s x : sem (FMonth s) x <-> In (month_of_day (local_day x)) s.
Proof. reflexivity. Qed.

Lemma sem_dateset a neg x :
  sem (FDateSet a neg) x <-> (neg = false /\ In (local_day x) a) \/ (neg = true /\ ~ In (local_day x) a).
Proof.
  cbn [sem]. destruct neg; split.
  - intros H. right. split; [reflexivity|exact H].
  - intros [[E _]|[_ H]]; [discriminate|exact H].
  - intros H. left. split; [reflexivity|exact H].
  - intros [[_ H]|[E _]]; [exact H|discriminate].
Qed.

(* ------------------------------------------------------------------------------------------- *)
Theorem allow_sem : forall f x, allow f x = true <-> sem f x.
Proof.
  intros f x. induction f as [fs IH|fs IH|f IH|lo hi|s|s|s|a n] using filt_ind'.
  - (* any *)
    rewrite sem_any. cbn [allow]. rewrite existsb_exists. rewrite Forall_forall in IH.
    split; intros (g & Hg & H); exists g; (split; [exact Hg|]); apply (IH g Hg); exact H.
  - (* all *)
    rewrite sem_all. cbn [allow]. rewrite forallb_forall. rewrite Forall_forall in IH.
    split; intros H g Hg; apply (IH g Hg); apply H; exact Hg.
  - (* not *)
    cbn [allow sem]. rewrite negb_true_iff. rewrite <- IH.
    destruct (allow f x); split; intros H; congruence.
  - (* time *)
    cbn [allow sem]. cbv zeta.
    destruct lo as [l|], hi as [h|].
    + destruct (local_tod x <? l) eqn:E1; [split; [discriminate|lia]|].
      destruct (h <=? local_tod x) eqn:E2; [split; [discriminate|lia]|]. split; [lia|reflexivity].
    + destruct (local_tod x <? l) eqn:E1; [split; [discriminate|lia]|]. split; [lia|reflexivity].
    + destruct (h <=? local_tod x) eqn:E2; [split; [discriminate|lia]|]. split; [lia|reflexivity].
    + split; [tauto|reflexivity].
  - cbn [allow sem]. apply zmemb_In.
  - cbn [allow sem]. apply zmemb_In.
  - cbn [allow sem]. apply zmemb_In.
  - cbn [allow sem]. destruct n.
    + rewrite negb_true_iff, <- zmemb_In.
      destruct (zmemb (local_day x) a); split; intros H; congruence.
    + apply zmemb_In.
Qed.

Corollary allow_false_sem f x : allow f x = false <-> ~ sem f x.
Proof. rewrite <- allow_sem. destruct (allow f x); split; congruence. Qed.

(* consequences spelled out in the property text *)
Corollary any_nothing_rejects x : allow (FAny []) x = false.
Proof. reflexivity. Qed.

Corollary all_nothing_accepts x : allow (FAll []) x = true.
Proof. reflexivity. Qed.

Corollary allow_any fs x : allow (FAny fs) x = true <-> exists g, In g fs /\ allow g x = true.
Proof. rewrite allow_sem, sem_any. split; intros (g & Hg & H); exists g; split; auto; apply allow_sem; exact H. Qed.

Corollary allow_all fs x : allow (FAll fs) x = true <-> forall g, In g fs -> allow g x = true.
Proof. rewrite allow_sem, sem_all. split; intros H g Hg; apply allow_sem; apply H; exact Hg. Qed.

Corollary allow_not f x : allow (FNot f) x = negb (allow f x).
Proof. reflexivity. Qed.

Corollary allow_time lo hi x :
  allow (FTime lo hi) x = true <->
  (forall l, lo = Some l -> l <= local_tod x) /\ (forall h, hi = Some h -> local_tod x < h).
Proof. rewrite allow_sem. apply sem_time. Qed.

(* the filters depend on the instant only through the local date-time: two instants with the same
   local reading (instant + offset) are treated alike *)
Corollary allow_local_only f i1 o1 i2 o2 :
  to_local_off i1 o1 = to_local_off i2 o2 -> allow f (to_local_off i1 o1) = allow f (to_local_off i2 o2).
Proof. intros ->. reflexivity. Qed.

(* the calendar filters depend on the local DATE only, the time filter on the local TIME only *)
Lemma allow_weekday_same_day s x y : local_day x = local_day y -> allow (FWeekday s) x = allow (FWeekday s) y.
Proof. cbn [allow]. unfold local_weekday. intros ->. reflexivity. Qed.

Lemma allow_time_same_tod lo hi x y : local_tod x = local_tod y -> allow (FTime lo hi) x = allow (FTime lo hi) y.
Proof. cbn [allow]. intros ->. reflexivity. Qed.

(* an empty time window (lower >= upper) accepts nothing: there is no wrap-around over midnight *)
Lemma time_window_empty l h x : h <= l -> allow (FTime (Some l) (Some h)) x = false.
Proof. intros H. apply allow_false_sem. rewrite sem_time_both. lia. Qed.

(* bundles for props/C17.v *)
Theorem filter_algebra :
  (forall fs x, allow (FAny fs) x = true <-> exists g, In g fs /\ allow g x = true) /\
  (forall fs x, allow (FAll fs) x = true <-> forall g, In g fs -> allow g x = true) /\
  (forall f x, allow (FNot f) x = negb (allow f x)) /\
  (forall x, allow (FAny []) x = false) /\
  (forall x, allow (FAll []) x = true).
Proof.
  split; [exact allow_any|split; [exact allow_all|split; [exact allow_not|split;
    [exact any_nothing_rejects|exact all_nothing_accepts]]]].
Qed.

Theorem sem_meaning :
  (forall fs x, sem (FAny fs) x <-> exists g, In g fs /\ sem g x) /\
  (forall fs x, sem (FAll fs) x <-> forall g, In g fs -> sem g x) /\
  (forall f x, sem (FNot f) x <-> ~ sem f x) /\
  (forall lo hi x, sem (FTime lo hi) x <->
     (forall l, lo = Some l -> l <= local_tod x) /\ (forall h, hi = Some h -> local_tod x < h)) /\
  (forall s x, sem (FWeekday s) x <-> In (weekday_of_day (local_day x)) s) /\
  (forall s x, sem (FDay s) x <-> In (dom_of_day (local_day x)) s) /\
  (forall s x, sem (FMonth s) x <-> In (month_of_day (local_day x)) s).
Proof.
  split; [exact sem_any|split; [exact sem_all|split; [exact sem_not|split; [exact sem_time|split;
    [exact sem_weekday|split; [exact sem_day|exact sem_month]]]]]].
Qed.

Example allow_example :
  (* 2024-02-29 (Thursday) 08:30 local *)
  let x := mk_local 19782 (8 * 3600 * NS + 30 * 60 * NS) in
  allow (FAll [FWeekday [4]; FDay [29]; FMonth [2]; FTime (Some (8 * 3600 * NS)) (Some (9 * 3600 * NS));
               FNot (FAny [FWeekday [6; 7]; FTime None (Some (8 * 3600 * NS))])]) x = true.
Proof. vm_compute. reflexivity. Qed.
