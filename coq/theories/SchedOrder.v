(* SchedOrder.v — C09 / C02: inside one operation (one wake-up, one API call) the callables are started in
   non-decreasing order of their announced next-run times, and no job is started twice — also across the nested
   run_jobs calls.  Assumes triggers answer strictly in the future (C04: next_strictly_future). *)
From EAS Require Import Base BaseFacts Sched SchedInv SchedApi.
From EASGen Require Import Generated.
From Coq Require Import Sorted.

Section Order.
Variable E : env.
(* every trigger answers, strictly in the future (C04); a trigger that raises inside execute() is the known
   finding F5 and is excluded here *)
Hypothesis prod_ok : forall j k t, exists v, prod E j k t = Ok v /\ t < v.

(* (job, announced) of the starts logged in operation o, newest first *)
Fixpoint cur_execs (o : nat) (l : list event) : list (nat * Z) :=
  match l with
  | [] => []
  | EExec j _ a o' :: t => if Nat.eqb o' o then (j, a) :: cur_execs o t else cur_execs o t
  | _ :: t => cur_execs o t
  end.
Definition cx (s : st) : list (nat * Z) := cur_execs (opi s) (log s).

Record Ord (s : st) : Prop := {
  o_sorted : StronglySorted (fun x y => snd y <= snd x) (cx s);
  o_past : forall j a, In (j, a) (cx s) -> a <= now s;
  o_queue : forall j a k, In (j, a) (cx s) -> In k (queue s) -> exists t, nxt s k = Some t /\ a <= t;
  o_nodup : NoDup (map fst (cx s));
  o_resched : forall j a, In (j, a) (cx s) -> In j (queue s) -> exists t, nxt s j = Some t /\ now s < t
}.

Definition ord_view (s s' : st) : Prop :=
  cx s' = cx s /\ now s' = now s /\ queue s' = queue s /\ (forall k, nxt s' k = nxt s k).

Lemma Ord_view s s' : ord_view s s' -> Ord s -> Ord s'.
Proof.
  intros (a & b & c & d) [H1 H2 H3 H4 H5]. constructor; rewrite ?a, ?b, ?c; auto.
  - intros j x k Hj Hk. rewrite d. apply (H3 j x k); assumption.
  - intros j x Hj Hk. rewrite d. apply (H5 j x); assumption.
Qed.

Lemma cx_add_nonexec e s :
  (forall j a b o, e <> EExec j a b o) -> cx (add_ev e s) = cx s.
Proof. intros H. unfold cx, add_ev. cbn. destruct e; try reflexivity. exfalso. eapply H; reflexivity. Qed.

Lemma cx_run_cbs mk cbs s : (forall cb j a b o, mk cb <> EExec j a b o) -> cx (run_cbs E mk cbs s) = cx s.
Proof.
  intros Hmk. revert s; induction cbs as [|cb t IH]; intros s; cbn [run_cbs]; [reflexivity|].
  rewrite IH. destruct (fail_cb E cb _).
  - rewrite cx_add_nonexec by (intros; discriminate). apply cx_add_nonexec. intros; apply Hmk.
  - apply cx_add_nonexec. intros; apply Hmk.
Qed.

Lemma cx_set_next_run j nx s : cx (set_next_run E j nx s) = cx s.
Proof. unfold set_next_run. cbv zeta. rewrite cx_run_cbs by (intros; discriminate). reflexivity. Qed.

Lemma cx_finish_job j s : cx (finish_job E j s) = cx s.
Proof.
  unfold finish_job. cbv zeta. rewrite cx_run_cbs by (intros; discriminate).
  destruct (jstored (jobs s j)); reflexivity.
Qed.

Lemma ord_view_timer v s : ord_view s (set_timer_f v s).
Proof. repeat split. Qed.

(* updating a job that is not queued and is either not among this operation's starts or moved to the future *)
Lemma Ord_set_job_out s j b :
  ~ In j (queue s) -> Ord s -> Ord (set_job j b s).
Proof.
  intros Hnq [H1 H2 H3 H4 H5]. constructor; auto.
  - intros i a k Hi Hk. cbn [queue set_job set_jobs] in Hk.
    rewrite nxt_upd_other by (intros ->; tauto). apply (H3 i a k); assumption.
  - intros i a Hi Hk. cbn [queue set_job set_jobs] in Hk.
    rewrite nxt_upd_other by (intros ->; tauto). apply (H5 i a); assumption.
Qed.

Definition ord_set_timer (f : nat) : Prop := forall X s s',
  WFq X s -> Ord s -> set_timer E f s = Some s' -> Ord s'.
Definition ord_run_jobs (f : nat) : Prop := forall X s s',
  WFq X s -> enabled s = true -> Ord s -> run_jobs E f s = Some s' -> Ord s'.
Definition ord_run_loop (f : nat) : Prop := forall X s s',
  WFq X s -> enabled s = true -> Tl s -> Ord s -> run_loop E f s = Some s' -> Ord s'.
(* add_job of a job that is out of the queue: its next run is not before anything started in this operation,
   and if it was itself started in this operation it has been moved to the future *)
Definition add_pre (j : nat) (s : st) : Prop :=
  jstatus (jobs s j) = Running ->
  (forall i a, In (i, a) (cx s) -> exists t, nxt s j = Some t /\ a <= t) /\
  (In j (map fst (cx s)) -> exists t, nxt s j = Some t /\ now s < t).
Definition ord_add_job (f : nat) : Prop := forall X j s s',
  WFq (j :: X) s -> ~ In j (queue s) -> ~ In j X -> Ord s -> add_pre j s -> add_job E f j s = Some s' -> Ord s'.
Definition ord_remove_job (f : nat) : Prop := forall X j s s',
  WFq (j :: X) (set_queue (remove_first j (queue s)) s) -> Ord s -> remove_job E f j s = Some s' ->
  Ord s'.
Definition ord_exec_job (f : nat) : Prop := forall X j t s s',
  WFq (j :: X) s -> ~ In j (queue s) -> jstatus (jobs s j) = Running -> enabled s = true -> Tl s -> Ord s ->
  nxt s j = Some t -> t <= now s -> ~ In j (map fst (cx s)) ->
  (forall i a, In (i, a) (cx s) -> a <= t) ->
  (forall k, In k (queue s) -> exists u, nxt s k = Some u /\ t <= u) ->
  exec_job E f j t s = Some s' ->
  Ord s' /\ add_pre j s'.

Definition ord_specs (f : nat) : Prop :=
  ord_set_timer f /\ ord_run_jobs f /\ ord_run_loop f /\ ord_add_job f /\ ord_remove_job f /\ ord_exec_job f.

Lemma cx_exec_pre j t s : cx (exec_pre E j t s) = (j, t) :: cx s.
Proof.
  unfold exec_pre, cx. destruct (fail_exec E j _); cbn [log add_ev set_log opi cur_execs]; rewrite Nat.eqb_refl; reflexivity.
Qed.

Lemma Ord_subqueue s q :
  (forall k, In k q -> In k (queue s)) -> Ord s -> Ord (set_queue q s).
Proof.
  intros Hsub [H1 H2 H3 H4 H5]. constructor; auto.
  - intros j a k Hj Hk. apply (H3 j a k Hj). apply Hsub. exact Hk.
  - intros j a Hj Hk. apply (H5 j a Hj). apply Hsub. exact Hk.
Qed.

Lemma ord_set_timer_step f : ord_specs f -> ord_set_timer (S f).
Proof.
  intros (_ & IHrj & _) X s s' W O H. rewrite set_timer_S in H. cbv zeta in H.
  remember (set_timer_f None s) as s0 eqn:Es0.
  assert (W0 : WFq X s0) by (subst s0; eapply WFq_view; [apply view_timer|exact W]).
  assert (O0 : Ord s0) by (subst s0; eapply Ord_view; [apply ord_view_timer|exact O]).
  destruct (queue s0) as [|h q] eqn:Eq; [injection H as <-; exact O0|].
  destruct (enabled s0) eqn:En; cbn [negb] in H; [|injection H as <-; exact O0].
  destruct (jnext (jobs s0 h)) as [t|]; [|injection H as <-; eapply Ord_view; [|exact O0]; repeat split].
  destruct (t <=? now s0); [eapply IHrj; eassumption|].
  injection H as <-. eapply Ord_view; [apply ord_view_timer|exact O0].
Qed.

Lemma ord_run_jobs_step f : ord_specs f -> ord_run_jobs (S f).
Proof.
  intros (IHst & _ & IHlp & _) X s s' W En O H. rewrite run_jobs_S in H. cbv zeta in H.
  remember (set_timer_f None s) as s0 eqn:Es0.
  assert (W0 : WFq X s0) by (subst s0; eapply WFq_view; [apply view_timer|exact W]).
  assert (O0 : Ord s0) by (subst s0; eapply Ord_view; [apply ord_view_timer|exact O]).
  assert (T0 : timer s0 = None) by (subst s0; reflexivity).
  assert (En0 : enabled s0 = true) by (subst s0; exact En).
  destruct (run_loop E f s0) as [s1|] eqn:EL; [|discriminate].
  pose proof (IHlp X s0 s1 W0 En0 (or_introl T0) O0 EL) as O1.
  destruct (core_specs_all E f) as (_ & _ & Hlp & _).
  destruct (Hlp X s0 s1 W0 En0 (or_introl T0) EL) as (W1 & _ & _).
  rewrite (wf_nb _ _ W1) in H.
  destruct (queue s1); [injection H as <-; exact O1|eapply IHst; eassumption].
Qed.

Lemma ord_run_loop_step f : ord_specs f -> ord_run_loop (S f).
Proof.
  intros (_ & _ & IHlp & IHadd & _ & IHex) X s s' W En HTl O H. rewrite run_loop_S in H.
  destruct (queue s) as [|h q] eqn:Eq; [injection H as <-; exact O|].
  destruct (wf_head_next _ _ _ _ W Eq) as (t & Ht). rewrite Ht in H.
  destruct (now s <? t) eqn:Elt; [injection H as <-; exact O|]. cbv zeta in H.
  apply Z.ltb_ge in Elt.
  destruct (WFq_pop _ _ _ _ W Eq) as (W1 & Hnq & HnX).
  remember (set_queue q s) as s1 eqn:Es1.
  assert (Hin : In h (queue s)) by (rewrite Eq; left; reflexivity).
  assert (Hr : jstatus (jobs s1 h) = Running) by (subst s1; apply (wf_q _ _ W); exact Hin).
  assert (Tl1 : Tl s1).
  { left. subst s1. cbn [timer set_queue]. destruct HTl as [T|[_ Hh]]; [exact T|].
    unfold HeadNotDue in Hh. rewrite Eq in Hh. destruct Hh as (t' & Ht' & Hlt).
    unfold nxt in Ht'. rewrite Ht in Ht'. injection Ht' as <-. lia. }
  assert (En1 : enabled s1 = true) by (subst s1; exact En).
  assert (Hq1 : ~ In h (queue s1)) by (subst s1; exact Hnq).
  assert (O1 : Ord s1).
  { subst s1. apply Ord_subqueue; [|exact O]. intros k Hk. rewrite Eq. right. exact Hk. }
  assert (Hn1 : nxt s1 h = Some t) by (subst s1; exact Ht).
  assert (Hcx1 : cx s1 = cx s) by (subst s1; reflexivity).
  assert (Hnew : ~ In h (map fst (cx s1))).
  { rewrite Hcx1. intros Hc. apply in_map_iff in Hc. destruct Hc as ((i & a) & Hi & Hia). cbn in Hi. subst i.
    destruct (o_resched _ O h a Hia Hin) as (u & Hu & Hlt). unfold nxt in Hu. rewrite Ht in Hu. injection Hu as <-. lia. }
  assert (Hle : forall i a, In (i, a) (cx s1) -> a <= t).
  { rewrite Hcx1. intros i a Hia. destruct (o_queue _ O i a h Hia Hin) as (u & Hu & Hau).
    unfold nxt in Hu. rewrite Ht in Hu. injection Hu as <-. exact Hau. }
  assert (Hrest : forall k, In k (queue s1) -> exists u, nxt s1 k = Some u /\ t <= u).
  { subst s1. cbn [queue set_queue]. intros k Hk. pose proof (wf_sorted _ _ W) as Hs. rewrite Eq in Hs.
    inversion Hs as [|? ? _ Hall]; subst. rewrite Forall_forall in Hall.
    destruct (Hall k Hk) as (x & y & Hx & Hy & Hxy). unfold nxt in Hx. rewrite Ht in Hx. injection Hx as <-.
    exists y. split; [exact Hy|exact Hxy]. }
  assert (Hnow1 : now s1 = now s) by (subst s1; reflexivity).
  destruct (exec_job E f h t s1) as [s2|] eqn:EX; [|discriminate].
  destruct (IHex X h t s1 s2 W1 Hq1 Hr En1 Tl1 O1 Hn1 ltac:(lia) Hnew Hle Hrest EX) as (O2 & Hadd2).
  destruct (core_specs_all E f) as (_ & _ & Hlp & Hadd & _ & Hex).
  destruct (Hex X h t s1 s2 W1 Hq1 Hr En1 Tl1 EX) as (W2 & Tl2 & F2).
  assert (En2 : enabled s2 = true) by (destruct F2 as (_ & e & _); congruence).
  pose proof (notin_q_of_X _ _ _ W2) as Hq2.
  destruct (status_eqb (jstatus (jobs s2 h)) Running) eqn:Est.
  - destruct (add_job E f h s2) as [s3|] eqn:EA; [|discriminate].
    pose proof (IHadd X h s2 s3 W2 Hq2 HnX O2 Hadd2 EA) as O3.
    destruct (Hadd X h s2 s3 W2 Hq2 HnX EA) as (W3 & F3 & _ & Tl3).
    assert (En3 : enabled s3 = true) by (destruct F3 as (_ & e & _); congruence).
    eapply IHlp; [exact W3|exact En3|exact (Tl3 En2 Tl2)|exact O3|exact H].
  - assert (W3 : WFq X s2).
    { eapply WFq_drop; [exact W2|]. intros Hc. apply status_eqb_eq in Hc. congruence. }
    eapply IHlp; [exact W3|exact En2|exact Tl2|exact O2|exact H].
Qed.

Lemma ord_add_job_step f : ord_specs f -> ord_add_job (S f).
Proof.
  intros (IHst & _) X j s s' W Hnq HnX O Hpre H. rewrite add_job_S in H.
  destruct (status_eqb (jstatus (jobs s j)) Running) eqn:Est; [|injection H as <-; exact O].
  apply status_eqb_eq in Est. cbv zeta in H. destruct (Hpre Est) as (P1 & P2).
  pose proof (WFq_insort _ _ _ W Hnq Est HnX) as W1.
  remember (set_queue (insort s j (queue s)) s) as s1 eqn:Es1.
  assert (O1 : Ord s1).
  { destruct O as [H1 H2 H3 H4 H5]. subst s1. constructor; auto.
    - intros i a k Hi Hk. cbn [queue set_queue] in Hk. apply In_insort in Hk. destruct Hk as [->|Hk].
      + apply (P1 i a Hi).
      + apply (H3 i a k Hi Hk).
    - intros i a Hi Hk. cbn [queue set_queue] in Hk. apply In_insort in Hk. destruct Hk as [->|Hk].
      + apply P2. apply in_map_iff. exists (j, a). split; [reflexivity|exact Hi].
      + apply (H5 i a Hi Hk). }
  destruct (is_head j (insort s j (queue s))); [eapply IHst; eassumption|injection H as <-; exact O1].
Qed.

Lemma ord_remove_job_step f : ord_specs f -> ord_remove_job (S f).
Proof.
  intros (IHst & _) X j s s' W1 O H. rewrite remove_job_S in H.
  destruct (queue s) as [|h t] eqn:Eq.
  - assert (W : WFq (j :: X) s).
    { eapply WFq_view; [|exact W1]. apply fields_view; try reflexivity. cbn [queue set_queue remove_first]. exact Eq. }
    eapply IHst; eassumption.
  - cbv zeta in H.
    assert (O1 : Ord (set_queue (remove_first j (h :: t)) s)).
    { apply Ord_subqueue; [|exact O]. intros k Hk. rewrite Eq. eapply remove_first_In; exact Hk. }
    destruct (remove_first j (h :: t)) as [|h' t'] eqn:Er.
    + eapply IHst; eassumption.
    + destruct (Nat.eqb h j); [eapply IHst; eassumption|injection H as <-; exact O1].
Qed.

Lemma tolerance_nonneg : 0 <= past_tolerance_ns.
Proof. vm_compute. discriminate. Qed.

Lemma ord_exec_job_step f : ord_specs f -> ord_exec_job (S f).
Proof.
  intros (_ & _ & _ & _ & IHrm & _) X j t s s' W Hnq Hrun En HTl O Hn Ht Hnew Hle Hrest H.
  rewrite exec_job_S in H. cbv zeta in H.
  destruct (exec_pre_props E j t s) as ((q1 & q2 & q3 & q4) & p1 & p2 & p3 & p4 & p5).
  pose proof (cx_exec_pre j t s) as Hcx.
  remember (exec_pre E j t s) as s0 eqn:Es0.
  assert (W0 : WFq (j :: X) s0) by (eapply WFq_view; [|exact W]; apply fields_view; assumption).
  assert (Hnq0 : ~ In j (queue s0)) by (rewrite q1; exact Hnq).
  assert (Hnx0 : forall k, nxt s0 k = nxt s k) by (intros k; unfold nxt; rewrite q2; reflexivity).
  assert (O0 : Ord s0).
  { destruct O as [H1 H2 H3 H4 H5]. constructor; rewrite ?Hcx, ?p1, ?q1.
    - constructor; [exact H1|]. apply Forall_forall. intros (i, a) Hia. cbn [snd]. apply (Hle i a Hia).
    - intros i a [Hia|Hia]; [injection Hia as <- <-; exact Ht|apply (H2 i a Hia)].
    - intros i a k [Hia|Hia] Hk; rewrite Hnx0.
      + injection Hia as <- <-. apply Hrest. exact Hk.
      + apply (H3 i a k Hia Hk).
    - cbn [map fst]. constructor; assumption.
    - intros i a [Hia|Hia] Hk; rewrite Hnx0.
      + injection Hia as <- <-. tauto.
      + apply (H5 i a Hia Hk). }
  assert (Hpast0 : forall i a, In (i, a) (cx s0) -> a <= now s0).
  { intros i a Hia. apply (o_past _ O0 i a Hia). }
  clear Es0.
  destruct (jkind (jobs s0 j)).
  - destruct (remove_job E f j s0) as [s1|] eqn:ER; [|discriminate]. injection H as <-.
    assert (Wr : WFq (j :: X) (set_queue (remove_first j (queue s0)) s0)).
    { rewrite remove_first_notin by exact Hnq0. eapply WFq_view; [|exact W0]. apply fields_view; reflexivity. }
    pose proof (IHrm X j s0 s1 Wr O0 ER) as O1.
    destruct (core_specs_all E f) as (_ & _ & _ & _ & Hrm & _).
    destruct (Hrm X j s0 s1 Wr ER) as (W1 & _).
    pose proof (notin_q_of_X _ _ _ W1) as Hnq1.
    destruct (finish_job_props E j s1) as (r1 & r2 & r3 & r4 & r5 & r6 & r7 & r8).
    set (b := with_linked (with_status_next (jobs s1 j) Finished None) false) in *.
    split.
    + eapply Ord_view; [|apply (Ord_set_job_out s1 j b Hnq1 O1)].
      split; [|split; [exact r2|split; [exact r1|]]].
      * rewrite cx_finish_job. reflexivity.
      * intros k. unfold nxt. rewrite r8. reflexivity.
    + intros Hc. rewrite r8 in Hc. unfold upd in Hc. rewrite Nat.eqb_refl in Hc. cbn in Hc. discriminate.
  - injection H as <-.
    destruct (set_next_run_props E j None s0) as (r1 & r2 & r3 & r4 & r5 & r6 & r7 & r8 & r9).
    set (b := with_status_next (jobs s0 j) Paused None) in *.
    split.
    + eapply Ord_view; [|apply (Ord_set_job_out s0 j b Hnq0 O0)].
      split; [|split; [exact r2|split; [exact r1|]]].
      * rewrite cx_set_next_run. reflexivity.
      * intros k. unfold nxt. rewrite r9. reflexivity.
    + intros Hc. rewrite r9 in Hc. unfold upd in Hc. rewrite Nat.eqb_refl in Hc. cbn in Hc. discriminate.
  - remember (add_ev (EProd j) s0) as s1 eqn:Es1.
    destruct (prod_ok j (count_prod j (log s0)) (now s1)) as (v & Hv & Hlt).
    rewrite Hv in H.
    assert (Hold : too_old s1 v = false).
    { unfold too_old. apply Z.ltb_ge. pose proof tolerance_nonneg. lia. }
    rewrite Hold in H. injection H as <-.
    assert (O1 : Ord s1).
    { subst s1. eapply Ord_view; [|exact O0]. split; [apply cx_add_nonexec; intros; discriminate|repeat split]. }
    assert (Hnq1 : ~ In j (queue s1)) by (subst s1; exact Hnq0).
    assert (Hnow1 : now s1 = now s0) by (subst s1; reflexivity).
    destruct (set_next_run_props E j (Some v) s1) as (r1 & r2 & r3 & r4 & r5 & r6 & r7 & r8 & r9).
    set (b := with_status_next (jobs s1 j) Running (Some v)) in *.
    assert (Hcx' : cx (set_next_run E j (Some v) s1) = cx s1).
    { apply cx_set_next_run. }
    split.
    + eapply Ord_view; [|apply (Ord_set_job_out s1 j b Hnq1 O1)].
      split; [rewrite Hcx'; reflexivity|split; [exact r2|split; [exact r1|]]].
      intros k. unfold nxt. rewrite r9. reflexivity.
    + intros _. rewrite Hcx', r2. unfold nxt. rewrite r9. unfold upd. rewrite Nat.eqb_refl. cbn.
      split.
      * intros i a Hia. exists v. split; [reflexivity|]. pose proof (o_past _ O1 i a Hia). lia.
      * intros _. exists v. split; [reflexivity|lia].
Qed.

Theorem ord_specs_all : forall f, ord_specs f.
Proof.
  induction f as [|f IH].
  - repeat split; intros; discriminate.
  - split; [apply ord_set_timer_step; exact IH|].
    split; [apply ord_run_jobs_step; exact IH|].
    split; [apply ord_run_loop_step; exact IH|].
    split; [apply ord_add_job_step; exact IH|].
    split; [apply ord_remove_job_step; exact IH|apply ord_exec_job_step; exact IH].
Qed.

Lemma Ord_fresh s : cx s = [] -> Ord s.
Proof.
  intros H. constructor; rewrite H; try (intros; contradiction); cbn; constructor.
Qed.

(* C09: in the wake-up in which several jobs are due - the loop was blocked, the timer fired late - the
   callables are started in non-decreasing order of their announced next-run times, each job at most once
   ([cx] lists the starts of the operation newest first).  [cx s = []]: nothing was started yet in this
   operation, which is the case at the beginning of every operation because the operation index increases. *)
Theorem wake_order fuel hs s s' :
  Inv s -> cx s = [] -> step_op E fuel hs s OWake = (s', Done) ->
  StronglySorted (fun x y => snd y <= snd x) (cx s') /\ NoDup (map fst (cx s')).
Proof.
  intros I Hc H. cbn [step_op] in H.
  destruct (timer s) as [w|] eqn:Ew; [|injection H as <-; rewrite Hc; split; constructor].
  destruct (w <=? now s); [|injection H as <-; rewrite Hc; split; constructor].
  unfold lift in H. destruct (run_jobs E fuel s) as [s2|] eqn:ER; [|discriminate]. injection H as <-.
  destruct (ord_specs_all fuel) as (_ & Hrj & _).
  pose proof (Hrj [] s s2 (proj1 I) (Inv_enabled_of_timer _ _ I Ew) (Ord_fresh s Hc) ER) as O.
  split; [apply (o_sorted _ O)|apply (o_nodup _ O)].
Qed.

(* the same when a disabled scheduler is re-enabled with several overdue jobs *)
Theorem enable_order fuel hs s s' :
  Inv s -> cx s = [] -> enabled s = false -> step_op E fuel hs s (OEnable true) = (s', Done) ->
  StronglySorted (fun x y => snd y <= snd x) (cx s') /\ NoDup (map fst (cx s')).
Proof.
  intros (W & T) Hc En H. cbn [step_op] in H. rewrite En in H. cbn [Bool.eqb] in H. cbv zeta in H.
  unfold lift in H. destruct (set_timer E fuel (set_enabled_f true s)) as [s2|] eqn:ES; [|discriminate].
  injection H as <-.
  destruct (ord_specs_all fuel) as (Hst & _).
  assert (W1 : WFq [] (set_enabled_f true s)) by (eapply WFq_view; [|exact W]; apply fields_view; reflexivity).
  assert (O1 : Ord (set_enabled_f true s)) by (apply Ord_fresh; exact Hc).
  pose proof (Hst [] _ _ W1 O1 ES) as O.
  split; [apply (o_sorted _ O)|apply (o_nodup _ O)].
Qed.

(* every start of the operation was due: its announced time is not after the instant of the operation *)
Theorem wake_starts_were_due fuel hs s s' j a :
  Inv s -> cx s = [] -> step_op E fuel hs s OWake = (s', Done) -> In (j, a) (cx s') -> a <= now s'.
Proof.
  intros I Hc H Hin. cbn [step_op] in H.
  destruct (timer s) as [w|] eqn:Ew; [|injection H as <-; rewrite Hc in Hin; destruct Hin].
  destruct (w <=? now s); [|injection H as <-; rewrite Hc in Hin; destruct Hin].
  unfold lift in H. destruct (run_jobs E fuel s) as [s2|] eqn:ER; [|discriminate]. injection H as <-.
  destruct (ord_specs_all fuel) as (_ & Hrj & _).
  pose proof (Hrj [] s s2 (proj1 I) (Inv_enabled_of_timer _ _ I Ew) (Ord_fresh s Hc) ER) as O.
  apply (o_past _ O j a Hin).
Qed.

End Order.
