(* SchedProj2.v — C02 / C03: calm states (nothing is due while the scheduler is enabled), their preservation,
   and the API building blocks (job_finish, pause, re-time, arm) seen through [proj k]. *)
From EAS Require Import Base BaseFacts Sched SchedInv SchedApi SchedProj.
From EASGen Require Import Generated.
From Coq Require Import Sorted.

(* no queued job is due, or the scheduler is disabled: the state between two wake-ups of a loop that keeps up *)
Definition Calm (s : st) : Prop := enabled s = true -> NoDue s.

Lemma Calm_ext s s' :
  queue s' = queue s -> (forall i, In i (queue s) -> nxt s' i = nxt s i) -> now s' = now s ->
  enabled s' = enabled s -> Calm s -> Calm s'.
Proof.
  intros Hq Hn Hnow Hen C En i Hi. rewrite Hq in Hi. rewrite Hen in En.
  destruct (C En i Hi) as (t & Ht & Hlt). exists t. rewrite Hn, Hnow by exact Hi. auto.
Qed.

Lemma Calm_sub s s' :
  (forall i, In i (queue s') -> In i (queue s)) -> jobs s' = jobs s -> now s' = now s ->
  enabled s' = enabled s -> Calm s -> Calm s'.
Proof.
  intros Hq Hj Hnow Hen C En i Hi. rewrite Hen in En.
  destruct (C En i (Hq i Hi)) as (t & Ht & Hlt). exists t. unfold nxt in *. rewrite Hj, Hnow. auto.
Qed.

Lemma Calm_set_job_out s j b : ~ In j (queue s) -> Calm s -> Calm (set_job j b s).
Proof.
  intros Hnq. apply Calm_ext; try reflexivity.
  intros i Hi. apply nxt_upd_other. intros ->. contradiction.
Qed.

(* a job that may be queued is not due in a calm state *)
Lemma calm_not_due X s k : WFq X s -> Calm s -> ~ In k X -> due1 (proj k s) = false.
Proof.
  intros W C HnX. unfold due1, proj. cbn [pen pj pnow].
  destruct (enabled s) eqn:En; [|reflexivity].
  destruct (status_eqb (jstatus (jobs s k)) Running) eqn:Est; [|reflexivity].
  apply status_eqb_eq in Est. cbn [andb].
  destruct (wf_r _ _ W k Est) as [Hin|Hin]; [|contradiction].
  destruct (C En k Hin) as (t & Ht & Hlt). unfold nxt in Ht. rewrite Ht. apply Z.leb_gt. exact Hlt.
Qed.

Section CalmCore.
Variable E : env.

Lemma set_timer_calm f X s s' : WFq X s -> set_timer E f s = Some s' -> Calm s'.
Proof.
  intros W H. destruct (core_specs_all E f) as (Hst & _).
  destruct (Hst X s s' W H) as (_ & _ & c & (_ & e & _)). intros En. apply c. congruence.
Qed.

Lemma run_jobs_calm f X s s' : WFq X s -> enabled s = true -> run_jobs E f s = Some s' -> Calm s'.
Proof.
  intros W En H. destruct (core_specs_all E f) as (_ & Hrj & _).
  destruct (Hrj X s s' W En H) as (_ & _ & c & _). intros _. exact c.
Qed.

Lemma add_job_calm f X j s s' :
  WFq (j :: X) s -> ~ In j (queue s) -> ~ In j X -> Calm s -> add_job E f j s = Some s' -> Calm s'.
Proof.
  intros W Hnq HnX C H. destruct f as [|f]; [discriminate|]. rewrite add_job_S in H.
  destruct (status_eqb (jstatus (jobs s j)) Running) eqn:Est; [|injection H as <-; exact C].
  apply status_eqb_eq in Est. cbv zeta in H.
  pose proof (WFq_insort _ _ _ W Hnq Est HnX) as W1.
  destruct (is_head j (insort s j (queue s))) eqn:Eh; [eapply set_timer_calm; eassumption|].
  injection H as <-. intros En i Hi. cbn [enabled set_queue] in En. cbn [queue set_queue] in Hi.
  unfold nxt. cbn [jobs set_queue now].
  destruct (queue s) as [|h t] eqn:Eq.
  { cbn in Eh. rewrite Nat.eqb_refl in Eh. discriminate. }
  destruct (insort_head_same _ _ _ _ Eh) as (t' & Ht').
  apply In_insort in Hi. destruct Hi as [->|Hi]; [|apply (C En); cbv beta;  rewrite Eq; exact Hi].
  (* j sits behind the old head, which is not due *)
  pose proof (wf_sorted _ _ W1) as Hs. cbn [queue set_queue] in Hs. rewrite Ht' in Hs.
  apply StronglySorted_inv in Hs. destruct Hs as (_ & Hall).
  assert (Hjt : In j t').
  { assert (Hj : In j (insort s j (h :: t))) by (apply In_insort; left; reflexivity).
    rewrite Ht' in Hj. destruct Hj as [<-|Hj]; [|exact Hj]. exfalso. apply Hnq. left; reflexivity. }
  rewrite Forall_forall in Hall. destruct (Hall j Hjt) as (x & y & Hx & Hy & Hxy).
  unfold nxt in Hx, Hy. cbn [jobs set_queue] in Hx, Hy.
  destruct (C En h) as (th & Hth & Hlt); [rewrite Eq; left; reflexivity|].
  unfold nxt in Hth. exists y. split; [exact Hy|]. assert (x = th) by congruence. lia.
Qed.

Lemma remove_job_calm f X j s s' :
  WFq (j :: X) (set_queue (remove_first j (queue s)) s) -> Calm (set_queue (remove_first j (queue s)) s) ->
  remove_job E f j s = Some s' -> Calm s'.
Proof.
  intros W1 C H. destruct f as [|f]; [discriminate|]. rewrite remove_job_S in H.
  destruct (queue s) as [|h t] eqn:Eq.
  - eapply set_timer_calm; [|exact H]. eapply WFq_view; [|exact W1]. repeat split.
    cbn [queue set_queue remove_first]. exact Eq.
  - cbv zeta in H. destruct (remove_first j (h :: t)) as [|h' t'] eqn:Er.
    + eapply set_timer_calm; eassumption.
    + destruct (Nat.eqb h j); [eapply set_timer_calm; eassumption|]. injection H as <-. exact C.
Qed.

End CalmCore.

(* ------------------------------------------------------------------------------------------- *)
(* the API building blocks of SchedApi.v, seen through the projections *)
Section ApiPieces.
Variable E : env.

Lemma Calm_removed s j : Calm s -> Calm (set_queue (remove_first j (queue s)) s).
Proof. apply Calm_sub; try reflexivity. intros i Hi. eapply remove_first_In. exact Hi. Qed.

(* job_finish: the job sees its on_finished callbacks; nobody else sees anything but executions while due *)
Lemma job_finish_proj fuel j s s' :
  Inv s -> job_finish E fuel j s = Some s' ->
  proj j s' = fin1 j (proj j s) /\
  (forall k, k <> j -> reach1 E k (proj k s) (proj k s')) /\
  (Calm s -> Calm s').
Proof.
  intros (W & T) H. rewrite job_finish_eq in H.
  destruct (remove_job E fuel j s) as [s1|] eqn:ER; [|discriminate]. injection H as <-.
  destruct (core_specs_all E fuel) as (_ & _ & _ & _ & Hrm & _).
  assert (Wr : WFq [j] (set_queue (remove_first j (queue s)) s)) by (apply WFq_remove; [exact W|intros []]).
  destruct (Hrm [] j s s1 Wr ER) as (W1 & F1 & _ & _).
  pose proof (notin_q_of_X _ _ _ W1) as Hnq.
  split; [|split].
  - destruct (shapes_all E j fuel) as (_ & _ & _ & _ & Srm & _).
    destruct (Srm [] j s s1 Wr ER) as (a & _).
    rewrite proj_finish_job_same, a by (left; reflexivity). reflexivity.
  - intros k Hk. destruct (shapes_all E k fuel) as (_ & _ & _ & _ & Srm & _).
    destruct (Srm [] j s s1 Wr ER) as (_ & b).
    rewrite proj_finish_job_other by exact Hk. exact b.
  - intros C. assert (C1 : Calm s1) by (eapply remove_job_calm; [exact Wr|apply Calm_removed; exact C|exact ER]).
    destruct (finish_job_props E j s1) as (q1 & q2 & q3 & q4 & q5 & q6 & q7 & q8).
    eapply Calm_ext; [exact q1| |exact q2|exact q3|exact C1].
    intros i Hi. unfold nxt. rewrite q8. unfold upd.
    destruct (Nat.eqb_spec i j) as [->|_]; [contradiction|reflexivity].
Qed.

(* remove_job, then set_next_run None (pause / stop) *)
Lemma pause_proj fuel j s s1 :
  Inv s -> remove_job E fuel j s = Some s1 ->
  proj j (set_next_run E j None s1) = snr1 j None (proj j s) /\
  (forall k, k <> j -> reach1 E k (proj k s) (proj k (set_next_run E j None s1))) /\
  (Calm s -> Calm (set_next_run E j None s1)).
Proof.
  intros (W & T) ER.
  destruct (core_specs_all E fuel) as (_ & _ & _ & _ & Hrm & _).
  assert (Wr : WFq [j] (set_queue (remove_first j (queue s)) s)) by (apply WFq_remove; [exact W|intros []]).
  destruct (Hrm [] j s s1 Wr ER) as (W1 & F1 & _ & _).
  pose proof (notin_q_of_X _ _ _ W1) as Hnq.
  split; [|split].
  - destruct (shapes_all E j fuel) as (_ & _ & _ & _ & Srm & _).
    destruct (Srm [] j s s1 Wr ER) as (a & _).
    rewrite proj_set_next_run_same, a by (left; reflexivity). reflexivity.
  - intros k Hk. destruct (shapes_all E k fuel) as (_ & _ & _ & _ & Srm & _).
    destruct (Srm [] j s s1 Wr ER) as (_ & b).
    rewrite proj_set_next_run_other by exact Hk. exact b.
  - intros C. assert (C1 : Calm s1) by (eapply remove_job_calm; [exact Wr|apply Calm_removed; exact C|exact ER]).
    destruct (set_next_run_props E j None s1) as (q1 & q2 & q3 & q4 & q5 & q6 & q7 & q8 & q9).
    eapply Calm_ext; [exact q1| |exact q2|exact q3|exact C1].
    intros i Hi. unfold nxt. rewrite q9. unfold upd.
    destruct (Nat.eqb_spec i j) as [->|_]; [contradiction|reflexivity].
Qed.

(* set_next_run (Some v) on a linked job, then update_job = remove_job; add_job (reset / resume) *)
Lemma retime_proj fuel j v s s' :
  Inv s -> jlinked (jobs s j) = true ->
  update_job E fuel j (set_next_run E j (Some v) s) = Some s' ->
  reach1 E j (snr1 j (Some v) (proj j s)) (proj j s') /\
  (forall k, k <> j -> reach1 E k (proj k s) (proj k s')) /\
  (Calm s -> Calm s').
Proof.
  intros (W & T) Hlk H. unfold update_job in H.
  destruct (set_next_run_props E j (Some v) s) as (q1 & q2 & q3 & q4 & q5 & q6 & q7 & q8 & q9).
  pose proof (proj_set_next_run_same E j (Some v) s) as Pj.
  pose proof (fun k => proj_set_next_run_other E k j (Some v) s) as Pk.
  remember (set_next_run E j (Some v) s) as s2 eqn:Es2.
  destruct (remove_job E fuel j s2) as [s3|] eqn:ER; [|discriminate].
  destruct (core_specs_all E fuel) as (_ & _ & _ & Hadd & Hrm & _).
  set (b := with_status_next (jobs s j) Running (Some v)) in *.
  assert (Wr0 : WFq [j] (set_queue (remove_first j (queue s)) s)) by (apply WFq_remove; [exact W|intros []]).
  assert (Hnq0 : ~ In j (remove_first j (queue s))) by (apply remove_first_NoDup_notin; apply (wf_nodup _ _ W)).
  assert (Wb : WFq [j] (set_job j b (set_queue (remove_first j (queue s)) s))).
  { apply WFq_set_job_out; [exact Wr0|exact Hnq0| |intros _; cbn; apply (wf_rn _ _ W); exact Hlk].
    subst b. split; [|split]; cbn; [split; congruence|intros _; exact Hlk|congruence]. }
  assert (Wr : WFq [j] (set_queue (remove_first j (queue s2)) s2)).
  { eapply WFq_view; [|exact Wb]. apply fields_view; cbn [queue jobs njobs broken set_job set_jobs set_queue]; congruence. }
  destruct (Hrm [] j s2 s3 Wr ER) as (W3 & F3 & _ & _).
  pose proof (notin_q_of_X _ _ _ W3) as Hnq3.
  split; [|split].
  - destruct (shapes_all E j fuel) as (_ & _ & _ & Sadd & Srm & _).
    destruct (Srm [] j s2 s3 Wr ER) as (a & _).
    destruct (Sadd [] j s3 s' W3 Hnq3 (fun x => x) H) as (_ & c).
    rewrite <- Pj, <- a by (left; reflexivity). exact c.
  - intros k Hk. destruct (shapes_all E k fuel) as (_ & _ & _ & Sadd & Srm & _).
    destruct (Srm [] j s2 s3 Wr ER) as (_ & a).
    destruct (Sadd [] j s3 s' W3 Hnq3 (fun x => x) H) as (_ & c).
    rewrite <- (Pk k Hk). eapply reach1_trans; eassumption.
  - intros C.
    assert (C2 : Calm (set_queue (remove_first j (queue s2)) s2)).
    { eapply Calm_ext; [| | | |exact (Calm_removed s j C)]; cbn [queue set_queue now enabled]; try congruence.
      intros i Hi. unfold nxt. cbn [jobs set_queue]. rewrite q9. unfold upd.
      destruct (Nat.eqb_spec i j) as [->|_]; [contradiction|reflexivity]. }
    assert (C3 : Calm s3) by (eapply remove_job_calm; eassumption).
    eapply add_job_calm; [exact W3|exact Hnq3|exact (fun x => x)|exact C3|exact H].
Qed.

(* set_next_run on a linked job that is not queued, then add_job (creation) *)
Lemma arm_proj fuel j nx s s' :
  Inv s -> ~ In j (queue s) -> jlinked (jobs s j) = true ->
  add_job E fuel j (set_next_run E j nx s) = Some s' ->
  reach1 E j (snr1 j nx (proj j s)) (proj j s') /\
  (forall k, k <> j -> reach1 E k (proj k s) (proj k s')) /\
  (Calm s -> Calm s').
Proof.
  intros (W & T) Hnq Hlk H.
  destruct (set_next_run_props E j nx s) as (q1 & q2 & q3 & q4 & q5 & q6 & q7 & q8 & q9).
  pose proof (proj_set_next_run_same E j nx s) as Pj.
  pose proof (fun k => proj_set_next_run_other E k j nx s) as Pk.
  remember (set_next_run E j nx s) as s2 eqn:Es2.
  set (b := with_status_next (jobs s j) (match nx with None => Paused | Some _ => Running end) nx) in *.
  assert (Wb : WFq [j] (set_job j b s)).
  { apply WFq_set_job_out; [apply WFq_weaken; assumption|exact Hnq| |intros _; cbn; apply (wf_rn _ _ W); exact Hlk].
    subst b. destruct nx; (split; [|split]); cbn; try (split; congruence); try congruence; intros _; exact Hlk. }
  assert (W2 : WFq [j] s2).
  { eapply WFq_view; [|exact Wb]. apply fields_view; cbn [queue jobs njobs broken set_job set_jobs]; congruence. }
  assert (Hnq2 : ~ In j (queue s2)) by (rewrite q1; exact Hnq).
  split; [|split].
  - destruct (shapes_all E j fuel) as (_ & _ & _ & Sadd & _).
    destruct (Sadd [] j s2 s' W2 Hnq2 (fun x => x) H) as (_ & c). rewrite <- Pj. exact c.
  - intros k Hk. destruct (shapes_all E k fuel) as (_ & _ & _ & Sadd & _).
    destruct (Sadd [] j s2 s' W2 Hnq2 (fun x => x) H) as (_ & c). rewrite <- (Pk k Hk). exact c.
  - intros C.
    assert (C2 : Calm s2).
    { eapply Calm_ext; [exact q1| |exact q2|exact q3|exact C].
      intros i Hi. unfold nxt. rewrite q9. unfold upd.
      destruct (Nat.eqb_spec i j) as [->|_]; [contradiction|reflexivity]. }
    eapply add_job_calm; [exact W2|exact Hnq2|exact (fun x => x)|exact C2|exact H].
Qed.

End ApiPieces.
