(* GenTrigEq.v — the builder DSL and the `copy` methods as GENERATED from /repo (gen/GenTrig.v, tools/gen_trig.py)
   compute the operations of Builder.v on an object graph they own.

   1. heap lemmas, a weakest-precondition reading [runs] of the monad of GenRtTrig.v;
   2. [rep_filt] / [rep_prod] / [rep_obj]: a heap address REPRESENTS a model value, with its FOOTPRINT (the list of
      all addresses of the object graph below it).  [NoDup] of a footprint = the graph is a tree; footprints inside
      [lo, hi) that do not overlap = no sharing;
   3. constructors: one new cell with the slots of the arguments;
   4. [copy_filt_spec] / [copy_prod_spec]: the generated `copy`, closed by the generated dispatch [tknot], returns an
      object that represents the SAME value, lies entirely in the cells allocated by the call (so it shares nothing
      with anything that existed), is a tree, and every cell that existed is unchanged ([frame]);
   5. [gen_get_producer_spec], one theorem per builder call ([gen_step_spec]);
   6. [gen_run_is_model]: a whole builder program run through the generated code yields objects that represent
      [Builder.run_prog], pairwise disjoint trees; [gen_builder_noninterference], [gen_builder_object_stable],
      [gen_only_on_leaves_receiver]: the theorems of BuilderFacts.v for the generated code. *)
From EAS Require Import Base BaseFacts Civil Time Filters Replace Producers Builder BuilderFacts GenRtTrig.
From EASGen Require Import GenTrig.
From Coq Require Import String.
Open Scope string_scope.
Open Scope list_scope.
Open Scope Z_scope.

Definition len {A} (l : list A) : nat := List.length l.

(* ------------------------------------------------------------------------------------------- *)
(* 1. heaps *)

Lemma upd_length {A} (l : list A) i x : len (upd l i x) = len l.
Proof. revert i; induction l as [|y t IH]; intros [|i]; cbn; try reflexivity. f_equal. apply IH. Qed.

Lemma nth_upd_same {A} (l : list A) i x y : nth_error l i = Some y -> nth_error (upd l i x) i = Some x.
Proof. revert i; induction l as [|z t IH]; intros [|i]; cbn; try discriminate; auto. Qed.

Lemma nth_upd_other {A} (l : list A) i j x : i <> j -> nth_error (upd l i x) j = nth_error l j.
Proof.
  revert i j; induction l as [|z t IH]; intros [|i] [|j] H; cbn; try reflexivity; try congruence.
  apply IH. congruence.
Qed.

Lemma nth_app_last {A} (l : list A) x : nth_error (l ++ [x]) (len l) = Some x.
Proof. unfold len. rewrite nth_error_app2 by lia. rewrite Nat.sub_diag. reflexivity. Qed.

Lemma nth_app_old {A} (l t : list A) a : (a < len l)%nat -> nth_error (l ++ t) a = nth_error l a.
Proof. intros H. apply nth_error_app1. exact H. Qed.

Lemma upd_last {A} (l : list A) x y : upd (l ++ [x]) (len l) y = l ++ [y].
Proof. induction l as [|z t IH]; cbn; [reflexivity|]. f_equal. exact IH. Qed.

Lemma nth_lt {A} (l : list A) a x : nth_error l a = Some x -> (a < len l)%nat.
Proof. intros H. apply nth_error_Some. congruence. Qed.

Lemma get_put_same sl n v : get_slot (put_slot sl n v) n = Some v.
Proof.
  induction sl as [|[m w] t IH]; cbn; [rewrite String.eqb_refl; reflexivity|].
  destruct (String.eqb m n) eqn:E; cbn; [rewrite String.eqb_refl; reflexivity|]. rewrite E. exact IH.
Qed.

Lemma get_put_other sl n m v : n <> m -> get_slot (put_slot sl n v) m = get_slot sl m.
Proof.
  intros H. induction sl as [|[k w] t IH]; cbn.
  - destruct (String.eqb n m) eqn:E; [apply String.eqb_eq in E; congruence|reflexivity].
  - destruct (String.eqb k n) eqn:E; cbn.
    + apply String.eqb_eq in E. subst k. destruct (String.eqb n m) eqn:E2; [apply String.eqb_eq in E2; congruence|reflexivity].
    + destruct (String.eqb k m); [reflexivity|exact IH].
Qed.

(* cells below the old length are unchanged *)
Definition frame (h h' : heap) : Prop :=
  (len h <= len h')%nat /\ forall a, (a < len h)%nat -> nth_error h' a = nth_error h a.
(* ... except the cell b *)
Definition frame_but (b : addr) (h h' : heap) : Prop :=
  (len h <= len h')%nat /\ forall a, (a < len h)%nat -> a <> b -> nth_error h' a = nth_error h a.

Lemma frame_refl h : frame h h.
Proof. split; [lia|reflexivity]. Qed.
Lemma frame_trans h1 h2 h3 : frame h1 h2 -> frame h2 h3 -> frame h1 h3.
Proof. intros [a1 a2] [b1 b2]. split; [lia|]. intros a Ha. rewrite b2 by lia. apply a2. exact Ha. Qed.
Lemma frame_app h t : frame h (h ++ t).
Proof. split; [unfold len; rewrite app_length; lia|]. intros a Ha. apply nth_app_old. exact Ha. Qed.
Lemma frame_upd_new h h' b x : frame h h' -> (len h <= b)%nat -> frame h (upd h' b x).
Proof.
  intros [a1 a2] Hb. split; [rewrite upd_length; exact a1|]. intros a Ha.
  rewrite nth_upd_other by lia. apply a2. exact Ha.
Qed.

(* footprints *)
Definition within (lo hi : nat) (F : list addr) : Prop := Forall (fun x => (lo <= x < hi)%nat) F.

Lemma within_app lo hi A B : within lo hi A -> within lo hi B -> within lo hi (A ++ B).
Proof. intros; apply Forall_app; split; assumption. Qed.
Lemma within_mono lo hi lo' hi' F : within lo hi F -> (lo' <= lo)%nat -> (hi <= hi')%nat -> within lo' hi' F.
Proof. intros H H1 H2. eapply Forall_impl; [|exact H]. cbn. intros; lia. Qed.
Lemma within_nil lo hi : within lo hi [].
Proof. constructor. Qed.
Lemma within_cons lo hi a F : (lo <= a < hi)%nat -> within lo hi F -> within lo hi (a :: F).
Proof. intros; constructor; assumption. Qed.
Lemma within_In lo hi F a : within lo hi F -> In a F -> (lo <= a < hi)%nat.
Proof. intros H Hi. exact (proj1 (Forall_forall _ _) H a Hi). Qed.

Lemma NoDup_app_sep A B lo mid hi :
  NoDup A -> NoDup B -> within lo mid A -> within mid hi B -> NoDup (A ++ B).
Proof.
  intros HA HB WA WB. induction HA as [|x t Hx Ht IH]; cbn; [exact HB|].
  constructor.
  - intros Hin. apply in_app_or in Hin. destruct Hin as [Hin|Hin]; [tauto|].
    pose proof (within_In _ _ _ _ WB Hin). inversion WA; subst. lia.
  - apply IH. inversion WA; assumption.
Qed.

Lemma NoDup_cons_sep a B lo hi : NoDup B -> within lo hi B -> (a < lo \/ hi <= a)%nat -> NoDup (a :: B).
Proof. intros HB WB Ha. constructor; [|exact HB]. intros Hin. pose proof (within_In _ _ _ _ WB Hin). lia. Qed.

(* the weakest-precondition reading of a computation *)
Definition runs {A} (m : TM A) (h : heap) (Q : heap -> tres A -> Prop) : Prop :=
  exists h' r, m h = Some (h', r) /\ Q h' r.

Lemma runs_ret {A} (a : A) h (Q : heap -> tres A -> Prop) : Q h (TRet a) -> runs (ret a) h Q.
Proof. intros H. exists h, (TRet a). split; [reflexivity|exact H]. Qed.
Lemma runs_raise {A} e h (Q : heap -> tres A -> Prop) : Q h (TExc e) -> runs (raise_ e) h Q.
Proof. intros H. exists h, (TExc e). split; [reflexivity|exact H]. Qed.
Lemma runs_bind {A B} (m : TM A) (f : A -> TM B) h Q :
  runs m h (fun h1 r => match r with TRet a => runs (f a) h1 Q | TExc e => Q h1 (TExc e) end) -> runs (bind m f) h Q.
Proof.
  intros (h1 & r & E & H). destruct r as [a|e].
  - destruct H as (h2 & r2 & E2 & H2). exists h2, r2. split; [unfold bind; rewrite E; exact E2|exact H2].
  - exists h1, (TExc e). split; [unfold bind; rewrite E; reflexivity|exact H].
Qed.
Lemma runs_conseq {A} (m : TM A) h (Q Q' : heap -> tres A -> Prop) :
  runs m h Q -> (forall h' r, Q h' r -> Q' h' r) -> runs m h Q'.
Proof. intros (h1 & r & E & H) Hi. exists h1, r. split; [exact E|apply Hi; exact H]. Qed.
Lemma runs_cond_true {A} (a b : TM A) h Q : runs a h Q -> runs (cond (VBool true) a b) h Q.
Proof. intros H; exact H. Qed.
Lemma runs_cond_false {A} (a b : TM A) h Q : runs b h Q -> runs (cond (VBool false) a b) h Q.
Proof. intros H; exact H. Qed.

Definition cell (h : heap) (a : addr) (c : cls) (sl : list (string * val)) : Prop :=
  nth_error h a = Some {| ocls := c; oslots := sl |}.
Definition fld (sl : list (string * val)) (n : string) (v : val) : Prop := get_slot sl n = Some v.

Lemma cell_frame h h' a c sl : frame h h' -> cell h a c sl -> cell h' a c sl.
Proof. intros [_ H] Hc. unfold cell in *. rewrite H; [exact Hc|]. eapply nth_lt; exact Hc. Qed.

Lemma runs_alloc c h (Q : heap -> tres val -> Prop) : Q (h ++ [{| ocls := c; oslots := [] |}]) (TRet (VRef (len h))) -> runs (alloc c) h Q.
Proof. intros H. eexists _, _. split; [reflexivity|exact H]. Qed.
Lemma runs_get_attr h a c sl n v (Q : heap -> tres val -> Prop) : cell h a c sl -> fld sl n v -> Q h (TRet v) -> runs (get_attr (VRef a) n) h Q.
Proof. intros Hc Hf H. exists h, (TRet v). split; [|exact H]. unfold get_attr. rewrite Hc. cbn. rewrite Hf. reflexivity. Qed.
Lemma runs_set_attr h a c sl n v (Q : heap -> tres val -> Prop) :
  cell h a c sl -> Q (upd h a {| ocls := c; oslots := put_slot sl n v |}) (TRet VNone) -> runs (set_attr (VRef a) n v) h Q.
Proof. intros Hc H. eexists _, _. split; [|exact H]. unfold set_attr. rewrite Hc. reflexivity. Qed.
(* the store goes to the cell allocated last *)
Lemma runs_set_attr_last h c sl n v (Q : heap -> tres val -> Prop) :
  Q (h ++ [{| ocls := c; oslots := put_slot sl n v |}]) (TRet VNone) ->
  runs (set_attr (VRef (len h)) n v) (h ++ [{| ocls := c; oslots := sl |}]) Q.
Proof.
  intros H. eapply runs_set_attr; [unfold cell; apply nth_app_last|]. rewrite upd_last. exact H.
Qed.
Lemma runs_isinstance h a c sl sub (Q : heap -> tres val -> Prop) : cell h a c sl -> Q h (TRet (VBool (sub c))) -> runs (isinstance_ sub (VRef a)) h Q.
Proof. intros Hc H. eexists _, _. split; [|exact H]. unfold isinstance_. rewrite Hc. reflexivity. Qed.
Lemma runs_isinstance_none h sub (Q : heap -> tres val -> Prop) : Q h (TRet (VBool false)) -> runs (isinstance_ sub VNone) h Q.
Proof. intros H. eexists _, _. split; [reflexivity|exact H]. Qed.

(* ------------------------------------------------------------------------------------------- *)
(* 2. a heap address represents a model value; its footprint *)

Inductive rep_list {T} (R : addr -> T -> list addr -> Prop) : list addr -> list T -> list addr -> Prop :=
  | RL_nil : rep_list R [] [] []
  | RL_cons a x F l xs Fs : R a x F -> rep_list R l xs Fs -> rep_list R (a :: l) (x :: xs) (F ++ Fs).

Definition v_optz (o : option Z) : val := match o with Some z => VZ z | None => VNone end.

Inductive rep_filt (h : heap) : addr -> filt -> list addr -> Prop :=
  | RF_any a sl l fs Fs : cell h a C_AnyGroupProducerFilter sl -> fld sl "_filters" (VTuple (map VRef l)) ->
      rep_list (rep_filt h) l fs Fs -> rep_filt h a (FAny fs) (a :: Fs)
  | RF_all a sl l fs Fs : cell h a C_AllGroupProducerFilter sl -> fld sl "_filters" (VTuple (map VRef l)) ->
      rep_list (rep_filt h) l fs Fs -> rep_filt h a (FAll fs) (a :: Fs)
  | RF_not a sl b g G : cell h a C_InvertingProducerFilter sl -> fld sl "_filter" (VRef b) ->
      rep_filt h b g G -> rep_filt h a (FNot g) (a :: G)
  | RF_time a sl lo hi : cell h a C_TimeProducerFilter sl -> fld sl "_lower" (v_optz lo) -> fld sl "_upper" (v_optz hi) ->
      rep_filt h a (FTime lo hi) [a]
  | RF_weekday a sl s : cell h a C_DayOfWeekProducerFilter sl -> fld sl "_weekdays" (VTuple (map VZ s)) ->
      rep_filt h a (FWeekday s) [a]
  | RF_day a sl s : cell h a C_DayOfMonthProducerFilter sl -> fld sl "_days" (VTuple (map VZ s)) ->
      rep_filt h a (FDay s) [a]
  | RF_month a sl s : cell h a C_MonthOfYearProducerFilter sl -> fld sl "_months" (VTuple (map VZ s)) ->
      rep_filt h a (FMonth s) [a].

Lemma rep_filt_ind' (h : heap) (P : addr -> filt -> list addr -> Prop)
  (Hany : forall a sl l fs Fs, cell h a C_AnyGroupProducerFilter sl -> fld sl "_filters" (VTuple (map VRef l)) ->
      rep_list (rep_filt h) l fs Fs -> rep_list P l fs Fs -> P a (FAny fs) (a :: Fs))
  (Hall : forall a sl l fs Fs, cell h a C_AllGroupProducerFilter sl -> fld sl "_filters" (VTuple (map VRef l)) ->
      rep_list (rep_filt h) l fs Fs -> rep_list P l fs Fs -> P a (FAll fs) (a :: Fs))
  (Hnot : forall a sl b g G, cell h a C_InvertingProducerFilter sl -> fld sl "_filter" (VRef b) ->
      rep_filt h b g G -> P b g G -> P a (FNot g) (a :: G))
  (Htime : forall a sl lo hi, cell h a C_TimeProducerFilter sl -> fld sl "_lower" (v_optz lo) ->
      fld sl "_upper" (v_optz hi) -> P a (FTime lo hi) [a])
  (Hwd : forall a sl s, cell h a C_DayOfWeekProducerFilter sl -> fld sl "_weekdays" (VTuple (map VZ s)) -> P a (FWeekday s) [a])
  (Hday : forall a sl s, cell h a C_DayOfMonthProducerFilter sl -> fld sl "_days" (VTuple (map VZ s)) -> P a (FDay s) [a])
  (Hmon : forall a sl s, cell h a C_MonthOfYearProducerFilter sl -> fld sl "_months" (VTuple (map VZ s)) -> P a (FMonth s) [a]) :
  forall a f F, rep_filt h a f F -> P a f F.
Proof.
  fix IH 4. intros a f F H. destruct H as [a sl l fs Fs Hc Hf Hl|a sl l fs Fs Hc Hf Hl|a sl b g G Hc Hf Hg|a sl lo hi Hc H1 H2|a sl s Hc Hf|a sl s Hc Hf|a sl s Hc Hf].
  - apply (Hany a sl l fs Fs Hc Hf Hl). clear Hc Hf. revert l fs Fs Hl. fix IHl 4. intros l fs Fs Hl.
    destruct Hl as [|b x G l xs Gs Hb Hl]; constructor; [apply IH; exact Hb|apply IHl; exact Hl].
  - apply (Hall a sl l fs Fs Hc Hf Hl). clear Hc Hf. revert l fs Fs Hl. fix IHl 4. intros l fs Fs Hl.
    destruct Hl as [|b x G l xs Gs Hb Hl]; constructor; [apply IH; exact Hb|apply IHl; exact Hl].
  - apply (Hnot a sl b g G Hc Hf Hg). apply IH. exact Hg.
  - eapply Htime; eassumption.
  - eapply Hwd; eassumption.
  - eapply Hday; eassumption.
  - eapply Hmon; eassumption.
Qed.

Inductive rep_ofilt (h : heap) : val -> option filt -> list addr -> Prop :=
  | RO_none : rep_ofilt h VNone None []
  | RO_some a f F : rep_filt h a f F -> rep_ofilt h (VRef a) (Some f) F.

Definition rep_tr (h : heap) (a : addr) (tr : treplacer) : Prop :=
  exists sl, cell h a C_TimeReplacer sl /\ fld sl "_time" (VZ (tr_tod tr)) /\ fld sl "_skipped" (VSk (tr_sk tr)) /\
             fld sl "_repeated" (VRp (tr_rp tr)).

Inductive rep_prod (h : heap) : addr -> producer -> list addr -> Prop :=
  | RP_time a sl ta tr vf f Ff : cell h a C_TimeProducer sl -> fld sl "_time" (VRef ta) -> rep_tr h ta tr ->
      fld sl "_filter" vf -> rep_ofilt h vf f Ff -> rep_prod h a (PTime tr f) (a :: ta :: Ff)
  | RP_interval a sl nxt iv vf f Ff : cell h a C_IntervalProducer sl -> fld sl "_next" (v_optz nxt) ->
      fld sl "_interval" (VZ iv) -> fld sl "_filter" vf -> rep_ofilt h vf f Ff ->
      rep_prod h a (PInterval 0 nxt iv f) (a :: Ff)
  | RP_group a sl l ps Fs vf f Ff : cell h a C_GroupProducer sl -> fld sl "_producers" (VTuple (map VRef l)) ->
      rep_list (rep_prod h) l ps Fs -> fld sl "_filter" vf -> rep_ofilt h vf f Ff ->
      rep_prod h a (PGroup ps f) (a :: Fs ++ Ff)
  | RP_offset a sl b p Fp off vf f Ff : cell h a C_OffsetProducerOperation sl -> fld sl "_producer" (VRef b) ->
      rep_prod h b p Fp -> fld sl "offset" (VZ off) -> fld sl "_filter" vf -> rep_ofilt h vf f Ff ->
      rep_prod h a (POffset p off f) (a :: Fp ++ Ff)
  | RP_earliest a sl b p Fp ta tr vf f Ff : cell h a C_EarliestProducerOperation sl -> fld sl "_producer" (VRef b) ->
      rep_prod h b p Fp -> fld sl "earliest" (VRef ta) -> rep_tr h ta tr -> fld sl "_filter" vf -> rep_ofilt h vf f Ff ->
      rep_prod h a (PEarliest p tr f) (a :: ta :: Fp ++ Ff)
  | RP_latest a sl b p Fp ta tr vf f Ff : cell h a C_LatestProducerOperation sl -> fld sl "_producer" (VRef b) ->
      rep_prod h b p Fp -> fld sl "latest" (VRef ta) -> rep_tr h ta tr -> fld sl "_filter" vf -> rep_ofilt h vf f Ff ->
      rep_prod h a (PLatest p tr f) (a :: ta :: Fp ++ Ff)
  | RP_jitter a sl b p Fp lo hi vf f Ff : cell h a C_JitterProducerOperation sl -> fld sl "_producer" (VRef b) ->
      rep_prod h b p Fp -> fld sl "low" (VZ lo) -> fld sl "high" (VZ hi) -> lo <? hi = true ->
      fld sl "_filter" vf -> rep_ofilt h vf f Ff ->
      rep_prod h a (PJitter p lo hi f) (a :: Fp ++ Ff).

Lemma rep_prod_ind' (h : heap) (P : addr -> producer -> list addr -> Prop)
  (Htime : forall a sl ta tr vf f Ff, cell h a C_TimeProducer sl -> fld sl "_time" (VRef ta) -> rep_tr h ta tr ->
      fld sl "_filter" vf -> rep_ofilt h vf f Ff -> P a (PTime tr f) (a :: ta :: Ff))
  (Hint : forall a sl nxt iv vf f Ff, cell h a C_IntervalProducer sl -> fld sl "_next" (v_optz nxt) ->
      fld sl "_interval" (VZ iv) -> fld sl "_filter" vf -> rep_ofilt h vf f Ff -> P a (PInterval 0 nxt iv f) (a :: Ff))
  (Hgrp : forall a sl l ps Fs vf f Ff, cell h a C_GroupProducer sl -> fld sl "_producers" (VTuple (map VRef l)) ->
      rep_list (rep_prod h) l ps Fs -> rep_list P l ps Fs -> fld sl "_filter" vf -> rep_ofilt h vf f Ff ->
      P a (PGroup ps f) (a :: Fs ++ Ff))
  (Hoff : forall a sl b p Fp off vf f Ff, cell h a C_OffsetProducerOperation sl -> fld sl "_producer" (VRef b) ->
      rep_prod h b p Fp -> P b p Fp -> fld sl "offset" (VZ off) -> fld sl "_filter" vf -> rep_ofilt h vf f Ff ->
      P a (POffset p off f) (a :: Fp ++ Ff))
  (Hear : forall a sl b p Fp ta tr vf f Ff, cell h a C_EarliestProducerOperation sl -> fld sl "_producer" (VRef b) ->
      rep_prod h b p Fp -> P b p Fp -> fld sl "earliest" (VRef ta) -> rep_tr h ta tr -> fld sl "_filter" vf ->
      rep_ofilt h vf f Ff -> P a (PEarliest p tr f) (a :: ta :: Fp ++ Ff))
  (Hlat : forall a sl b p Fp ta tr vf f Ff, cell h a C_LatestProducerOperation sl -> fld sl "_producer" (VRef b) ->
      rep_prod h b p Fp -> P b p Fp -> fld sl "latest" (VRef ta) -> rep_tr h ta tr -> fld sl "_filter" vf ->
      rep_ofilt h vf f Ff -> P a (PLatest p tr f) (a :: ta :: Fp ++ Ff))
  (Hjit : forall a sl b p Fp lo hi vf f Ff, cell h a C_JitterProducerOperation sl -> fld sl "_producer" (VRef b) ->
      rep_prod h b p Fp -> P b p Fp -> fld sl "low" (VZ lo) -> fld sl "high" (VZ hi) -> lo <? hi = true ->
      fld sl "_filter" vf -> rep_ofilt h vf f Ff -> P a (PJitter p lo hi f) (a :: Fp ++ Ff)) :
  forall a p F, rep_prod h a p F -> P a p F.
Proof.
  fix IH 4. intros a p F H. destruct H.
  - eapply Htime; eassumption.
  - eapply Hint; eassumption.
  - eapply Hgrp; try eassumption. clear H H0 H2 H3. revert l ps Fs H1. fix IHl 4. intros l ps Fs Hl.
    destruct Hl as [|b x G l xs Gs Hb Hl]; constructor; [apply IH; exact Hb|apply IHl; exact Hl].
  - eapply Hoff; try eassumption. apply IH. assumption.
  - eapply Hear; try eassumption. apply IH. assumption.
  - eapply Hlat; try eassumption. apply IH. assumption.
  - eapply Hjit; try eassumption. apply IH. assumption.
Qed.

Inductive rep_obj (h : heap) : val -> obj -> list addr -> Prop :=
  | ROb_trig a sl b p F : cell h a C_TriggerObject sl -> fld sl "_producer" (VRef b) -> rep_prod h b p F ->
      rep_obj h (VRef a) (OTrig p) (a :: F)
  | ROb_filt a sl b f F : cell h a C_FilterObject sl -> fld sl "_filter" (VRef b) -> rep_filt h b f F ->
      rep_obj h (VRef a) (OFilt f) (a :: F)
  | ROb_err : rep_obj h VNone OErr [].

(* a representation only reads its footprint *)
Definition agree (F : list addr) (h h' : heap) : Prop := forall b, In b F -> nth_error h' b = nth_error h b.

Lemma agree_app_l A B h h' : agree (A ++ B) h h' -> agree A h h'.
Proof. intros H b Hb. apply H. apply in_or_app. left; exact Hb. Qed.
Lemma agree_app_r A B h h' : agree (A ++ B) h h' -> agree B h h'.
Proof. intros H b Hb. apply H. apply in_or_app. right; exact Hb. Qed.
Lemma agree_cons a A h h' : agree (a :: A) h h' -> nth_error h' a = nth_error h a /\ agree A h h'.
Proof. intros H. split; [apply H; left; reflexivity|]. intros b Hb. apply H. right; exact Hb. Qed.
Lemma agree_frame F h h' : frame h h' -> within 0 (len h) F -> agree F h h'.
Proof. intros [_ H] W b Hb. apply H. pose proof (within_In _ _ _ _ W Hb). lia. Qed.
Lemma cell_agree h h' a c sl : nth_error h' a = nth_error h a -> cell h a c sl -> cell h' a c sl.
Proof. unfold cell. intros -> H; exact H. Qed.

Lemma rep_list_agree {T} (R : heap -> addr -> T -> list addr -> Prop) h h' l xs Fs :
  rep_list (fun a x F => agree F h h' -> R h' a x F) l xs Fs -> agree Fs h h' -> rep_list (R h') l xs Fs.
Proof.
  induction 1 as [|a x F l xs Fs Ha Hl IH]; intros Hag; constructor.
  - apply Ha. eapply agree_app_l; exact Hag.
  - apply IH. eapply agree_app_r; exact Hag.
Qed.

Lemma rep_filt_agree h h' a f F : rep_filt h a f F -> agree F h h' -> rep_filt h' a f F.
Proof.
  intros H. induction H using rep_filt_ind'; intros Hag; apply agree_cons in Hag; destruct Hag as [Ha Hag].
  - eapply RF_any; [eapply cell_agree; eassumption|eassumption|]. eapply (rep_list_agree rep_filt); eassumption.
  - eapply RF_all; [eapply cell_agree; eassumption|eassumption|]. eapply (rep_list_agree rep_filt); eassumption.
  - eapply RF_not; [eapply cell_agree; eassumption|eassumption|]. apply IHrep_filt. exact Hag.
  - eapply RF_time; [eapply cell_agree; eassumption|eassumption|eassumption].
  - eapply RF_weekday; [eapply cell_agree; eassumption|eassumption].
  - eapply RF_day; [eapply cell_agree; eassumption|eassumption].
  - eapply RF_month; [eapply cell_agree; eassumption|eassumption].
Qed.

Lemma rep_ofilt_agree h h' v o F : rep_ofilt h v o F -> agree F h h' -> rep_ofilt h' v o F.
Proof. intros [|a f G H] Hag; constructor. eapply rep_filt_agree; eassumption. Qed.

Lemma rep_tr_agree h h' a tr : rep_tr h a tr -> nth_error h' a = nth_error h a -> rep_tr h' a tr.
Proof. intros (sl & Hc & H) E. exists sl. split; [eapply cell_agree; eassumption|exact H]. Qed.

Lemma rep_prod_agree h h' a p F : rep_prod h a p F -> agree F h h' -> rep_prod h' a p F.
Proof.
  intros H. induction H using rep_prod_ind'; intros Hag; apply agree_cons in Hag; destruct Hag as [Ha Hag].
  - apply agree_cons in Hag. destruct Hag as [Hta Hag].
    eapply RP_time; [eapply cell_agree; eassumption|eassumption|eapply rep_tr_agree; eassumption|eassumption|].
    eapply rep_ofilt_agree; eassumption.
  - eapply RP_interval; [eapply cell_agree; eassumption|eassumption|eassumption|eassumption|].
    eapply rep_ofilt_agree; eassumption.
  - eapply RP_group; [eapply cell_agree; eassumption|eassumption| |eassumption|].
    + eapply (rep_list_agree rep_prod); [eassumption|]. eapply agree_app_l; exact Hag.
    + eapply rep_ofilt_agree; [eassumption|]. eapply agree_app_r; exact Hag.
  - eapply RP_offset; [eapply cell_agree; eassumption|eassumption| |eassumption|eassumption|].
    + apply IHrep_prod. eapply agree_app_l; exact Hag.
    + eapply rep_ofilt_agree; [eassumption|]. eapply agree_app_r; exact Hag.
  - apply agree_cons in Hag. destruct Hag as [Hta Hag].
    eapply RP_earliest; [eapply cell_agree; eassumption|eassumption| |eassumption|eapply rep_tr_agree; eassumption|eassumption|].
    + apply IHrep_prod. eapply agree_app_l; exact Hag.
    + eapply rep_ofilt_agree; [eassumption|]. eapply agree_app_r; exact Hag.
  - apply agree_cons in Hag. destruct Hag as [Hta Hag].
    eapply RP_latest; [eapply cell_agree; eassumption|eassumption| |eassumption|eapply rep_tr_agree; eassumption|eassumption|].
    + apply IHrep_prod. eapply agree_app_l; exact Hag.
    + eapply rep_ofilt_agree; [eassumption|]. eapply agree_app_r; exact Hag.
  - eapply RP_jitter; [eapply cell_agree; eassumption|eassumption| |eassumption|eassumption|eassumption|eassumption|].
    + apply IHrep_prod. eapply agree_app_l; exact Hag.
    + eapply rep_ofilt_agree; [eassumption|]. eapply agree_app_r; exact Hag.
Qed.

Lemma rep_obj_agree h h' v o F : rep_obj h v o F -> agree F h h' -> rep_obj h' v o F.
Proof.
  intros [a sl b p G Hc Hf Hp|a sl b f G Hc Hf Hp|] Hag; [| |constructor]; apply agree_cons in Hag; destruct Hag as [Ha Hag].
  - eapply ROb_trig; [eapply cell_agree; eassumption|eassumption|eapply rep_prod_agree; eassumption].
  - eapply ROb_filt; [eapply cell_agree; eassumption|eassumption|eapply rep_filt_agree; eassumption].
Qed.

(* footprints lie inside the heap *)
Lemma cell_lt h a c sl : cell h a c sl -> (0 <= a < len h)%nat.
Proof. intros H. apply nth_lt in H. lia. Qed.

Lemma rep_list_within {T} n l (xs : list T) Fs :
  rep_list (fun a x F => within 0 n F) l xs Fs -> within 0 n Fs.
Proof. induction 1; [constructor|apply within_app; assumption]. Qed.

Lemma rep_filt_within h a f F : rep_filt h a f F -> within 0 (len h) F.
Proof.
  intros H. induction H using rep_filt_ind'; apply within_cons; try (eapply cell_lt; eassumption); try apply within_nil.
  - eapply rep_list_within; eassumption.
  - eapply rep_list_within; eassumption.
  - assumption.
Qed.

Lemma rep_ofilt_within h v o F : rep_ofilt h v o F -> within 0 (len h) F.
Proof. intros [|a f G H]; [constructor|eapply rep_filt_within; eassumption]. Qed.

Lemma rep_tr_lt h a tr : rep_tr h a tr -> (0 <= a < len h)%nat.
Proof. intros (sl & Hc & _). eapply cell_lt; eassumption. Qed.

Lemma rep_prod_within h a p F : rep_prod h a p F -> within 0 (len h) F.
Proof.
  intros H. induction H using rep_prod_ind'; apply within_cons; try (eapply cell_lt; eassumption);
    try (apply within_cons; [eapply rep_tr_lt; eassumption|]); try apply within_app;
    try (eapply rep_ofilt_within; eassumption); try assumption.
  eapply rep_list_within; eassumption.
Qed.

Lemma rep_obj_within h v o F : rep_obj h v o F -> within 0 (len h) F.
Proof.
  intros [a sl b p G Hc Hf Hp|a sl b f G Hc Hf Hp|]; [| |constructor]; apply within_cons;
    try (eapply cell_lt; eassumption); [eapply rep_prod_within|eapply rep_filt_within]; eassumption.
Qed.

(* so they survive every extension of the heap that leaves the old cells alone *)
Lemma rep_filt_frame h h' a f F : rep_filt h a f F -> frame h h' -> rep_filt h' a f F.
Proof. intros H Hf. eapply rep_filt_agree; [exact H|]. apply agree_frame; [exact Hf|eapply rep_filt_within; exact H]. Qed.
Lemma rep_ofilt_frame h h' v o F : rep_ofilt h v o F -> frame h h' -> rep_ofilt h' v o F.
Proof. intros H Hf. eapply rep_ofilt_agree; [exact H|]. apply agree_frame; [exact Hf|eapply rep_ofilt_within; exact H]. Qed.
Lemma rep_prod_frame h h' a p F : rep_prod h a p F -> frame h h' -> rep_prod h' a p F.
Proof. intros H Hf. eapply rep_prod_agree; [exact H|]. apply agree_frame; [exact Hf|eapply rep_prod_within; exact H]. Qed.
Lemma rep_obj_frame h h' v o F : rep_obj h v o F -> frame h h' -> rep_obj h' v o F.
Proof. intros H Hf. eapply rep_obj_agree; [exact H|]. apply agree_frame; [exact Hf|eapply rep_obj_within; exact H]. Qed.
Lemma rep_tr_frame h h' a tr : rep_tr h a tr -> frame h h' -> rep_tr h' a tr.
Proof. intros H [_ Hf]. eapply rep_tr_agree; [exact H|]. apply Hf. apply rep_tr_lt in H. lia. Qed.

(* ------------------------------------------------------------------------------------------- *)
(* 3. constructors: one new cell *)

Ltac wp1 := first
  [ apply runs_bind | apply runs_ret | apply runs_raise | apply runs_alloc | apply runs_set_attr_last
  | apply runs_cond_true | apply runs_cond_false ].
Ltac wp := repeat wp1.

Definition mk (c : cls) (sl : list (string * val)) : hobj := {| ocls := c; oslots := sl |}.
Notation post := (heap -> tres val -> Prop).

Lemma new_TimeReplacer R t sk rp h (Q : post) :
  (forall sl, fld sl "_time" t -> fld sl "_skipped" (VSk sk) -> fld sl "_repeated" (VRp rp) ->
     Q (h ++ [mk C_TimeReplacer sl]) (TRet (VRef (len h)))) ->
  runs (g_TimeReplacer__new R t (VSk sk) (VRp rp)) h Q.
Proof. intros H. unfold g_TimeReplacer__new, g_TimeReplacer__init. wp. apply H; reflexivity. Qed.

Lemma new_TimeProducer R t h (Q : post) :
  (forall sl, fld sl "_time" t -> fld sl "_filter" VNone -> Q (h ++ [mk C_TimeProducer sl]) (TRet (VRef (len h)))) ->
  runs (g_TimeProducer__new R t) h Q.
Proof. intros H. unfold g_TimeProducer__new, g_TimeProducer__init, g_DateTimeProducerBase__init. wp. apply H; reflexivity. Qed.

Lemma new_IntervalProducer R s iv h (Q : post) :
  (forall sl, fld sl "_next" s -> fld sl "_interval" iv -> fld sl "_filter" VNone ->
     Q (h ++ [mk C_IntervalProducer sl]) (TRet (VRef (len h)))) ->
  runs (g_IntervalProducer__new R s iv) h Q.
Proof. intros H. unfold g_IntervalProducer__new, g_IntervalProducer__init, g_DateTimeProducerBase__init. wp. apply H; reflexivity. Qed.

Lemma new_GroupProducer R l h (Q : post) :
  (forall sl, fld sl "_producers" (VTuple l) -> fld sl "_filter" VNone ->
     Q (h ++ [mk C_GroupProducer sl]) (TRet (VRef (len h)))) ->
  runs (g_GroupProducer__new R (VTuple l)) h Q.
Proof. intros H. unfold g_GroupProducer__new, g_GroupProducer__init, g_DateTimeProducerBase__init. wp. apply H; reflexivity. Qed.

Lemma new_Offset R p off h (Q : post) :
  (forall sl, fld sl "_producer" p -> fld sl "offset" off -> fld sl "_filter" VNone ->
     Q (h ++ [mk C_OffsetProducerOperation sl]) (TRet (VRef (len h)))) ->
  runs (g_OffsetProducerOperation__new R p off) h Q.
Proof.
  intros H. unfold g_OffsetProducerOperation__new, g_OffsetProducerOperation__init,
    g_OffsetProducerOperation__init__in_DateTimeProducerOperationBase, g_DateTimeProducerBase__init.
  wp. apply H; reflexivity.
Qed.

Lemma new_Earliest R p t h (Q : post) :
  (forall sl, fld sl "_producer" p -> fld sl "earliest" t -> fld sl "_filter" VNone ->
     Q (h ++ [mk C_EarliestProducerOperation sl]) (TRet (VRef (len h)))) ->
  runs (g_EarliestProducerOperation__new R p t) h Q.
Proof.
  intros H. unfold g_EarliestProducerOperation__new, g_EarliestProducerOperation__init,
    g_EarliestProducerOperation__init__in_DateTimeProducerOperationBase, g_DateTimeProducerBase__init.
  wp. apply H; reflexivity.
Qed.

Lemma new_Latest R p t h (Q : post) :
  (forall sl, fld sl "_producer" p -> fld sl "latest" t -> fld sl "_filter" VNone ->
     Q (h ++ [mk C_LatestProducerOperation sl]) (TRet (VRef (len h)))) ->
  runs (g_LatestProducerOperation__new R p t) h Q.
Proof.
  intros H. unfold g_LatestProducerOperation__new, g_LatestProducerOperation__init,
    g_LatestProducerOperation__init__in_DateTimeProducerOperationBase, g_DateTimeProducerBase__init.
  wp. apply H; reflexivity.
Qed.

(* JitterProducerOperation(p, low, high): ValueError unless low < high; the new cell is garbage then *)
Lemma new_Jitter R p lo hi h (Q : post) :
  (lo <? hi = true -> forall sl, fld sl "_producer" p -> fld sl "low" (VZ lo) -> fld sl "high" (VZ hi) -> fld sl "_filter" VNone ->
     Q (h ++ [mk C_JitterProducerOperation sl]) (TRet (VRef (len h)))) ->
  (lo <? hi = false -> forall o, Q (h ++ [o]) (TExc EValueError)) ->
  runs (g_JitterProducerOperation__new R p (VZ lo) (VZ hi)) h Q.
Proof.
  intros H1 H2. unfold g_JitterProducerOperation__new, g_JitterProducerOperation__init,
    g_JitterProducerOperation__init__in_DateTimeProducerOperationBase, g_DateTimeProducerBase__init.
  do 8 wp1. unfold v_le, v_cmp.
  destruct (lo <? hi) eqn:E.
  - assert (E2 : hi <=? lo = false) by lia. rewrite E2. wp. apply H1; reflexivity.
  - assert (E2 : hi <=? lo = true) by lia. rewrite E2. wp. apply H2; reflexivity.
Qed.

(* jitter(low) without an upper bound: 0 .. low *)
Lemma new_Jitter_none R p lo h (Q : post) :
  (0 <? lo = true -> forall sl, fld sl "_producer" p -> fld sl "low" (VZ 0) -> fld sl "high" (VZ lo) -> fld sl "_filter" VNone ->
     Q (h ++ [mk C_JitterProducerOperation sl]) (TRet (VRef (len h)))) ->
  (0 <? lo = false -> forall o, Q (h ++ [o]) (TExc EValueError)) ->
  runs (g_JitterProducerOperation__new R p (VZ lo) VNone) h Q.
Proof.
  intros H1 H2. unfold g_JitterProducerOperation__new, g_JitterProducerOperation__init,
    g_JitterProducerOperation__init__in_DateTimeProducerOperationBase, g_DateTimeProducerBase__init.
  do 8 wp1. unfold v_le, v_cmp.
  destruct (0 <? lo) eqn:E.
  - assert (E2 : lo <=? 0 = false) by lia. rewrite E2. wp. apply H1; reflexivity.
  - assert (E2 : lo <=? 0 = true) by lia. rewrite E2. wp. apply H2; reflexivity.
Qed.

Lemma new_Any R l h (Q : post) :
  (forall sl, fld sl "_filters" (VTuple l) -> Q (h ++ [mk C_AnyGroupProducerFilter sl]) (TRet (VRef (len h)))) ->
  runs (g_AnyGroupProducerFilter__new R (VTuple l)) h Q.
Proof. intros H. unfold g_AnyGroupProducerFilter__new, g_ProducerFilterGroupBase__init. wp. apply H; reflexivity. Qed.

Lemma new_All R l h (Q : post) :
  (forall sl, fld sl "_filters" (VTuple l) -> Q (h ++ [mk C_AllGroupProducerFilter sl]) (TRet (VRef (len h)))) ->
  runs (g_AllGroupProducerFilter__new R (VTuple l)) h Q.
Proof. intros H. unfold g_AllGroupProducerFilter__new, g_ProducerFilterGroupBase__init. wp. apply H; reflexivity. Qed.

Lemma new_Inverting R f h (Q : post) :
  (forall sl, fld sl "_filter" f -> Q (h ++ [mk C_InvertingProducerFilter sl]) (TRet (VRef (len h)))) ->
  runs (g_InvertingProducerFilter__new R f) h Q.
Proof. intros H. unfold g_InvertingProducerFilter__new, g_InvertingProducerFilter__init. wp. apply H; reflexivity. Qed.

Lemma new_TimeFilter R lo hi h (Q : post) :
  (forall sl, fld sl "_lower" lo -> fld sl "_upper" hi -> Q (h ++ [mk C_TimeProducerFilter sl]) (TRet (VRef (len h)))) ->
  runs (g_TimeProducerFilter__new R lo hi) h Q.
Proof. intros H. unfold g_TimeProducerFilter__new, g_TimeProducerFilter__init. wp. apply H; reflexivity. Qed.

Lemma new_DayOfWeek R l h (Q : post) :
  (forall sl, fld sl "_weekdays" (VTuple l) -> Q (h ++ [mk C_DayOfWeekProducerFilter sl]) (TRet (VRef (len h)))) ->
  runs (g_DayOfWeekProducerFilter__new R (VTuple l)) h Q.
Proof. intros H. unfold g_DayOfWeekProducerFilter__new, g_DayOfWeekProducerFilter__init. wp. apply H; reflexivity. Qed.

Lemma new_DayOfMonth R l h (Q : post) :
  (forall sl, fld sl "_days" (VTuple l) -> Q (h ++ [mk C_DayOfMonthProducerFilter sl]) (TRet (VRef (len h)))) ->
  runs (g_DayOfMonthProducerFilter__new R (VTuple l)) h Q.
Proof. intros H. unfold g_DayOfMonthProducerFilter__new, g_DayOfMonthProducerFilter__init. wp. apply H; reflexivity. Qed.

Lemma new_MonthOfYear R l h (Q : post) :
  (forall sl, fld sl "_months" (VTuple l) -> Q (h ++ [mk C_MonthOfYearProducerFilter sl]) (TRet (VRef (len h)))) ->
  runs (g_MonthOfYearProducerFilter__new R (VTuple l)) h Q.
Proof. intros H. unfold g_MonthOfYearProducerFilter__new, g_MonthOfYearProducerFilter__init. wp. apply H; reflexivity. Qed.

Lemma new_TriggerObject R p h (Q : post) :
  (forall sl, fld sl "_producer" p -> Q (h ++ [mk C_TriggerObject sl]) (TRet (VRef (len h)))) ->
  runs (g_TriggerObject__new R p) h Q.
Proof. intros H. unfold g_TriggerObject__new, g_TriggerObject__init. wp. apply H; reflexivity. Qed.

Lemma new_FilterObject R f h (Q : post) :
  (forall sl, fld sl "_filter" f -> Q (h ++ [mk C_FilterObject sl]) (TRet (VRef (len h)))) ->
  runs (g_FilterObject__new R f) h Q.
Proof. intros H. unfold g_FilterObject__new, g_FilterObject__init. wp. apply H; reflexivity. Qed.

(* the new cell: facts used after every constructor *)
Lemma cell_new h c sl : cell (h ++ [mk c sl]) (len h) c sl.
Proof. unfold cell. apply nth_app_last. Qed.
Lemma len_snoc {A} (h : list A) x : len (h ++ [x]) = S (len h).
Proof. unfold len. rewrite app_length. cbn. lia. Qed.

(* ------------------------------------------------------------------------------------------- *)
(* 4. copy *)

(* the generated methods closed by the generated dispatch, one unit of fuel per dynamic call *)
Fixpoint tknot (n : nat) : trec :=
  match n with
  | O => {| r_call := fun _ _ _ => stuck |}
  | S k => {| r_call := g_dispatch (tknot k) |}
  end.

Lemma runs_ext {A} (m m' : TM A) h (Q : heap -> tres A -> Prop) : m h = m' h -> runs m' h Q -> runs m h Q.
Proof. unfold runs. intros ->. auto. Qed.

(* x.copy() on a cell of known class *)
Ltac dispatch Hc g :=
  apply (runs_ext _ g); [cbn [tknot r_call]; unfold g_dispatch, bind, class_of_; rewrite Hc; reflexivity|].
Ltac ga Hc Hf := apply runs_bind; eapply runs_get_attr; [exact Hc|exact Hf|].

(* what a copying call promises: an object that represents x, made of cells allocated by the call only, a tree;
   all cells that existed are unchanged *)
Definition fresh_post {T} (rep : heap -> addr -> T -> list addr -> Prop) (h : heap) (x : T) : post :=
  fun h' r => exists a' F', r = TRet (VRef a') /\ frame h h' /\ rep h' a' x F' /\ within (len h) (len h') F' /\ NoDup F'.

Definition stable {T} (rep : heap -> addr -> T -> list addr -> Prop) : Prop :=
  forall h h' a x F, rep h a x F -> frame h h' -> rep h' a x F.

Lemma rep_list_frame {T} (rep : heap -> addr -> T -> list addr -> Prop) h h' l xs Fs :
  stable rep -> rep_list (rep h) l xs Fs -> frame h h' -> rep_list (rep h') l xs Fs.
Proof. intros Hs Hl Hf. induction Hl; constructor; [eapply Hs; eassumption|assumption]. Qed.

Lemma frame_len h h' : frame h h' -> (len h <= len h')%nat.
Proof. intros [H _]; exact H. Qed.

Lemma runs_map_fresh {T} (rep : heap -> addr -> T -> list addr -> Prop) (body : val -> TM val) :
  stable rep ->
  forall l xs Fs h, rep_list (rep h) l xs Fs ->
  (forall a x F h1, In x xs -> rep h1 a x F -> runs (body (VRef a)) h1 (fresh_post rep h1 x)) ->
  runs (map_m body (VTuple (map VRef l))) h (fun h' r => exists l' Fs', r = TRet (VTuple (map VRef l')) /\ frame h h' /\
     rep_list (rep h') l' xs Fs' /\ within (len h) (len h') Fs' /\ NoDup Fs').
Proof.
  intros Hs l xs Fs h Hl Hb. unfold map_m. apply runs_bind.
  assert (H : runs (map_list body (map VRef l)) h (fun h' r => exists l' Fs', r = TRet (map VRef l') /\ frame h h' /\
     rep_list (rep h') l' xs Fs' /\ within (len h) (len h') Fs' /\ NoDup Fs')).
  { revert xs Fs h Hl Hb. induction l as [|a l IH]; intros xs Fs h Hl Hb; inversion Hl; subst; cbn [map map_list].
    - apply runs_ret. exists [], []. repeat split; [apply frame_refl|constructor|constructor|constructor].
    - apply runs_bind. eapply runs_conseq; [apply (Hb a x F h); [left; reflexivity|assumption]|].
      intros h1 r (a' & F' & -> & Hf1 & Hr1 & Hw1 & Hn1). apply runs_bind.
      eapply runs_conseq; [apply (IH xs0 Fs0 h1)|].
      + eapply rep_list_frame; eassumption.
      + intros b y G h2 Hy. apply Hb. right; exact Hy.
      + intros h2 r (l' & Fs' & -> & Hf2 & Hr2 & Hw2 & Hn2). apply runs_ret.
        exists (a' :: l'), (F' ++ Fs'). pose proof (frame_len _ _ Hf1). pose proof (frame_len _ _ Hf2).
        split; [reflexivity|]. split; [eapply frame_trans; eassumption|]. split; [|split].
        * constructor; [eapply Hs; eassumption|exact Hr2].
        * apply within_app; eapply within_mono; try eassumption; lia.
        * eapply NoDup_app_sep; eassumption. }
  eapply runs_conseq; [exact H|]. intros h' r (l' & Fs' & -> & Hrest). apply runs_ret. exists l', Fs'. split; [reflexivity|exact Hrest].
Qed.

Fixpoint fdepth (f : filt) : nat :=
  match f with
  | FAny fs | FAll fs => S (fold_right (fun g acc => Nat.max (fdepth g) acc) 0%nat fs)
  | FNot g => S (fdepth g)
  | _ => 1%nat
  end.

Lemma fdepth_In g fs : In g fs -> (fdepth g <= fold_right (fun g acc => Nat.max (fdepth g) acc) 0%nat fs)%nat.
Proof. induction fs as [|x t IH]; cbn [In fold_right]; [tauto|]. intros [<-|H]; [lia|]. specialize (IH H). lia. Qed.

Lemma stable_filt : stable rep_filt.
Proof. intros h h' a x F H Hf. eapply rep_filt_frame; eassumption. Qed.

Lemma fresh_one (h : heap) x a : a = len h -> within (len h) (len (h ++ [x])) [a] /\ NoDup [a].
Proof. intros ->. rewrite len_snoc. split; [apply within_cons; [lia|apply within_nil]|constructor; [intros []|constructor]]. Qed.

(* THE COPY of a filter *)
Theorem copy_filt_spec : forall n f, (fdepth f <= n)%nat -> forall h a F, rep_filt h a f F ->
  runs (r_call (tknot n) "copy" (VRef a) []) h (fresh_post rep_filt h f).
Proof.
  induction n as [|k IH]; intros f Hd h a F Hr; [destruct f; cbn [fdepth] in Hd; lia|].
  inversion Hr as [a0 sl l fs Fs Hc Hf Hl|a0 sl l fs Fs Hc Hf Hl|a0 sl b g G Hc Hf Hg|a0 sl lo hi Hc H1 H2|a0 sl s Hc Hf|a0 sl s Hc Hf|a0 sl s Hc Hf];
    subst; cbn [fdepth] in Hd.
  - dispatch Hc (g_AnyGroupProducerFilter__copy (tknot k) (VRef a)). unfold g_AnyGroupProducerFilter__copy.
    ga Hc Hf. apply runs_bind. eapply runs_conseq; [apply (runs_map_fresh rep_filt _ stable_filt _ _ _ _ Hl)|].
    + intros b x G h1 Hx Hb. apply runs_bind. eapply runs_conseq; [eapply (IH x); [pose proof (fdepth_In _ _ Hx); lia|exact Hb]|].
      intros h2 r (a' & F' & -> & Hrest). apply runs_ret. exists a', F'. split; [reflexivity|exact Hrest].
    + intros h1 r (l' & Fs' & -> & Hf1 & Hr1 & Hw1 & Hn1). apply runs_bind. apply new_Any. intros sl' Hs'. apply runs_ret.
      pose proof (frame_len _ _ Hf1). exists (len h1), (len h1 :: Fs'). split; [reflexivity|]. split; [|split; [|split]].
      * eapply frame_trans; [exact Hf1|apply frame_app].
      * eapply RF_any; [apply cell_new|exact Hs'|]. eapply rep_list_frame; [exact stable_filt|exact Hr1|apply frame_app].
      * rewrite len_snoc. apply within_cons; [lia|]. eapply within_mono; [exact Hw1|lia|lia].
      * eapply NoDup_cons_sep; [exact Hn1|exact Hw1|lia].
  - dispatch Hc (g_AllGroupProducerFilter__copy (tknot k) (VRef a)). unfold g_AllGroupProducerFilter__copy.
    ga Hc Hf. apply runs_bind. eapply runs_conseq; [apply (runs_map_fresh rep_filt _ stable_filt _ _ _ _ Hl)|].
    + intros b x G h1 Hx Hb. apply runs_bind. eapply runs_conseq; [eapply (IH x); [pose proof (fdepth_In _ _ Hx); lia|exact Hb]|].
      intros h2 r (a' & F' & -> & Hrest). apply runs_ret. exists a', F'. split; [reflexivity|exact Hrest].
    + intros h1 r (l' & Fs' & -> & Hf1 & Hr1 & Hw1 & Hn1). apply runs_bind. apply new_All. intros sl' Hs'. apply runs_ret.
      pose proof (frame_len _ _ Hf1). exists (len h1), (len h1 :: Fs'). split; [reflexivity|]. split; [|split; [|split]].
      * eapply frame_trans; [exact Hf1|apply frame_app].
      * eapply RF_all; [apply cell_new|exact Hs'|]. eapply rep_list_frame; [exact stable_filt|exact Hr1|apply frame_app].
      * rewrite len_snoc. apply within_cons; [lia|]. eapply within_mono; [exact Hw1|lia|lia].
      * eapply NoDup_cons_sep; [exact Hn1|exact Hw1|lia].
  - dispatch Hc (g_InvertingProducerFilter__copy (tknot k) (VRef a)). unfold g_InvertingProducerFilter__copy.
    ga Hc Hf. apply runs_bind. eapply runs_conseq; [eapply (IH g); [lia|exact Hg]|].
    intros h1 r (a' & F' & -> & Hf1 & Hr1 & Hw1 & Hn1). apply runs_bind. apply new_Inverting. intros sl' Hs'. apply runs_ret.
    pose proof (frame_len _ _ Hf1). exists (len h1), (len h1 :: F'). split; [reflexivity|]. split; [|split; [|split]].
    + eapply frame_trans; [exact Hf1|apply frame_app].
    + eapply RF_not; [apply cell_new|exact Hs'|]. eapply rep_filt_frame; [exact Hr1|apply frame_app].
    + rewrite len_snoc. apply within_cons; [lia|]. eapply within_mono; [exact Hw1|lia|lia].
    + eapply NoDup_cons_sep; [exact Hn1|exact Hw1|lia].
  - dispatch Hc (g_TimeProducerFilter__copy (tknot k) (VRef a)). unfold g_TimeProducerFilter__copy.
    ga Hc H1. ga Hc H2. apply runs_bind. apply new_TimeFilter. intros sl' Ha Hb. apply runs_ret.
    exists (len h), [len h]. split; [reflexivity|]. split; [apply frame_app|]. split; [|apply fresh_one; reflexivity].
    eapply RF_time; [apply cell_new|exact Ha|exact Hb].
  - dispatch Hc (g_DayOfWeekProducerFilter__copy (tknot k) (VRef a)). unfold g_DayOfWeekProducerFilter__copy.
    ga Hc Hf. apply runs_bind. apply new_DayOfWeek. intros sl' Ha. apply runs_ret.
    exists (len h), [len h]. split; [reflexivity|]. split; [apply frame_app|]. split; [|apply fresh_one; reflexivity].
    eapply RF_weekday; [apply cell_new|exact Ha].
  - dispatch Hc (g_DayOfMonthProducerFilter__copy (tknot k) (VRef a)). unfold g_DayOfMonthProducerFilter__copy.
    ga Hc Hf. apply runs_bind. apply new_DayOfMonth. intros sl' Ha. apply runs_ret.
    exists (len h), [len h]. split; [reflexivity|]. split; [apply frame_app|]. split; [|apply fresh_one; reflexivity].
    eapply RF_day; [apply cell_new|exact Ha].
  - dispatch Hc (g_MonthOfYearProducerFilter__copy (tknot k) (VRef a)). unfold g_MonthOfYearProducerFilter__copy.
    ga Hc Hf. apply runs_bind. apply new_MonthOfYear. intros sl' Ha. apply runs_ret.
    exists (len h), [len h]. split; [reflexivity|]. split; [apply frame_app|]. split; [|apply fresh_one; reflexivity].
    eapply RF_month; [apply cell_new|exact Ha].
Qed.

(* ---- producers ---- *)

Lemma agree_but b h h' G : frame_but b h h' -> within 0 (len h) G -> ~ In b G -> agree G h h'.
Proof.
  intros [_ H] W Hn x Hx. apply H; [pose proof (within_In _ _ _ _ W Hx); lia|]. intros ->. tauto.
Qed.

Lemma cell_inj h a c sl c' sl' : cell h a c sl -> cell h a c' sl' -> c = c' /\ sl = sl'.
Proof. unfold cell. intros H1 H2. rewrite H1 in H2. injection H2 as -> ->. split; reflexivity. Qed.

Lemma fld_put_same sl n v : fld (put_slot sl n v) n v.
Proof. apply get_put_same. Qed.
Lemma fld_put_other sl n m v w : n <> m -> fld sl m w -> fld (put_slot sl n v) m w.
Proof. intros H Hf. unfold fld. rewrite get_put_other by exact H. exact Hf. Qed.

(* the top cell of a producer *)
Lemma rep_prod_top h b p F : rep_prod h b p F ->
  exists c sl vf Ff rest, cell h b c sl /\ sub_DateTimeProducerBase c = true /\ fld sl "_filter" vf /\
    rep_ofilt h vf (top_filter p) Ff /\ F = b :: rest.
Proof.
  intros H. inversion H; subst; cbn [top_filter]; do 5 eexists; (split; [eassumption|]); (split; [reflexivity|]);
    (split; [eassumption|]); (split; [eassumption|reflexivity]).
Qed.

Lemma rep_ofilt_None h vf F : rep_ofilt h vf None F -> vf = VNone /\ F = [].
Proof. intros H. inversion H; subst. split; reflexivity. Qed.

(* storing a filter into the top cell of a tree-shaped producer that has none *)
Lemma rep_prod_set_filter h h' b p F c sl vf' o Ff' :
  rep_prod h b p F -> top_filter p = None -> NoDup F -> cell h b c sl ->
  frame_but b h h' -> cell h' b c (put_slot sl "_filter" vf') -> rep_ofilt h' vf' o Ff' ->
  rep_prod h' b (set_top_filter p o) (F ++ Ff').
Proof.
  intros Hr Ht Hn Hc Hfb Hc' Ho. pose proof (rep_prod_within _ _ _ _ Hr) as Hw.
  inversion Hr; subst; cbn [top_filter] in Ht; subst f;
    match goal with H : rep_ofilt h _ None _ |- _ => apply rep_ofilt_None in H; destruct H as [-> ->] end;
    match goal with H : cell h b _ _ |- _ => destruct (cell_inj _ _ _ _ _ _ Hc H) as [-> ->] end;
    cbn [set_top_filter app]; rewrite ?app_nil_r; rewrite ?app_nil_r in Hn, Hw;
    inversion Hn as [|? ? Hnb Hn']; subst; inversion Hw as [|? ? _ Hw']; subst.
  - eapply RP_time; [exact Hc'|apply fld_put_other; [discriminate|eassumption]| |apply fld_put_same|exact Ho].
    eapply rep_tr_agree; [eassumption|]. destruct Hfb as [_ Hfb]. apply Hfb.
    + match goal with H : rep_tr h _ _ |- _ => apply rep_tr_lt in H; lia end.
    + intros ->. apply Hnb. left; reflexivity.
  - eapply RP_interval; [exact Hc'|apply fld_put_other; [discriminate|eassumption]|apply fld_put_other; [discriminate|eassumption]
                         |apply fld_put_same|exact Ho].
  - eapply RP_group; [exact Hc'|apply fld_put_other; [discriminate|eassumption]| |apply fld_put_same|exact Ho].
    match goal with H : rep_list (rep_prod h) _ _ _ |- _ => revert H end. intros Hl.
    assert (Hag : agree Fs h h') by (eapply agree_but; eassumption).
    clear - Hl Hag. induction Hl; constructor.
    + eapply rep_prod_agree; [eassumption|eapply agree_app_l; exact Hag].
    + apply IHHl. eapply agree_app_r; exact Hag.
  - eapply RP_offset; [exact Hc'|apply fld_put_other; [discriminate|eassumption]|
                       |apply fld_put_other; [discriminate|eassumption]|apply fld_put_same|exact Ho].
    eapply rep_prod_agree; [eassumption|eapply agree_but; eassumption].
  - inversion Hn' as [|? ? Hnt Hn'']; subst. inversion Hw' as [|? ? _ Hw'']; subst.
    eapply RP_earliest; [exact Hc'|apply fld_put_other; [discriminate|eassumption]|
                        |apply fld_put_other; [discriminate|eassumption]| |apply fld_put_same|exact Ho].
    + eapply rep_prod_agree; [eassumption|eapply agree_but; [eassumption|eassumption|]]. intros Hi. apply Hnb. right; exact Hi.
    + eapply rep_tr_agree; [eassumption|]. destruct Hfb as [_ Hfb]. apply Hfb.
      * match goal with H : rep_tr h _ _ |- _ => apply rep_tr_lt in H; lia end.
      * intros ->. apply Hnb. left; reflexivity.
  - inversion Hn' as [|? ? Hnt Hn'']; subst. inversion Hw' as [|? ? _ Hw'']; subst.
    eapply RP_latest; [exact Hc'|apply fld_put_other; [discriminate|eassumption]|
                        |apply fld_put_other; [discriminate|eassumption]| |apply fld_put_same|exact Ho].
    + eapply rep_prod_agree; [eassumption|eapply agree_but; [eassumption|eassumption|]]. intros Hi. apply Hnb. right; exact Hi.
    + eapply rep_tr_agree; [eassumption|]. destruct Hfb as [_ Hfb]. apply Hfb.
      * match goal with H : rep_tr h _ _ |- _ => apply rep_tr_lt in H; lia end.
      * intros ->. apply Hnb. left; reflexivity.
  - eapply RP_jitter; [exact Hc'|apply fld_put_other; [discriminate|eassumption]|
                       |apply fld_put_other; [discriminate|eassumption]|apply fld_put_other; [discriminate|eassumption]
                       |eassumption|apply fld_put_same|exact Ho].
    eapply rep_prod_agree; [eassumption|eapply agree_but; eassumption].
Qed.

(* TimeReplacer.copy: one new cell with the same three fields *)
Lemma copy_tr_spec k h a tr (Q : post) : rep_tr h a tr ->
  (forall o, rep_tr (h ++ [o]) (len h) tr -> Q (h ++ [o]) (TRet (VRef (len h)))) ->
  runs (r_call (tknot (S k)) "copy" (VRef a) []) h Q.
Proof.
  intros (sl & Hc & H1 & H2 & H3) HQ. dispatch Hc (g_TimeReplacer__copy (tknot k) (VRef a)). unfold g_TimeReplacer__copy.
  ga Hc H1. ga Hc H2. ga Hc H3. apply runs_bind. apply new_TimeReplacer. intros sl' A1 A2 A3. apply runs_ret.
  apply HQ. exists sl'. split; [apply cell_new|]. split; [exact A1|]. split; [exact A2|exact A3].
Qed.

Definition ofdepth (o : option filt) : nat := match o with Some f => fdepth f | None => 0%nat end.

(* DateTimeProducerBase._copy_filter(self, obj): the filter of self is copied and stored into obj *)
Lemma copy_filter_spec k h a c sl vf o Ff b cb slb :
  cell h a c sl -> fld sl "_filter" vf -> rep_ofilt h vf o Ff -> (ofdepth o <= k)%nat -> cell h b cb slb ->
  runs (g_DateTimeProducerBase___copy_filter (tknot k) (VRef a) (VRef b)) h (fun h' r =>
    exists vf' Ff', r = TRet (VRef b) /\ frame_but b h h' /\ cell h' b cb (put_slot slb "_filter" vf') /\
      rep_ofilt h' vf' o Ff' /\ within (len h) (len h') Ff' /\ NoDup Ff').
Proof.
  intros Hc Hf Ho Hd Hb. unfold g_DateTimeProducerBase___copy_filter. ga Hc Hf.
  destruct Ho as [|fa f G Hg]; cbn [v_is_none v_not negb].
  - wp. eapply runs_set_attr; [exact Hb|]. wp. exists VNone, []. split; [reflexivity|].
    split; [|split; [|split; [constructor|split; [apply within_nil|constructor]]]].
    + split; [rewrite upd_length; lia|]. intros x Hx Hne. apply nth_upd_other. congruence.
    + unfold cell. eapply nth_upd_same. exact Hb.
  - apply runs_bind. apply runs_cond_true. ga Hc Hf. apply runs_bind.
    eapply runs_conseq; [eapply (copy_filt_spec k f); [exact Hd|exact Hg]|].
    intros h1 r (a' & F' & -> & Hf1 & Hr1 & Hw1 & Hn1). wp.
    eapply runs_set_attr; [eapply cell_frame; [exact Hf1|exact Hb]|]. wp.
    pose proof (frame_len _ _ Hf1) as Hl. pose proof (cell_lt _ _ _ _ Hb) as Hbl.
    exists (VRef a'), F'. split; [reflexivity|].
    assert (Hfb : frame_but b h1 (upd h1 b (mk cb (put_slot slb "_filter" (VRef a'))))).
    { split; [rewrite upd_length; lia|]. intros x Hx Hne. apply nth_upd_other. congruence. }
    split; [|split; [|split; [|split]]].
    + destruct Hf1 as [_ Hf1]. split; [rewrite upd_length; lia|]. intros x Hx Hne.
      rewrite nth_upd_other by congruence. apply Hf1. exact Hx.
    + unfold cell. eapply nth_upd_same. eapply cell_frame; [exact Hf1|exact Hb].
    + constructor. eapply rep_filt_agree; [exact Hr1|]. eapply agree_but; [exact Hfb| |].
      * eapply within_mono; [exact Hw1|lia|lia].
      * intros Hi. pose proof (within_In _ _ _ _ Hw1 Hi). lia.
    + rewrite upd_length. exact Hw1.
    + exact Hn1.
Qed.

(* the second half of every producer copy: the node n1 was just built (no filter yet) in h2 *)
Lemma finish_copy k h h2 n1 q F0 a c sl vf o Ff :
  frame h h2 -> rep_prod h2 n1 q F0 -> top_filter q = None -> within (len h) (len h2) F0 -> NoDup F0 ->
  cell h2 a c sl -> fld sl "_filter" vf -> rep_ofilt h2 vf o Ff -> (ofdepth o <= k)%nat ->
  runs (g_DateTimeProducerBase___copy_filter (tknot k) (VRef a) (VRef n1)) h2 (fresh_post rep_prod h (set_top_filter q o)).
Proof.
  intros Hf2 Hq Ht Hw0 Hn0 Hc Hf Ho Hd.
  destruct (rep_prod_top _ _ _ _ Hq) as (cb & slb & vq & Fq & rest & Hcb & _ & _ & _ & HF0).
  eapply runs_conseq; [eapply copy_filter_spec; eassumption|].
  intros h3 r (vf' & Ff' & -> & Hfb & Hc3 & Ho3 & Hw3 & Hn3).
  pose proof (frame_len _ _ Hf2). pose proof (proj1 Hfb).
  assert (Hn1 : (len h <= n1)%nat).
  { subst F0. inversion Hw0; subst. lia. }
  exists n1, (F0 ++ Ff'). split; [reflexivity|]. split; [|split; [|split]].
  - destruct Hf2 as [_ Hf2]. destruct Hfb as [_ Hfb]. split; [lia|]. intros x Hx. rewrite Hfb by lia. apply Hf2. exact Hx.
  - eapply rep_prod_set_filter; eassumption.
  - apply within_app; eapply within_mono; try eassumption; lia.
  - eapply NoDup_app_sep; eassumption.
Qed.

Fixpoint pdepth (p : producer) : nat :=
  match p with
  | PTime _ f => S (Nat.max 1 (ofdepth f))
  | PInterval _ _ _ f => S (ofdepth f)
  | PGroup ps f => S (Nat.max (fold_right (fun q acc => Nat.max (pdepth q) acc) 0%nat ps) (ofdepth f))
  | POffset q _ f | PJitter q _ _ f => S (Nat.max (pdepth q) (ofdepth f))
  | PEarliest q _ f | PLatest q _ f => S (Nat.max (Nat.max (pdepth q) 1) (ofdepth f))
  | PSun _ _ => 1%nat
  end.

Lemma pdepth_In q ps : In q ps -> (pdepth q <= fold_right (fun q acc => Nat.max (pdepth q) acc) 0%nat ps)%nat.
Proof. induction ps as [|x t IH]; cbn [In fold_right]; [tauto|]. intros [<-|H]; [lia|]. specialize (IH H). lia. Qed.

Lemma stable_prod : stable rep_prod.
Proof. intros h h' a x F H Hf. eapply rep_prod_frame; eassumption. Qed.

Lemma runs_bind_ret (m : TM val) h (Q : post) : runs m h Q -> runs (bind m (fun t => ret t)) h Q.
Proof. intros H. apply runs_bind. eapply runs_conseq; [exact H|]. intros h' [v|e] HQ; [apply runs_ret|]; exact HQ. Qed.

Lemma NoDup_two (a b : addr) : a <> b -> NoDup [a; b].
Proof. intros H. constructor; [intros [E|[]]; congruence|constructor; [intros []|constructor]]. Qed.

(* THE COPY of a producer *)
Theorem copy_prod_spec : forall n p, (pdepth p <= n)%nat -> forall h a F, rep_prod h a p F ->
  runs (r_call (tknot n) "copy" (VRef a) []) h (fresh_post rep_prod h p).
Proof.
  induction n as [|k IH]; intros p Hd h a F Hr; [destruct p; cbn [pdepth] in Hd; lia|].
  inversion Hr; subst; cbn [pdepth] in Hd;
    match goal with Hc : cell h a _ _ |- _ => rename Hc into Hcell end.
  - (* TimeProducer *)
    destruct k as [|k']; [lia|].
    dispatch Hcell (g_TimeProducer__copy (tknot (S k')) (VRef a)). unfold g_TimeProducer__copy.
    match goal with H : fld sl "_time" _ |- _ => ga Hcell H end.
    apply runs_bind. eapply copy_tr_spec; [eassumption|]. intros o Htr'.
    apply runs_bind. apply new_TimeProducer. intros sl' A1 A2. cbn zeta. apply runs_bind_ret.
    pose proof (len_snoc h o) as L1. pose proof (len_snoc (h ++ [o]) (mk C_TimeProducer sl')) as L2.
    eapply (finish_copy (S k') h _ _ (PTime tr None) [len (h ++ [o]); len h]).
    + eapply frame_trans; apply frame_app.
    + eapply RP_time; [apply cell_new|exact A1|eapply rep_tr_frame; [exact Htr'|apply frame_app]|exact A2|constructor].
    + reflexivity.
    + apply within_cons; [lia|apply within_cons; [lia|apply within_nil]].
    + apply NoDup_two. lia.
    + eapply cell_frame; [eapply frame_trans; apply frame_app|exact Hcell].
    + eassumption.
    + eapply rep_ofilt_frame; [eassumption|eapply frame_trans; apply frame_app].
    + lia.
  - (* IntervalProducer *)
    dispatch Hcell (g_IntervalProducer__copy (tknot k) (VRef a)). unfold g_IntervalProducer__copy.
    match goal with H : fld sl "_next" _ |- _ => ga Hcell H end.
    match goal with H : fld sl "_interval" _ |- _ => ga Hcell H end.
    apply runs_bind. apply new_IntervalProducer. intros sl' A1 A2 A3. cbn zeta. apply runs_bind_ret.
    pose proof (len_snoc h (mk C_IntervalProducer sl')) as L1.
    eapply (finish_copy k h _ _ (PInterval 0 nxt iv None) [len h]).
    + apply frame_app.
    + eapply RP_interval; [apply cell_new|exact A1|exact A2|exact A3|constructor].
    + reflexivity.
    + apply within_cons; [lia|apply within_nil].
    + constructor; [intros []|constructor].
    + eapply cell_frame; [apply frame_app|exact Hcell].
    + eassumption.
    + eapply rep_ofilt_frame; [eassumption|apply frame_app].
    + lia.
  - (* GroupProducer *)
    dispatch Hcell (g_GroupProducer__copy (tknot k) (VRef a)). unfold g_GroupProducer__copy.
    match goal with H : fld sl "_producers" _ |- _ => ga Hcell H end.
    apply runs_bind.
    match goal with Hl : rep_list (rep_prod h) _ _ _ |- _ =>
      eapply runs_conseq; [apply (runs_map_fresh rep_prod _ stable_prod _ _ _ _ Hl)|] end.
    + intros b x G h1 Hx Hb. apply runs_bind_ret. eapply (IH x); [pose proof (pdepth_In _ _ Hx); lia|exact Hb].
    + intros h1 r (l' & Fs' & -> & Hf1 & Hr1 & Hw1 & Hn1). apply runs_bind. apply new_GroupProducer. intros sl' A1 A2.
      cbn zeta. apply runs_bind_ret. pose proof (frame_len _ _ Hf1).
      pose proof (len_snoc h1 (mk C_GroupProducer sl')) as L1.
      eapply (finish_copy k h _ _ (PGroup ps None) (len h1 :: Fs' ++ [])).
      * eapply frame_trans; [exact Hf1|apply frame_app].
      * eapply RP_group; [apply cell_new|exact A1| |exact A2|constructor].
        eapply rep_list_frame; [exact stable_prod|exact Hr1|apply frame_app].
      * reflexivity.
      * rewrite app_nil_r. apply within_cons; [lia|]. eapply within_mono; [exact Hw1|lia|lia].
      * rewrite app_nil_r. eapply NoDup_cons_sep; [exact Hn1|exact Hw1|lia].
      * eapply cell_frame; [eapply frame_trans; [exact Hf1|apply frame_app]|exact Hcell].
      * eassumption.
      * eapply rep_ofilt_frame; [eassumption|eapply frame_trans; [exact Hf1|apply frame_app]].
      * lia.
  - (* OffsetProducerOperation *)
    dispatch Hcell (g_OffsetProducerOperation__copy (tknot k) (VRef a)). unfold g_OffsetProducerOperation__copy.
    match goal with H : fld sl "_producer" _ |- _ => ga Hcell H end.
    apply runs_bind. eapply runs_conseq; [eapply (IH p0); [lia|eassumption]|].
    intros h1 r (b' & Fp' & -> & Hf1 & Hr1 & Hw1 & Hn1). pose proof (frame_len _ _ Hf1).
    match goal with H : fld sl "offset" _ |- _ => apply runs_bind; eapply runs_get_attr; [eapply cell_frame; [exact Hf1|exact Hcell]|exact H|] end.
    apply runs_bind. apply new_Offset. intros sl' A1 A2 A3. cbn zeta. apply runs_bind_ret.
    pose proof (len_snoc h1 (mk C_OffsetProducerOperation sl')) as L1.
    eapply (finish_copy k h _ _ (POffset p0 off None) (len h1 :: Fp' ++ [])).
    + eapply frame_trans; [exact Hf1|apply frame_app].
    + eapply RP_offset; [apply cell_new|exact A1|eapply rep_prod_frame; [exact Hr1|apply frame_app]|exact A2|exact A3|constructor].
    + reflexivity.
    + rewrite app_nil_r. apply within_cons; [lia|]. eapply within_mono; [exact Hw1|lia|lia].
    + rewrite app_nil_r. eapply NoDup_cons_sep; [exact Hn1|exact Hw1|lia].
    + eapply cell_frame; [eapply frame_trans; [exact Hf1|apply frame_app]|exact Hcell].
    + eassumption.
    + eapply rep_ofilt_frame; [eassumption|eapply frame_trans; [exact Hf1|apply frame_app]].
    + lia.
  - (* EarliestProducerOperation *)
    destruct k as [|k']; [lia|].
    dispatch Hcell (g_EarliestProducerOperation__copy (tknot (S k')) (VRef a)). unfold g_EarliestProducerOperation__copy.
    match goal with H : fld sl "_producer" _ |- _ => ga Hcell H end.
    apply runs_bind. eapply runs_conseq; [eapply (IH p0); [lia|eassumption]|].
    intros h1 r (b' & Fp' & -> & Hf1 & Hr1 & Hw1 & Hn1). pose proof (frame_len _ _ Hf1).
    match goal with H : fld sl "earliest" _ |- _ => apply runs_bind; eapply runs_get_attr; [eapply cell_frame; [exact Hf1|exact Hcell]|exact H|] end.
    apply runs_bind. eapply copy_tr_spec; [eapply rep_tr_frame; [eassumption|exact Hf1]|]. intros o Htr'.
    apply runs_bind. apply new_Earliest. intros sl' A1 A2 A3. cbn zeta. apply runs_bind_ret.
    pose proof (len_snoc h1 o) as L1. pose proof (len_snoc (h1 ++ [o]) (mk C_EarliestProducerOperation sl')) as L2.
    assert (Hfa : frame h1 ((h1 ++ [o]) ++ [mk C_EarliestProducerOperation sl'])) by (eapply frame_trans; apply frame_app).
    eapply (finish_copy (S k') h _ _ (PEarliest p0 tr None) (len (h1 ++ [o]) :: len h1 :: Fp' ++ [])).
    + eapply frame_trans; [exact Hf1|exact Hfa].
    + eapply RP_earliest; [apply cell_new|exact A1|eapply rep_prod_frame; [exact Hr1|exact Hfa]|exact A2
                           |eapply rep_tr_frame; [exact Htr'|apply frame_app]|exact A3|constructor].
    + reflexivity.
    + rewrite app_nil_r. apply within_cons; [lia|]. apply within_cons; [lia|]. eapply within_mono; [exact Hw1|lia|lia].
    + rewrite app_nil_r. eapply (NoDup_cons_sep _ _ (len h) (S (len h1))); [|apply within_cons; [lia|eapply within_mono; [exact Hw1|lia|lia]]|lia].
      eapply NoDup_cons_sep; [exact Hn1|exact Hw1|lia].
    + eapply cell_frame; [eapply frame_trans; [exact Hf1|exact Hfa]|exact Hcell].
    + eassumption.
    + eapply rep_ofilt_frame; [eassumption|eapply frame_trans; [exact Hf1|exact Hfa]].
    + lia.
  - (* LatestProducerOperation *)
    destruct k as [|k']; [lia|].
    dispatch Hcell (g_LatestProducerOperation__copy (tknot (S k')) (VRef a)). unfold g_LatestProducerOperation__copy.
    match goal with H : fld sl "_producer" _ |- _ => ga Hcell H end.
    apply runs_bind. eapply runs_conseq; [eapply (IH p0); [lia|eassumption]|].
    intros h1 r (b' & Fp' & -> & Hf1 & Hr1 & Hw1 & Hn1). pose proof (frame_len _ _ Hf1).
    match goal with H : fld sl "latest" _ |- _ => apply runs_bind; eapply runs_get_attr; [eapply cell_frame; [exact Hf1|exact Hcell]|exact H|] end.
    apply runs_bind. eapply copy_tr_spec; [eapply rep_tr_frame; [eassumption|exact Hf1]|]. intros o Htr'.
    apply runs_bind. apply new_Latest. intros sl' A1 A2 A3. cbn zeta. apply runs_bind_ret.
    pose proof (len_snoc h1 o) as L1. pose proof (len_snoc (h1 ++ [o]) (mk C_LatestProducerOperation sl')) as L2.
    assert (Hfa : frame h1 ((h1 ++ [o]) ++ [mk C_LatestProducerOperation sl'])) by (eapply frame_trans; apply frame_app).
    eapply (finish_copy (S k') h _ _ (PLatest p0 tr None) (len (h1 ++ [o]) :: len h1 :: Fp' ++ [])).
    + eapply frame_trans; [exact Hf1|exact Hfa].
    + eapply RP_latest; [apply cell_new|exact A1|eapply rep_prod_frame; [exact Hr1|exact Hfa]|exact A2
                           |eapply rep_tr_frame; [exact Htr'|apply frame_app]|exact A3|constructor].
    + reflexivity.
    + rewrite app_nil_r. apply within_cons; [lia|]. apply within_cons; [lia|]. eapply within_mono; [exact Hw1|lia|lia].
    + rewrite app_nil_r. eapply (NoDup_cons_sep _ _ (len h) (S (len h1))); [|apply within_cons; [lia|eapply within_mono; [exact Hw1|lia|lia]]|lia].
      eapply NoDup_cons_sep; [exact Hn1|exact Hw1|lia].
    + eapply cell_frame; [eapply frame_trans; [exact Hf1|exact Hfa]|exact Hcell].
    + eassumption.
    + eapply rep_ofilt_frame; [eassumption|eapply frame_trans; [exact Hf1|exact Hfa]].
    + lia.
  - (* JitterProducerOperation *)
    dispatch Hcell (g_JitterProducerOperation__copy (tknot k) (VRef a)). unfold g_JitterProducerOperation__copy.
    match goal with H : fld sl "_producer" _ |- _ => ga Hcell H end.
    apply runs_bind. eapply runs_conseq; [eapply (IH p0); [lia|eassumption]|].
    intros h1 r (b' & Fp' & -> & Hf1 & Hr1 & Hw1 & Hn1). pose proof (frame_len _ _ Hf1).
    match goal with H : fld sl "low" _ |- _ => apply runs_bind; eapply runs_get_attr; [eapply cell_frame; [exact Hf1|exact Hcell]|exact H|] end.
    match goal with H : fld sl "high" _ |- _ => apply runs_bind; eapply runs_get_attr; [eapply cell_frame; [exact Hf1|exact Hcell]|exact H|] end.
    apply runs_bind. apply new_Jitter; [|congruence]. intros _ sl' A1 A2 A3 A4. cbn zeta. apply runs_bind_ret.
    pose proof (len_snoc h1 (mk C_JitterProducerOperation sl')) as L1.
    eapply (finish_copy k h _ _ (PJitter p0 lo hi None) (len h1 :: Fp' ++ [])).
    + eapply frame_trans; [exact Hf1|apply frame_app].
    + eapply RP_jitter; [apply cell_new|exact A1|eapply rep_prod_frame; [exact Hr1|apply frame_app]|exact A2|exact A3|assumption|exact A4|constructor].
    + reflexivity.
    + rewrite app_nil_r. apply within_cons; [lia|]. eapply within_mono; [exact Hw1|lia|lia].
    + rewrite app_nil_r. eapply NoDup_cons_sep; [exact Hn1|exact Hw1|lia].
    + eapply cell_frame; [eapply frame_trans; [exact Hf1|apply frame_app]|exact Hcell].
    + eassumption.
    + eapply rep_ofilt_frame; [eassumption|eapply frame_trans; [exact Hf1|apply frame_app]].
    + lia.
Qed.

(* ------------------------------------------------------------------------------------------- *)
(* 5. the builder calls *)

(* _get_producer(x): a fresh copy of the producer of a TriggerObject; TypeError (and nothing else happens) otherwise *)
Lemma get_producer_ok n h v p F : rep_obj h v (OTrig p) F -> (pdepth p <= n)%nat ->
  runs (g__get_producer (tknot n) v) h (fresh_post rep_prod h p).
Proof.
  intros Hr Hd. inversion Hr as [a sl b p' G Hc Hf Hp| |]; subst. unfold g__get_producer.
  apply runs_bind. eapply runs_isinstance; [exact Hc|]. cbn [sub_TriggerObject v_not negb]. apply runs_cond_false.
  ga Hc Hf. cbn zeta. destruct (rep_prod_top _ _ _ _ Hp) as (cb & slb & vq & Fq & rest & Hcb & Hsub & _).
  apply runs_bind. eapply runs_isinstance; [exact Hcb|]. rewrite Hsub. cbn [v_not negb]. apply runs_cond_false.
  apply runs_bind_ret. eapply copy_prod_spec; eassumption.
Qed.

Definition fails (h : heap) : post := fun h' r => h' = h /\ exists e, r = TExc e.

Lemma get_producer_err R h v o F : rep_obj h v o F -> (forall p, o <> OTrig p) -> runs (g__get_producer R v) h (fails h).
Proof.
  intros Hr Hn. unfold g__get_producer. inversion Hr as [a sl b p' G Hc Hf Hp|a sl b f G Hc Hf Hp|]; subst.
  - exfalso. eapply Hn. reflexivity.
  - apply runs_bind. eapply runs_isinstance; [exact Hc|]. cbn [sub_TriggerObject v_not negb]. apply runs_cond_true.
    cbn zeta. apply runs_raise. split; [reflexivity|eexists; reflexivity].
  - apply runs_bind. apply runs_isinstance_none. cbn [v_not negb]. apply runs_cond_true.
    cbn zeta. apply runs_raise. split; [reflexivity|eexists; reflexivity].
Qed.

Lemma rep_filt_top h b f F : rep_filt h b f F -> exists c sl, cell h b c sl /\ sub_ProducerFilterBase c = true.
Proof. intros H. inversion H; subst; do 2 eexists; (split; [eassumption|reflexivity]). Qed.

Lemma get_producer_filter_ok n h v f F : rep_obj h v (OFilt f) F -> (fdepth f <= n)%nat ->
  runs (g__get_producer_filter (tknot n) v) h (fresh_post rep_filt h f).
Proof.
  intros Hr Hd. inversion Hr as [|a sl b f' G Hc Hf Hp|]; subst. unfold g__get_producer_filter.
  apply runs_bind. eapply runs_isinstance; [exact Hc|]. cbn [sub_FilterObject v_not negb]. apply runs_cond_false.
  ga Hc Hf. cbn zeta. destruct (rep_filt_top _ _ _ _ Hp) as (cb & slb & Hcb & Hsub).
  apply runs_bind. eapply runs_isinstance; [exact Hcb|]. rewrite Hsub. cbn [v_not negb]. apply runs_cond_false.
  apply runs_bind_ret. eapply copy_filt_spec; eassumption.
Qed.

Lemma get_producer_filter_err R h v o F : rep_obj h v o F -> (forall f, o <> OFilt f) ->
  runs (g__get_producer_filter R v) h (fails h).
Proof.
  intros Hr Hn. unfold g__get_producer_filter. inversion Hr as [a sl b p' G Hc Hf Hp|a sl b f G Hc Hf Hp|]; subst.
  - apply runs_bind. eapply runs_isinstance; [exact Hc|]. cbn [sub_FilterObject v_not negb]. apply runs_cond_true.
    cbn zeta. apply runs_raise. split; [reflexivity|eexists; reflexivity].
  - exfalso. eapply Hn. reflexivity.
  - apply runs_bind. apply runs_isinstance_none. cbn [v_not negb]. apply runs_cond_true.
    cbn zeta. apply runs_raise. split; [reflexivity|eexists; reflexivity].
Qed.

(* get_time_replacer(t, clock_forward=f, clock_backward=b) with explicit policies: one new TimeReplacer *)
Lemma get_time_replacer_spec R tr h (Q : post) :
  (forall o, rep_tr (h ++ [o]) (len h) tr -> Q (h ++ [o]) (TRet (VRef (len h)))) ->
  runs (g_get_time_replacer R (VZ (tr_tod tr)) (VSk (tr_sk tr)) (VRp (tr_rp tr))) h Q.
Proof.
  intros HQ. unfold g_get_time_replacer. do 4 wp1. cbn beta iota zeta delta [unpack2]. apply runs_bind_ret.
  apply new_TimeReplacer. intros sl A1 A2 A3. apply HQ. exists sl.
  split; [apply cell_new|]. split; [exact A1|]. split; [exact A2|exact A3].
Qed.

(* ---- a builder program against the generated code ---- *)

(* the user holds one value per call: the object returned, None when the call raised *)
Definition nthv (refs : list val) (i : nat) : val := nth i refs VNone.
Definition res_val (r : tres val) : val := match r with TRet v => v | TExc _ => VNone end.

(* `objs[i].m(...)`: the attribute lookup fails (AttributeError) unless objs[i] is a TriggerObject *)
Definition call_method (v : val) (m : val -> TM val) : TM val :=
  bind (isinstance_ sub_TriggerObject v) (fun b => cond b (m v) (raise_ EOther)).

(* what harness/bld_runner.py does for one operation *)
Definition gen_bop (R : trec) (refs : list val) (o : bop) : TM val :=
  match o with
  | BTime tr => g_TriggerBuilder__time R (VZ (tr_tod tr)) (VSk (tr_sk tr)) (VRp (tr_rp tr))
  | BInterval s iv => g_TriggerBuilder__interval R (v_optz s) (VZ iv)
  | BGroup ms => g_TriggerBuilder__group R (VTuple (map (nthv refs) ms))
  | BOffset i off => call_method (nthv refs i) (fun self => g_TriggerObject__offset R self (VZ off))
  | BEarliest i tr => call_method (nthv refs i) (fun self =>
      g_TriggerObject__earliest R self (VZ (tr_tod tr)) (VSk (tr_sk tr)) (VRp (tr_rp tr)))
  | BLatest i tr => call_method (nthv refs i) (fun self =>
      g_TriggerObject__latest R self (VZ (tr_tod tr)) (VSk (tr_sk tr)) (VRp (tr_rp tr)))
  | BJitter i lo hi => call_method (nthv refs i) (fun self => g_TriggerObject__jitter R self (VZ lo) (VZ hi))
  | BOnlyOn i f => call_method (nthv refs i) (fun self => g_TriggerObject__only_on R self (nthv refs f))
  | FbAny fs => g_FilterBuilder__any R (VTuple (map (nthv refs) fs))
  | FbAll fs => g_FilterBuilder__all R (VTuple (map (nthv refs) fs))
  | FbNot f => g_FilterBuilder__not_ R (nthv refs f)
  | FbTime lo hi => g_FilterBuilder__time R (v_optz lo) (v_optz hi)
  | FbWeekday s => g_FilterBuilder__weekdays R (VTuple (map VZ s))
  | FbDay s => g_FilterBuilder__days R (VTuple (map VZ s))
  | FbMonth s => g_FilterBuilder__months R (VTuple (map VZ s))
  end.

Definition gen_step (n : nat) (st : option (heap * list val)) (o : bop) : option (heap * list val) :=
  match st with
  | None => None
  | Some (h, refs) =>
      match gen_bop (tknot n) refs o h with
      | None => None
      | Some (h', r) => Some (h', refs ++ [res_val r])
      end
  end.
Definition gen_run (n : nat) (ops : list bop) : option (heap * list val) := fold_left (gen_step n) ops (Some ([], [])).

(* all objects the user holds *)
Inductive rep_objs (h : heap) : list val -> list obj -> list addr -> Prop :=
  | ROs_nil : rep_objs h [] [] []
  | ROs_cons v o F vs os Fs : rep_obj h v o F -> rep_objs h vs os Fs -> rep_objs h (v :: vs) (o :: os) (F ++ Fs).

Lemma rep_objs_frame h h' vs os Fs : rep_objs h vs os Fs -> frame h h' -> rep_objs h' vs os Fs.
Proof. intros H Hf. induction H; constructor; [eapply rep_obj_frame; eassumption|assumption]. Qed.

Lemma rep_objs_within h vs os Fs : rep_objs h vs os Fs -> within 0 (len h) Fs.
Proof. induction 1; [constructor|apply within_app; [eapply rep_obj_within; eassumption|assumption]]. Qed.

Lemma rep_objs_snoc h vs os Fs v o F : rep_objs h vs os Fs -> rep_obj h v o F -> rep_objs h (vs ++ [v]) (os ++ [o]) (Fs ++ F).
Proof.
  induction 1 as [|v0 o0 F0 vs os Fs H0 Hs IH]; intros Hv; cbn [app].
  - rewrite <- (app_nil_r F). constructor; [exact Hv|constructor].
  - rewrite <- app_assoc. constructor; [exact H0|apply IH; exact Hv].
Qed.

Lemma rep_objs_nth h vs os Fs i : rep_objs h vs os Fs -> exists F, rep_obj h (nthv vs i) (nth i os OErr) F.
Proof.
  intros H. revert i. induction H as [|v0 o0 F0 vs os Fs H0 Hs IH]; intros [|i]; cbn [nthv nth].
  - exists []. constructor.
  - exists []. constructor.
  - exists F0. exact H0.
  - apply IH.
Qed.

Definition odepth (o : obj) : nat := match o with OTrig p => pdepth p | OFilt f => fdepth f | OErr => 0%nat end.
Definition os_depth (os : list obj) : nat := fold_right (fun o acc => Nat.max (odepth o) acc) 0%nat os.

Lemma os_depth_nth os i : (odepth (nth i os OErr) <= os_depth os)%nat.
Proof.
  revert i. induction os as [|o t IH]; intros [|i]; cbn [nth os_depth fold_right odepth]; try lia.
  specialize (IH i). unfold os_depth in IH. lia.
Qed.

Lemma get_trig_nth os i : get_trig os i = match nth i os OErr with OTrig p => Some p | _ => None end.
Proof.
  unfold get_trig. revert i. induction os as [|o t IH]; intros [|i]; cbn [nth_error nth]; try reflexivity. apply IH.
Qed.
Lemma get_filt_nth os i : get_filt os i = match nth i os OErr with OFilt f => Some f | _ => None end.
Proof.
  unfold get_filt. revert i. induction os as [|o t IH]; intros [|i]; cbn [nth_error nth]; try reflexivity. apply IH.
Qed.

(* what one builder call promises: every cell that existed is unchanged; the returned object represents what
   Builder.eval_bop says, is made of new cells only and is a tree; the call raises exactly when the model says OErr *)
Definition step_post (h : heap) (o : obj) : post := fun h' r =>
  frame h h' /\
  match r with
  | TRet v => o <> OErr /\ exists F, rep_obj h' v o F /\ within (len h) (len h') F /\ NoDup F
  | TExc _ => o = OErr
  end.

Lemma wrap_trigger R h p h2 r : fresh_post rep_prod h p h2 r ->
  match r with
  | TRet v => runs (bind (g_TriggerObject__new R v) (fun t => ret t)) h2 (step_post h (OTrig p))
  | TExc _ => False
  end.
Proof.
  intros (b & F1 & -> & Hf & Hr & Hw & Hn). apply runs_bind_ret. apply new_TriggerObject. intros sl A1.
  pose proof (frame_len _ _ Hf). split; [eapply frame_trans; [exact Hf|apply frame_app]|]. split; [discriminate|].
  exists (len h2 :: F1). split; [|split].
  - eapply ROb_trig; [apply cell_new|exact A1|eapply rep_prod_frame; [exact Hr|apply frame_app]].
  - rewrite len_snoc. apply within_cons; [lia|]. eapply within_mono; [exact Hw|lia|lia].
  - eapply NoDup_cons_sep; [exact Hn|exact Hw|lia].
Qed.

Lemma wrap_filter R h f h2 r : fresh_post rep_filt h f h2 r ->
  match r with
  | TRet v => runs (bind (g_FilterObject__new R v) (fun t => ret t)) h2 (step_post h (OFilt f))
  | TExc _ => False
  end.
Proof.
  intros (b & F1 & -> & Hf & Hr & Hw & Hn). apply runs_bind_ret. apply new_FilterObject. intros sl A1.
  pose proof (frame_len _ _ Hf). split; [eapply frame_trans; [exact Hf|apply frame_app]|]. split; [discriminate|].
  exists (len h2 :: F1). split; [|split].
  - eapply ROb_filt; [apply cell_new|exact A1|eapply rep_filt_frame; [exact Hr|apply frame_app]].
  - rewrite len_snoc. apply within_cons; [lia|]. eapply within_mono; [exact Hw|lia|lia].
  - eapply NoDup_cons_sep; [exact Hn|exact Hw|lia].
Qed.

(* a filter leaf is one new cell *)
Lemma fresh_leaf (h : heap) c sl f : rep_filt (h ++ [mk c sl]) (len h) f [len h] ->
  fresh_post rep_filt h f (h ++ [mk c sl]) (TRet (VRef (len h))).
Proof.
  intros H. exists (len h), [len h]. split; [reflexivity|]. split; [apply frame_app|]. split; [exact H|].
  apply fresh_one. reflexivity.
Qed.

(* TriggerBuilder.time *)
Lemma gen_time_spec R h tr :
  runs (g_TriggerBuilder__time R (VZ (tr_tod tr)) (VSk (tr_sk tr)) (VRp (tr_rp tr))) h (step_post h (OTrig (PTime tr None))).
Proof.
  unfold g_TriggerBuilder__time. apply runs_bind. apply get_time_replacer_spec. intros o Htr.
  apply runs_bind. apply new_TimeProducer. intros sl A1 A2.
  pose proof (len_snoc h o) as L1. pose proof (len_snoc (h ++ [o]) (mk C_TimeProducer sl)) as L2.
  apply (wrap_trigger R h (PTime tr None) _ (TRet (VRef (len (h ++ [o]))))).
  exists (len (h ++ [o])), [len (h ++ [o]); len h]. split; [reflexivity|]. split; [eapply frame_trans; apply frame_app|].
  split; [|split].
  - eapply RP_time; [apply cell_new|exact A1|eapply rep_tr_frame; [exact Htr|apply frame_app]|exact A2|constructor].
  - apply within_cons; [lia|apply within_cons; [lia|apply within_nil]].
  - apply NoDup_two. lia.
Qed.

(* TriggerBuilder.interval *)
Lemma gen_interval_spec R h s iv :
  runs (g_TriggerBuilder__interval R (v_optz s) (VZ iv)) h (step_post h (eval_bop [] (BInterval s iv))).
Proof.
  unfold g_TriggerBuilder__interval. cbn [eval_bop]. apply runs_bind.
  assert (Hs : runs (cond (v_not (v_is_none (v_optz s))) (bind (get_instant_ (v_optz s)) (fun t => ret t)) (ret VNone)) h
                 (fun h' r => h' = h /\ r = TRet (v_optz s))).
  { destruct s; cbn; wp; split; reflexivity. }
  eapply runs_conseq; [exact Hs|]. intros h' r [-> ->]. apply runs_bind. unfold get_pos_timedelta_secs_.
  destruct (0 <? iv) eqn:E.
  - apply runs_ret. apply runs_bind. apply new_IntervalProducer. intros sl A1 A2 A3.
    pose proof (len_snoc h (mk C_IntervalProducer sl)) as L1.
    apply (wrap_trigger R h (PInterval 0 s iv None) _ (TRet (VRef (len h)))).
    exists (len h), [len h]. split; [reflexivity|]. split; [apply frame_app|]. split; [|apply fresh_one; reflexivity].
    eapply RP_interval; [apply cell_new|exact A1|exact A2|exact A3|constructor].
  - apply runs_raise. split; [apply frame_refl|reflexivity].
Qed.

(* the filters without arguments from other objects *)
Lemma opt_time h o (Q : post) : Q h (TRet (v_optz o)) ->
  runs (cond (v_not (v_is_none (v_optz o))) (bind (get_time_ (v_optz o)) (fun t => ret t)) (ret VNone)) h Q.
Proof. intros H. destruct o; cbn; wp; exact H. Qed.

Lemma gen_ftime_spec R h lo hi :
  runs (g_FilterBuilder__time R (v_optz lo) (v_optz hi)) h (step_post h (eval_bop [] (FbTime lo hi))).
Proof.
  unfold g_FilterBuilder__time.
  assert (Hc : v_and (v_is_none (v_optz lo)) (v_is_none (v_optz hi)) =
               VBool (match lo, hi with None, None => true | _, _ => false end)) by (destruct lo, hi; reflexivity).
  rewrite Hc. destruct (match lo, hi with None, None => true | _, _ => false end) eqn:E.
  - apply runs_cond_true. cbn zeta. apply runs_raise. split; [apply frame_refl|]. destruct lo, hi; try discriminate. reflexivity.
  - apply runs_cond_false. apply runs_bind. apply opt_time. cbn zeta. apply runs_bind. apply opt_time. cbn zeta.
    apply runs_bind. apply new_TimeFilter. intros sl A1 A2.
    assert (Hev : eval_bop [] (FbTime lo hi) = OFilt (FTime lo hi)) by (destruct lo, hi; try discriminate; reflexivity).
    rewrite Hev. apply (wrap_filter R h (FTime lo hi) _ (TRet (VRef (len h)))). apply fresh_leaf.
    eapply RF_time; [apply cell_new|exact A1|exact A2].
Qed.

Lemma gen_weekdays_spec R h s : runs (g_FilterBuilder__weekdays R (VTuple (map VZ s))) h (step_post h (OFilt (FWeekday s))).
Proof.
  unfold g_FilterBuilder__weekdays. do 2 wp1. apply runs_bind. apply new_DayOfWeek. intros sl A1.
  apply (wrap_filter R h (FWeekday s) _ (TRet (VRef (len h)))). apply fresh_leaf. eapply RF_weekday; [apply cell_new|exact A1].
Qed.
Lemma gen_days_spec R h s : runs (g_FilterBuilder__days R (VTuple (map VZ s))) h (step_post h (OFilt (FDay s))).
Proof.
  unfold g_FilterBuilder__days. do 2 wp1. apply runs_bind. apply new_DayOfMonth. intros sl A1.
  apply (wrap_filter R h (FDay s) _ (TRet (VRef (len h)))). apply fresh_leaf. eapply RF_day; [apply cell_new|exact A1].
Qed.
Lemma gen_months_spec R h s : runs (g_FilterBuilder__months R (VTuple (map VZ s))) h (step_post h (OFilt (FMonth s))).
Proof.
  unfold g_FilterBuilder__months. do 2 wp1. apply runs_bind. apply new_MonthOfYear. intros sl A1.
  apply (wrap_filter R h (FMonth s) _ (TRet (VRef (len h)))). apply fresh_leaf. eapply RF_month; [apply cell_new|exact A1].
Qed.

(* ---- calls on a trigger object ---- *)
Lemma call_method_trig h v p F m (Q : post) : rep_obj h v (OTrig p) F -> runs (m v) h Q -> runs (call_method v m) h Q.
Proof.
  intros Hr H. inversion Hr as [a sl b p' G Hc Hf Hp| |]; subst. unfold call_method.
  apply runs_bind. eapply runs_isinstance; [exact Hc|]. cbn [sub_TriggerObject]. apply runs_cond_true. exact H.
Qed.
Lemma call_method_other h v o F m (Q : post) : rep_obj h v o F -> (forall p, o <> OTrig p) -> Q h (TExc EOther) ->
  runs (call_method v m) h Q.
Proof.
  intros Hr Hn H. unfold call_method. inversion Hr as [a sl b p' G Hc Hf Hp|a sl b f G Hc Hf Hp|]; subst.
  - exfalso. eapply Hn. reflexivity.
  - apply runs_bind. eapply runs_isinstance; [exact Hc|]. cbn [sub_TriggerObject]. apply runs_cond_false. apply runs_raise. exact H.
  - apply runs_bind. apply runs_isinstance_none. apply runs_cond_false. apply runs_raise. exact H.
Qed.

Lemma fresh_node h h1 c sl q F1 : frame h h1 -> rep_prod (h1 ++ [mk c sl]) (len h1) q (len h1 :: F1) ->
  within (len h) (len h1) F1 -> NoDup F1 -> fresh_post rep_prod h q (h1 ++ [mk c sl]) (TRet (VRef (len h1))).
Proof.
  intros Hf Hr Hw Hn. pose proof (frame_len _ _ Hf). exists (len h1), (len h1 :: F1). split; [reflexivity|].
  split; [eapply frame_trans; [exact Hf|apply frame_app]|]. split; [exact Hr|]. split.
  - rewrite len_snoc. apply within_cons; [lia|]. eapply within_mono; [exact Hw|lia|lia].
  - eapply NoDup_cons_sep; [exact Hn|exact Hw|lia].
Qed.

Lemma not_trig_err o : (forall p, o <> OTrig p) -> match o with OTrig _ => False | _ => True end.
Proof. destruct o; intros H; [eapply H; reflexivity|exact I|exact I]. Qed.

Lemma gen_offset_spec n h v o F off : rep_obj h v o F -> (odepth o <= n)%nat ->
  runs (call_method v (fun self => g_TriggerObject__offset (tknot n) self (VZ off))) h
    (step_post h (match o with OTrig p => OTrig (POffset p off None) | _ => OErr end)).
Proof.
  intros Hr Hd. destruct o as [p|f|].
  2,3: eapply call_method_other; [exact Hr|intros p; discriminate|split; [apply frame_refl|reflexivity]].
  eapply call_method_trig; [exact Hr|]. unfold g_TriggerObject__offset. apply runs_bind.
  eapply runs_conseq; [eapply get_producer_ok; [exact Hr|exact Hd]|].
  intros h1 r (b' & Fp' & -> & Hf1 & Hr1 & Hw1 & Hn1). do 3 wp1. apply new_Offset. intros sl A1 A2 A3.
  apply (wrap_trigger (tknot n) h (POffset p off None) _ (TRet (VRef (len h1)))).
  apply (fresh_node h h1 _ _ _ (Fp' ++ [])); [exact Hf1| |rewrite app_nil_r; exact Hw1|rewrite app_nil_r; exact Hn1].
  eapply RP_offset; [apply cell_new|exact A1|eapply rep_prod_frame; [exact Hr1|apply frame_app]|exact A2|exact A3|constructor].
Qed.

Lemma gen_earliest_spec n h v o F tr : rep_obj h v o F -> (odepth o <= n)%nat ->
  runs (call_method v (fun self => g_TriggerObject__earliest (tknot n) self (VZ (tr_tod tr)) (VSk (tr_sk tr)) (VRp (tr_rp tr)))) h
    (step_post h (match o with OTrig p => OTrig (PEarliest p tr None) | _ => OErr end)).
Proof.
  intros Hr Hd. destruct o as [p|f|].
  2,3: eapply call_method_other; [exact Hr|intros p; discriminate|split; [apply frame_refl|reflexivity]].
  eapply call_method_trig; [exact Hr|]. unfold g_TriggerObject__earliest. apply runs_bind.
  eapply runs_conseq; [eapply get_producer_ok; [exact Hr|exact Hd]|].
  intros h1 r (b' & Fp' & -> & Hf1 & Hr1 & Hw1 & Hn1). apply runs_bind. apply get_time_replacer_spec. intros o Htr.
  apply runs_bind. apply new_Earliest. intros sl A1 A2 A3. pose proof (len_snoc h1 o) as L1. pose proof (frame_len _ _ Hf1).
  apply (wrap_trigger (tknot n) h (PEarliest p tr None) _ (TRet (VRef (len (h1 ++ [o]))))).
  apply (fresh_node h (h1 ++ [o]) _ _ _ (len h1 :: Fp' ++ [])); [eapply frame_trans; [exact Hf1|apply frame_app]| | |].
  - eapply RP_earliest; [apply cell_new|exact A1|eapply rep_prod_frame; [exact Hr1|eapply frame_trans; apply frame_app]|exact A2
                         |eapply rep_tr_frame; [exact Htr|apply frame_app]|exact A3|constructor].
  - rewrite app_nil_r. apply within_cons; [lia|]. eapply within_mono; [exact Hw1|lia|lia].
  - rewrite app_nil_r. eapply NoDup_cons_sep; [exact Hn1|exact Hw1|lia].
Qed.

Lemma gen_latest_spec n h v o F tr : rep_obj h v o F -> (odepth o <= n)%nat ->
  runs (call_method v (fun self => g_TriggerObject__latest (tknot n) self (VZ (tr_tod tr)) (VSk (tr_sk tr)) (VRp (tr_rp tr)))) h
    (step_post h (match o with OTrig p => OTrig (PLatest p tr None) | _ => OErr end)).
Proof.
  intros Hr Hd. destruct o as [p|f|].
  2,3: eapply call_method_other; [exact Hr|intros p; discriminate|split; [apply frame_refl|reflexivity]].
  eapply call_method_trig; [exact Hr|]. unfold g_TriggerObject__latest. apply runs_bind.
  eapply runs_conseq; [eapply get_producer_ok; [exact Hr|exact Hd]|].
  intros h1 r (b' & Fp' & -> & Hf1 & Hr1 & Hw1 & Hn1). apply runs_bind. apply get_time_replacer_spec. intros o Htr.
  apply runs_bind. apply new_Latest. intros sl A1 A2 A3. pose proof (len_snoc h1 o) as L1. pose proof (frame_len _ _ Hf1).
  apply (wrap_trigger (tknot n) h (PLatest p tr None) _ (TRet (VRef (len (h1 ++ [o]))))).
  apply (fresh_node h (h1 ++ [o]) _ _ _ (len h1 :: Fp' ++ [])); [eapply frame_trans; [exact Hf1|apply frame_app]| | |].
  - eapply RP_latest; [apply cell_new|exact A1|eapply rep_prod_frame; [exact Hr1|eapply frame_trans; apply frame_app]|exact A2
                         |eapply rep_tr_frame; [exact Htr|apply frame_app]|exact A3|constructor].
  - rewrite app_nil_r. apply within_cons; [lia|]. eapply within_mono; [exact Hw1|lia|lia].
  - rewrite app_nil_r. eapply NoDup_cons_sep; [exact Hn1|exact Hw1|lia].
Qed.

Lemma gen_jitter_spec n h v o F lo hi : rep_obj h v o F -> (odepth o <= n)%nat ->
  runs (call_method v (fun self => g_TriggerObject__jitter (tknot n) self (VZ lo) (VZ hi))) h
    (step_post h (match o with OTrig p => if lo <? hi then OTrig (PJitter p lo hi None) else OErr | _ => OErr end)).
Proof.
  intros Hr Hd. destruct o as [p|f|].
  2,3: eapply call_method_other; [exact Hr|intros p; discriminate|split; [apply frame_refl|reflexivity]].
  eapply call_method_trig; [exact Hr|]. unfold g_TriggerObject__jitter. apply runs_bind.
  eapply runs_conseq; [eapply get_producer_ok; [exact Hr|exact Hd]|].
  intros h1 r (b' & Fp' & -> & Hf1 & Hr1 & Hw1 & Hn1). do 6 wp1. apply runs_bind. apply new_Jitter.
  - intros E sl A1 A2 A3 A4. rewrite E.
    apply (wrap_trigger (tknot n) h (PJitter p lo hi None) _ (TRet (VRef (len h1)))).
    apply (fresh_node h h1 _ _ _ (Fp' ++ [])); [exact Hf1| |rewrite app_nil_r; exact Hw1|rewrite app_nil_r; exact Hn1].
    eapply RP_jitter; [apply cell_new|exact A1|eapply rep_prod_frame; [exact Hr1|apply frame_app]|exact A2|exact A3|exact E|exact A4|constructor].
  - intros E ob. rewrite E. split; [eapply frame_trans; [exact Hf1|apply frame_app]|reflexivity].
Qed.

(* only_on / only_at: the filter goes into a COPY of the receiver's producer *)
Lemma gen_only_on_spec n h v o F w o2 F2 : rep_obj h v o F -> rep_obj h w o2 F2 -> (odepth o <= n)%nat -> (odepth o2 <= n)%nat ->
  runs (call_method v (fun self => g_TriggerObject__only_on (tknot n) self w)) h
    (step_post h (match o, o2 with
                  | OTrig p, OFilt g => match top_filter p with None => OTrig (set_top_filter p (Some g)) | Some _ => OErr end
                  | _, _ => OErr
                  end)).
Proof.
  intros Hr Hr2 Hd Hd2. destruct o as [p|f|].
  2,3: eapply call_method_other; [exact Hr|intros p; discriminate|split; [apply frame_refl|reflexivity]].
  eapply call_method_trig; [exact Hr|]. unfold g_TriggerObject__only_on.
  inversion Hr as [a sl b p' G Hc Hf Hp| |]; subst. ga Hc Hf.
  destruct (rep_prod_top _ _ _ _ Hp) as (cb & slb & vq & Fq & rest & Hcb & _ & Hfq & Hoq & _).
  ga Hcb Hfq. destruct (top_filter p) as [g0|] eqn:Etop.
  { inversion Hoq; subst. cbn [v_is_none v_not negb]. apply runs_cond_true. apply runs_raise.
    split; [apply frame_refl|]. destruct o2; reflexivity. }
  apply rep_ofilt_None in Hoq. destruct Hoq as [-> _]. cbn [v_is_none v_not negb]. apply runs_cond_false.
  apply runs_bind. eapply runs_conseq; [eapply get_producer_ok; [exact Hr|exact Hd]|].
  intros h1 r (b' & Fp' & -> & Hf1 & Hr1 & Hw1 & Hn1). cbn zeta. apply runs_bind.
  destruct o2 as [p2|g|].
  1,3: eapply runs_conseq; [eapply get_producer_filter_err; [eapply rep_obj_frame; [exact Hr2|exact Hf1]|intros f; discriminate]|];
       intros h2 r [-> (e & ->)]; split; [exact Hf1|reflexivity].
  eapply runs_conseq; [eapply get_producer_filter_ok; [eapply rep_obj_frame; [exact Hr2|exact Hf1]|exact Hd2]|].
  intros h2 r (g' & Fg' & -> & Hf2 & Hr2' & Hw2 & Hn2).
  pose proof (frame_len _ _ Hf1). pose proof (frame_len _ _ Hf2).
  pose proof (rep_prod_frame _ _ _ _ _ Hr1 Hf2) as Hr1'.
  destruct (rep_prod_top _ _ _ _ Hr1') as (c' & sl' & vq' & Fq' & rest' & Hc' & _ & _ & _ & HF).
  assert (Hb' : (len h <= b' < len h1)%nat) by (subst Fp'; inversion Hw1; subst; lia).
  apply runs_bind. eapply runs_set_attr; [exact Hc'|].
  set (h3 := upd h2 b' {| ocls := c'; oslots := put_slot sl' "_filter" (VRef g') |}).
  assert (Hfb : frame_but b' h2 h3).
  { split; [unfold h3; rewrite upd_length; lia|]. intros x Hx Hne. unfold h3. apply nth_upd_other. congruence. }
  assert (L3 : len h3 = len h2) by (unfold h3; apply upd_length).
  apply (wrap_trigger (tknot n) h (set_top_filter p (Some g)) h3 (TRet (VRef b'))).
  exists b', (Fp' ++ Fg'). split; [reflexivity|]. split; [|split; [|split]].
  - unfold h3. apply frame_upd_new; [eapply frame_trans; eassumption|lia].
  - eapply rep_prod_set_filter; [exact Hr1'|exact Etop|exact Hn1|exact Hc'|exact Hfb| |].
    + unfold cell, h3. eapply nth_upd_same. exact Hc'.
    + constructor. eapply rep_filt_agree; [exact Hr2'|]. eapply agree_but; [exact Hfb| |].
      * eapply within_mono; [exact Hw2|lia|lia].
      * intros Hi. pose proof (within_In _ _ _ _ Hw2 Hi). lia.
  - rewrite L3. apply within_app; eapply within_mono; try eassumption; lia.
  - eapply NoDup_app_sep; eassumption.
Qed.

(* FilterBuilder.not_ *)
Lemma gen_not_spec n h v o F : rep_obj h v o F -> (odepth o <= n)%nat ->
  runs (g_FilterBuilder__not_ (tknot n) v) h (step_post h (match o with OFilt g => OFilt (FNot g) | _ => OErr end)).
Proof.
  intros Hr Hd. unfold g_FilterBuilder__not_. apply runs_bind. destruct o as [p|g|].
  1,3: eapply runs_conseq; [eapply get_producer_filter_err; [exact Hr|intros f; discriminate]|];
       intros h2 r [-> (e & ->)]; split; [apply frame_refl|reflexivity].
  eapply runs_conseq; [eapply get_producer_filter_ok; [exact Hr|exact Hd]|].
  intros h1 r (g' & Fg' & -> & Hf1 & Hr1 & Hw1 & Hn1). apply runs_bind. apply new_Inverting. intros sl A1.
  pose proof (frame_len _ _ Hf1).
  apply (wrap_filter (tknot n) h (FNot g) _ (TRet (VRef (len h1)))).
  exists (len h1), (len h1 :: Fg'). split; [reflexivity|]. split; [eapply frame_trans; [exact Hf1|apply frame_app]|]. split; [|split].
  - eapply RF_not; [apply cell_new|exact A1|eapply rep_filt_frame; [exact Hr1|apply frame_app]].
  - rewrite len_snoc. apply within_cons; [lia|]. eapply within_mono; [exact Hw1|lia|lia].
  - eapply NoDup_cons_sep; [exact Hn1|exact Hw1|lia].
Qed.

(* [body(x) for x in objs]: copies of all of them, or the first TypeError *)
Lemma runs_map_objs {T} (rep : heap -> addr -> T -> list addr -> Prop) (get : obj -> option T) (body : val -> TM val) n :
  stable rep ->
  (forall h v o F x, rep_obj h v o F -> get o = Some x -> (odepth o <= n)%nat -> runs (body v) h (fresh_post rep h x)) ->
  (forall h v o F, rep_obj h v o F -> get o = None -> runs (body v) h (fails h)) ->
  forall h0 refs os Fs, rep_objs h0 refs os Fs -> (os_depth os <= n)%nat ->
  forall ms h, frame h0 h ->
  runs (map_m body (VTuple (map (nthv refs) ms))) h (fun h' r =>
     frame h h' /\
     match all_some (map (fun i => get (nth i os OErr)) ms) with
     | Some xs => exists l' Fs', r = TRet (VTuple (map VRef l')) /\ rep_list (rep h') l' xs Fs' /\
                                within (len h) (len h') Fs' /\ NoDup Fs'
     | None => exists e, r = TExc e
     end).
Proof.
  intros Hs Hok Herr h0 refs os Fs Hobjs Hd ms h Hf0. unfold map_m. apply runs_bind.
  assert (H : runs (map_list body (map (nthv refs) ms)) h (fun h' r =>
     frame h h' /\
     match all_some (map (fun i => get (nth i os OErr)) ms) with
     | Some xs => exists l' Fs', r = TRet (map VRef l') /\ rep_list (rep h') l' xs Fs' /\
                                within (len h) (len h') Fs' /\ NoDup Fs'
     | None => exists e, r = TExc e
     end)).
  { revert h Hf0. induction ms as [|i ms IH]; intros h Hf0; cbn [map map_list all_some].
    - apply runs_ret. split; [apply frame_refl|]. exists [], []. repeat split; constructor.
    - destruct (rep_objs_nth _ _ _ _ i Hobjs) as (F & Hri). pose proof (rep_obj_frame _ _ _ _ _ Hri Hf0) as Hri'.
      apply runs_bind. destruct (get (nth i os OErr)) as [x|] eqn:Eg.
      + eapply runs_conseq; [eapply Hok; [exact Hri'|exact Eg|pose proof (os_depth_nth os i); lia]|].
        intros h1 r (a' & F' & -> & Hf1 & Hr1 & Hw1 & Hn1). apply runs_bind.
        eapply runs_conseq; [apply (IH h1); eapply frame_trans; eassumption|].
        intros h2 r [Hf2 Hrest]. pose proof (frame_len _ _ Hf1). pose proof (frame_len _ _ Hf2).
        destruct (all_some (map (fun i0 => get (nth i0 os OErr)) ms)) as [xs|].
        * destruct Hrest as (l' & Fs' & -> & Hr2 & Hw2 & Hn2). apply runs_ret.
          split; [eapply frame_trans; eassumption|]. exists (a' :: l'), (F' ++ Fs'). split; [reflexivity|]. split; [|split].
          -- constructor; [eapply Hs; eassumption|exact Hr2].
          -- apply within_app; eapply within_mono; try eassumption; lia.
          -- eapply NoDup_app_sep; eassumption.
        * destruct Hrest as (e & ->). split; [eapply frame_trans; eassumption|]. exists e. reflexivity.
      + eapply runs_conseq; [eapply Herr; [exact Hri'|exact Eg]|]. intros h1 r [-> (e & ->)].
        split; [apply frame_refl|]. exists e. reflexivity. }
  eapply runs_conseq; [exact H|]. intros h' r [Hf Hrest].
  destruct (all_some (map (fun i => get (nth i os OErr)) ms)) as [xs|].
  - destruct Hrest as (l' & Fs' & -> & Hrest). apply runs_ret. split; [exact Hf|]. exists l', Fs'. split; [reflexivity|exact Hrest].
  - destruct Hrest as (e & ->). split; [exact Hf|]. exists e. reflexivity.
Qed.

Definition as_trig (o : obj) : option producer := match o with OTrig p => Some p | _ => None end.
Definition as_filt (o : obj) : option filt := match o with OFilt f => Some f | _ => None end.

Lemma map_get_trig os ms : map (get_trig os) ms = map (fun i => as_trig (nth i os OErr)) ms.
Proof. apply map_ext. intros i. apply get_trig_nth. Qed.
Lemma map_get_filt os ms : map (get_filt os) ms = map (fun i => as_filt (nth i os OErr)) ms.
Proof. apply map_ext. intros i. apply get_filt_nth. Qed.

Lemma body_get_producer_ok n h v o F x : rep_obj h v o F -> as_trig o = Some x -> (odepth o <= n)%nat ->
  runs (bind (g__get_producer (tknot n) v) (fun t => ret t)) h (fresh_post rep_prod h x).
Proof. intros Hr E Hd. destruct o; try discriminate. injection E as <-. apply runs_bind_ret. eapply get_producer_ok; eassumption. Qed.
Lemma body_get_producer_err n h v o F : rep_obj h v o F -> as_trig o = None ->
  runs (bind (g__get_producer (tknot n) v) (fun t => ret t)) h (fails h).
Proof. intros Hr E. apply runs_bind_ret. eapply get_producer_err; [exact Hr|]. intros p ->. discriminate. Qed.
Lemma body_get_filter_ok n h v o F x : rep_obj h v o F -> as_filt o = Some x -> (odepth o <= n)%nat ->
  runs (bind (g__get_producer_filter (tknot n) v) (fun t => ret t)) h (fresh_post rep_filt h x).
Proof. intros Hr E Hd. destruct o; try discriminate. injection E as <-. apply runs_bind_ret. eapply get_producer_filter_ok; eassumption. Qed.
Lemma body_get_filter_err n h v o F : rep_obj h v o F -> as_filt o = None ->
  runs (bind (g__get_producer_filter (tknot n) v) (fun t => ret t)) h (fails h).
Proof. intros Hr E. apply runs_bind_ret. eapply get_producer_filter_err; [exact Hr|]. intros p ->. discriminate. Qed.

(* TriggerBuilder.group *)
Lemma gen_group_spec n h refs os Fs ms : rep_objs h refs os Fs -> (os_depth os <= n)%nat ->
  runs (g_TriggerBuilder__group (tknot n) (VTuple (map (nthv refs) ms))) h (step_post h (eval_bop os (BGroup ms))).
Proof.
  intros Hobjs Hd. unfold g_TriggerBuilder__group. cbn [eval_bop]. rewrite map_get_trig. apply runs_bind.
  eapply runs_conseq; [apply (runs_map_objs rep_prod as_trig _ n stable_prod (body_get_producer_ok n) (body_get_producer_err n)
                                _ _ _ _ Hobjs Hd ms h (frame_refl h))|].
  intros h1 r [Hf1 Hrest]. destruct (all_some (map (fun i => as_trig (nth i os OErr)) ms)) as [ps|].
  - destruct Hrest as (l' & Fs' & -> & Hr1 & Hw1 & Hn1). apply runs_bind. apply new_GroupProducer. intros sl A1 A2.
    apply (wrap_trigger (tknot n) h (PGroup ps None) _ (TRet (VRef (len h1)))).
    apply (fresh_node h h1 _ _ _ (Fs' ++ [])); [exact Hf1| |rewrite app_nil_r; exact Hw1|rewrite app_nil_r; exact Hn1].
    eapply RP_group; [apply cell_new|exact A1| |exact A2|constructor].
    eapply rep_list_frame; [exact stable_prod|exact Hr1|apply frame_app].
  - destruct Hrest as (e & ->). split; [exact Hf1|reflexivity].
Qed.

(* FilterBuilder.any / all *)
Lemma gen_any_spec n h refs os Fs ms : rep_objs h refs os Fs -> (os_depth os <= n)%nat ->
  runs (g_FilterBuilder__any (tknot n) (VTuple (map (nthv refs) ms))) h (step_post h (eval_bop os (FbAny ms))).
Proof.
  intros Hobjs Hd. unfold g_FilterBuilder__any. cbn [eval_bop]. rewrite map_get_filt. apply runs_bind.
  eapply runs_conseq; [apply (runs_map_objs rep_filt as_filt _ n stable_filt (body_get_filter_ok n) (body_get_filter_err n)
                                _ _ _ _ Hobjs Hd ms h (frame_refl h))|].
  intros h1 r [Hf1 Hrest]. destruct (all_some (map (fun i => as_filt (nth i os OErr)) ms)) as [fs|].
  - destruct Hrest as (l' & Fs' & -> & Hr1 & Hw1 & Hn1). apply runs_bind. apply new_Any. intros sl A1.
    pose proof (frame_len _ _ Hf1).
    apply (wrap_filter (tknot n) h (FAny fs) _ (TRet (VRef (len h1)))).
    exists (len h1), (len h1 :: Fs'). split; [reflexivity|]. split; [eapply frame_trans; [exact Hf1|apply frame_app]|]. split; [|split].
    + eapply RF_any; [apply cell_new|exact A1|]. eapply rep_list_frame; [exact stable_filt|exact Hr1|apply frame_app].
    + rewrite len_snoc. apply within_cons; [lia|]. eapply within_mono; [exact Hw1|lia|lia].
    + eapply NoDup_cons_sep; [exact Hn1|exact Hw1|lia].
  - destruct Hrest as (e & ->). split; [exact Hf1|reflexivity].
Qed.

Lemma gen_all_spec n h refs os Fs ms : rep_objs h refs os Fs -> (os_depth os <= n)%nat ->
  runs (g_FilterBuilder__all (tknot n) (VTuple (map (nthv refs) ms))) h (step_post h (eval_bop os (FbAll ms))).
Proof.
  intros Hobjs Hd. unfold g_FilterBuilder__all. cbn [eval_bop]. rewrite map_get_filt. apply runs_bind.
  eapply runs_conseq; [apply (runs_map_objs rep_filt as_filt _ n stable_filt (body_get_filter_ok n) (body_get_filter_err n)
                                _ _ _ _ Hobjs Hd ms h (frame_refl h))|].
  intros h1 r [Hf1 Hrest]. destruct (all_some (map (fun i => as_filt (nth i os OErr)) ms)) as [fs|].
  - destruct Hrest as (l' & Fs' & -> & Hr1 & Hw1 & Hn1). apply runs_bind. apply new_All. intros sl A1.
    pose proof (frame_len _ _ Hf1).
    apply (wrap_filter (tknot n) h (FAll fs) _ (TRet (VRef (len h1)))).
    exists (len h1), (len h1 :: Fs'). split; [reflexivity|]. split; [eapply frame_trans; [exact Hf1|apply frame_app]|]. split; [|split].
    + eapply RF_all; [apply cell_new|exact A1|]. eapply rep_list_frame; [exact stable_filt|exact Hr1|apply frame_app].
    + rewrite len_snoc. apply within_cons; [lia|]. eapply within_mono; [exact Hw1|lia|lia].
    + eapply NoDup_cons_sep; [exact Hn1|exact Hw1|lia].
  - destruct Hrest as (e & ->). split; [exact Hf1|reflexivity].
Qed.

(* ------------------------------------------------------------------------------------------- *)
(* 6. every builder call computes Builder.eval_bop; whole programs *)

Theorem gen_bop_spec n h refs os Fs o : rep_objs h refs os Fs -> (os_depth os <= n)%nat ->
  runs (gen_bop (tknot n) refs o) h (step_post h (eval_bop os o)).
Proof.
  intros Hobjs Hd.
  assert (Hnth : forall i, exists F, rep_obj h (nthv refs i) (nth i os OErr) F /\ (odepth (nth i os OErr) <= n)%nat).
  { intros i. destruct (rep_objs_nth _ _ _ _ i Hobjs) as (F & HF). exists F. split; [exact HF|]. pose proof (os_depth_nth os i). lia. }
  destruct o as [tr|s iv|ms|i off|i tr|i tr|i lo hi|i f|fs|fs|f|lo hi|s|s|s]; cbn [gen_bop].
  - apply gen_time_spec.
  - apply gen_interval_spec.
  - eapply gen_group_spec; eassumption.
  - destruct (Hnth i) as (F & Hr & Hdi).
    assert (E : eval_bop os (BOffset i off) = match nth i os OErr with OTrig p => OTrig (POffset p off None) | _ => OErr end)
      by (cbn [eval_bop]; rewrite get_trig_nth; destruct (nth i os OErr); reflexivity).
    rewrite E. eapply gen_offset_spec; eassumption.
  - destruct (Hnth i) as (F & Hr & Hdi).
    assert (E : eval_bop os (BEarliest i tr) = match nth i os OErr with OTrig p => OTrig (PEarliest p tr None) | _ => OErr end)
      by (cbn [eval_bop]; rewrite get_trig_nth; destruct (nth i os OErr); reflexivity).
    rewrite E. eapply gen_earliest_spec; eassumption.
  - destruct (Hnth i) as (F & Hr & Hdi).
    assert (E : eval_bop os (BLatest i tr) = match nth i os OErr with OTrig p => OTrig (PLatest p tr None) | _ => OErr end)
      by (cbn [eval_bop]; rewrite get_trig_nth; destruct (nth i os OErr); reflexivity).
    rewrite E. eapply gen_latest_spec; eassumption.
  - destruct (Hnth i) as (F & Hr & Hdi).
    assert (E : eval_bop os (BJitter i lo hi) =
                match nth i os OErr with OTrig p => if lo <? hi then OTrig (PJitter p lo hi None) else OErr | _ => OErr end)
      by (cbn [eval_bop]; rewrite get_trig_nth; destruct (nth i os OErr); reflexivity).
    rewrite E. eapply gen_jitter_spec; eassumption.
  - destruct (Hnth i) as (F & Hr & Hdi). destruct (Hnth f) as (F2 & Hr2 & Hdf).
    assert (E : eval_bop os (BOnlyOn i f) =
                match nth i os OErr, nth f os OErr with
                | OTrig p, OFilt g => match top_filter p with None => OTrig (set_top_filter p (Some g)) | Some _ => OErr end
                | _, _ => OErr
                end)
      by (cbn [eval_bop]; rewrite get_trig_nth, get_filt_nth; destruct (nth i os OErr), (nth f os OErr); reflexivity).
    rewrite E. eapply gen_only_on_spec; eassumption.
  - eapply gen_any_spec; eassumption.
  - eapply gen_all_spec; eassumption.
  - destruct (Hnth f) as (F & Hr & Hdi).
    assert (E : eval_bop os (FbNot f) = match nth f os OErr with OFilt g => OFilt (FNot g) | _ => OErr end)
      by (cbn [eval_bop]; rewrite get_filt_nth; destruct (nth f os OErr); reflexivity).
    rewrite E. eapply gen_not_spec; eassumption.
  - apply gen_ftime_spec.
  - apply gen_weekdays_spec.
  - apply gen_days_spec.
  - apply gen_months_spec.
Qed.

Lemma os_depth_app a b : os_depth (a ++ b) = Nat.max (os_depth a) (os_depth b).
Proof. unfold os_depth. induction a as [|x t IH]; cbn [app fold_right]; [reflexivity|]. rewrite IH. lia. Qed.

Lemma gen_run_snoc n ops o : gen_run n (ops ++ [o]) = gen_step n (gen_run n ops) o.
Proof. unfold gen_run. rewrite fold_left_app. reflexivity. Qed.

(* running MORE calls after a program: the heap of before is a prefix-wise unchanged part of the heap of after, the
   objects of before are still held and represent what they represented, the new objects live in new cells *)
Theorem gen_run_extends n ops h refs Fs :
  gen_run n ops = Some (h, refs) -> rep_objs h refs (run_prog ops) Fs -> NoDup Fs ->
  forall more, (os_depth (run_prog (ops ++ more)) <= n)%nat ->
  exists h' refs2 Fs2, gen_run n (ops ++ more) = Some (h', refs ++ refs2) /\ frame h h' /\
    rep_objs h' (refs ++ refs2) (run_prog (ops ++ more)) (Fs ++ Fs2) /\ NoDup (Fs ++ Fs2) /\ within (len h) (len h') Fs2.
Proof.
  intros Hrun Hobjs Hnd more. induction more as [|o more IH] using rev_ind; intros Hd.
  - exists h, [], []. rewrite !app_nil_r. split; [exact Hrun|]. split; [apply frame_refl|]. split; [exact Hobjs|].
    split; [exact Hnd|constructor].
  - rewrite app_assoc in Hd |- *. rewrite run_prog_snoc in Hd |- *. rewrite os_depth_app in Hd.
    destruct IH as (h1 & refs1 & Fs1 & Hrun1 & Hf1 & Hobjs1 & Hnd1 & Hw1); [lia|].
    destruct (gen_bop_spec n h1 (refs ++ refs1) _ _ o Hobjs1) as (h2 & r & Er & Hf2 & Hpost); [lia|].
    pose proof (frame_len _ _ Hf1). pose proof (frame_len _ _ Hf2).
    assert (Hold : within 0 (len h1) (Fs ++ Fs1)) by (eapply rep_objs_within; exact Hobjs1).
    rewrite gen_run_snoc, Hrun1. cbn [gen_step]. rewrite Er.
    destruct r as [v|e].
    + destruct Hpost as (_ & F & Hrv & Hwv & Hnv).
      exists h2, (refs1 ++ [v]), (Fs1 ++ F). rewrite !app_assoc. split; [reflexivity|]. split; [eapply frame_trans; eassumption|].
      split; [|split].
      * apply rep_objs_snoc; [eapply rep_objs_frame; eassumption|exact Hrv].
      * eapply NoDup_app_sep; eassumption.
      * apply within_app; eapply within_mono; try eassumption; lia.
    + exists h2, (refs1 ++ [VNone]), (Fs1 ++ []). rewrite !app_assoc. split; [reflexivity|]. split; [eapply frame_trans; eassumption|].
      rewrite Hpost. split; [|split].
      * apply rep_objs_snoc; [eapply rep_objs_frame; eassumption|constructor].
      * rewrite app_nil_r. exact Hnd1.
      * rewrite app_nil_r. eapply within_mono; [exact Hw1|lia|lia].
Qed.

(* THE TIE: a whole builder program, run through the generated builder API on the heap, yields objects that
   represent exactly what Builder.run_prog computes - and no two of them share a cell, each is a tree *)
Theorem gen_run_is_model ops n : (os_depth (run_prog ops) <= n)%nat ->
  exists h refs Fs, gen_run n ops = Some (h, refs) /\ rep_objs h refs (run_prog ops) Fs /\ NoDup Fs.
Proof.
  intros Hd. destruct (gen_run_extends n [] [] [] [] eq_refl (ROs_nil _) (NoDup_nil _) ops Hd) as (h & refs & Fs & H1 & _ & H2 & H3 & _).
  exists h, refs, Fs. cbn [app] in *. auto.
Qed.

(* BuilderFacts.builder_noninterference / builder_object_stable for the generated code: whatever is called later, every
   heap cell that existed is unchanged and every object held before represents the value it represented *)
Theorem gen_builder_noninterference n ops more :
  (os_depth (run_prog (ops ++ more)) <= n)%nat ->
  exists h refs Fs h' refs',
    gen_run n ops = Some (h, refs) /\ gen_run n (ops ++ more) = Some (h', refs') /\
    frame h h' /\ firstn (len refs) refs' = refs /\
    rep_objs h refs (run_prog ops) Fs /\ rep_objs h' refs (run_prog ops) Fs /\
    run_prog ops = firstn (len ops) (run_prog (ops ++ more)).
Proof.
  intros Hd. assert (Hd0 : (os_depth (run_prog ops) <= n)%nat).
  { rewrite <- (builder_noninterference ops more). revert Hd. generalize (run_prog (ops ++ more)) (List.length ops).
    intros l k. rewrite <- (firstn_skipn k l) at 1. rewrite os_depth_app. lia. }
  destruct (gen_run_is_model ops n Hd0) as (h & refs & Fs & Hrun & Hobjs & Hnd).
  destruct (gen_run_extends n ops h refs Fs Hrun Hobjs Hnd more Hd) as (h' & refs2 & Fs2 & Hrun' & Hf & _).
  exists h, refs, Fs, h', (refs ++ refs2). split; [exact Hrun|]. split; [exact Hrun'|]. split; [exact Hf|].
  split; [|split; [exact Hobjs|split; [eapply rep_objs_frame; eassumption|]]].
  - unfold len. rewrite firstn_app, firstn_all, Nat.sub_diag. cbn. apply app_nil_r.
  - symmetry. apply builder_noninterference.
Qed.

(* ------------------------------------------------------------------------------------------- *)
(* 7. a cell represents at most one value (so "represents the same value" means: structurally equal) *)

Lemma map_VRef_inj l l' : map VRef l = map VRef l' -> l = l'.
Proof. revert l'; induction l as [|a t IH]; intros [|b t'] H; try discriminate; [reflexivity|]. injection H as -> H. f_equal. apply IH. exact H. Qed.
Lemma map_VZ_inj l l' : map VZ l = map VZ l' -> l = l'.
Proof. revert l'; induction l as [|a t IH]; intros [|b t'] H; try discriminate; [reflexivity|]. injection H as -> H. f_equal. apply IH. exact H. Qed.
Lemma v_optz_inj a b : v_optz a = v_optz b -> a = b.
Proof. destruct a, b; cbn; intros H; try discriminate; [injection H as ->|]; reflexivity. Qed.
Lemma fld_inj sl n v w : fld sl n v -> fld sl n w -> v = w.
Proof. unfold fld. intros H1 H2. rewrite H1 in H2. injection H2 as ->. reflexivity. Qed.

Lemma rep_list_det {T} (R : addr -> T -> list addr -> Prop) l xs Fs :
  rep_list (fun a x F => forall x' F', R a x' F' -> x = x' /\ F = F') l xs Fs ->
  forall xs' Fs', rep_list R l xs' Fs' -> xs = xs' /\ Fs = Fs'.
Proof.
  induction 1 as [|a x F l xs Fs Ha Hl IH]; intros xs' Fs' H'; inversion H' as [|a' x' F'' l' xs'' Fs'' Ha' Hl']; subst;
    [split; reflexivity|].
  destruct (Ha _ _ Ha') as [-> ->]. destruct (IH _ _ Hl') as [-> ->]. split; reflexivity.
Qed.

Ltac same_cell :=
  match goal with
  | H1 : cell ?h ?a _ _, H2 : cell ?h ?a _ _ |- _ =>
      let Ec := fresh in let Es := fresh in
      destruct (cell_inj _ _ _ _ _ _ H1 H2) as [Ec Es]; try discriminate Ec; subst; clear H2
  end.
(* two reads of one slot: the values are equal; constructors are peeled off *)
Ltac same_fld n :=
  match goal with
  | H1 : fld ?sl n _, H2 : fld ?sl n _ |- _ =>
      let E := fresh "E" in pose proof (fld_inj _ _ _ _ H1 H2) as E; clear H2;
      first [ injection E as E; first [apply map_VRef_inj in E | apply map_VZ_inj in E | idtac]
            | apply v_optz_inj in E | idtac ]; try subst
  end.
Ltac by_list_det R :=
  match goal with
  | IHl : rep_list (fun a x F => forall x' F', _) ?l _ _, Hl' : rep_list _ ?l _ _ |- _ =>
      let A := fresh in let B := fresh in destruct (rep_list_det R _ _ _ IHl _ _ Hl') as [A B]; subst
  end.

Theorem rep_filt_det h a f F : rep_filt h a f F -> forall f' F', rep_filt h a f' F' -> f = f' /\ F = F'.
Proof.
  intros H. induction H using rep_filt_ind'; intros f' F' H'; inversion H'; subst; same_cell.
  - same_fld "_filters". by_list_det (rep_filt h). split; reflexivity.
  - same_fld "_filters". by_list_det (rep_filt h). split; reflexivity.
  - same_fld "_filter". repeat match goal with Hg : rep_filt h _ _ _ |- _ => apply IHrep_filt in Hg; destruct Hg as [? ?] end.
    subst. split; reflexivity.
  - same_fld "_lower". same_fld "_upper". split; reflexivity.
  - same_fld "_weekdays". split; reflexivity.
  - same_fld "_days". split; reflexivity.
  - same_fld "_months". split; reflexivity.
Qed.

Lemma rep_ofilt_det h v o F o' F' : rep_ofilt h v o F -> rep_ofilt h v o' F' -> o = o' /\ F = F'.
Proof.
  intros H1 H2. inversion H1; subst; inversion H2; subst; [split; reflexivity|].
  match goal with A : rep_filt h ?a _ _, B : rep_filt h ?a _ _ |- _ => destruct (rep_filt_det _ _ _ _ A _ _ B) as [-> ->] end.
  split; reflexivity.
Qed.

Lemma rep_tr_det h a tr tr' : rep_tr h a tr -> rep_tr h a tr' -> tr = tr'.
Proof.
  intros (sl & Hc & A1 & A2 & A3) (sl' & Hc' & B1 & B2 & B3). destruct (cell_inj _ _ _ _ _ _ Hc Hc') as [_ <-].
  pose proof (fld_inj _ _ _ _ A1 B1) as E1. pose proof (fld_inj _ _ _ _ A2 B2) as E2. pose proof (fld_inj _ _ _ _ A3 B3) as E3.
  destruct tr, tr'; cbn in *. congruence.
Qed.

Ltac fin_det :=
  repeat match goal with
  | H1 : rep_tr ?h ?a _, H2 : rep_tr ?h ?a _ |- _ => pose proof (rep_tr_det _ _ _ _ H1 H2); clear H2
  | H1 : rep_ofilt ?h ?v _ _, H2 : rep_ofilt ?h ?v _ _ |- _ =>
      let A := fresh in let B := fresh in destruct (rep_ofilt_det _ _ _ _ _ _ H1 H2) as [A B]; clear H2
  end; subst; split; reflexivity.

Theorem rep_prod_det h a p F : rep_prod h a p F -> forall p' F', rep_prod h a p' F' -> p = p' /\ F = F'.
Proof.
  intros H. induction H using rep_prod_ind'; intros p' F' H'; inversion H'; subst; same_cell.
  - same_fld "_time". same_fld "_filter". fin_det.
  - same_fld "_next". same_fld "_interval". same_fld "_filter". fin_det.
  - same_fld "_producers". by_list_det (rep_prod h). same_fld "_filter". fin_det.
  - same_fld "_producer". repeat match goal with Hg : rep_prod h _ _ _ |- _ => apply IHrep_prod in Hg; destruct Hg as [? ?] end.
    same_fld "offset". same_fld "_filter". fin_det.
  - same_fld "_producer". repeat match goal with Hg : rep_prod h _ _ _ |- _ => apply IHrep_prod in Hg; destruct Hg as [? ?] end.
    same_fld "earliest". same_fld "_filter". fin_det.
  - same_fld "_producer". repeat match goal with Hg : rep_prod h _ _ _ |- _ => apply IHrep_prod in Hg; destruct Hg as [? ?] end.
    same_fld "latest". same_fld "_filter". fin_det.
  - same_fld "_producer". repeat match goal with Hg : rep_prod h _ _ _ |- _ => apply IHrep_prod in Hg; destruct Hg as [? ?] end.
    same_fld "low". same_fld "high". same_fld "_filter". fin_det.
Qed.

Theorem rep_obj_det h v o F : rep_obj h v o F -> forall o' F', rep_obj h v o' F' -> o = o' /\ F = F'.
Proof.
  intros H o' F' H'. inversion H; subst; inversion H'; subst; try same_cell; [| |split; reflexivity].
  - same_fld "_producer". match goal with A : rep_prod h ?a _ _, B : rep_prod h ?a _ _ |- _ => destruct (rep_prod_det _ _ _ _ A _ _ B) as [-> ->] end.
    split; reflexivity.
  - same_fld "_filter". match goal with A : rep_filt h ?a _ _, B : rep_filt h ?a _ _ |- _ => destruct (rep_filt_det _ _ _ _ A _ _ B) as [-> ->] end.
    split; reflexivity.
Qed.

(* ------------------------------------------------------------------------------------------- *)
(* 8. the statements in the form the property file uses *)

Definition disjoint (A B : list addr) : Prop := forall x, In x A -> ~ In x B.

Lemma within_disjoint lo mid hi A B : within lo mid A -> within mid hi B -> disjoint A B.
Proof. intros HA HB x Ha Hb. pose proof (within_In _ _ _ _ HA Ha). pose proof (within_In _ _ _ _ HB Hb). lia. Qed.

(* `x.copy()` on the object at address a, with n units of fuel for the nested dynamic calls *)
Definition call_copy (n : nat) (a : addr) : TM val := r_call (tknot n) "copy" (VRef a) [].

(* `p.copy()`: structurally equal (represents the same model value; by [rep_prod_det] the only one), shares no cell
   with the original, is a tree, and leaves the original (every existing cell) as it was *)
Theorem gen_copy_producer n h a p F : rep_prod h a p F -> (pdepth p <= n)%nat ->
  exists h' a' F', call_copy n a h = Some (h', TRet (VRef a')) /\
    frame h h' /\ rep_prod h' a' p F' /\ rep_prod h' a p F /\ disjoint F F' /\ NoDup F'.
Proof.
  intros Hr Hd. destruct (copy_prod_spec n p Hd h a F Hr) as (h' & r & E & a' & F' & -> & Hf & Hr' & Hw & Hn).
  exists h', a', F'. split; [exact E|]. split; [exact Hf|]. split; [exact Hr'|]. split; [eapply rep_prod_frame; eassumption|].
  split; [|exact Hn]. eapply within_disjoint; [eapply rep_prod_within; exact Hr|exact Hw].
Qed.

Theorem gen_copy_filter n h a f F : rep_filt h a f F -> (fdepth f <= n)%nat ->
  exists h' a' F', call_copy n a h = Some (h', TRet (VRef a')) /\
    frame h h' /\ rep_filt h' a' f F' /\ rep_filt h' a f F /\ disjoint F F' /\ NoDup F'.
Proof.
  intros Hr Hd. destruct (copy_filt_spec n f Hd h a F Hr) as (h' & r & E & a' & F' & -> & Hf & Hr' & Hw & Hn).
  exists h', a', F'. split; [exact E|]. split; [exact Hf|]. split; [exact Hr'|]. split; [eapply rep_filt_frame; eassumption|].
  split; [|exact Hn]. eapply within_disjoint; [eapply rep_filt_within; exact Hr|exact Hw].
Qed.

(* what JobBuilder.at stores (`_get_producer(trigger)`): jobs built from one trigger object get disjoint copies *)
Theorem gen_get_producer_twice n h v p F : rep_obj h v (OTrig p) F -> (pdepth p <= n)%nat ->
  exists h1 a1 F1 h2 a2 F2,
    g__get_producer (tknot n) v h = Some (h1, TRet (VRef a1)) /\ g__get_producer (tknot n) v h1 = Some (h2, TRet (VRef a2)) /\
    rep_prod h2 a1 p F1 /\ rep_prod h2 a2 p F2 /\ rep_obj h2 v (OTrig p) F /\
    disjoint F F1 /\ disjoint F F2 /\ disjoint F1 F2.
Proof.
  intros Hr Hd. destruct (get_producer_ok n h v p F Hr Hd) as (h1 & r & E1 & a1 & F1 & -> & Hf1 & Hr1 & Hw1 & Hn1).
  pose proof (rep_obj_frame _ _ _ _ _ Hr Hf1) as Hr'.
  destruct (get_producer_ok n h1 v p F Hr' Hd) as (h2 & r & E2 & a2 & F2 & -> & Hf2 & Hr2 & Hw2 & Hn2).
  pose proof (frame_len _ _ Hf1). pose proof (rep_obj_within _ _ _ _ Hr) as Hw.
  exists h1, a1, F1, h2, a2, F2. split; [exact E1|]. split; [exact E2|]. split; [eapply rep_prod_frame; eassumption|].
  split; [exact Hr2|]. split; [eapply rep_obj_frame; eassumption|]. split; [|split].
  - eapply within_disjoint; eassumption.
  - eapply (within_disjoint 0%nat (len h) (len h2)); [exact Hw|]. eapply within_mono; [exact Hw2|lia|lia].
  - eapply within_disjoint; eassumption.
Qed.

Lemma rep_objs_len h vs os Fs : rep_objs h vs os Fs -> len vs = len os.
Proof. induction 1; cbn; [reflexivity|]. unfold len in *. cbn. congruence. Qed.

(* BuilderFacts.only_on_leaves_receiver for the generated code *)
Theorem gen_only_on_leaves_receiver n ops i f p :
  (os_depth (run_prog (ops ++ [BOnlyOn i f])) <= n)%nat -> get_trig (run_prog ops) i = Some p ->
  exists h refs h' refs' F,
    gen_run n ops = Some (h, refs) /\ gen_run n (ops ++ [BOnlyOn i f]) = Some (h', refs') /\ frame h h' /\
    nthv refs' i = nthv refs i /\ rep_obj h (nthv refs i) (OTrig p) F /\ rep_obj h' (nthv refs' i) (OTrig p) F.
Proof.
  intros Hd Hg. destruct (gen_builder_noninterference n ops [BOnlyOn i f] Hd) as (h & refs & Fs & h' & refs' & R1 & R2 & Hf & Hfn & Ho & Ho' & _).
  destruct (rep_objs_nth _ _ _ _ i Ho) as (F & HF). rewrite get_trig_nth in Hg.
  destruct (nth i (run_prog ops) OErr) as [q| |] eqn:En; try discriminate. injection Hg as ->.
  assert (Hi : (i < len refs)%nat).
  { rewrite (rep_objs_len _ _ _ _ Ho). destruct (Nat.lt_ge_cases i (len (run_prog ops))) as [Hl|Hl]; [exact Hl|].
    unfold len in Hl. rewrite (nth_overflow _ _ Hl) in En. discriminate. }
  assert (Hfirst : forall k (l : list val) j, (j < k)%nat -> nth j (firstn k l) VNone = nth j l VNone).
  { induction k as [|k IH]; intros l j Hj; [lia|]. destruct l as [|x t]; [destruct j; reflexivity|].
    destruct j as [|j]; [reflexivity|]. cbn [firstn nth]. apply IH. lia. }
  assert (Hn : nthv refs' i = nthv refs i).
  { unfold nthv. rewrite <- (Hfirst (len refs) refs' i Hi). rewrite Hfn. reflexivity. }
  exists h, refs, h', refs', F. rewrite Hn. repeat (split; [first [assumption|reflexivity]|]). eapply rep_obj_frame; eassumption.
Qed.

(* ------------------------------------------------------------------------------------------- *)
(* 9. an executable reading of the heap and a concrete program (the hypotheses are satisfiable) *)

Definition as_refs (v : val) : option (list addr) :=
  match v with VTuple l => all_some (map (fun x => match x with VRef a => Some a | _ => None end) l) | _ => None end.
Definition as_zs (v : val) : option (list Z) :=
  match v with VTuple l => all_some (map (fun x => match x with VZ z => Some z | _ => None end) l) | _ => None end.
Definition as_optz (v : val) : option (option Z) := match v with VNone => Some None | VZ z => Some (Some z) | _ => None end.

Fixpoint reify_filt (fuel : nat) (h : heap) (a : addr) : option filt :=
  match fuel with
  | O => None
  | S k =>
      match nth_error h a with
      | None => None
      | Some ob =>
          let sl := oslots ob in
          match ocls ob with
          | C_AnyGroupProducerFilter =>
              match option_map as_refs (get_slot sl "_filters") with
              | Some (Some l) => option_map FAny (all_some (map (reify_filt k h) l)) | _ => None end
          | C_AllGroupProducerFilter =>
              match option_map as_refs (get_slot sl "_filters") with
              | Some (Some l) => option_map FAll (all_some (map (reify_filt k h) l)) | _ => None end
          | C_InvertingProducerFilter =>
              match get_slot sl "_filter" with Some (VRef b) => option_map FNot (reify_filt k h b) | _ => None end
          | C_TimeProducerFilter =>
              match option_map as_optz (get_slot sl "_lower"), option_map as_optz (get_slot sl "_upper") with
              | Some (Some lo), Some (Some hi) => Some (FTime lo hi) | _, _ => None end
          | C_DayOfWeekProducerFilter =>
              match option_map as_zs (get_slot sl "_weekdays") with Some (Some s) => Some (FWeekday s) | _ => None end
          | C_DayOfMonthProducerFilter =>
              match option_map as_zs (get_slot sl "_days") with Some (Some s) => Some (FDay s) | _ => None end
          | C_MonthOfYearProducerFilter =>
              match option_map as_zs (get_slot sl "_months") with Some (Some s) => Some (FMonth s) | _ => None end
          | _ => None
          end
      end
  end.

Definition reify_ofilt (fuel : nat) (h : heap) (v : option val) : option (option filt) :=
  match v with
  | Some VNone => Some None
  | Some (VRef a) => option_map Some (reify_filt fuel h a)
  | _ => None
  end.

Definition reify_tr (h : heap) (v : option val) : option treplacer :=
  match v with
  | Some (VRef a) =>
      match nth_error h a with
      | Some ob =>
          match ocls ob, get_slot (oslots ob) "_time", get_slot (oslots ob) "_skipped", get_slot (oslots ob) "_repeated" with
          | C_TimeReplacer, Some (VZ t), Some (VSk s), Some (VRp r) => Some {| tr_tod := t; tr_sk := s; tr_rp := r |}
          | _, _, _, _ => None
          end
      | None => None
      end
  | _ => None
  end.

Fixpoint reify_prod (fuel : nat) (h : heap) (a : addr) : option producer :=
  match fuel with
  | O => None
  | S k =>
      match nth_error h a with
      | None => None
      | Some ob =>
          let sl := oslots ob in
          let sub := match get_slot sl "_producer" with Some (VRef b) => reify_prod k h b | _ => None end in
          match reify_ofilt k h (get_slot sl "_filter") with
          | None => None
          | Some f =>
              match ocls ob with
              | C_TimeProducer => option_map (fun tr => PTime tr f) (reify_tr h (get_slot sl "_time"))
              | C_IntervalProducer =>
                  match option_map as_optz (get_slot sl "_next"), get_slot sl "_interval" with
                  | Some (Some s), Some (VZ iv) => Some (PInterval 0 s iv f) | _, _ => None end
              | C_GroupProducer =>
                  match option_map as_refs (get_slot sl "_producers") with
                  | Some (Some l) => option_map (fun ps => PGroup ps f) (all_some (map (reify_prod k h) l)) | _ => None end
              | C_OffsetProducerOperation =>
                  match sub, get_slot sl "offset" with Some p, Some (VZ o) => Some (POffset p o f) | _, _ => None end
              | C_EarliestProducerOperation =>
                  match sub, reify_tr h (get_slot sl "earliest") with Some p, Some tr => Some (PEarliest p tr f) | _, _ => None end
              | C_LatestProducerOperation =>
                  match sub, reify_tr h (get_slot sl "latest") with Some p, Some tr => Some (PLatest p tr f) | _, _ => None end
              | C_JitterProducerOperation =>
                  match sub, get_slot sl "low", get_slot sl "high" with
                  | Some p, Some (VZ lo), Some (VZ hi) => Some (PJitter p lo hi f) | _, _, _ => None end
              | _ => None
              end
          end
      end
  end.

Definition reify_obj (fuel : nat) (h : heap) (v : val) : option obj :=
  match v with
  | VNone => Some OErr
  | VRef a =>
      match nth_error h a with
      | Some ob =>
          match ocls ob with
          | C_TriggerObject => match get_slot (oslots ob) "_producer" with Some (VRef b) => option_map OTrig (reify_prod fuel h b) | _ => None end
          | C_FilterObject => match get_slot (oslots ob) "_filter" with Some (VRef b) => option_map OFilt (reify_filt fuel h b) | _ => None end
          | _ => None
          end
      | None => None
      end
  | _ => None
  end.

Definition example_tr : treplacer := {| tr_tod := 28800000000000; tr_sk := SkLater; tr_rp := RpEarlier |}.
Definition example_prog : list bop :=
  [ BTime example_tr; FbWeekday [1; 2; 3]; BOnlyOn 0 1; BOffset 2 3600000000000; BInterval (Some 1000) 60000000000;
    BGroup [3; 4; 0]%nat; FbTime (Some 10) None; FbAny [1; 6]%nat; FbNot 7; BOnlyOn 5 8;
    BOnlyOn 2 1 (* ValueError: has a filter *); BJitter 9 5 2 (* ValueError *); BJitter 9 (-5) 20; BEarliest 12 example_tr;
    BGroup [1]%nat (* TypeError *); FbTime None None (* ValueError *); BLatest 13 example_tr; FbAll [8; 1]%nat;
    BOffset 1 5 (* AttributeError *); FbNot 0 (* TypeError *) ].

(* the generated builder, run on the heap and read back, gives exactly Builder.run_prog - errors included *)
Example gen_run_example :
  option_map (fun st => map (reify_obj 12 (fst st)) (snd st)) (gen_run 12 example_prog) = Some (map Some (run_prog example_prog)).
Proof. vm_compute. reflexivity. Qed.

Example gen_run_example_depth : (os_depth (run_prog example_prog) <= 12)%nat.
Proof. vm_compute. lia. Qed.

(* the receiver of only_on (object 0) is the same cell graph before and after the 19 later calls *)
Example gen_run_example_stable :
  exists h refs Fs h' refs',
    gen_run 12 (firstn 2 example_prog) = Some (h, refs) /\ gen_run 12 example_prog = Some (h', refs') /\
    frame h h' /\ rep_objs h' refs (run_prog (firstn 2 example_prog)) Fs.
Proof.
  destruct (gen_builder_noninterference 12 (firstn 2 example_prog) (skipn 2 example_prog)) as (h & refs & Fs & h' & refs' & A & B & C & _ & _ & D & _).
  - rewrite firstn_skipn. exact gen_run_example_depth.
  - rewrite firstn_skipn in B. exists h, refs, Fs, h', refs'. auto.
Qed.

(* the translator recognised the whole source (otherwise GenTrig.v has no definitions and this file does not compile) *)
Lemma gen_trig_recognised : gen_trig_status_v = GenTrigOk.
Proof. reflexivity. Qed.
