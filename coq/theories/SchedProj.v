(* SchedProj.v — C02 / C03: the scheduler as a product of independent single-job machines.
   [proj k s]  : what job k can observe of a scheduler state (its record, the clock, the enabled flag,
                 the number of jobs created so far, and its own sub-log with the operation index erased).
   [step1]     : a single-job machine on projections that looks at nothing else.
   This file: definitions, the log algebra, and the SHAPE of the re-entrant core seen through [proj k]:
   every call of one of the six core functions executes job k zero or more times, each time while it is
   due ([reach1]); it does not touch k at all while k is taken out of the queue.  No assumption on the
   triggers (they may answer in the tolerated past or raise), every amount of fuel. *)
From EAS Require Import Base BaseFacts Sched SchedInv SchedApi.
From EASGen Require Import Generated.
From Coq Require Import Sorted.

(* events attributed to job k: its starts, its callbacks, its trigger queries, failures of its callable
   and of its execute().  Failures of callbacks (HCb) and of the loop (HLoop) carry no job. *)
Definition mine (k : nat) (e : event) : bool :=
  match e with
  | EExec j _ _ _ => Nat.eqb j k
  | ECbUpd j _ _ _ => Nat.eqb j k
  | ECbFin j _ => Nat.eqb j k
  | EProd j => Nat.eqb j k
  | EHandler (HExec j) => Nat.eqb j k
  | EHandler (HJob j) => Nat.eqb j k
  | EHandler _ => false
  end.
(* the index of the API operation in progress is global: erased *)
Definition erase (e : event) : event :=
  match e with EExec j a b _ => EExec j a b O | _ => e end.
Definition klog (k : nat) (l : list event) : list event := map erase (filter (mine k) l).

Record pst := {
  pj   : job;
  pnow : Z;
  pen  : bool;
  pnj  : nat;
  plog : list event
}.

Definition proj (k : nat) (s : st) : pst :=
  {| pj := jobs s k; pnow := now s; pen := enabled s; pnj := njobs s; plog := klog k (log s) |}.

Definition p_job v p := {| pj := v; pnow := pnow p; pen := pen p; pnj := pnj p; plog := plog p |}.
Definition p_now v p := {| pj := pj p; pnow := v; pen := pen p; pnj := pnj p; plog := plog p |}.
Definition p_en v p := {| pj := pj p; pnow := pnow p; pen := v; pnj := pnj p; plog := plog p |}.
Definition p_nj v p := {| pj := pj p; pnow := pnow p; pen := pen p; pnj := v; plog := plog p |}.
Definition p_log v p := {| pj := pj p; pnow := pnow p; pen := pen p; pnj := pnj p; plog := v |}.
Definition ev1 e p := p_log (e :: plog p) p.

(* JobCallbackHandler.run seen by the job: one event per callback, registration order (log is newest first) *)
Definition cbs1 (mk : nat -> event) (cbs : list nat) (p : pst) : pst :=
  p_log (rev (map mk cbs) ++ plog p) p.

Definition snr1 (k : nat) (nx : option Z) (p : pst) : pst :=
  let b := pj p in
  let stt := match nx with None => Paused | Some _ => Running end in
  cbs1 (fun cb => ECbUpd k cb stt nx) (jcbu b) (p_job (with_status_next b stt nx) p).

Definition fin1 (k : nat) (p : pst) : pst :=
  let b := pj p in
  cbs1 (fun cb => ECbFin k cb) (jcbf b) (p_job (with_linked (with_status_next b Finished None) false) p).

Definition too_old1 (p : pst) (t : Z) : bool := t <? pnow p - past_tolerance_ns.

Definition due1 (p : pst) : bool :=
  pen p && status_eqb (jstatus (pj p)) Running &&
  match jnext (pj p) with Some t => t <=? pnow p | None => false end.

Section One.
Variable E : env.

(* job.execute() of job k, on its projection *)
Definition exec1 (k : nat) (p : pst) : pst :=
  match jnext (pj p) with
  | None => p
  | Some t =>
    let c := count_exec k (plog p) in
    let p := ev1 (EExec k (pnow p) t O) p in
    let p := if fail_exec E k c then ev1 (EHandler (HExec k)) p else p in
    match jkind (pj p) with
    | KOnce => fin1 k p
    | KCountdown => snr1 k None p
    | KAt =>
        let kp := count_prod k (plog p) in
        let p := ev1 (EProd k) p in
        match prod E k kp (pnow p) with
        | Ok v => if too_old1 p v then ev1 (EHandler (HJob k)) p else snr1 k (Some v) p
        | Raise _ => ev1 (EHandler (HJob k)) p
        | OutOfFuel => p
        end
    end
  end.

(* run_jobs seen by job k: executed while it is due, at most g times *)
Fixpoint flush (g : nat) (k : nat) (p : pst) : pst :=
  match g with
  | O => p
  | S g' => if due1 p then flush g' k (exec1 k p) else p
  end.

(* k is executed zero or more times, each time while it is due *)
Inductive reach1 (k : nat) : pst -> pst -> Prop :=
  | r_refl p : reach1 k p p
  | r_step p q : due1 p = true -> reach1 k (exec1 k p) q -> reach1 k p q.

Lemma reach1_trans k p q r : reach1 k p q -> reach1 k q r -> reach1 k p r.
Proof. induction 1; intros H2; [exact H2|]. eapply r_step; [assumption|]. apply IHreach1. exact H2. Qed.

Lemma reach1_not_due k p q : reach1 k p q -> due1 p = false -> q = p.
Proof. destruct 1; intros Hd; [reflexivity|congruence]. Qed.

Lemma reach1_flush k p q : reach1 k p q -> due1 q = false ->
  exists n, forall g, (n <= g)%nat -> flush g k p = q.
Proof.
  induction 1 as [p|p q Hd H IH]; intros Hq.
  - exists O. intros g _. destruct g; [reflexivity|]. cbn [flush]. rewrite Hq. reflexivity.
  - destruct (IH Hq) as (n & Hn). exists (S n). intros g Hg.
    destruct g as [|g]; [lia|]. cbn [flush]. rewrite Hd. apply Hn. lia.
Qed.

(* the final state is determined *)
Lemma reach1_det k p q q' : reach1 k p q -> reach1 k p q' -> due1 q = false -> due1 q' = false -> q = q'.
Proof.
  intros H1 H2 D1 D2.
  destruct (reach1_flush _ _ _ H1 D1) as (n1 & F1). destruct (reach1_flush _ _ _ H2 D2) as (n2 & F2).
  rewrite <- (F1 (n1 + n2)%nat) by lia. apply F2. lia.
Qed.

End One.

(* ------------------------------------------------------------------------------------------- *)
(* log algebra *)
Lemma klog_cons k e l : klog k (e :: l) = if mine k e then erase e :: klog k l else klog k l.
Proof. unfold klog. cbn [filter]. destruct (mine k e); reflexivity. Qed.

Lemma klog_app k l1 l2 : klog k (l1 ++ l2) = klog k l1 ++ klog k l2.
Proof. unfold klog. rewrite filter_app, map_app. reflexivity. Qed.

Lemma count_exec_klog k l : count_exec k (klog k l) = count_exec k l.
Proof.
  induction l as [|e t IH]; [reflexivity|]. rewrite klog_cons.
  destruct e as [j a b o|j cb stt nx|j cb|src|j]; cbn [mine count_exec erase].
  - destruct (Nat.eqb j k) eqn:Ejk; cbn [count_exec]; rewrite ?Ejk, IH; reflexivity.
  - destruct (Nat.eqb j k); cbn [count_exec]; exact IH.
  - destruct (Nat.eqb j k); cbn [count_exec]; exact IH.
  - destruct src as [j|cb|j|]; try exact IH; destruct (Nat.eqb j k); cbn [count_exec]; exact IH.
  - destruct (Nat.eqb j k); cbn [count_exec]; exact IH.
Qed.

Lemma count_prod_klog k l : count_prod k (klog k l) = count_prod k l.
Proof.
  induction l as [|e t IH]; [reflexivity|]. rewrite klog_cons.
  destruct e as [j a b o|j cb stt nx|j cb|src|j]; cbn [mine count_prod erase].
  - destruct (Nat.eqb j k); cbn [count_prod]; exact IH.
  - destruct (Nat.eqb j k); cbn [count_prod]; exact IH.
  - destruct (Nat.eqb j k); cbn [count_prod]; exact IH.
  - destruct src as [j|cb|j|]; try exact IH; destruct (Nat.eqb j k); cbn [count_prod]; exact IH.
  - destruct (Nat.eqb j k) eqn:Ejk; cbn [count_prod]; rewrite ?Ejk, IH; reflexivity.
Qed.

Section Pieces.
Variable E : env.

Lemma klog_run_cbs_mine k mk cbs s :
  (forall cb, mine k (mk cb) = true) -> (forall cb, erase (mk cb) = mk cb) ->
  klog k (log (run_cbs E mk cbs s)) = rev (map mk cbs) ++ klog k (log s).
Proof.
  intros Hm He. revert s; induction cbs as [|cb t IH]; intros s; cbn [run_cbs]; [reflexivity|].
  cbv zeta. rewrite IH. cbn [map rev]. rewrite <- app_assoc. f_equal.
  destruct (fail_cb E cb _); cbn [log add_ev set_log]; rewrite ?klog_cons; cbn [mine]; rewrite Hm, He; reflexivity.
Qed.

Lemma klog_run_cbs_other k mk cbs s :
  (forall cb, mine k (mk cb) = false) -> klog k (log (run_cbs E mk cbs s)) = klog k (log s).
Proof.
  intros Hm. revert s; induction cbs as [|cb t IH]; intros s; cbn [run_cbs]; [reflexivity|].
  cbv zeta. rewrite IH.
  destruct (fail_cb E cb _); cbn [log add_ev set_log]; rewrite ?klog_cons; cbn [mine]; rewrite Hm; reflexivity.
Qed.

Lemma proj_set_next_run_same k nx s : proj k (set_next_run E k nx s) = snr1 k nx (proj k s).
Proof.
  destruct (set_next_run_props E k nx s) as (q1 & q2 & q3 & q4 & q5 & q6 & q7 & q8 & q9).
  unfold proj, snr1, cbs1, p_log, p_job. cbn [pj pnow pen pnj plog].
  rewrite q2, q3, q5, q9. unfold upd. rewrite Nat.eqb_refl. f_equal.
  unfold set_next_run. cbv zeta. rewrite klog_run_cbs_mine; [reflexivity| |].
  - intros cb. cbn [mine]. apply Nat.eqb_refl.
  - reflexivity.
Qed.

Lemma proj_set_next_run_other k j nx s : k <> j -> proj k (set_next_run E j nx s) = proj k s.
Proof.
  intros Hne. destruct (set_next_run_props E j nx s) as (q1 & q2 & q3 & q4 & q5 & q6 & q7 & q8 & q9).
  unfold proj. rewrite q2, q3, q5, q9. unfold upd.
  destruct (Nat.eqb_spec k j) as [->|_]; [congruence|]. f_equal.
  unfold set_next_run. cbv zeta. rewrite klog_run_cbs_other; [reflexivity|].
  intros cb. cbn [mine]. apply Nat.eqb_neq. congruence.
Qed.

Lemma klog_finish_job k j s :
  klog k (log (finish_job E j s)) =
  if Nat.eqb j k then rev (map (fun cb => ECbFin j cb) (jcbf (jobs s j))) ++ klog k (log s) else klog k (log s).
Proof.
  unfold finish_job. cbv zeta. destruct (Nat.eqb j k) eqn:Ejk.
  - rewrite klog_run_cbs_mine; [|intros cb; cbn [mine]; exact Ejk|reflexivity].
    destruct (jstored (jobs s j)); reflexivity.
  - rewrite klog_run_cbs_other; [|intros cb; cbn [mine]; exact Ejk].
    destruct (jstored (jobs s j)); reflexivity.
Qed.

Lemma proj_finish_job_same k s : proj k (finish_job E k s) = fin1 k (proj k s).
Proof.
  destruct (finish_job_props E k s) as (q1 & q2 & q3 & q4 & q5 & q6 & q7 & q8).
  unfold proj, fin1, cbs1, p_log, p_job. cbn [pj pnow pen pnj plog].
  rewrite q2, q3, q5, q8, klog_finish_job. unfold upd. rewrite Nat.eqb_refl. reflexivity.
Qed.

Lemma proj_finish_job_other k j s : k <> j -> proj k (finish_job E j s) = proj k s.
Proof.
  intros Hne. destruct (finish_job_props E j s) as (q1 & q2 & q3 & q4 & q5 & q6 & q7 & q8).
  unfold proj. rewrite q2, q3, q5, q8, klog_finish_job. unfold upd.
  destruct (Nat.eqb_spec k j) as [->|_]; [congruence|].
  destruct (Nat.eqb_spec j k) as [->|_]; [congruence|]. reflexivity.
Qed.

Lemma proj_exec_pre_other k j t s : k <> j -> proj k (exec_pre E j t s) = proj k s.
Proof.
  intros Hne. unfold exec_pre. cbv zeta.
  assert (Hjk : Nat.eqb j k = false) by (apply Nat.eqb_neq; congruence).
  destruct (fail_exec E j _); unfold proj; cbn [jobs now enabled njobs log add_ev set_log];
    rewrite ?klog_cons; cbn [mine]; rewrite Hjk; reflexivity.
Qed.

Lemma proj_add_ev k e s : proj k (add_ev e s) = if mine k e then ev1 (erase e) (proj k s) else proj k s.
Proof.
  unfold proj, ev1, p_log. cbn [jobs now enabled njobs log add_ev set_log pj pnow pen pnj plog].
  rewrite klog_cons. destruct (mine k e); reflexivity.
Qed.

(* the queue, the timer, the store, the operation index and the broken flag are invisible *)
Lemma proj_fields k s s' :
  jobs s' k = jobs s k -> now s' = now s -> enabled s' = enabled s -> njobs s' = njobs s -> log s' = log s ->
  proj k s' = proj k s.
Proof. intros a b c d e. unfold proj. rewrite a, b, c, d, e. reflexivity. Qed.

End Pieces.

(* ------------------------------------------------------------------------------------------- *)
(* SHAPE of the re-entrant core through [proj k] *)
Section Shape.
Variable E : env.
Variable k : nat.

(* job k is untouched while it is in [X] (taken out of the queue); in any case it was only executed, while due *)
Definition Shp (X : list nat) (s s' : st) : Prop :=
  (In k X -> proj k s' = proj k s) /\ reach1 E k (proj k s) (proj k s').

Lemma Shp_refl X s s' : proj k s' = proj k s -> Shp X s s'.
Proof. intros H. split; [intros _; exact H|rewrite H; apply r_refl]. Qed.
Lemma Shp_trans X s s1 s2 : Shp X s s1 -> Shp X s1 s2 -> Shp X s s2.
Proof.
  intros (a1 & b1) (a2 & b2). split; [intros Hk; rewrite (a2 Hk); exact (a1 Hk)|].
  eapply reach1_trans; eassumption.
Qed.
Lemma Shp_pre X s0 s s' : proj k s0 = proj k s -> Shp X s0 s' -> Shp X s s'.
Proof. intros H (a & b). split; [intros Hk; rewrite (a Hk); exact H|rewrite <- H; exact b]. Qed.
Lemma Shp_weaken X Y s s' : (forall x, In x Y -> In x X) -> Shp X s s' -> Shp Y s s'.
Proof. intros H (a & b). split; [intros Hk; apply a; apply H; exact Hk|exact b]. Qed.

Definition set_timer_shape (f : nat) : Prop := forall X s s',
  WFq X s -> set_timer E f s = Some s' -> Shp X s s'.
Definition run_jobs_shape (f : nat) : Prop := forall X s s',
  WFq X s -> enabled s = true -> run_jobs E f s = Some s' -> Shp X s s'.
Definition run_loop_shape (f : nat) : Prop := forall X s s',
  WFq X s -> enabled s = true -> Tl s -> run_loop E f s = Some s' -> Shp X s s'.
Definition add_job_shape (f : nat) : Prop := forall X j s s',
  WFq (j :: X) s -> ~ In j (queue s) -> ~ In j X -> add_job E f j s = Some s' -> Shp X s s'.
Definition remove_job_shape (f : nat) : Prop := forall X j s s',
  WFq (j :: X) (set_queue (remove_first j (queue s)) s) -> remove_job E f j s = Some s' -> Shp (j :: X) s s'.
Definition exec_job_shape (f : nat) : Prop := forall X j t s s',
  WFq (j :: X) s -> ~ In j (queue s) -> jstatus (jobs s j) = Running -> enabled s = true -> Tl s ->
  jnext (jobs s j) = Some t ->
  exec_job E f j t s = Some s' ->
  (k = j -> proj k s' = exec1 E k (proj k s)) /\ (k <> j -> Shp X s s').

Definition shapes (f : nat) : Prop :=
  set_timer_shape f /\ run_jobs_shape f /\ run_loop_shape f /\ add_job_shape f /\ remove_job_shape f /\
  exec_job_shape f.

Lemma set_timer_shape_step f : shapes f -> set_timer_shape (S f).
Proof.
  intros (_ & IHrj & _) X s s' W H. rewrite set_timer_S in H. cbv zeta in H.
  remember (set_timer_f None s) as s0 eqn:Es0.
  assert (W0 : WFq X s0) by (subst s0; eapply WFq_view; [apply view_timer|exact W]).
  assert (P0 : proj k s0 = proj k s) by (subst s0; reflexivity).
  destruct (queue s0) as [|h q] eqn:Eq.
  - injection H as <-. apply Shp_refl. exact P0.
  - destruct (enabled s0) eqn:En; cbn [negb] in H.
    + destruct (wf_head_next _ _ _ _ W0 Eq) as (t & Ht). rewrite Ht in H.
      destruct (t <=? now s0).
      * eapply Shp_pre; [exact P0|]. eapply IHrj; eassumption.
      * injection H as <-. apply Shp_refl. exact P0.
    + injection H as <-. apply Shp_refl. exact P0.
Qed.

Lemma run_jobs_shape_step f : shapes f -> run_jobs_shape (S f).
Proof.
  intros (IHst & _ & IHlp & _) X s s' W En H. rewrite run_jobs_S in H. cbv zeta in H.
  remember (set_timer_f None s) as s0 eqn:Es0.
  assert (W0 : WFq X s0) by (subst s0; eapply WFq_view; [apply view_timer|exact W]).
  assert (P0 : proj k s0 = proj k s) by (subst s0; reflexivity).
  assert (T0 : timer s0 = None) by (subst s0; reflexivity).
  assert (En0 : enabled s0 = true) by (subst s0; exact En).
  destruct (run_loop E f s0) as [s1|] eqn:EL; [|discriminate].
  destruct (core_specs_all E f) as (_ & _ & Hlp & _).
  destruct (Hlp X s0 s1 W0 En0 (or_introl T0) EL) as (W1 & _ & _).
  pose proof (IHlp X s0 s1 W0 En0 (or_introl T0) EL) as S1.
  rewrite (wf_nb _ _ W1) in H.
  eapply Shp_pre; [exact P0|].
  destruct (queue s1) as [|h q] eqn:Eq.
  - injection H as <-. exact S1.
  - eapply Shp_trans; [exact S1|]. eapply IHst; eassumption.
Qed.

Lemma run_loop_shape_step f : shapes f -> run_loop_shape (S f).
Proof.
  intros (_ & _ & IHlp & IHadd & _ & IHex) X s s' W En HTl H. rewrite run_loop_S in H.
  destruct (core_specs_all E f) as (_ & _ & _ & Hadd & _ & Hex).
  destruct (queue s) as [|h q] eqn:Eq.
  - injection H as <-. apply Shp_refl. reflexivity.
  - destruct (wf_head_next _ _ _ _ W Eq) as (t & Ht). rewrite Ht in H.
    destruct (now s <? t) eqn:Elt.
    + injection H as <-. apply Shp_refl. reflexivity.
    + cbv zeta in H.
      destruct (WFq_pop _ _ _ _ W Eq) as (W1 & Hnq & HnX).
      remember (set_queue q s) as s1 eqn:Es1.
      assert (P1 : proj k s1 = proj k s) by (subst s1; reflexivity).
      assert (Hr0 : jstatus (jobs s h) = Running).
      { apply (wf_q _ _ W). rewrite Eq. left; reflexivity. }
      assert (Hr : jstatus (jobs s1 h) = Running) by (subst s1; exact Hr0).
      assert (Ht1 : jnext (jobs s1 h) = Some t) by (subst s1; exact Ht).
      assert (Tl1 : Tl s1).
      { left. subst s1. cbn [timer set_queue]. destruct HTl as [T|[_ Hh]]; [exact T|].
        unfold HeadNotDue in Hh. rewrite Eq in Hh. destruct Hh as (t' & Ht' & Hlt).
        unfold nxt in Ht'. rewrite Ht in Ht'. injection Ht' as <-. lia. }
      assert (En1 : enabled s1 = true) by (subst s1; exact En).
      assert (Hq1 : ~ In h (queue s1)) by (subst s1; exact Hnq).
      destruct (exec_job E f h t s1) as [s2|] eqn:EX; [|discriminate].
      destruct (Hex X h t s1 s2 W1 Hq1 Hr En1 Tl1 EX) as (W2 & Tl2 & F2).
      destruct (IHex X h t s1 s2 W1 Hq1 Hr En1 Tl1 Ht1 EX) as (Xsame & Xother).
      assert (En2 : enabled s2 = true) by (destruct F2 as (_ & e & _); congruence).
      assert (Hq2 : ~ In h (queue s2)).
      { intros Hin. destruct (wf_q _ _ W2 h Hin) as (_ & Hc). apply Hc. left; reflexivity. }
      (* what follows the execution of the head *)
      assert (Rest : Shp X s2 s').
      { destruct (status_eqb (jstatus (jobs s2 h)) Running) eqn:Est.
        - destruct (add_job E f h s2) as [s3|] eqn:EA; [|discriminate].
          destruct (Hadd X h s2 s3 W2 Hq2 HnX EA) as (W3 & F3 & _ & Tl3).
          assert (En3 : enabled s3 = true) by (destruct F3 as (_ & e & _); congruence).
          eapply Shp_trans; [eapply IHadd; eassumption|].
          eapply IHlp; [exact W3|exact En3|exact (Tl3 En2 Tl2)|exact H].
        - assert (W3 : WFq X s2).
          { eapply WFq_drop; [exact W2|]. intros Hc. apply status_eqb_eq in Hc. congruence. }
          eapply IHlp; [exact W3|exact En2|exact Tl2|exact H]. }
      destruct (Nat.eq_dec k h) as [Ekh|Ekh].
      * (* the head is k: it was due *)
        destruct Rest as (_ & R). split; [intros Hk; subst h; contradiction|].
        apply r_step.
        -- unfold due1, proj. cbn [pen pj pnow]. subst h. rewrite En, Hr0, Ht. cbn [status_eqb andb].
           apply Z.leb_le. apply Z.ltb_ge in Elt. exact Elt.
        -- rewrite <- P1, <- (Xsame Ekh). exact R.
      * eapply Shp_pre; [exact P1|]. eapply Shp_trans; [exact (Xother Ekh)|exact Rest].
Qed.

Lemma add_job_shape_step f : shapes f -> add_job_shape (S f).
Proof.
  intros (IHst & _) X j s s' W Hnq HnX H. rewrite add_job_S in H.
  destruct (status_eqb (jstatus (jobs s j)) Running) eqn:Est.
  - apply status_eqb_eq in Est. cbv zeta in H.
    pose proof (WFq_insort _ _ _ W Hnq Est HnX) as W1.
    remember (set_queue (insort s j (queue s)) s) as s1 eqn:Es1.
    assert (P1 : proj k s1 = proj k s) by (subst s1; reflexivity).
    destruct (is_head j (insort s j (queue s))).
    + eapply Shp_pre; [exact P1|]. eapply IHst; eassumption.
    + injection H as <-. apply Shp_refl. exact P1.
  - injection H as <-. apply Shp_refl. reflexivity.
Qed.

Lemma remove_job_shape_step f : shapes f -> remove_job_shape (S f).
Proof.
  intros (IHst & _) X j s s' W1 H. rewrite remove_job_S in H.
  destruct (queue s) as [|h t] eqn:Eq.
  - assert (W : WFq (j :: X) s).
    { eapply WFq_view; [|exact W1]. repeat split. cbn [queue set_queue remove_first]. exact Eq. }
    eapply IHst; eassumption.
  - cbv zeta in H.
    remember (set_queue (remove_first j (h :: t)) s) as s1 eqn:Es1.
    assert (P1 : proj k s1 = proj k s) by (subst s1; reflexivity).
    destruct (remove_first j (h :: t)) as [|h' t'] eqn:Er.
    + eapply Shp_pre; [exact P1|]. eapply IHst; eassumption.
    + destruct (Nat.eqb h j).
      * eapply Shp_pre; [exact P1|]. eapply IHst; eassumption.
      * injection H as <-. apply Shp_refl. exact P1.
Qed.

Definition pre1 (t : Z) (p : pst) : pst :=
  let c := count_exec k (plog p) in
  let p := ev1 (EExec k (pnow p) t O) p in
  if fail_exec E k c then ev1 (EHandler (HExec k)) p else p.

Lemma proj_exec_pre_same t s : proj k (exec_pre E k t s) = pre1 t (proj k s).
Proof.
  unfold exec_pre, pre1. cbv zeta.
  replace (count_exec k (plog (proj k s))) with (count_exec k (log s)) by (symmetry; apply count_exec_klog).
  destruct (fail_exec E k _); rewrite ?proj_add_ev; cbn [mine]; rewrite ?Nat.eqb_refl; reflexivity.
Qed.

Lemma exec1_unfold p t : jnext (pj p) = Some t ->
  exec1 E k p =
  let p := pre1 t p in
  match jkind (pj p) with
  | KOnce => fin1 k p
  | KCountdown => snr1 k None p
  | KAt =>
      let kp := count_prod k (plog p) in
      let p := ev1 (EProd k) p in
      match prod E k kp (pnow p) with
      | Ok v => if too_old1 p v then ev1 (EHandler (HJob k)) p else snr1 k (Some v) p
      | Raise _ => ev1 (EHandler (HJob k)) p
      | OutOfFuel => p
      end
  end.
Proof. intros H. unfold exec1. rewrite H. reflexivity. Qed.

Lemma exec_job_shape_step f : shapes f -> exec_job_shape (S f).
Proof.
  intros (_ & _ & _ & _ & IHrm & _) X j t s s' W Hnq Hrun En HTl Ht H. rewrite exec_job_S in H. cbv zeta in H.
  destruct (exec_pre_props E j t s) as ((v1 & v2 & v3 & v4) & p1 & p2 & p3 & p4 & p5).
  assert (W0 : WFq (j :: X) (exec_pre E j t s)) by (eapply WFq_view; [|exact W]; apply fields_view; assumption).
  assert (Wr : WFq (j :: X) (set_queue (remove_first j (queue (exec_pre E j t s))) (exec_pre E j t s))).
  { rewrite remove_first_notin by (rewrite v1; exact Hnq). eapply WFq_view; [|exact W0]. repeat split. }
  split.
  - (* the executed job itself *)
    intros <-. rewrite (exec1_unfold _ t) by exact Ht. cbv zeta.
    rewrite <- proj_exec_pre_same.
    remember (exec_pre E k t s) as s0 eqn:Es0.
    change (pj (proj k s0)) with (jobs s0 k).
    destruct (jkind (jobs s0 k)).
    + destruct (remove_job E f k s0) as [s1|] eqn:ER; [|discriminate]. injection H as <-.
      destruct (IHrm X k s0 s1 Wr ER) as (Hsame & _).
      rewrite proj_finish_job_same, Hsame by (left; reflexivity). reflexivity.
    + injection H as <-. apply proj_set_next_run_same.
    + change (pnow (ev1 (EProd k) (proj k s0))) with (now s0).
      replace (count_prod k (plog (proj k s0))) with (count_prod k (log s0)) by (symmetry; apply count_prod_klog).
      assert (Pe : proj k (add_ev (EProd k) s0) = ev1 (EProd k) (proj k s0)).
      { rewrite proj_add_ev. cbn [mine]. rewrite Nat.eqb_refl. reflexivity. }
      change (now (add_ev (EProd k) s0)) with (now s0) in H.
      destruct (prod E k _ (now s0)) as [v|e|]; [| |discriminate].
      * change (too_old1 (ev1 (EProd k) (proj k s0)) v) with (too_old (add_ev (EProd k) s0) v).
        destruct (too_old (add_ev (EProd k) s0) v); injection H as <-.
        -- rewrite proj_add_ev. cbn [mine]. rewrite Nat.eqb_refl, Pe. reflexivity.
        -- rewrite proj_set_next_run_same, Pe. reflexivity.
      * injection H as <-. rewrite proj_add_ev. cbn [mine]. rewrite Nat.eqb_refl, Pe. reflexivity.
  - (* another job is executed *)
    intros Hne.
    assert (Hjk : Nat.eqb j k = false) by (apply Nat.eqb_neq; congruence).
    pose proof (proj_exec_pre_other E k j t s Hne) as P0.
    remember (exec_pre E j t s) as s0 eqn:Es0.
    destruct (jkind (jobs s0 j)).
    + destruct (remove_job E f j s0) as [s1|] eqn:ER; [|discriminate]. injection H as <-.
      eapply Shp_pre; [exact P0|].
      eapply Shp_trans; [eapply Shp_weaken; [|eapply IHrm; eassumption]; intros x Hx; right; exact Hx|].
      apply Shp_refl. apply proj_finish_job_other. exact Hne.
    + injection H as <-. apply Shp_refl. rewrite proj_set_next_run_other by exact Hne. exact P0.
    + assert (Pe : proj k (add_ev (EProd j) s0) = proj k s).
      { rewrite proj_add_ev. cbn [mine]. rewrite Hjk. exact P0. }
      assert (Ph : proj k (add_ev (EHandler (HJob j)) (add_ev (EProd j) s0)) = proj k s).
      { rewrite proj_add_ev. cbn [mine]. rewrite Hjk. exact Pe. }
      destruct (prod E j _ _) as [v|e|]; [| |discriminate].
      * destruct (too_old _ v); injection H as <-; apply Shp_refl; [exact Ph|].
        rewrite proj_set_next_run_other by exact Hne. exact Pe.
      * injection H as <-. apply Shp_refl. exact Ph.
Qed.

Theorem shapes_all : forall f, shapes f.
Proof.
  induction f as [|f IH].
  - repeat split; intros; discriminate.
  - split; [apply set_timer_shape_step; exact IH|].
    split; [apply run_jobs_shape_step; exact IH|].
    split; [apply run_loop_shape_step; exact IH|].
    split; [apply add_job_shape_step; exact IH|].
    split; [apply remove_job_shape_step; exact IH|apply exec_job_shape_step; exact IH].
Qed.

End Shape.
