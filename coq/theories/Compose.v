(* Compose.v — C03: a recurring job (scheduler.at) follows the occurrence chain of its trigger.  The scheduler
   model asks the job's trigger through the oracle [prod E]; here the oracle is instantiated with the producer
   model: after every execution the announced next run is exactly what the trigger answers for the execution
   instant, which (C04) is strictly later. *)
From EAS Require Import Base BaseFacts Civil Time Filters Replace Producers ProdStrict Sched SchedInv SchedApi SchedProps SchedLog.
From EASGen Require Import Generated.

Section Compose.
Variable E : env.

(* what executing a recurring job does to that job *)
Theorem exec_at_reschedules f j t s s' v :
  jkind (jobs s j) = KAt ->
  exec_job E (S f) j t s = Some s' ->
  prod E j (count_prod j (log (exec_pre E j t s))) (now s) = Ok v ->
  now s - past_tolerance_ns <= v ->
  jnext (jobs s' j) = Some v /\ jstatus (jobs s' j) = Running /\
  In (EExec j (now s) t (opi s)) (log s').
Proof.
  intros Hk H Hp Hv. rewrite exec_job_S in H. cbv zeta in H.
  destruct (exec_pre_props E j t s) as ((q1 & q2 & q3 & q4) & p1 & p2 & p3 & p4 & p5).
  assert (Hin0 : In (EExec j (now s) t (opi s)) (log (exec_pre E j t s))).
  { unfold exec_pre. destruct (fail_exec E j _); cbn; auto. }
  remember (exec_pre E j t s) as s0 eqn:Es0.
  rewrite q2, Hk in H.
  change (now (add_ev (EProd j) s0)) with (now s0) in H. rewrite p1 in H. rewrite Hp in H.
  assert (Ht : too_old (add_ev (EProd j) s0) v = false).
  { unfold too_old. change (now (add_ev (EProd j) s0)) with (now s0). rewrite p1. apply Z.ltb_ge. lia. }
  rewrite Ht in H. injection H as <-.
  destruct (set_next_run_props E j (Some v) (add_ev (EProd j) s0)) as (a1 & a2 & a3 & a4 & a5 & a6 & a7 & a8 & a9).
  rewrite a9. unfold upd. rewrite Nat.eqb_refl. cbn. split; [reflexivity|]. split; [reflexivity|].
  (* the log only grows *)
  unfold set_next_run. cbv zeta.
  assert (Hgrow : forall mk cbs sx e, In e (log sx) -> In e (log (run_cbs E mk cbs sx))).
  { intros mk cbs. induction cbs as [|cb r IH]; intros sx e He; cbn [run_cbs]; [exact He|].
    apply IH. destruct (fail_cb E cb _); cbn; auto. }
  apply Hgrow. cbn. right. exact Hin0.
Qed.

End Compose.

(* the scheduler environment whose triggers are producer expressions: the k-th query of job j is answered by
   the producer model from the state its previous queries left behind *)
Fixpoint query_states (P : penv) (p : producer) (st : pstate) (qs : list Z) : pstate :=
  match qs with
  | [] => st
  | dt :: t => query_states P p (snd (get_next P p st dt)) t
  end.

(* with the producer model as trigger, every answer is strictly after the instant it was asked at; so the
   announced next run of a recurring job is always after its execution instant, whatever was queried before *)
Theorem trigger_answer_future P p st qs dt v st' :
  wf_producer p -> get_next P p (query_states P p st qs) dt = (Ok v, st') -> dt < v.
Proof. intros Hwf H. eapply next_strictly_future; eassumption. Qed.
