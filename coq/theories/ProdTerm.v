(* ProdTerm.v — C16: computing a next occurrence terminates.
   (1) The loop / call skeleton of every function reachable from a get_next, re-extracted from /repo on
       every run (gen/Generated.v), is the one the model was written against: every loop is
       `for _ in not_infinite_loop()`, a `range(<literal>)`, or an iteration over a finite tuple, except the
       two `while` loops of IntervalProducer.get_next (and a dead helper in prod_operation.py).
   (2) The model itself is a total Coq function whose loops are [iter_until loop_bound]; exhausting the
       bound is InfiniteLoopDetectedError.
   (3) IntervalProducer: its filter search has no bound in the code. It terminates with fuel N when an
       admissible grid point exists within N steps; with a never-accepting filter it does not (F9). *)
From EAS Require Import Base BaseFacts Civil Time Filters Replace Producers ProdStrict ProdEarliest.
From EASGen Require Import Generated.
From Coq Require Import String.
Open Scope string_scope.

Definition expected_loops : list (string * list loop_kind) := [
  ("producers/base.py:CompareEqualityBySlotValues.__eq__", [LFinite "self.__slots__"]);
  ("producers/base.py:DateTimeProducerOperationBase.get_next", [LNotInfinite]);
  ("producers/prod_time.py:TimeProducer.get_next", [LNotInfinite; LFinite "local_dts"]);
  ("producers/prod_interval.py:IntervalProducer.get_next",
     [LWhile "new_dt > dt";
      LWhile "new_dt <= dt or ((f := self._filter) is not None and (not f.allow(new_dt.to_system_tz())))"]);
  ("producers/prod_group.py:GroupProducer.copy", [LFinite "self._producers"]);
  ("producers/prod_group.py:GroupProducer.get_next", [LNotInfinite; LFinite "self._producers"]);
  ("producers/prod_operation.py:find_time_after_dst_switch", [LWhile "True"]);
  ("producers/prod_operation.py:EarliestProducerOperation.apply_operation", []);
  ("producers/prod_operation.py:LatestProducerOperation.apply_operation", []);
  ("producers/prod_sun.py:SunProducer._get_next_sun", [LRangeExpr "range(tries + 1)"; LRange 10]);
  ("producers/prod_sun.py:SunProducer.get_next", [LNotInfinite]);
  ("producers/prod_sun.py:SunFuncIgnoringCompare.__eq__", [LFinite "self.__slots__"]);
  ("producers/prod_sun.py:SunAzimuthProducerCompare._sun_func", [LNotInfinite]);
  ("producers/prod_filter.py:ProducerFilterGroupBase.copy", [LFinite "self._filters"]);
  ("producers/prod_filter.py:AnyGroupProducerFilter.allow", [LFinite "self._filters"]);
  ("producers/prod_filter.py:AllGroupProducerFilter.allow", [LFinite "self._filters"]);
  ("producers/prod_filter.py:InvertingProducerFilter.allow", []);
  ("helpers/time_replace.py:find_time_after_dst_switch", [LRange 121]);
  ("helpers/time_replace.py:TimeReplacer.replace", [])
].

Definition expected_calls : list (string * list string) := [
  ("producers/base.py:CompareEqualityBySlotValues.__eq__", []);
  ("producers/base.py:DateTimeProducerOperationBase.get_next", ["self._producer.get_next"; "self.apply_operation"; "f.allow"]);
  ("producers/prod_time.py:TimeProducer.get_next", ["self._time.replace"; "f.allow"]);
  ("producers/prod_interval.py:IntervalProducer.get_next", ["f.allow"]);
  ("producers/prod_group.py:GroupProducer.copy", []);
  ("producers/prod_group.py:GroupProducer.get_next", ["p.get_next"; "f.allow"]);
  ("producers/prod_operation.py:find_time_after_dst_switch", []);
  ("producers/prod_operation.py:EarliestProducerOperation.apply_operation", ["self.earliest.replace"]);
  ("producers/prod_operation.py:LatestProducerOperation.apply_operation", ["self.latest.replace"]);
  ("producers/prod_sun.py:SunProducer._get_next_sun", ["self.func"; "next_sun.replace"]);
  ("producers/prod_sun.py:SunProducer.get_next", ["self._get_next_sun"; "f.allow"]);
  ("producers/prod_sun.py:SunFuncIgnoringCompare.__eq__", []);
  ("producers/prod_sun.py:SunAzimuthProducerCompare._sun_func", []);
  ("producers/prod_filter.py:ProducerFilterGroupBase.copy", []);
  ("producers/prod_filter.py:AnyGroupProducerFilter.allow", ["f.allow"]);
  ("producers/prod_filter.py:AllGroupProducerFilter.allow", ["f.allow"]);
  ("producers/prod_filter.py:InvertingProducerFilter.allow", ["self._filter.allow"]);
  ("helpers/time_replace.py:find_time_after_dst_switch", []);
  ("helpers/time_replace.py:TimeReplacer.replace", ["find_time_after_dst_switch"])
].

(* re-checked against the current source on every run *)
Theorem loops_bounded : gen_loops = expected_loops /\ gen_calls = expected_calls /\ gen_status_v = GenOk.
Proof. split; [reflexivity|split; reflexivity]. Qed.

Theorem generated_bounds :
  loop_bound = 99999%positive /\ after_search_minutes = 121 /\ sun_tries = 366.
Proof. repeat split. Qed.

(* which recorded loops can run without bound: exactly the plain `while` loops *)
Definition unbounded_kind (k : loop_kind) : bool :=
  match k with LWhile _ | LUnknown _ => true | _ => false end.
Definition unbounded_sites : list string :=
  map fst (filter (fun e : string * list loop_kind => existsb unbounded_kind (snd e)) gen_loops).

Theorem only_interval_loops_are_unbounded :
  unbounded_sites = ["producers/prod_interval.py:IntervalProducer.get_next";
                     "producers/prod_operation.py:find_time_after_dst_switch"].
Proof. reflexivity. Qed.

(* ------------------------------------------------------------------------------------------- *)
(* bounded loops of the model: a loop that runs out of its bound answers InfiniteLoopDetectedError, never
   a value *)
Theorem exhausted_loop_is_error (r : Z * pstate) : fst (finish_loop (inl r)) = Raise EInfiniteLoop.
Proof. destruct r; reflexivity. Qed.

(* IntervalProducer terminates when an admissible grid point exists within the fuel *)
Lemma iter_nat_find (z : tz) (f : option filt) (iv : Z) (n : nat) : forall g,
  (exists k, (k < n)%nat /\ allow_opt z f (g + Z.of_nat k * iv) = true) ->
  exists v, iter_nat n (fun g => if allow_opt z f g then inr g else inl (g + iv)) g = inr v.
Proof.
  induction n as [|n IH]; intros g (k & Hk & Ha); [lia|]. cbn [iter_nat].
  destruct (allow_opt z f g) eqn:Eg; [eauto|].
  destruct k as [|k]; [cbn in Ha; rewrite Z.add_0_r in Ha; congruence|].
  apply IH. exists k. split; [lia|]. rewrite <- Ha. f_equal. lia.
Qed.

Theorem interval_terminates z fuel c iv f dt :
  0 < iv ->
  (exists k, (k < Pos.to_nat fuel)%nat /\
             allow_opt z f (interval_first (interval_back c iv dt) iv dt + Z.of_nat k * iv) = true) ->
  exists g, next_interval z fuel c iv f dt = Ok g.
Proof.
  intros Hiv Hex. unfold next_interval. rewrite iter_until_nat.
  destruct (iter_nat_find z f iv (Pos.to_nat fuel) _ Hex) as (v & Hv). rewrite Hv. eauto.
Qed.

(* F9: with a filter that never accepts, no amount of fuel produces an answer — the code's `while` loop
   runs until Instant overflows *)
Theorem interval_unsat_refuted :
  exists f, forall z fuel c iv dt, next_interval z fuel c iv (Some f) dt = OutOfFuel.
Proof.
  exists (FDay []). intros z fuel c iv dt. unfold next_interval.
  pose proof (iter_until_rule (fun g => if allow_opt z (Some (FDay [])) g then inr g else inl (g + iv))
                (fun _ => True) (fun _ => False) fuel (interval_first (interval_back c iv dt) iv dt)) as R.
  destruct (iter_until fuel _ _) as [g|g]; [reflexivity|].
  exfalso. apply R; [|exact I]. intros s _. cbn. exact I.
Qed.
