(* ProdStrict.v — C04: a computed next occurrence is strictly after the reference instant, for every
   producer expression, time-zone table, filter, draw stream, sun oracle and cache content. *)
From EAS Require Import Base BaseFacts Civil Time Filters Replace Producers.
From EASGen Require Import Generated.

(* intervals are positive (TriggerBuilder.interval / get_pos_timedelta_secs reject anything else) *)
Fixpoint wf_producer (p : producer) : Prop :=
  match p with
  | PTime _ _ => True
  | PInterval _ _ iv _ => 0 < iv
  | PGroup ps _ => (fix all (l : list producer) : Prop := match l with [] => True | q :: t => wf_producer q /\ all t end) ps
  | POffset q _ _ | PEarliest q _ _ | PLatest q _ _ | PJitter q _ _ _ => wf_producer q
  | PSun _ _ => True
  end.

Definition future (dt : Z) (r : result Z * pstate) : Prop :=
  forall v st', r = (Ok v, st') -> dt < v.

Lemma finish_loop_future dt (x : (Z * pstate) + (result Z * pstate)) :
  match x with inl _ => True | inr r => future dt r end -> future dt (finish_loop x).
Proof.
  destruct x as [[y s]|r]; cbn [finish_loop]; [|auto].
  intros _ v st' H. discriminate.
Qed.

(* every operation-style loop: the body only exits with Ok after the guard dt <? value *)
Lemma guarded_loop_future dt (f : Z * pstate -> (Z * pstate) + (result Z * pstate)) p0 x0 :
  (forall xs, match f xs with inl _ => True | inr r => future dt r end) ->
  future dt (finish_loop (iter_until p0 f x0)).
Proof.
  intros Hf. apply finish_loop_future.
  apply (iter_until_rule f (fun _ => True) (future dt)); [|exact I].
  intros s _. apply Hf.
Qed.

Lemma bind_state_future {A} dt (r : result A * pstate) k :
  (forall a st, match k a st with inl _ => True | inr x => future dt x end) ->
  match bind_state r k with inl _ => True | inr x => future dt x end.
Proof.
  intros Hk. destruct r as [[a|e|] st]; cbn [bind_state]; [apply Hk| |]; intros v st' H; discriminate.
Qed.

Lemma guard_future dt value (f : bool) (s1 : pstate) (cont : (Z * pstate)) :
  match (if (dt <? value) && f then inr (Ok value, s1) else inl cont) with
  | inl _ => True | inr x => future dt x end.
Proof.
  destruct (dt <? value) eqn:E; cbn [andb]; [|exact I]. destruct f; [|exact I].
  intros v st' H. injection H as <- _. lia.
Qed.

Lemma next_time_future z tr f dt v : next_time z tr f dt = Ok v -> dt < v.
Proof.
  unfold next_time. intros H.
  pose proof (iter_until_rule (time_step z tr f dt) (fun _ => True) (fun r => forall v, r = Ok v -> dt < v)
                loop_bound (local_day (to_local z dt) - 1)) as R.
  destruct (iter_until loop_bound (time_step z tr f dt) (local_day (to_local z dt) - 1)) as [d|r]; [discriminate|].
  apply R; [|exact I|exact H].
  intros day _. unfold time_step.
  destruct (replace z tr day) as [i|a b| |e]; try exact I.
  - destruct (dt <? i) eqn:E; cbn [andb]; [|exact I]. destruct (allow_opt z f i); [|exact I].
    intros w Hw. injection Hw as <-. lia.
  - destruct (dt <? a) eqn:Ea; cbn [andb].
    + destruct (allow_opt z f a).
      * intros w Hw. injection Hw as <-. lia.
      * destruct (dt <? b) eqn:Eb; cbn [andb]; [|exact I]. destruct (allow_opt z f b); [|exact I].
        intros w Hw. injection Hw as <-. lia.
    + destruct (dt <? b) eqn:Eb; cbn [andb]; [|exact I]. destruct (allow_opt z f b); [|exact I].
      intros w Hw. injection Hw as <-. lia.
  - intros w Hw. discriminate.
Qed.

Lemma interval_back_le c iv dt : 0 < iv -> interval_back c iv dt <= dt.
Proof. intros Hiv. unfold interval_back. destruct (dt <? c) eqn:E; [nia|lia]. Qed.

Lemma interval_first_gt g0 iv dt : 0 < iv -> g0 <= dt -> dt < interval_first g0 iv dt.
Proof. intros Hiv Hg. unfold interval_first. nia. Qed.

Lemma next_interval_future z fuel c iv f dt v : 0 < iv -> next_interval z fuel c iv f dt = Ok v -> dt < v.
Proof.
  intros Hiv. unfold next_interval.
  set (g1 := interval_first (interval_back c iv dt) iv dt).
  assert (Hg1 : dt < g1) by (apply interval_first_gt; [exact Hiv|apply interval_back_le; exact Hiv]).
  pose proof (iter_until_rule (fun g => if allow_opt z f g then inr g else inl (g + iv))
                (fun g => dt < g) (fun g => dt < g) fuel g1) as R.
  destruct (iter_until fuel _ g1) as [g|g]; [discriminate|].
  intros H. injection H as <-. apply R; [|exact Hg1].
  intros s Hs. destruct (allow_opt z f s); [exact Hs|lia].
Qed.

Theorem next_strictly_future E p st dt v st' :
  wf_producer p -> get_next E p st dt = (Ok v, st') -> dt < v.
Proof.
  intros Hwf H.
  destruct p as [tr f|id start iv f|ps f|q off f|q tr f|q tr f|q lo hi f|key f]; cbn [get_next] in H.
  - injection H as H _. eapply next_time_future; exact H.
  - cbn [wf_producer] in Hwf.
    destruct (next_interval _ _ _ iv f dt) as [g|e|] eqn:EN; try discriminate.
    injection H as <- _. eapply next_interval_future; eassumption.
  - revert H. apply guarded_loop_future. intros [x s]. apply bind_state_future. intros m s'.
    destruct m as [w|]; [apply guard_future|]. intros w st0 Hw; discriminate.
  - revert H. apply guarded_loop_future. intros [x s]. apply bind_state_future. intros n s'. apply guard_future.
  - revert H. apply guarded_loop_future. intros [x s]. apply bind_state_future. intros n s'.
    destruct (apply_earliest _ tr n dt) as [value|e|]; [apply guard_future| |]; intros w st0 Hw; discriminate.
  - revert H. apply guarded_loop_future. intros [x s]. apply bind_state_future. intros n s'.
    destruct (apply_latest _ tr n dt) as [value|e|]; [apply guard_future| |]; intros w st0 Hw; discriminate.
  - revert H. apply guarded_loop_future. intros [x s]. apply bind_state_future. intros n s'.
    destruct (jitter_bounds lo hi n dt) as [a b]. apply guard_future.
  - revert H. apply guarded_loop_future. intros [x s]. apply bind_state_future. intros w s'. apply guard_future.
Qed.

(* every element of the chain a recurring job follows is after its predecessor *)
Theorem chain_increasing E p : wf_producer p -> forall n st dt,
  (fix incr (prev : Z) (l : list (result Z)) : Prop :=
     match l with
     | [] => True
     | Ok v :: t => prev < v /\ incr v t
     | _ :: t => True
     end) dt (chain E p st dt n).
Proof.
  intros Hwf. induction n as [|n IH]; intros st dt; cbn [chain]; [exact I|].
  destruct (get_next E p st dt) as [[v|e|] st'] eqn:EG; try exact I.
  split; [eapply next_strictly_future; eassumption|apply IH].
Qed.
