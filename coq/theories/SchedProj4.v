(* SchedProj4.v — C02 / C03: the projection of the scheduler onto one job IS the single-job machine,
   for calm histories; two-trace non-interference; each job runs as it would alone. *)
From EAS Require Import Base BaseFacts Sched SchedInv SchedApi SchedProps SchedProj SchedProj2 SchedProj3.
From EASGen Require Import Generated.
From Coq Require Import Sorted.

Section Exact.
Variable E : env.

Lemma due1_fields p q :
  pen q = pen p -> jstatus (pj q) = jstatus (pj p) -> jnext (pj q) = jnext (pj p) -> pnow q = pnow p ->
  due1 q = due1 p.
Proof. intros a b c d. unfold due1. rewrite a, b, c, d. reflexivity. Qed.

Lemma due1_not_running p : jstatus (pj p) <> Running -> due1 p = false.
Proof.
  intros H. unfold due1. destruct (status_eqb (jstatus (pj p)) Running) eqn:Est.
  - apply status_eqb_eq in Est. contradiction.
  - rewrite andb_false_r. reflexivity.
Qed.

(* an operation that cannot run the loop for job k leaves it not due *)
Lemma direct_not_due hs k p o :
  runs k p o = false -> is_adv o = false -> due1 p = false -> due1 (direct E hs k p o) = false.
Proof.
  intros Hruns Hadv Hd.
  assert (Hcr : forall b, Nat.eqb (pnj p) k = false -> due1 (create1 E hs k b p) = false).
  { intros b Hn. unfold create1. rewrite Hn. rewrite <- Hd. apply due1_fields; reflexivity. }
  destruct o; cbn [runs is_adv] in Hruns, Hadv; try discriminate; cbn [direct].
  - apply Hcr. exact Hruns.
  - destruct (secs <=? 0); [exact Hd|apply Hcr; exact Hruns].
  - apply Hcr. exact Hruns.
  - destruct (Nat.eqb j k); [|exact Hd]. destruct (fin_p p); [exact Hd|].
    apply due1_not_running. cbn. discriminate.
  - destruct (Nat.eqb j k); [|exact Hd]. destruct (fin_p p); [exact Hd|].
    apply due1_not_running. cbn. discriminate.
  - rewrite Hruns. exact Hd.
  - rewrite Hruns. exact Hd.
  - destruct (Nat.eqb j k); [|exact Hd]. destruct (fin_p p); [exact Hd|].
    destruct (secs <=? 0); [exact Hd|]. rewrite <- Hd. apply due1_fields; reflexivity.
  - destruct (Nat.eqb j k); [|exact Hd]. cbv zeta.
    destruct w; [destruct (memb cb (jcbu (pj p)))|destruct (memb cb (jcbf (pj p)))]; try exact Hd;
      rewrite <- Hd; apply due1_fields; reflexivity.
  - destruct (Nat.eqb j k); [|exact Hd]. cbv zeta.
    destruct w; rewrite <- Hd; apply due1_fields; reflexivity.
Qed.

(* THE ONE-STEP THEOREM.  From a calm state (or for a wake-up, or a move of the clock) the projection of
   the new state onto job k is computed by the single-job machine from the projection of the old state
   alone.  n is the number of times k ran in this operation. *)
Theorem step_op_proj fuel hs k s o s' r :
  Inv s -> step_op E fuel hs s o = (s', r) -> r <> NoFuel -> key_ok hs s o ->
  Calm s \/ is_wake o = true \/ is_adv o = true ->
  exists n, forall g, (n <= g)%nat -> proj k s' = step1 E g hs k (proj k s) o.
Proof.
  intros I H Hr Hkey Hc.
  destruct (is_adv o) eqn:Eadv.
  { destruct o; try discriminate. cbn [step_op] in H. injection H as <- <-. exists O. intros g _. reflexivity. }
  destruct (step_op_view E fuel hs s o s' r I H Hr Hkey) as (R & C2 & C3).
  pose proof (step_op_inv E fuel hs s o s' r I H Hr) as I'.
  assert (C' : Calm s').
  { destruct Hc as [C|[Hw|Hw]]; [apply C2; [exact Eadv|exact C]|apply C3; exact Hw|discriminate]. }
  assert (D' : due1 (proj k s') = false) by (eapply calm_not_due; [exact (proj1 I')|exact C'|intros []]).
  unfold step1. destruct (runs k (proj k s) o) eqn:Eruns.
  - destruct (reach1_flush E k _ _ (R k) D') as (n & Hn). exists n. intros g Hg. symmetry. apply Hn. exact Hg.
  - exists O. intros g _. eapply reach1_not_due; [exact (R k)|].
    apply direct_not_due; [exact Eruns|exact Eadv|].
    destruct Hc as [C|[Hw|Hw]]; [|destruct o; discriminate|discriminate].
    eapply calm_not_due; [exact (proj1 I)|exact C|intros []].
Qed.

End Exact.

(* ------------------------------------------------------------------------------------------- *)
(* histories *)

(* a history in which the loop keeps up: a move of the clock is followed by a wake-up (or another move)
   before any API operation is issued.  [calm]: the state the history starts from is calm. *)
Fixpoint hist_ok (calm : bool) (ops : list op) : bool :=
  match ops with
  | [] => true
  | o :: t => if is_adv o then hist_ok false t
              else if is_wake o then hist_ok true t
              else calm && hist_ok true t
  end.

Section Runs.
Variable E : env.

Lemma Calm_init t0 en : Calm (init t0 en).
Proof. intros _ j []. Qed.

Lemma Calm_opi v s : Calm s -> Calm (set_opi v s).
Proof. apply Calm_ext; try reflexivity. Qed.

(* a creation that is not rejected for a duplicate key *)
Lemma key_ok_of_outcome fuel hs s o s' r :
  step_op E fuel hs s o = (s', r) -> r <> Raised EKeyError -> key_ok hs s o.
Proof.
  intros H Hr. destruct o; cbn [key_ok]; try exact I; cbn [step_op] in H.
  - unfold create in H. cbn [jkey new_job] in H.
    destruct (hs && store_has key (store s)); [injection H as _ <-; congruence|reflexivity].
  - intros Es. rewrite Es in H. unfold create in H. cbn [jkey new_job] in H.
    destruct (hs && store_has key (store s)); [injection H as _ <-; congruence|reflexivity].
  - unfold create in H. cbn [jkey new_job] in H.
    destruct (hs && store_has key (store s)); [injection H as _ <-; congruence|reflexivity].
Qed.

Lemma run1_cons g hs k p o t : run1 E g hs k p (o :: t) = run1 E g hs k (step1 E g hs k p o) t.
Proof. reflexivity. Qed.

(* THE HISTORY THEOREM: the projection of the scheduler onto job k follows the single-job machine *)
Theorem run_proj fuel hs k : forall ops s s' rs calm,
  Inv s -> (calm = true -> Calm s) -> hist_ok calm ops = true ->
  run E fuel hs s ops = (s', rs) -> ~ In NoFuel rs -> ~ In (Raised EKeyError) rs ->
  exists n, forall g, (n <= g)%nat -> proj k s' = run1 E g hs k (proj k s) ops.
Proof.
  induction ops as [|o t IH]; intros s s' rs calm I C Hok H Hnf Hke; cbn [run] in H.
  - injection H as <- <-. exists O. intros g _. reflexivity.
  - unfold step in H. destruct (step_op E fuel hs s o) as (s1, r) eqn:ES.
    destruct (run E fuel hs (set_opi (S (opi s1)) s1) t) as (s2, rs') eqn:ER.
    injection H as <- <-.
    assert (Hr : r <> NoFuel) by (intros ->; apply Hnf; left; reflexivity).
    assert (Hk : r <> Raised EKeyError) by (intros ->; apply Hke; left; reflexivity).
    pose proof (key_ok_of_outcome _ _ _ _ _ _ ES Hk) as Hkey.
    pose proof (step_op_inv E fuel hs s o s1 r I ES Hr) as I1.
    destruct (step_op_view E fuel hs s o s1 r I ES Hr Hkey) as (_ & C2 & C3).
    cbn [hist_ok] in Hok.
    (* which side condition of the one-step theorem holds, and is the next state calm *)
    assert (Side : (Calm s \/ is_wake o = true \/ is_adv o = true) /\
                   exists calm', hist_ok calm' t = true /\ (calm' = true -> Calm s1)).
    { destruct (is_adv o) eqn:Ea.
      - split; [right; right; reflexivity|]. exists false. split; [exact Hok|discriminate].
      - destruct (is_wake o) eqn:Ew.
        + split; [right; left; reflexivity|]. exists true. split; [exact Hok|intros _; apply C3; reflexivity].
        + apply andb_true_iff in Hok. destruct Hok as (Hc & Hok).
          split; [left; apply C; exact Hc|]. exists true. split; [exact Hok|].
          intros _. apply C2; [reflexivity|apply C; exact Hc]. }
    destruct Side as (Hside & calm' & Hok' & C1).
    destruct (step_op_proj E fuel hs k s o s1 r I ES Hr Hkey Hside) as (n1 & Hn1).
    destruct (IH (set_opi (S (opi s1)) s1) s2 rs' calm') as (n2 & Hn2).
    + apply Inv_opi. exact I1.
    + intros Hc. apply Calm_opi. apply C1. exact Hc.
    + exact Hok'.
    + exact ER.
    + intros Hc; apply Hnf; right; exact Hc.
    + intros Hc; apply Hke; right; exact Hc.
    + exists (Nat.max n1 n2). intros g Hg. rewrite run1_cons. rewrite <- Hn1 by lia.
      apply Hn2. lia.
Qed.

(* operations addressed to another job do not exist for the single-job machine *)
Lemma run1_filter g hs k j : k <> j -> forall ops p,
  run1 E g hs k p ops = run1 E g hs k p (filter (fun o => negb (addresses j o)) ops).
Proof.
  intros Hne. induction ops as [|o t IH]; intros p; [reflexivity|].
  rewrite run1_cons. cbn [filter]. destruct (addresses j o) eqn:Ea; cbn [negb].
  - rewrite (step1_other E g hs k j p o Ea Hne). apply IH.
  - rewrite run1_cons. apply IH.
Qed.

(* TWO-TRACE NON-INTERFERENCE.  Two calm histories that differ only in control operations addressed to
   job j (cancel, pause / stop, resume, reset, set_countdown, callback registration) - any number of
   them, inserted or removed anywhere - give every other job k the same record, the same clock, and the
   same sub-log: the same executions at the same instants for the same announced times, the same
   trigger queries, the same callbacks, the same handled failures. *)
Theorem two_trace_from fuel1 fuel2 hs j k ops1 ops2 a1 a2 s1 rs1 s2 rs2 :
  k <> j ->
  Inv a1 -> Inv a2 -> Calm a1 -> Calm a2 -> proj k a1 = proj k a2 ->
  filter (fun o => negb (addresses j o)) ops1 = filter (fun o => negb (addresses j o)) ops2 ->
  hist_ok true ops1 = true -> hist_ok true ops2 = true ->
  run E fuel1 hs a1 ops1 = (s1, rs1) -> run E fuel2 hs a2 ops2 = (s2, rs2) ->
  ~ In NoFuel rs1 -> ~ In NoFuel rs2 -> ~ In (Raised EKeyError) rs1 -> ~ In (Raised EKeyError) rs2 ->
  proj k s1 = proj k s2.
Proof.
  intros Hne I1 I2 C1 C2 Hp Hf O1 O2 R1 R2 F1 F2 K1 K2.
  destruct (run_proj fuel1 hs k ops1 a1 s1 rs1 true I1 (fun _ => C1) O1 R1 F1 K1) as (n1 & H1).
  destruct (run_proj fuel2 hs k ops2 a2 s2 rs2 true I2 (fun _ => C2) O2 R2 F2 K2) as (n2 & H2).
  rewrite (H1 (Nat.max n1 n2)), (H2 (Nat.max n1 n2)) by lia.
  rewrite (run1_filter _ hs k j Hne ops1), (run1_filter _ hs k j Hne ops2), Hf, Hp. reflexivity.
Qed.

Theorem two_trace_noninterference fuel1 fuel2 hs t0 en j k ops1 ops2 s1 rs1 s2 rs2 :
  k <> j ->
  filter (fun o => negb (addresses j o)) ops1 = filter (fun o => negb (addresses j o)) ops2 ->
  hist_ok true ops1 = true -> hist_ok true ops2 = true ->
  run E fuel1 hs (init t0 en) ops1 = (s1, rs1) -> run E fuel2 hs (init t0 en) ops2 = (s2, rs2) ->
  ~ In NoFuel rs1 -> ~ In NoFuel rs2 -> ~ In (Raised EKeyError) rs1 -> ~ In (Raised EKeyError) rs2 ->
  proj k s1 = proj k s2.
Proof.
  intros Hne. apply (two_trace_from fuel1 fuel2 hs j k ops1 ops2 (init t0 en) (init t0 en)); auto using Inv_init, Calm_init.
Qed.

End Runs.

(* ------------------------------------------------------------------------------------------- *)
(* what the equality of projections says about the logs *)
Definition is_exec (e : event) : bool := match e with EExec _ _ _ _ => true | _ => false end.
(* the starts of job k: [EExec k instant announced 0], newest first *)
Definition kexecs (k : nat) (l : list event) : list event := filter is_exec (klog k l).

Corollary two_trace_executions E fuel1 fuel2 hs t0 en j k ops1 ops2 s1 rs1 s2 rs2 :
  k <> j ->
  filter (fun o => negb (addresses j o)) ops1 = filter (fun o => negb (addresses j o)) ops2 ->
  hist_ok true ops1 = true -> hist_ok true ops2 = true ->
  run E fuel1 hs (init t0 en) ops1 = (s1, rs1) -> run E fuel2 hs (init t0 en) ops2 = (s2, rs2) ->
  ~ In NoFuel rs1 -> ~ In NoFuel rs2 -> ~ In (Raised EKeyError) rs1 -> ~ In (Raised EKeyError) rs2 ->
  jobs s1 k = jobs s2 k /\ now s1 = now s2 /\ enabled s1 = enabled s2 /\ njobs s1 = njobs s2 /\
  klog k (log s1) = klog k (log s2) /\ kexecs k (log s1) = kexecs k (log s2) /\
  count_exec k (log s1) = count_exec k (log s2) /\ count_prod k (log s1) = count_prod k (log s2).
Proof.
  intros Hne Hf O1 O2 R1 R2 F1 F2 K1 K2.
  pose proof (two_trace_noninterference E fuel1 fuel2 hs t0 en j k ops1 ops2 s1 rs1 s2 rs2 Hne Hf O1 O2 R1 R2 F1 F2 K1 K2) as H.
  unfold proj in H. injection H as a b c d e.
  repeat (split; [assumption|]). split; [unfold kexecs; rewrite e; reflexivity|].
  rewrite <- (count_exec_klog k (log s1)), <- (count_exec_klog k (log s2)),
          <- (count_prod_klog k (log s1)), <- (count_prod_klog k (log s2)), e. split; reflexivity.
Qed.

(* ------------------------------------------------------------------------------------------- *)
(* triggers that answer strictly in the future (C04): a job runs at most once per operation *)
Section FutureTriggers.
Variable E : env.
Hypothesis prod_ok : forall j k t, exists v, prod E j k t = Ok v /\ t < v.

Lemma exec1_cool k p : due1 p = true -> due1 (exec1 E k p) = false.
Proof.
  intros Hd. unfold due1 in Hd. apply andb_true_iff in Hd. destruct Hd as (Hd & Hn).
  destruct (jnext (pj p)) as [t|] eqn:Et; [|discriminate].
  rewrite (exec1_unfold E k p t Et). cbv zeta.
  assert (Hpre : pj (pre1 E k t p) = pj p /\ pnow (pre1 E k t p) = pnow p /\ pen (pre1 E k t p) = pen p).
  { unfold pre1. cbv zeta. destruct (fail_exec E k _); repeat split. }
  destruct Hpre as (h1 & h2 & h3). remember (pre1 E k t p) as p1 eqn:Ep1. clear Ep1.
  destruct (jkind (pj p1)).
  - apply due1_not_running. cbn. discriminate.
  - apply due1_not_running. cbn. discriminate.
  - cbn [pnow ev1 p_log].
    destruct (prod_ok k (count_prod k (plog p1)) (pnow p1)) as (v & Hv & Hlt). rewrite Hv.
    assert (Hold : too_old1 (ev1 (EProd k) p1) v = false).
    { unfold too_old1. cbn [pnow ev1 p_log]. apply Z.ltb_ge. unfold past_tolerance_ns. lia. }
    rewrite Hold. unfold due1, snr1, cbs1. cbn [pen pj pnow p_log p_job ev1 jstatus jnext with_status_next].
    replace (v <=? pnow p1) with false by (symmetry; apply Z.leb_gt; exact Hlt).
    apply andb_false_r.
Qed.

Lemma flush_one g k p : flush E (S g) k p = flush E 1 k p.
Proof.
  cbn [flush]. destruct (due1 p) eqn:Hd; [|reflexivity].
  destruct g as [|g]; [reflexivity|]. cbn [flush]. rewrite (exec1_cool k p Hd). reflexivity.
Qed.

Lemma step1_one g hs k p o : step1 E (S g) hs k p o = step1 E 1 hs k p o.
Proof. unfold step1. destruct (runs k p o); [apply flush_one|reflexivity]. Qed.

Lemma run1_one g hs k : forall ops p, run1 E (S g) hs k p ops = run1 E 1 hs k p ops.
Proof.
  induction ops as [|o t IH]; intros p; [reflexivity|]. rewrite !run1_cons, step1_one. apply IH.
Qed.

(* the one-step and the history theorem without the existential: at most one execution per operation *)
Theorem step_op_proj_ok fuel hs k s o s' r :
  Inv s -> step_op E fuel hs s o = (s', r) -> r <> NoFuel -> key_ok hs s o ->
  Calm s \/ is_wake o = true \/ is_adv o = true ->
  proj k s' = step1 E 1 hs k (proj k s) o.
Proof.
  intros I H Hr Hkey Hc. destruct (step_op_proj E fuel hs k s o s' r I H Hr Hkey Hc) as (n & Hn).
  rewrite (Hn (S n)) by lia. apply step1_one.
Qed.

Theorem run_proj_ok fuel hs k ops s s' rs :
  Inv s -> Calm s -> hist_ok true ops = true ->
  run E fuel hs s ops = (s', rs) -> ~ In NoFuel rs -> ~ In (Raised EKeyError) rs ->
  proj k s' = run1 E 1 hs k (proj k s) ops.
Proof.
  intros I C Hok H Hnf Hke.
  destruct (run_proj E fuel hs k ops s s' rs true I (fun _ => C) Hok H Hnf Hke) as (n & Hn).
  rewrite (Hn (S n)) by lia. apply run1_one.
Qed.

End FutureTriggers.
