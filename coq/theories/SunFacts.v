(* SunFacts.v — theorems about the sun producers of Producers.v (prod_sun.py), for property C18 (and the
   cache part of C15).  Everything is stated for ALL event oracles [sun_ev] (astral's per-date answers),
   all filters, all reference instants and all cache contents that are coherent with the oracle.

   What is NOT here: that astral's instant is the astronomical event (float trigonometry); the
   harness samples astral.sun.elevation around the returned instants as a plain test.            *)
From EAS Require Import Base BaseFacts Civil Time Filters Replace Producers.
From EASGen Require Import Generated.

(* ------------------------------------------------------------------------------------------- *)
(* 0. small facts: bounded loops, UTC days, rounding up to the second *)

Lemma iter_until_one {St Rt} (f : St -> St + Rt) p s r : f s = inr r -> iter_until p f s = inr r.
Proof.
  intros H. rewrite iter_until_nat. destruct (Pos.to_nat p) as [|n] eqn:Hn; [lia|].
  cbn [iter_nat]. rewrite H. reflexivity.
Qed.

Lemma iter_until_two {St Rt} (f : St -> St + Rt) p s s' r :
  (1 < p)%positive -> f s = inl s' -> f s' = inr r -> iter_until p f s = inr r.
Proof.
  intros Hp H1 H2. rewrite iter_until_nat. destruct (Pos.to_nat p) as [|[|n]] eqn:Hn; [lia|lia|].
  cbn [iter_nat]. rewrite H1, H2. reflexivity.
Qed.

(* two loops that move in lockstep end in related states / results *)
Lemma iter_nat_sim {S1 R1 S2 R2} (f : S1 -> S1 + R1) (g : S2 -> S2 + R2)
      (RS : S1 -> S2 -> Prop) (RR : R1 -> R2 -> Prop) :
  (forall a b, RS a b -> match f a, g b with
                         | inl a', inl b' => RS a' b'
                         | inr r, inr r' => RR r r'
                         | _, _ => False
                         end) ->
  forall n a b, RS a b -> match iter_nat n f a, iter_nat n g b with
                          | inl a', inl b' => RS a' b'
                          | inr r, inr r' => RR r r'
                          | _, _ => False
                          end.
Proof.
  intros Hstep n; induction n as [|n IH]; intros a b Hab; cbn [iter_nat]; [exact Hab|].
  specialize (Hstep a b Hab). destruct (f a) as [a'|r], (g b) as [b'|r']; try contradiction.
  - apply IH; exact Hstep.
  - exact Hstep.
Qed.

Lemma DAY_pos : 0 < DAY.
Proof. unfold DAY, NS. lia. Qed.

Lemma utc_day_bounds x : utc_day x * DAY <= x < (utc_day x + 1) * DAY.
Proof. unfold utc_day. pose proof DAY_pos as HD. pose proof (Z.mul_div_le x DAY HD) as H1.
  pose proof (Z.mul_succ_div_gt x DAY HD) as H2. lia. Qed.

Lemma utc_day_unique x d : d * DAY <= x < (d + 1) * DAY -> utc_day x = d.
Proof.
  intros H. unfold utc_day. pose proof DAY_pos as HD. symmetry.
  apply (Z.div_unique x DAY d (x - d * DAY)); lia.
Qed.

Lemma utc_day_plus_DAY x : utc_day (x + DAY) = utc_day x + 1.
Proof. apply utc_day_unique. pose proof (utc_day_bounds x). lia. Qed.

Lemma round_up_sec_bounds v : v <= round_up_sec v < v + NS.
Proof.
  unfold round_up_sec. assert (HN : 0 < NS) by (unfold NS; lia).
  pose proof (Z.mul_div_le (v + NS - 1) NS HN) as H1.
  pose proof (Z.mul_succ_div_gt (v + NS - 1) NS HN) as H2. lia.
Qed.

Lemma round_up_sec_whole v : (round_up_sec v) mod NS = 0.
Proof. unfold round_up_sec. apply Z.mod_mul. unfold NS. lia. Qed.

Lemma round_up_sec_fix v : v mod NS = 0 -> round_up_sec v = v.
Proof.
  intros H. unfold round_up_sec. assert (HN : 0 < NS) by (unfold NS; lia).
  pose proof (Z.div_mod v NS ltac:(lia)) as Hd. rewrite H in Hd.
  replace (v + NS - 1) with ((v / NS) * NS + (NS - 1)) by lia.
  rewrite Z.div_add_l by lia. rewrite (Z.div_small (NS - 1) NS) by lia. lia.
Qed.

Lemma round_up_sec_facts :
  (forall v, v <= round_up_sec v < v + NS) /\
  (forall v, (round_up_sec v) mod NS = 0) /\
  (forall v, v mod NS = 0 -> round_up_sec v = v).
Proof. exact (conj round_up_sec_bounds (conj round_up_sec_whole round_up_sec_fix)). Qed.

Lemma round_up_sec_mono a b : a <= b -> round_up_sec a <= round_up_sec b.
Proof.
  intros H. unfold round_up_sec. assert (HN : 0 < NS) by (unfold NS; lia).
  apply Z.mul_le_mono_nonneg_r; [lia|]. apply Z.div_le_mono; lia.
Qed.

(* ------------------------------------------------------------------------------------------- *)
(* 1. the polar search of _get_next_sun on its own *)

Definition sun_search (ev : Z -> option Z) (day : Z) : result Z :=
  match iter_until (Z.to_pos (sun_tries + 1)) (sun_search_step ev) (0, day) with
  | inr r => r
  | inl _ => Raise EOther
  end.

(* the answer of the search from day d: the event of the first day d+j (j <= tries) that has one,
   ValueError if none of d .. d+tries has one.  Nothing else. *)
Definition first_event (ev : Z -> option Z) (d : Z) (r : result Z) : Prop :=
  (exists j e, 0 <= j <= sun_tries /\ ev (d + j) = Some e /\
               (forall i, 0 <= i < j -> ev (d + i) = None) /\ r = Ok e)
  \/ ((forall i, 0 <= i <= sun_tries -> ev (d + i) = None) /\ r = Raise EValueError).

Lemma sun_tries_rounds : Z.of_nat (Pos.to_nat (Z.to_pos (sun_tries + 1))) = sun_tries + 1.
Proof. vm_compute. reflexivity. Qed.

Lemma sun_tries_nonneg : 0 <= sun_tries.
Proof. vm_compute. discriminate. Qed.

Lemma sun_search_spec ev d : first_event ev d (sun_search ev d).
Proof.
  unfold sun_search. rewrite iter_until_nat.
  pose proof (iter_nat_rule_idx (sun_search_step ev)
    (fun k s => fst s = Z.of_nat k /\ snd s = d + Z.of_nat k /\ Z.of_nat k <= sun_tries /\
                forall i, 0 <= i < Z.of_nat k -> ev (d + i) = None)
    (first_event ev d)) as Hrule.
  assert (Hstep : forall (k : nat) (s : Z * Z),
    (fst s = Z.of_nat k /\ snd s = d + Z.of_nat k /\ Z.of_nat k <= sun_tries /\
     forall i, 0 <= i < Z.of_nat k -> ev (d + i) = None) ->
    match sun_search_step ev s with
    | inl s' => fst s' = Z.of_nat (S k) /\ snd s' = d + Z.of_nat (S k) /\ Z.of_nat (S k) <= sun_tries /\
                forall i, 0 <= i < Z.of_nat (S k) -> ev (d + i) = None
    | inr r => first_event ev d r
    end).
  { intros k [i day] (Hi & Hday & Hle & Hnone). cbn [fst snd] in Hi, Hday. subst i day.
    unfold sun_search_step. destruct (ev (d + Z.of_nat k)) as [v|] eqn:Hev.
    - left. exists (Z.of_nat k), v. split; [lia|]. split; [exact Hev|]. split; [exact Hnone|reflexivity].
    - destruct (sun_tries <=? Z.of_nat k) eqn:Hlast.
      + right. split; [|reflexivity]. intros i Hi.
        assert (Hc : i < Z.of_nat k \/ i = Z.of_nat k) by lia.
        destruct Hc as [Hc|Hc]; [apply Hnone; lia|subst i; exact Hev].
      + cbn [fst snd]. rewrite Nat2Z.inj_succ. split; [lia|]. split; [lia|]. split; [lia|].
        intros i Hi. assert (Hc : i < Z.of_nat k \/ i = Z.of_nat k) by lia.
        destruct Hc as [Hc|Hc]; [apply Hnone; lia|subst i; exact Hev]. }
  specialize (Hrule Hstep (Pos.to_nat (Z.to_pos (sun_tries + 1))) 0%nat (0, d)).
  assert (H0 : fst (0, d) = Z.of_nat 0 /\ snd (0, d) = d + Z.of_nat 0 /\ Z.of_nat 0 <= sun_tries /\
               forall i, 0 <= i < Z.of_nat 0 -> ev (d + i) = None).
  { cbn [fst snd]. pose proof sun_tries_nonneg. split; [reflexivity|]. split; [lia|]. split; [lia|]. intros i Hi. lia. }
  specialize (Hrule H0).
  destruct (iter_nat (Pos.to_nat (Z.to_pos (sun_tries + 1))) (sun_search_step ev) (0, d)) as [s'|r].
  - exfalso. destruct Hrule as (_ & _ & Hle & _). rewrite Nat.add_0_r in Hle.
    rewrite sun_tries_rounds in Hle. lia.
  - exact Hrule.
Qed.

Lemma sun_search_today ev d e : ev d = Some e -> sun_search ev d = Ok e.
Proof.
  intros He. destruct (sun_search_spec ev d) as [(j & e' & Hj & Hev & Hnone & Hr)|(Hnone & _)].
  - assert (Hc : j = 0 \/ 0 < j) by lia. destruct Hc as [->|Hpos].
    + replace (d + 0) with d in Hev by lia. congruence.
    + specialize (Hnone 0 ltac:(lia)). replace (d + 0) with d in Hnone by lia. congruence.
  - pose proof sun_tries_nonneg. specialize (Hnone 0 ltac:(lia)). replace (d + 0) with d in Hnone by lia. congruence.
Qed.

(* ------------------------------------------------------------------------------------------- *)
(* 2. the cache *)

(* what _get_next_sun answers when the cache plays no role *)
Definition sun_answer (E : penv) (key : nat) (dt : Z) : result Z :=
  match location E with
  | None => Raise ELocationNotSet
  | Some _ => match sun_search (sun_ev E key) (utc_day dt) with
              | Ok e => Ok (round_up_sec e)
              | Raise x => Raise x
              | OutOfFuel => OutOfFuel
              end
  end.

(* every cached entry of the configured location equals what the search computes for its key from
   the oracle (entries of other locations are not constrained: they are never looked at) *)
Definition cache_coherent (E : penv) (st : pstate) : Prop :=
  forall key d loc v, In ((key, d, loc), v) (scache st) -> location E = Some loc ->
    exists e, sun_search (sun_ev E key) d = Ok e /\ v = round_up_sec e.

Lemma cache_coherent_empty E st : scache st = [] -> cache_coherent E st.
Proof. intros H key d loc v Hin. rewrite H in Hin. destruct Hin. Qed.

(* the same thing said with [sun_answer]: a cached entry is the answer for any instant of its day *)
Lemma cache_coherent_answer E st key d loc v :
  cache_coherent E st -> In ((key, d, loc), v) (scache st) -> location E = Some loc ->
  sun_answer E key (d * DAY) = Ok v.
Proof.
  intros Hc Hin Hl. destruct (Hc key d loc v Hin Hl) as (e & He & ->).
  unfold sun_answer. rewrite Hl. rewrite (utc_day_unique (d * DAY) d) by (pose proof DAY_pos; lia).
  rewrite He. reflexivity.
Qed.

Lemma skey_eqb_eq a b : skey_eqb a b = true -> a = b.
Proof.
  destruct a as [[k1 d1] l1], b as [[k2 d2] l2]. cbn [skey_eqb]. intros H.
  apply andb_true_iff in H. destruct H as [H H3]. apply andb_true_iff in H. destruct H as [H1 H2].
  apply Nat.eqb_eq in H1. apply Z.eqb_eq in H2. apply Nat.eqb_eq in H3. subst. reflexivity.
Qed.

Lemma slookup_In k l v : slookup k l = Some v -> In (k, v) l.
Proof.
  induction l as [|[k' w] t IH]; cbn [slookup]; [discriminate|].
  destruct (skey_eqb k k') eqn:Hk.
  - intros H. injection H as ->. apply skey_eqb_eq in Hk. subst k'. left. reflexivity.
  - intros H. right. apply IH. exact H.
Qed.

Lemma sremove_In k l x : In x (sremove k l) -> In x l.
Proof.
  induction l as [|[k' w] t IH]; cbn [sremove]; [tauto|].
  destruct (skey_eqb k k'); [intros H; right; exact H|].
  intros [H|H]; [left; exact H|right; apply IH; exact H].
Qed.

Lemma skipn_In {A} n (l : list A) x : In x (skipn n l) -> In x l.
Proof.
  revert l; induction n as [|n IH]; intros l; cbn [skipn]; [tauto|].
  destruct l as [|a t]; [tauto|]. intros H. right. apply IH. exact H.
Qed.

(* _get_next_sun under a coherent cache: the answer is the cache-free answer, coherence is kept, the
   other parts of the state are untouched *)
Lemma next_sun_raw_spec E key st dt :
  cache_coherent E st ->
  fst (next_sun_raw E key st dt) = sun_answer E key dt /\
  cache_coherent E (snd (next_sun_raw E key st dt)) /\
  icache (snd (next_sun_raw E key st dt)) = icache st /\
  ndraws (snd (next_sun_raw E key st dt)) = ndraws st.
Proof.
  intros Hc. unfold next_sun_raw, sun_answer, sun_search.
  destruct (location E) as [loc|] eqn:HL; [|cbn [fst snd]; auto].
  destruct (slookup (key, utc_day dt, loc) (scache st)) as [v|] eqn:HS.
  - cbn [fst snd with_scache icache ndraws scache].
    apply slookup_In in HS. destruct (Hc key (utc_day dt) loc v HS HL) as (e & He & Hv).
    unfold sun_search in He.
    destruct (iter_until (Z.to_pos (sun_tries + 1)) (sun_search_step (sun_ev E key)) (0, utc_day dt)) as [s|r];
      [discriminate|]. subst r. split; [congruence|]. split; [|auto].
    intros key' d' loc' v' Hin Hl'. cbn [scache with_scache] in Hin. apply in_app_or in Hin.
    destruct Hin as [Hin|Hin].
    + apply sremove_In in Hin. exact (Hc key' d' loc' v' Hin Hl').
    + destruct Hin as [Hin|[]]. injection Hin as <- <- <- <-. exact (Hc key (utc_day dt) loc v HS HL).
  - destruct (iter_until (Z.to_pos (sun_tries + 1)) (sun_search_step (sun_ev E key)) (0, utc_day dt)) as [s|r] eqn:HI.
    + cbn [fst snd]. auto.
    + destruct r as [v|x|]; cbn [fst snd with_scache icache ndraws scache]; auto.
      split; [reflexivity|]. split; [|auto].
      intros key' d' loc' v' Hin Hl'. cbn [scache with_scache] in Hin. apply in_app_or in Hin.
      destruct Hin as [Hin|Hin].
      * destruct (sun_cache_limit <=? Z.of_nat (length (scache st))).
        -- apply skipn_In in Hin. exact (Hc key' d' loc' v' Hin Hl').
        -- exact (Hc key' d' loc' v' Hin Hl').
      * destruct Hin as [Hin|[]]. injection Hin as <- <- <- <-.
        exists v. unfold sun_search. rewrite HI. split; reflexivity.
Qed.

(* C18 "where the event does not occur the next date that has one is used": under a coherent cache
   the answer of _get_next_sun comes from the first UTC day >= the day of dt that has an event, if
   there is one within [sun_tries] further days; otherwise it is ValueError *)
Theorem sun_polar_skip E key st dt loc :
  location E = Some loc -> cache_coherent E st ->
  (exists j e, 0 <= j <= sun_tries /\ sun_ev E key (utc_day dt + j) = Some e /\
               (forall i, 0 <= i < j -> sun_ev E key (utc_day dt + i) = None) /\
               fst (next_sun_raw E key st dt) = Ok (round_up_sec e))
  \/ ((forall i, 0 <= i <= sun_tries -> sun_ev E key (utc_day dt + i) = None) /\
      fst (next_sun_raw E key st dt) = Raise EValueError).
Proof.
  intros HL Hc. destruct (next_sun_raw_spec E key st dt Hc) as (Hf & _). rewrite Hf.
  unfold sun_answer. rewrite HL.
  destruct (sun_search_spec (sun_ev E key) (utc_day dt)) as [(j & e & Hj & Hev & Hnone & Hr)|(Hnone & Hr)].
  - left. exists j, e. rewrite Hr. auto.
  - right. rewrite Hr. auto.
Qed.

Theorem sun_location_not_set E key st dt :
  location E = None -> next_sun_raw E key st dt = (Raise ELocationNotSet, st).
Proof. intros H. unfold next_sun_raw. rewrite H. reflexivity. Qed.

(* ------------------------------------------------------------------------------------------- *)
(* 3. SunProducer.get_next = a loop that does not need the cache *)

Definition sun_step (E : penv) (key : nat) (f : option filt) (dt : Z) (xs : Z * pstate)
  : (Z * pstate) + (result Z * pstate) :=
  let '(x, s) := xs in
  bind_state (next_sun_raw E key s x) (fun v s' =>
    if (dt <? v) && allow_opt (pz E) f v then inr (Ok v, s') else inl (v + DAY, s')).

Lemma get_next_sun_unfold E key f st dt :
  get_next E (PSun key f) st dt = finish_loop (iter_until loop_bound (sun_step E key f dt) (dt, st)).
Proof. reflexivity. Qed.

Definition sun_pure_step (E : penv) (key : nat) (f : option filt) (dt : Z) (x : Z) : Z + result Z :=
  match sun_answer E key x with
  | Ok v => if (dt <? v) && allow_opt (pz E) f v then inr (Ok v) else inl (v + DAY)
  | Raise e => inr (Raise e)
  | OutOfFuel => inr OutOfFuel
  end.

Definition sun_next_pure (E : penv) (key : nat) (f : option filt) (dt : Z) : result Z :=
  match iter_until loop_bound (sun_pure_step E key f dt) dt with
  | inr r => r
  | inl _ => Raise EInfiniteLoop
  end.

Theorem sun_get_next_pure E key f st dt :
  cache_coherent E st ->
  fst (get_next E (PSun key f) st dt) = sun_next_pure E key f dt /\
  cache_coherent E (snd (get_next E (PSun key f) st dt)) /\
  icache (snd (get_next E (PSun key f) st dt)) = icache st /\
  ndraws (snd (get_next E (PSun key f) st dt)) = ndraws st.
Proof.
  intros Hc. rewrite get_next_sun_unfold. unfold sun_next_pure. rewrite !iter_until_nat.
  pose proof (iter_nat_sim (sun_step E key f dt) (sun_pure_step E key f dt)
    (fun a b => fst a = b /\ cache_coherent E (snd a) /\ icache (snd a) = icache st /\ ndraws (snd a) = ndraws st)
    (fun a b => fst a = b /\ cache_coherent E (snd a) /\ icache (snd a) = icache st /\ ndraws (snd a) = ndraws st))
    as Hsim.
  assert (Hstep : forall (a : Z * pstate) (b : Z),
    (fst a = b /\ cache_coherent E (snd a) /\ icache (snd a) = icache st /\ ndraws (snd a) = ndraws st) ->
    match sun_step E key f dt a, sun_pure_step E key f dt b with
    | inl a', inl b' => fst a' = b' /\ cache_coherent E (snd a') /\ icache (snd a') = icache st /\ ndraws (snd a') = ndraws st
    | inr r, inr r' => fst r = r' /\ cache_coherent E (snd r) /\ icache (snd r) = icache st /\ ndraws (snd r) = ndraws st
    | _, _ => False
    end).
  { intros [x s] b (Hx & Hcs & Hi & Hn). cbn [fst snd] in Hx, Hcs, Hi, Hn. subst b.
    unfold sun_step, sun_pure_step.
    destruct (next_sun_raw_spec E key s x Hcs) as (Hf & Hc' & Hi' & Hn').
    destruct (next_sun_raw E key s x) as [r s'] eqn:HR. cbn [fst snd] in Hf, Hc', Hi', Hn'.
    rewrite <- Hf. destruct r as [v|e|]; cbn [bind_state].
    - destruct ((dt <? v) && allow_opt (pz E) f v); cbn [fst snd];
        (split; [reflexivity|split; [exact Hc'|split; congruence]]).
    - cbn [fst snd]. split; [reflexivity|split; [exact Hc'|split; congruence]].
    - cbn [fst snd]. split; [reflexivity|split; [exact Hc'|split; congruence]]. }
  specialize (Hsim Hstep (Pos.to_nat loop_bound) (dt, st) dt).
  assert (H0 : fst (dt, st) = dt /\ cache_coherent E (snd (dt, st)) /\ icache (snd (dt, st)) = icache st /\
               ndraws (snd (dt, st)) = ndraws st) by (cbn [fst snd]; auto).
  specialize (Hsim H0).
  destruct (iter_nat (Pos.to_nat loop_bound) (sun_step E key f dt) (dt, st)) as [[x s]|[r s]],
           (iter_nat (Pos.to_nat loop_bound) (sun_pure_step E key f dt) dt) as [x'|r']; try contradiction;
    cbn [finish_loop fst snd] in *.
  - destruct Hsim as (_ & H2 & H3 & H4). auto.
  - destruct Hsim as (H1 & H2 & H3 & H4). auto.
Qed.

(* C15/C18: under coherence the answer does not depend on what is cached (in particular it equals the
   answer computed with an empty cache), so neither the order of earlier queries nor queries made by
   other producers sharing the process-wide cache can change it *)
Theorem sun_query_independent E key f st1 st2 dt :
  cache_coherent E st1 -> cache_coherent E st2 ->
  fst (get_next E (PSun key f) st1 dt) = fst (get_next E (PSun key f) st2 dt).
Proof.
  intros H1 H2. destruct (sun_get_next_pure E key f st1 dt H1) as (-> & _).
  destruct (sun_get_next_pure E key f st2 dt H2) as (-> & _). reflexivity.
Qed.

Corollary sun_query_independent_empty E key f st dt :
  cache_coherent E st ->
  fst (get_next E (PSun key f) st dt) = fst (get_next E (PSun key f) (with_scache [] st) dt) /\
  fst (next_sun_raw E key st dt) = fst (next_sun_raw E key (with_scache [] st) dt).
Proof.
  intros Hc. assert (He : cache_coherent E (with_scache [] st)) by (apply cache_coherent_empty; reflexivity).
  split; [apply sun_query_independent; assumption|].
  destruct (next_sun_raw_spec E key st dt Hc) as (-> & _).
  destruct (next_sun_raw_spec E key (with_scache [] st) dt He) as (-> & _). reflexivity.
Qed.

Theorem sun_cache_coherent_preserved E key f st dt :
  cache_coherent E st ->
  cache_coherent E (snd (next_sun_raw E key st dt)) /\ cache_coherent E (snd (get_next E (PSun key f) st dt)).
Proof.
  intros Hc. split; [apply (next_sun_raw_spec E key st dt Hc)|apply (sun_get_next_pure E key f st dt Hc)].
Qed.

(* ------------------------------------------------------------------------------------------- *)
(* 4. every answer is an event of the oracle, rounded up to the second, after dt, accepted by the filter *)

Lemma sun_answer_event E key x v :
  sun_answer E key x = Ok v ->
  exists j e, 0 <= j <= sun_tries /\ sun_ev E key (utc_day x + j) = Some e /\
              (forall i, 0 <= i < j -> sun_ev E key (utc_day x + i) = None) /\ v = round_up_sec e.
Proof.
  unfold sun_answer. destruct (location E); [|discriminate].
  destruct (sun_search_spec (sun_ev E key) (utc_day x)) as [(j & e & Hj & Hev & Hnone & Hr)|(_ & Hr)];
    rewrite Hr; [|discriminate].
  intros H. injection H as <-. exists j, e. auto.
Qed.

Theorem sun_next_is_event E key f st dt v st' :
  cache_coherent E st ->
  get_next E (PSun key f) st dt = (Ok v, st') ->
  dt < v /\
  allow_opt (pz E) f v = true /\
  (exists d e, sun_ev E key d = Some e /\ v = round_up_sec e) /\
  v mod NS = 0 /\
  cache_coherent E st'.
Proof.
  intros Hc HG. destruct (sun_get_next_pure E key f st dt Hc) as (Hf & Hc' & _).
  rewrite HG in Hf, Hc'. cbn [fst snd] in Hf, Hc'.
  assert (HQ : match iter_until loop_bound (sun_pure_step E key f dt) dt with
               | inl _ => True
               | inr r => forall w, r = Ok w -> dt < w /\ allow_opt (pz E) f w = true /\
                                       exists d e, sun_ev E key d = Some e /\ w = round_up_sec e
               end).
  { apply (iter_until_rule (sun_pure_step E key f dt) (fun _ => True)
             (fun r => forall w, r = Ok w -> dt < w /\ allow_opt (pz E) f w = true /\
                                 exists d e, sun_ev E key d = Some e /\ w = round_up_sec e)); [|exact I].
    intros x _. unfold sun_pure_step. destruct (sun_answer E key x) as [w|e|] eqn:HA.
    - destruct ((dt <? w) && allow_opt (pz E) f w) eqn:Hcond; [|exact I].
      intros w' Hw'. injection Hw' as <-. apply andb_true_iff in Hcond. destruct Hcond as [Hlt Hal].
      apply Z.ltb_lt in Hlt. split; [exact Hlt|]. split; [exact Hal|].
      destruct (sun_answer_event E key x w HA) as (j & e & _ & Hev & _ & Hw).
      exists (utc_day x + j), e. auto.
    - intros w Hw. discriminate.
    - intros w Hw. discriminate. }
  unfold sun_next_pure in Hf.
  destruct (iter_until loop_bound (sun_pure_step E key f dt) dt) as [x|r]; [discriminate|].
  subst r. destruct (HQ v eq_refl) as (H1 & H2 & d & e & H3 & H4).
  split; [exact H1|]. split; [exact H2|]. split; [exists d, e; auto|]. split; [|exact Hc'].
  subst v. apply round_up_sec_whole.
Qed.

(* the errors the producer can raise *)
Theorem sun_next_errors E key f st dt x st' :
  cache_coherent E st ->
  get_next E (PSun key f) st dt = (Raise x, st') ->
  (x = ELocationNotSet /\ location E = None) \/ x = EValueError \/ x = EInfiniteLoop.
Proof.
  intros Hc HG. destruct (sun_get_next_pure E key f st dt Hc) as (Hf & _).
  rewrite HG in Hf. cbn [fst] in Hf.
  assert (HQ : match iter_until loop_bound (sun_pure_step E key f dt) dt with
               | inl _ => True
               | inr r => forall y, r = Raise y -> (y = ELocationNotSet /\ location E = None) \/ y = EValueError
               end).
  { apply (iter_until_rule (sun_pure_step E key f dt) (fun _ => True)
             (fun r => forall y, r = Raise y -> (y = ELocationNotSet /\ location E = None) \/ y = EValueError));
      [|exact I].
    intros z _. unfold sun_pure_step. destruct (sun_answer E key z) as [w|e|] eqn:HA.
    - destruct ((dt <? w) && allow_opt (pz E) f w); [|exact I]. intros y Hy. discriminate.
    - intros y Hy. injection Hy as <-. unfold sun_answer in HA.
      destruct (location E); [|injection HA as <-; left; auto].
      destruct (sun_search_spec (sun_ev E key) (utc_day z)) as [(j & e' & _ & _ & _ & Hr)|(_ & Hr)];
        rewrite Hr in HA; [discriminate|]. injection HA as <-. right. reflexivity.
    - intros y Hy. discriminate. }
  unfold sun_next_pure in Hf.
  destruct (iter_until loop_bound (sun_pure_step E key f dt) dt) as [z|r].
  - injection Hf as <-. right. right. reflexivity.
  - subst r. destruct (HQ x eq_refl) as [H|H]; auto.
Qed.

(* ------------------------------------------------------------------------------------------- *)
(* 5. regular oracles: one event per UTC day, on that day *)

(* [evf d] is the event of day d; [s] is 0 when the event of day d lies on UTC day d (dawn, sunrise,
   noon, sunset, dusk where they behave), 1 when astral answers with an instant of the following UTC
   day (time_at_elevation at western longitudes) *)
Definition utc_regular_shift (ev : Z -> option Z) (evf : Z -> Z) (s lo hi : Z) : Prop :=
  forall d, lo <= d <= hi ->
    ev d = Some (evf d) /\ (d + s) * DAY <= evf d /\ round_up_sec (evf d) < (d + s + 1) * DAY.
Definition utc_regular (ev : Z -> option Z) (evf : Z -> Z) (lo hi : Z) : Prop :=
  utc_regular_shift ev evf 0 lo hi.

Lemma loop_bound_gt1 : (1 < loop_bound)%positive.
Proof. vm_compute. reflexivity. Qed.

Lemma regular_answer E key evf s lo hi x :
  utc_regular_shift (sun_ev E key) evf s lo hi -> location E <> None -> lo <= utc_day x <= hi ->
  sun_answer E key x = Ok (round_up_sec (evf (utc_day x))).
Proof.
  intros Hreg HL Hx. unfold sun_answer. destruct (location E); [|congruence].
  destruct (Hreg (utc_day x) Hx) as (Hev & _). rewrite (sun_search_today _ _ _ Hev). reflexivity.
Qed.

Lemma sun_next_pure_regular E key evf lo hi dt :
  utc_regular (sun_ev E key) evf lo hi -> location E <> None ->
  lo <= utc_day dt -> utc_day dt + 1 <= hi ->
  sun_next_pure E key None dt =
    Ok (if dt <? round_up_sec (evf (utc_day dt)) then round_up_sec (evf (utc_day dt))
        else round_up_sec (evf (utc_day dt + 1))).
Proof.
  intros Hreg HL Hlo Hhi. unfold sun_next_pure. set (d := utc_day dt) in *.
  pose proof (regular_answer E key evf 0 lo hi dt Hreg HL ltac:(fold d; lia)) as HA. fold d in HA.
  destruct (Hreg d ltac:(lia)) as (_ & Hge & Hlt).
  pose proof (round_up_sec_bounds (evf d)) as Hru.
  destruct (dt <? round_up_sec (evf d)) eqn:Hcmp.
  - rewrite (iter_until_one _ _ _ (Ok (round_up_sec (evf d)))); [reflexivity|].
    unfold sun_pure_step. rewrite HA. cbn [allow_opt]. rewrite Hcmp. reflexivity.
  - assert (Hd1 : utc_day (round_up_sec (evf d) + DAY) = d + 1).
    { apply utc_day_unique. lia. }
    pose proof (regular_answer E key evf 0 lo hi (round_up_sec (evf d) + DAY) Hreg HL ltac:(rewrite Hd1; lia)) as HA2.
    rewrite Hd1 in HA2.
    destruct (Hreg (d + 1) ltac:(lia)) as (_ & Hge2 & _).
    pose proof (round_up_sec_bounds (evf (d + 1))) as Hru2.
    pose proof (utc_day_bounds dt) as Hdt. fold d in Hdt.
    rewrite (iter_until_two _ _ _ (round_up_sec (evf d) + DAY) (Ok (round_up_sec (evf (d + 1))))); [reflexivity| | |].
    + exact loop_bound_gt1.
    + unfold sun_pure_step. rewrite HA. cbn [allow_opt]. rewrite Hcmp. reflexivity.
    + unfold sun_pure_step. rewrite HA2. cbn [allow_opt].
      replace (dt <? round_up_sec (evf (d + 1))) with true by (symmetry; apply Z.ltb_lt; lia). reflexivity.
Qed.

(* C18 on regular ranges, one step: from any reference instant of UTC day d the answer is the event of
   day d if that is still ahead, otherwise the event of day d+1 *)
Theorem sun_chain_regular E key evf lo hi st dt :
  utc_regular (sun_ev E key) evf lo hi -> location E <> None -> cache_coherent E st ->
  lo <= utc_day dt -> utc_day dt + 1 <= hi ->
  fst (get_next E (PSun key None) st dt) =
    Ok (if dt <? round_up_sec (evf (utc_day dt)) then round_up_sec (evf (utc_day dt))
        else round_up_sec (evf (utc_day dt + 1))) /\
  cache_coherent E (snd (get_next E (PSun key None) st dt)).
Proof.
  intros Hreg HL Hc Hlo Hhi. destruct (sun_get_next_pure E key None st dt Hc) as (-> & Hc' & _).
  split; [apply (sun_next_pure_regular E key evf lo hi); assumption|exact Hc'].
Qed.

(* ... and the whole chain of a recurring job: the events of the successive UTC days, each exactly
   once, in order (nothing skipped, nothing fired twice) *)
Theorem sun_chain_visits_all E key evf lo hi :
  utc_regular (sun_ev E key) evf lo hi -> location E <> None ->
  forall n st dt, cache_coherent E st -> lo <= utc_day dt -> utc_day dt + Z.of_nat n <= hi ->
    chain E (PSun key None) st dt n =
      map (fun k => Ok (round_up_sec (evf ((if dt <? round_up_sec (evf (utc_day dt)) then utc_day dt
                                           else utc_day dt + 1) + Z.of_nat k))))
          (seq 0 n).
Proof.
  intros Hreg HL n; induction n as [|n IH]; intros st dt Hc Hlo Hhi; [reflexivity|].
  cbn [chain]. rewrite Nat2Z.inj_succ in Hhi.
  destruct (sun_chain_regular E key evf lo hi st dt Hreg HL Hc Hlo ltac:(lia)) as (Hf & Hc').
  destruct (get_next E (PSun key None) st dt) as [r st'] eqn:HG. cbn [fst snd] in Hf, Hc'. subst r.
  set (d0 := if dt <? round_up_sec (evf (utc_day dt)) then utc_day dt else utc_day dt + 1).
  assert (Hv : (if dt <? round_up_sec (evf (utc_day dt)) then round_up_sec (evf (utc_day dt))
                else round_up_sec (evf (utc_day dt + 1))) = round_up_sec (evf d0)).
  { unfold d0. destruct (dt <? round_up_sec (evf (utc_day dt))); reflexivity. }
  rewrite Hv. assert (Hd0 : lo <= d0 <= utc_day dt + 1).
  { unfold d0. destruct (dt <? round_up_sec (evf (utc_day dt))); lia. }
  destruct (Hreg d0 ltac:(lia)) as (_ & Hge & Hlt). pose proof (round_up_sec_bounds (evf d0)) as Hru.
  assert (Hday : utc_day (round_up_sec (evf d0)) = d0) by (apply utc_day_unique; lia).
  cbn [seq map]. f_equal; [rewrite Z.add_0_r; reflexivity|].
  rewrite (IH st' (round_up_sec (evf d0)) Hc' ltac:(rewrite Hday; lia) ltac:(rewrite Hday; lia)).
  rewrite Hday, Z.ltb_irrefl. rewrite <- seq_shift, map_map. apply map_ext.
  intros k. rewrite Nat2Z.inj_succ. do 3 f_equal. lia.
Qed.

(* the same for oracles that answer with an instant of the following UTC day: the answer from day d is
   always the event of day d (which lies on day d+1), and the chain again visits every day's event once *)
Lemma sun_next_pure_regular_shift1 E key evf lo hi dt :
  utc_regular_shift (sun_ev E key) evf 1 lo hi -> location E <> None -> lo <= utc_day dt <= hi ->
  sun_next_pure E key None dt = Ok (round_up_sec (evf (utc_day dt))).
Proof.
  intros Hreg HL Hd. unfold sun_next_pure.
  pose proof (regular_answer E key evf 1 lo hi dt Hreg HL Hd) as HA.
  destruct (Hreg (utc_day dt) Hd) as (_ & Hge & _).
  pose proof (round_up_sec_bounds (evf (utc_day dt))) as Hru. pose proof (utc_day_bounds dt) as Hdt.
  rewrite (iter_until_one _ _ _ (Ok (round_up_sec (evf (utc_day dt))))); [reflexivity|].
  unfold sun_pure_step. rewrite HA. cbn [allow_opt].
  replace (dt <? round_up_sec (evf (utc_day dt))) with true by (symmetry; apply Z.ltb_lt; lia). reflexivity.
Qed.

Theorem sun_chain_regular_shifted E key evf lo hi :
  utc_regular_shift (sun_ev E key) evf 1 lo hi -> location E <> None ->
  forall n st dt, cache_coherent E st -> lo <= utc_day dt -> utc_day dt + Z.of_nat n <= hi + 1 ->
    chain E (PSun key None) st dt n = map (fun k => Ok (round_up_sec (evf (utc_day dt + Z.of_nat k)))) (seq 0 n).
Proof.
  intros Hreg HL n; induction n as [|n IH]; intros st dt Hc Hlo Hhi; [reflexivity|].
  cbn [chain]. rewrite Nat2Z.inj_succ in Hhi.
  destruct (sun_get_next_pure E key None st dt Hc) as (Hf & Hc' & _).
  rewrite (sun_next_pure_regular_shift1 E key evf lo hi dt Hreg HL ltac:(lia)) in Hf.
  destruct (get_next E (PSun key None) st dt) as [r st'] eqn:HG. cbn [fst snd] in Hf, Hc'. subst r.
  destruct (Hreg (utc_day dt) ltac:(lia)) as (_ & Hge & Hlt).
  pose proof (round_up_sec_bounds (evf (utc_day dt))) as Hru.
  assert (Hday : utc_day (round_up_sec (evf (utc_day dt))) = utc_day dt + 1) by (apply utc_day_unique; lia).
  cbn [seq map]. f_equal; [rewrite Z.add_0_r; reflexivity|].
  rewrite (IH st' _ Hc' ltac:(rewrite Hday; lia) ltac:(rewrite Hday; lia)).
  rewrite Hday. rewrite <- seq_shift, map_map. apply map_ext.
  intros k. rewrite Nat2Z.inj_succ. do 3 f_equal. lia.
Qed.

(* ... but an event that is still ahead on the reference instant's own UTC day is passed over: it is the
   answer for the previous date, which the lookup by the date of the reference instant never asks for
   (finding F15, first half) *)
Theorem sun_shifted_skips_pending E key evf lo hi st dt :
  utc_regular_shift (sun_ev E key) evf 1 lo hi -> location E <> None -> cache_coherent E st ->
  lo <= utc_day dt - 1 -> utc_day dt <= hi ->
  dt < round_up_sec (evf (utc_day dt - 1)) ->
  fst (get_next E (PSun key None) st dt) = Ok (round_up_sec (evf (utc_day dt))) /\
  dt < round_up_sec (evf (utc_day dt - 1)) < round_up_sec (evf (utc_day dt)).
Proof.
  intros Hreg HL Hc Hlo Hhi Hpending.
  destruct (sun_get_next_pure E key None st dt Hc) as (-> & _).
  rewrite (sun_next_pure_regular_shift1 E key evf lo hi dt Hreg HL ltac:(lia)).
  split; [reflexivity|]. split; [exact Hpending|].
  destruct (Hreg (utc_day dt - 1) ltac:(lia)) as (_ & _ & Hlt).
  destruct (Hreg (utc_day dt) ltac:(lia)) as (_ & Hge & _).
  pose proof (round_up_sec_bounds (evf (utc_day dt))) as Hru. lia.
Qed.

(* "one solar day apart": what the selection logic adds to the oracle's own spacing is the rounding,
   i.e. less than a second either way.  (That astral's events are 23.5 .. 24.5 h apart below 60 degrees
   is a fact about astral, tested by the harness, not proved.) *)
Theorem sun_chain_gap a b lo hi :
  lo <= b - a <= hi -> lo - NS < round_up_sec b - round_up_sec a < hi + NS.
Proof. intros H. pose proof (round_up_sec_bounds a). pose proof (round_up_sec_bounds b). lia. Qed.

(* ------------------------------------------------------------------------------------------- *)
(* 6. F11: the per-UTC-date lookup when the event's time of day moves across 00:00 UTC.
   The tables are astral 3.2's answers (microseconds, written in ns), recorded on this tree with
   sun.sunset / sun.sunrise / sun.noon (observer, date) — see harness/sun.py PINNED.               *)

Definition tz_utc : tz := {| tz_init := 0; tz_trans := [] |}.
Fixpoint table_get (t : list (Z * Z)) (d : Z) : option Z :=
  match t with [] => None | (k, v) :: r => if k =? d then Some v else table_get r d end.
Definition table_env (t : list (Z * Z)) : penv :=
  {| pz := tz_utc; draw := fun _ _ _ => 0; sun_ev := fun _ d => table_get t d; location := Some 0%nat;
     interval_fuel := 1%positive |}.
Definition table_fun (t : list (Z * Z)) (d : Z) : Z := match table_get t d with Some v => v | None => 0 end.

Definition HOURS (n : Z) : Z := n * 3600 * NS.

(* Chicago (41.88, -87.63), sunset, UTC dates 2025-09-13 .. 2025-09-17 (day numbers 20344 ..):
   00:04:22.571172, 00:02:38.280040, [09-15] 23:59:09.212245, 23:57:24.493820, 23:55:39.691228.
   The sunset of 2025-09-15T00:00:5x is the answer for no date. *)
Definition chicago_sunset_2025 : list (Z * Z) :=
  [ (20344, 1757721862571172000); (20345, 1757808158280040000); (20346, 1757980749212245000);
    (20347, 1758067044493820000); (20348, 1758153339691228000) ].

(* Dhaka (23.81, 90.41), sunrise, UTC dates 2025-10-21 .. 2025-10-25 (day numbers 20382 ..):
   23:59:06.096153, 23:59:35.770026, [10-23] 00:00:05.923092, 00:00:05.933693, 00:00:36.570525.
   The sunrise of the night 10-22/10-23 is the answer for two dates. *)
Definition dhaka_sunrise_2025 : list (Z * Z) :=
  [ (20382, 1761091146096153000); (20383, 1761177575770026000); (20384, 1761177605923092000);
    (20385, 1761264005933693000); (20386, 1761350436570525000) ].

(* Fiji (-17.71, 178.06), noon, UTC dates 2025-10-10 .. 2025-10-13: the answer for date d is
   23:54:xx of date d-1 *)
Definition fiji_noon_2025 : list (Z * Z) :=
  [ (20371, 1760054090000000000); (20372, 1760140474000000000); (20373, 1760226858000000000);
    (20374, 1760313243000000000) ].

Lemma table_regular t lo hi :
  forallb (fun d => match table_get t d with
                    | Some e => (d * DAY <=? e) && (round_up_sec e <? (d + 1) * DAY)
                    | None => false
                    end) (map (fun k => lo + Z.of_nat k) (seq 0 (Z.to_nat (hi - lo + 1)))) = true ->
  utc_regular (sun_ev (table_env t) 0%nat) (table_fun t) lo hi.
Proof.
  intros H d Hd. rewrite forallb_forall in H.
  specialize (H d). cbn [sun_ev table_env]. unfold table_fun.
  assert (Hin : In d (map (fun k => lo + Z.of_nat k) (seq 0 (Z.to_nat (hi - lo + 1))))).
  { apply in_map_iff. exists (Z.to_nat (d - lo)). split; [lia|]. apply in_seq. lia. }
  specialize (H Hin). destruct (table_get t d) as [e|]; [|discriminate].
  apply andb_true_iff in H. destruct H as [H1 H2]. apply Z.leb_le in H1. apply Z.ltb_lt in H2.
  replace (d + 0) with d by lia. auto.
Qed.

(* a chain skips a sunset: two successive firings 47.9 h apart — although the oracle has one event per
   UTC day on that day (so [sun_chain_visits_all] applies: it is the per-UTC-date question itself that
   loses the event) *)
Theorem sun_irregular_refuted :
  exists (E : penv) (key : nat) (evf : Z -> Z) (dt v1 v2 : Z),
    cache_coherent E pstate0 /\
    utc_regular (sun_ev E key) evf 20344 20348 /\
    fst (get_next E (PSun key None) pstate0 dt) = Ok v1 /\
    fst (get_next E (PSun key None) (snd (get_next E (PSun key None) pstate0 dt)) v1) = Ok v2 /\
    v2 - v1 > HOURS 47 /\
    24 * 3600 * NS + 1800 * NS < v2 - v1.
Proof.
  exists (table_env chicago_sunset_2025), 0%nat, (table_fun chicago_sunset_2025),
         1757721863000000000, 1757808159000000000, 1757980750000000000.
  split; [apply cache_coherent_empty; reflexivity|].
  split; [apply table_regular; vm_compute; reflexivity|].
  split; [vm_compute; reflexivity|].
  split; [vm_compute; reflexivity|].
  split; vm_compute; reflexivity.
Qed.

(* a chain fires twice for one sunrise: two successive firings 30 s apart *)
Theorem sun_irregular_repeat_refuted :
  exists (E : penv) (key : nat) (dt v1 v2 : Z),
    cache_coherent E pstate0 /\
    fst (get_next E (PSun key None) pstate0 dt) = Ok v1 /\
    fst (get_next E (PSun key None) (snd (get_next E (PSun key None) pstate0 dt)) v1) = Ok v2 /\
    v2 - v1 = 30 * NS.
Proof.
  exists (table_env dhaka_sunrise_2025), 0%nat, 1761091147000000000, 1761177576000000000, 1761177606000000000.
  split; [apply cache_coherent_empty; reflexivity|].
  split; [vm_compute; reflexivity|].
  split; vm_compute; reflexivity.
Qed.

(* the event of date d lies before date d: the loop asks for the same date until it gives up *)
Theorem sun_irregular_loop_refuted :
  exists (E : penv) (key : nat) (dt : Z),
    cache_coherent E pstate0 /\
    (exists e, sun_ev E key (utc_day dt) = Some e /\ e < dt) /\
    fst (get_next E (PSun key None) pstate0 dt) = Raise EInfiniteLoop.
Proof.
  exists (table_env fiji_noon_2025), 0%nat, 1760140800000000000.
  split; [apply cache_coherent_empty; reflexivity|].
  split; [exists 1760140474000000000; split; vm_compute; reflexivity|].
  vm_compute. reflexivity.
Qed.

(* F15, second half: with a filter the loop continues from "answer + 24 h", which is two dates further when
   the answer for date d lies on date d+1: every other date is never asked.
   Chicago (41.88, -87.63), sun.time_at_elevation(-0.833, SETTING), UTC dates 2025-06-16 .. 06-25 (day numbers
   20255 ..): the answers lie at 01:30 .. 01:32 of the FOLLOWING date.  Filter: Wednesday (of the UTC
   reading, tz_utc), reference instant Monday 2025-06-16T12:00Z: the answer of date 06-17 (Wednesday
   06-18T01:30:53Z) is admissible and ahead, the producer answers Wednesday 06-25T01:32:17Z. *)
Definition chicago_elev_setting_2025 : list (Z * Z) :=
  [ (20255, 1750123832086438000); (20256, 1750210252067084000); (20257, 1750296670126595000);
    (20258, 1750383086237724000); (20259, 1750469500374969000); (20260, 1750555912514618000);
    (20261, 1750642322634792000); (20262, 1750728730715477000); (20263, 1750815136738555000);
    (20264, 1750901540687823000) ].

Theorem sun_following_date_refuted :
  exists (E : penv) (key : nat) (f : filt) (dt v d e : Z),
    cache_coherent E pstate0 /\
    utc_regular_shift (sun_ev E key) (table_fun chicago_elev_setting_2025) 1 20255 20264 /\
    fst (get_next E (PSun key (Some f)) pstate0 dt) = Ok v /\
    sun_ev E key d = Some e /\
    dt < round_up_sec e < v /\
    allow_opt (pz E) (Some f) (round_up_sec e) = true /\
    v - round_up_sec e > 6 * DAY.
Proof.
  exists (table_env chicago_elev_setting_2025), 0%nat, (FWeekday [3]), 1750075200000000000,
         1750815137000000000, 20256, 1750210252067084000.
  split; [apply cache_coherent_empty; reflexivity|].
  split.
  { intros d Hd. assert (Hc : d = 20255 \/ d = 20256 \/ d = 20257 \/ d = 20258 \/ d = 20259 \/ d = 20260 \/
                              d = 20261 \/ d = 20262 \/ d = 20263 \/ d = 20264) by lia.
    destruct Hc as [->|[->|[->|[->|[->|[->|[->|[->|[->| ->]]]]]]]]]; vm_compute; intuition discriminate. }
  split; [vm_compute; reflexivity|].
  split; [vm_compute; reflexivity|].
  split; [vm_compute; split; reflexivity|].
  split; vm_compute; reflexivity.
Qed.

(* ------------------------------------------------------------------------------------------- *)
(* the hypotheses are satisfiable on a non-trivial state: a coherent cache with two entries, a polar
   gap in the oracle, and the chain through it *)
Definition ex_table : list (Z * Z) :=
  [ (10, 10 * DAY + 3600 * NS + 5); (11, 11 * DAY + 3660 * NS); (14, 14 * DAY + 3900 * NS + 999999999) ].

Example ex_coherent_nontrivial :
  let E := table_env ex_table in
  let st := snd (get_next E (PSun 0%nat None) (snd (get_next E (PSun 0%nat None) pstate0 (10 * DAY))) (12 * DAY)) in
  cache_coherent E st /\ length (scache st) = 2%nat /\
  chain E (PSun 0%nat None) st (10 * DAY) 3 =
    [Ok (10 * DAY + 3601 * NS); Ok (11 * DAY + 3660 * NS); Ok (14 * DAY + 3901 * NS)].
Proof.
  cbv zeta. split; [|split; vm_compute; reflexivity].
  apply sun_cache_coherent_preserved. apply sun_cache_coherent_preserved.
  apply cache_coherent_empty. reflexivity.
Qed.
