(* GenRemoveAllEq.v — AsyncScheduler.remove_all, TRANSLATED (coq/gen/GenRemoveAll.v, tools/gen_removeall.py), is the
   derived history of SchedRemoveAll.v.

   The generated method evaluates the snapshot [rev (queue s)] once, folds over it and calls the GENERATED
   job_finish (GenJobs.v) of every job of the snapshot, with the generated scheduler as the job's `_scheduler`
   ([GenJobsEq.JR fuel] = jrec_of (knot2 fuel)).  The model (SchedRemoveAll.remove_all) is the history
   [map OCancel (rev (queue s))] run by [Sched.run].

   [gen_remove_all_is_model]: for every environment, every state with [Inv] (what is reachable: SchedApi.run_inv) and
   two units of fuel (the fuel of SchedRemoveAll.remove_all_spec: remove_all never nests) the generated method
   RETURNS NORMALLY, every step of the model's history is Done, and the state it returns is the model's state
   [eqst]-equal (all fields equal, job tables equal at every index) up to the operation counter [opi]:
        eqst (set_opi (opi s') g) s'      and      opi g = opi s.
   The counter is bookkeeping of the HISTORY ([Sched.step] adds one per operation; GenSystem.v, "(a)"): the model
   counts one operation per cancelled job, the method is one call and does not touch it.  [opi] is only read when a
   job is executed (the EExec event), and nothing is executed here.
   LiveLinked (a hypothesis of gen_cancel_is_model) is NOT needed: a queued job is Running, hence linked (wf_lk).

   [gen_remove_all_spec]: SchedRemoveAll.remove_all_spec restated for the generated code.

   [gen_remove_all_raises]: the exception path of the loop (not reachable from Inv states), for every state.

   Fail closed: when tools/gen_removeall.py does not recognise the method, GenRemoveAll.v has no [g_remove_all] and
   this file does not compile. *)
From EAS Require Import Base BaseFacts Sched SchedInv SchedApi SchedTrace SchedEqst GenRt GenRtJobs GenJobsEq SchedRemoveAll.
From EASGen Require Import Generated GenSched GenJobs GenRemoveAll.

Theorem gen_removeall_recognised : gen_removeall_status_v = GenRemoveAllOk.
Proof. reflexivity. Qed.

(* equal up to the operation counter (job tables pointwise) *)
Definition eqo (g m : st) : Prop :=
  now g = now m /\ enabled g = enabled m /\ timer g = timer m /\ queue g = queue m /\
  (forall k, jobs g k = jobs m k) /\ njobs g = njobs m /\ store g = store m /\ log g = log m /\ broken g = broken m.

Lemma eqo_of_eqst v g m : eqst (set_opi v g) m -> eqo g m.
Proof. intros H. eq_split H. unfold eqo. cbn in *. repeat split; assumption. Qed.

Lemma eqst_of_eqo g m : eqo g m -> eqst (set_opi (opi m) g) m.
Proof. intros (a1 & a2 & a3 & a4 & a5 & a6 & a7 & a8 & a9). unfold eqst. cbn. repeat split; assumption. Qed.

Lemma eqo_refl s : eqo s s.
Proof. unfold eqo. repeat split. Qed.

Lemma eqo_set_opi_r v g m : eqo g m -> eqo g (set_opi v m).
Proof. intros (a1 & a2 & a3 & a4 & a5 & a6 & a7 & a8 & a9). unfold eqo. cbn. repeat split; assumption. Qed.

Lemma Inv_set_opi v s : Inv s -> Inv (set_opi v s).
Proof.
  intros [W T]. split.
  - eapply WFq_view; [|exact W]. unfold same_view. repeat split.
  - eapply TimerOK_view; [| | | |exact T]; reflexivity.
Qed.

Lemma eqo_Inv g m : eqo g m -> Inv m -> Inv g.
Proof.
  intros H I. apply (Inv_eqst (set_opi (opi g) m) g); [|apply Inv_set_opi; exact I].
  destruct H as (a1 & a2 & a3 & a4 & a5 & a6 & a7 & a8 & a9). unfold eqst. cbn.
  repeat split; try (symmetry; assumption). intros k. symmetry. apply a5.
Qed.

Section Eq.
Variable E : env.

(* the generated method, its jobs linked to the generated scheduler *)
Definition gen_remove_all (fuel : nat) (s : st) : MJ := g_remove_all E (JR E fuel) s.

Lemma add_ev_set_opi e v s : add_ev e (set_opi v s) = set_opi v (add_ev e s).
Proof. reflexivity. Qed.

Lemma run_cbs_set_opi mk v cbs : forall s, run_cbs E mk cbs (set_opi v s) = set_opi v (run_cbs E mk cbs s).
Proof.
  induction cbs as [|cb t IH]; intros s; cbn [run_cbs]; [reflexivity|]. cbv zeta.
  change (log (set_opi v s)) with (log s). rewrite !add_ev_set_opi.
  destruct (fail_cb E cb (count_cb cb (log s))); apply IH.
Qed.

Lemma finish_job_set_opi v j s : finish_job E j (set_opi v s) = set_opi v (finish_job E j s).
Proof.
  unfold finish_job. cbv zeta. change (jobs (set_opi v s) j) with (jobs s j).
  rewrite <- run_cbs_set_opi. f_equal. destruct (jstored (jobs s j)); reflexivity.
Qed.

Lemma finish_job_eqo j a b : eqo a b -> eqo (finish_job E j a) (finish_job E j b).
Proof.
  intros H. apply eqst_of_eqo in H. apply (finish_job_eqst E j) in H. rewrite finish_job_set_opi in H.
  exact (eqo_of_eqst _ _ _ H).
Qed.

(* gen_cancel_is_model with "this job is linked" in place of LiveLinked *)
Lemma gen_cancel_linked fuel hs s j s' r :
  Inv s -> jstatus (jobs s j) <> Finished -> jlinked (jobs s j) = true ->
  step_op E fuel hs s (OCancel j) = (s', r) -> r <> NoFuel -> g_job_finish E (JR E fuel) j s = ret_of r s'.
Proof.
  intros I Hnf Hlk H Hr. cbn [step_op] in H.
  assert (Ef : is_finished s j = false).
  { unfold is_finished. destruct (status_eqb (jstatus (jobs s j)) Finished) eqn:Ee; [|reflexivity].
    apply status_eqb_eq in Ee. contradiction. }
  rewrite Ef in H.
  rewrite (gen_job_finish_open E (JR E fuel) j s Hnf Hlk). unfold finish_open. cbn [jr_remove_job jrec_of JR].
  unfold lift in H. rewrite job_finish_eq in H.
  destruct (remove_job E fuel j s) as [s1|] eqn:ER; injection H as <- <-; [|congruence].
  rewrite (gen2_remove_inv E _ _ _ _ I ER). reflexivity.
Qed.

(* the loop: [l] is the rest of the snapshot, the queue is still [rev l] (the jobs cancelled so far were behind it) *)
Lemma gen_loop_from f hs : forall l g m,
  Inv m -> eqo g m -> queue m = rev l ->
  exists g', g_remove_all_loop E (JR E (S (S f))) l g = Some (g', JRet) /\
             eqo g' (fst (run E (S (S f)) hs m (map OCancel l))) /\ opi g' = opi g.
Proof.
  induction l as [|j l IH]; intros g m I Hgm Hq.
  - cbn [g_remove_all_loop map run fst]. exists g. split; [reflexivity|split; [exact Hgm|reflexivity]].
  - cbn [rev] in Hq. cbn [g_remove_all_loop]. cbv zeta.
    pose proof (eqo_Inv _ _ Hgm I) as Ig.
    assert (Hqg : queue g = rev l ++ [j]) by (destruct Hgm as (_ & _ & _ & -> & _); exact Hq).
    destruct (cancel_last E f hs g (rev l) j Ig Hqg) as (g1 & Hg & gQ & gJ & gL & gN & gEn & gNj & gSt & gO & gTk & gTe).
    destruct (cancel_last E f hs m (rev l) j I Hq) as (m1 & Hm & mQ & mJ & mL & mN & mEn & mNj & mSt & mO & mTk & mTe).
    (* the job is queued: Running, linked *)
    assert (Hin : In j (queue g)) by (rewrite Hqg; apply in_or_app; right; left; reflexivity).
    pose proof Ig as [Wg _]. destruct (wf_q _ _ Wg j Hin) as [Hrun _].
    assert (Hnf : jstatus (jobs g j) <> Finished) by (rewrite Hrun; discriminate).
    pose proof (wf_lk _ _ Wg j Hrun) as Hlk.
    rewrite (gen_cancel_linked (S (S f)) hs g j _ _ Ig Hnf Hlk Hg); [|discriminate]. cbn [ret_of].
    (* the model's step *)
    cbn [map run]. unfold step. rewrite Hm.
    set (m2 := set_opi (S (opi (finish_job E j m1))) (finish_job E j m1)).
    assert (I2 : Inv m2).
    { apply Inv_set_opi. eapply step_op_inv; [exact I|exact Hm|discriminate]. }
    assert (H1 : eqo g1 m1).
    { destruct Hgm as (a1 & a2 & a3 & a4 & a5 & a6 & a7 & a8 & a9). unfold eqo.
      repeat split; try congruence.
      - destruct (rev l) as [|h a'] eqn:Er.
        + rewrite (gTe eq_refl), (mTe eq_refl). reflexivity.
        + rewrite gTk, mTk; [exact a3|discriminate|discriminate].
      - (* broken *) pose proof I2 as [W2 _]. pose proof (wf_nb _ _ W2) as B2.
        assert (Ig2 : Inv (finish_job E j g1)) by (eapply step_op_inv; [exact Ig|exact Hg|discriminate]).
        destruct Ig2 as [Wg2 _]. pose proof (wf_nb _ _ Wg2) as Bg2.
        destruct (finish_job_props E j g1) as (_ & _ & _ & _ & _ & _ & Fb & _).
        destruct (finish_job_props E j m1) as (_ & _ & _ & _ & _ & _ & Fb' & _).
        unfold m2 in B2. cbn [broken set_opi] in B2. congruence. }
    assert (H2 : eqo (finish_job E j g1) m2) by (apply eqo_set_opi_r, finish_job_eqo; exact H1).
    assert (Hq2 : queue m2 = rev l).
    { unfold m2. cbn [queue set_opi]. destruct (finish_job_props E j m1) as (Fq & _). rewrite Fq. exact mQ. }
    destruct (IH _ _ I2 H2 Hq2) as (g' & Hl & He & Ho).
    exists g'. split; [exact Hl|]. split.
    + destruct (run E (S (S f)) hs m2 (map OCancel l)) as [s2 rs]. exact He.
    + rewrite Ho. destruct (finish_job_props E j g1) as (_ & _ & _ & _ & _ & Fo & _). rewrite Fo. exact gO.
Qed.

(* THE TIE: generated remove_all = the derived history of the model *)
Theorem gen_remove_all_is_model f hs s :
  Inv s ->
  let '(s', rs) := remove_all E (S (S f)) hs s in
  exists g, gen_remove_all (S (S f)) s = Some (g, JRet) /\
            eqst (set_opi (opi s') g) s' /\ opi g = opi s /\ Forall (fun r => r = Done) rs.
Proof.
  intros I. pose proof (remove_all_spec E f hs s I) as Hs.
  destruct (gen_loop_from f hs (rev (queue s)) s s I (eqo_refl s)) as (g & Hl & He & Ho);
    [symmetry; apply rev_involutive|].
  unfold remove_all, remove_all_ops in *.
  destruct (run E (S (S f)) hs s (map OCancel (rev (queue s)))) as [s' rs].
  destruct Hs as (_ & _ & _ & Hd & _).
  exists g. split; [|split; [apply eqst_of_eqo; exact He|split; [exact Ho|exact Hd]]].
  unfold gen_remove_all, g_remove_all. cbv zeta. rewrite Hl. reflexivity.
Qed.

(* the same with the fuel condition as a bound *)
Corollary gen_remove_all_is_model_fuel fuel hs s s' rs :
  Inv s -> (2 <= fuel)%nat -> remove_all E fuel hs s = (s', rs) ->
  exists g, gen_remove_all fuel s = Some (g, JRet) /\ eqst (set_opi (opi s') g) s' /\ opi g = opi s /\
            ~ In NoFuel rs.
Proof.
  intros I Hf H. destruct fuel as [|[|f]]; try lia.
  pose proof (gen_remove_all_is_model f hs s I) as G. rewrite H in G.
  destruct G as (g & G1 & G2 & G3 & G4). exists g. split; [exact G1|split; [exact G2|split; [exact G3|]]].
  intros Hin. rewrite Forall_forall in G4. specialize (G4 _ Hin). discriminate.
Qed.

(* remove_all_spec for the generated code *)
Theorem gen_remove_all_spec f s :
  Inv s ->
  exists g, gen_remove_all (S (S f)) s = Some (g, JRet) /\
    Inv g /\ queue g = [] /\ timer g = None /\
    (forall j, In j (queue s) -> jstatus (jobs g j) = Finished /\ jnext (jobs g j) = None /\ jlinked (jobs g j) = false) /\
    (forall j, ~ In j (queue s) -> jobs g j = jobs s j) /\
    count_all_exec (log g) = count_all_exec (log s) /\
    now g = now s /\ enabled g = enabled s /\ njobs g = njobs s /\ store g = store (fst (remove_all E (S (S f)) true s)) /\
    opi g = opi s.
Proof.
  intros I. pose proof (gen_remove_all_is_model f true s I) as G. pose proof (remove_all_spec E f true s I) as Hs.
  destruct (remove_all E (S (S f)) true s) as [s' rs]. cbn [fst].
  destruct G as (g & G1 & G2 & G3 & _).
  destruct Hs as (I' & Q' & T' & _ & Jin & Jout & C' & N' & En' & Nj').
  pose proof (eqo_of_eqst _ _ _ G2) as (a1 & a2 & a3 & a4 & a5 & a6 & a7 & a8 & a9).
  exists g. split; [exact G1|]. split; [exact (eqo_Inv _ _ (eqo_of_eqst _ _ _ G2) I')|].
  repeat split; try congruence.
  - rewrite a5. apply Jin. assumption.
  - rewrite a5. apply Jin. assumption.
  - rewrite a5. apply Jin. assumption.
  - intros j Hj. rewrite a5. apply Jout. exact Hj.
Qed.

(* the exception path (R5), for EVERY state and every scheduler record: the first job_finish that raises ends the
   loop and the method with that exception and that state; the rest of the snapshot is not visited.  (On Inv states
   the path is not taken - gen_remove_all_is_model - so this is the only statement that looks at it.) *)
Lemma gen_loop_raises (R : jrec) : forall l1 j l2 s s1 s2 e,
  g_remove_all_loop E R l1 s = Some (s1, JRet) -> g_job_finish E R j s1 = Some (s2, JExc e) ->
  g_remove_all_loop E R (l1 ++ j :: l2) s = Some (s2, JExc e).
Proof.
  induction l1 as [|x l1 IH]; intros j l2 s s1 s2 e H1 H2.
  - cbn [g_remove_all_loop] in H1. cbv zeta in H1. injection H1 as <-.
    cbn [app g_remove_all_loop]. cbv zeta. rewrite H2. reflexivity.
  - cbn [app g_remove_all_loop] in H1 |- *. cbv zeta in H1 |- *.
    destruct (g_job_finish E R x s) as [[sx [|ex]]|]; [|discriminate|discriminate].
    exact (IH j l2 sx s1 s2 e H1 H2).
Qed.

Theorem gen_remove_all_raises (R : jrec) l1 j l2 s s1 s2 e :
  rev (queue s) = l1 ++ j :: l2 ->
  g_remove_all_loop E R l1 s = Some (s1, JRet) -> g_job_finish E R j s1 = Some (s2, JExc e) ->
  g_remove_all E R s = Some (s2, JExc e).
Proof.
  intros Hq H1 H2. unfold g_remove_all. cbv zeta. rewrite Hq, (gen_loop_raises R l1 j l2 s s1 s2 e H1 H2). reflexivity.
Qed.

End Eq.

(* non-vacuity: the example of SchedRemoveAll.v (three queued / paused jobs, one overdue), generated code *)
Example gen_remove_all_example :
  match gen_remove_all ra_env 2 ra_state with
  | Some (g, JRet) =>
      queue g = [] /\ timer g = None /\
      map (fun j => jstatus (jobs g j)) [0%nat; 1%nat; 2%nat; 3%nat] = [Finished; Finished; Finished; Paused] /\
      count_all_exec (log g) = 1%nat /\ store g = [(4, 3%nat)] /\ opi g = opi ra_state
  | _ => False
  end.
Proof. vm_compute. repeat split. Qed.
