(* GenProdEq.v — the code generated from the producers (coq/gen/GenProd.v, rewritten by tools/gen_prod.py on every run)
   computes what the hand-written model of Producers.v / Filters.v / Replace.v computes.

   Open form (sections 2-7): each generated method, given callees [R] that compute the model on the objects it
   calls, computes the model on its own object, for ALL inputs:
     gen_*_allow_eq           the seven filter classes                         = Filters.allow
     gen_find_after_eq        find_time_after_dst_switch                       = Replace.find_after
     gen_replace_eq           TimeReplacer.replace                             = Replace.replace
     gen_offset_apply_eq .. gen_jitter_apply_eq   the four apply_operation     = + off / apply_earliest / apply_latest /
                                                                                 jitter_bounds + draw
     gen_op_get_next_eq       DateTimeProducerOperationBase.get_next           = the POffset .. PJitter cases of get_next
     gen_group_get_next_eq    GroupProducer.get_next                           = the PGroup case
     gen_time_get_next_eq     TimeProducer.get_next                            = next_time
     gen_interval_get_next_eq IntervalProducer.get_next: the two `while` loops = interval_back, interval_first and the
                              filter search of next_interval (fuel: back_steps + 1 for the first loop, fwd_steps +
                              interval_fuel for the second; gen_interval_complete / gen_interval_sound: any larger fuel).
   Closed form (section 9): [pknot] ties the record to itself by dispatching on the constructor of the model's
   syntax (= the class of the Python object; sun members and holiday filters, whose files are not translated, are
   left to the model); [gen_get_next_is_model]: for every well-formed producer expression, every state and every
   instant the generated code returns exactly [lift (get_next E p st dt)] - the same value and the same producer
   state, the same exception, or out of fuel together.  Section 10 restates this as equivalences
   ([gen_answer_iff], [gen_raise_iff], [gen_out_of_fuel_iff]) and carries C04 / C05 / C13 / C14 / C16 statements
   over to the generated code; section 11 runs the generated code on concrete inputs. *)
From EAS Require Import Base BaseFacts Civil Time Filters Replace Producers ProdStrict ProdEarliest ProdGroup ProdCost
  ProdTerm ProdOps GenRtProd.
From EASGen Require Import Generated GenProd.

Theorem gen_prod_recognised : gen_prod_status_v = GenProdOk.
Proof. reflexivity. Qed.

(* ------------------------------------------------------------------------------------------- *)
(* 1. loops *)
Lemma iter_nat_map {S1 R1 S2 R2} (f : S1 -> S1 + R1) (g : S2 -> S2 + R2) (phi : S1 -> S2) (psi : R1 -> R2) :
  (forall s, g (phi s) = match f s with inl a => inl (phi a) | inr r => inr (psi r) end) ->
  forall n s, iter_nat n g (phi s) = match iter_nat n f s with inl a => inl (phi a) | inr r => inr (psi r) end.
Proof.
  intros H n; induction n as [|n IH]; intros s; cbn [iter_nat]; [reflexivity|].
  rewrite H. destruct (f s) as [a|r]; [apply IH|reflexivity].
Qed.

Lemma iter_until_map {S1 R1 S2 R2} (f : S1 -> S1 + R1) (g : S2 -> S2 + R2) (phi : S1 -> S2) (psi : R1 -> R2) p s :
  (forall s, g (phi s) = match f s with inl a => inl (phi a) | inr r => inr (psi r) end) ->
  iter_until p g (phi s) = match iter_until p f s with inl a => inl (phi a) | inr r => inr (psi r) end.
Proof. intros H. rewrite !iter_until_nat. apply iter_nat_map. exact H. Qed.

Lemma iter_until_map_at {S1 R1 S2 R2} (f : S1 -> S1 + R1) (g : S2 -> S2 + R2) (phi : S1 -> S2) (psi : R1 -> R2) p s s2 :
  s2 = phi s ->
  (forall s, g (phi s) = match f s with inl a => inl (phi a) | inr r => inr (psi r) end) ->
  iter_until p g s2 = match iter_until p f s with inl a => inl (phi a) | inr r => inr (psi r) end.
Proof. intros ->. apply iter_until_map. Qed.

(* the answer of a model loop as the outcome of a generated loop: a value is a `return` *)
Definition lift_loop (r : result Z * pstate) : PM (Z + Z) :=
  match r with
  | (Ok v, s) => Some (s, PRet (inr v))
  | (Raise e, s) => Some (s, PExc (XErr e))
  | (OutOfFuel, _) => None
  end.

Definition step_out {X A} (o : PM (lstep X A)) : (X * pstate) + PM (X + A) :=
  match o with None => inr None | Some r => loop_out r end.

Lemma for_rounds_model (step : Z -> pstate -> PM (lstep Z Z))
      (body : Z * pstate -> (Z * pstate) + (result Z * pstate)) x s :
  (forall x s, step_out (step x s) = match body (x, s) with inl xs => inl xs | inr r => inr (lift_loop r) end) ->
  for_rounds loop_bound step x s = lift_loop (finish_loop (iter_until loop_bound body (x, s))).
Proof.
  intros H. unfold for_rounds.
  rewrite (iter_until_map body _ (fun xs => xs) lift_loop).
  - destruct (iter_until loop_bound body (x, s)) as [[x' s']|r]; reflexivity.
  - intros [x' s']. cbn [fst snd]. apply H.
Qed.

(* what the generated code does after a loop that can only be left by `return` or an exception *)
Lemma after_loop (r : result Z * pstate) :
  match lift_loop r with
  | None => None
  | Some (s, PExc e) => p_raise s e
  | Some (s, PRet (inr a)) => p_return a s
  | Some (s, PRet (inl _)) => p_fell_off s
  end = lift r.
Proof. destruct r as [[v|e|] s]; reflexivity. Qed.

Lemma while_ext {X A} (f g : X -> pstate -> PM (lstep X A)) : (forall x s, f x s = g x s) ->
  forall n x s, while_ n f x s = while_ n g x s.
Proof.
  intros H n; induction n as [|n IH]; intros x s; cbn [while_]; [reflexivity|].
  rewrite H. destruct (g x s) as [r|]; [|reflexivity]. destruct (loop_out r) as [[x' s']|o]; [apply IH|reflexivity].
Qed.

Lemma while_mono {X A} (f : X -> pstate -> PM (lstep X A)) n m : (n <= m)%nat ->
  forall x s r, while_ n f x s = Some r -> while_ m f x s = Some r.
Proof.
  revert m; induction n as [|n IH]; intros m Hm x s r; cbn [while_]; [discriminate|].
  destruct m as [|m]; [lia|]. cbn [while_].
  destruct (f x s) as [o|]; [|discriminate]. destruct (loop_out o) as [[x' s']|out]; [|auto].
  apply IH. lia.
Qed.

(* a `while` whose condition and body have no effect: [c] the condition, [b] the body *)
Definition pure_step (c : Z -> bool) (b : Z -> Z) (x : Z) (s : pstate) : PM (lstep Z Z) :=
  if c x then l_next (b x) s else l_exit x s.

Lemma while_pure c b n : forall x s,
  while_ n (pure_step c b) x s =
  match iter_nat n (fun x => if c x then inl (b x) else inr x) x with
  | inr y => Some (s, PRet (inl y))
  | inl _ => None
  end.
Proof.
  induction n as [|n IH]; intros x s; cbn [while_ iter_nat]; [reflexivity|].
  unfold pure_step at 1. destruct (c x); cbn [l_next l_exit loop_out]; [apply IH|reflexivity].
Qed.

(* ------------------------------------------------------------------------------------------- *)
(* 2. filters (prod_filter.py) *)
Section Filters.
Variable E : penv.
Variable R : prec.
Local Notation z := (pz E).

Theorem gen_any_allow_eq fs x :
  (forall g, In g fs -> r_allow R g x = allow g (to_local z x)) ->
  g_any_allow E R fs x = allow (FAny fs) (to_local z x).
Proof.
  intros H. unfold g_any_allow. cbv zeta beta. cbn [allow].
  induction fs as [|g t IH]; cbn [existsb]; [reflexivity|].
  rewrite (H g (or_introl eq_refl)), IH; [reflexivity|]. intros g' Hg'. apply H. right. exact Hg'.
Qed.

Theorem gen_all_allow_eq fs x :
  (forall g, In g fs -> r_allow R g x = allow g (to_local z x)) ->
  g_all_allow E R fs x = allow (FAll fs) (to_local z x).
Proof.
  intros H. unfold g_all_allow. cbv zeta beta. cbn [allow].
  induction fs as [|g t IH]; cbn [forallb]; [reflexivity|].
  rewrite (H g (or_introl eq_refl)), IH; [reflexivity|]. intros g' Hg'. apply H. right. exact Hg'.
Qed.

Theorem gen_not_allow_eq g x :
  r_allow R g x = allow g (to_local z x) -> g_not_allow E R g x = allow (FNot g) (to_local z x).
Proof. intros H. unfold g_not_allow. cbv zeta beta. rewrite H. reflexivity. Qed.

Theorem gen_timefilter_allow_eq lo hi x : g_timefilter_allow E R lo hi x = allow (FTime lo hi) (to_local z x).
Proof. reflexivity. Qed.

Theorem gen_weekday_allow_eq l x : g_weekday_allow E R l x = allow (FWeekday l) (to_local z x).
Proof. reflexivity. Qed.

Theorem gen_day_allow_eq l x : g_day_allow E R l x = allow (FDay l) (to_local z x).
Proof. reflexivity. Qed.

Theorem gen_month_allow_eq l x : g_month_allow E R l x = allow (FMonth l) (to_local z x).
Proof. reflexivity. Qed.
End Filters.

(* ------------------------------------------------------------------------------------------- *)
(* 3. helpers/time_replace.py *)
Section Replace.
Variable E : penv.
Variable R : prec.
Variable fuel : nat -> nat.
Local Notation z := (pz E).

Lemma day_tod_join (t : Z) : local_day t * DAY + local_tod t = t.
Proof. unfold local_day, local_tod, DAY, NS. lia. Qed.

(* whenever.RepeatedTime is not caught by the search: the generated code lets it through as such, the model files
   it under EOther *)
Definition coarse (e : pexn) : pexn := match e with XWSkipped | XWRepeated => XErr EOther | _ => e end.
Definition coarse_pm {A} (m : PM A) : PM A :=
  match m with Some (s, PExc e) => Some (s, PExc (coarse e)) | _ => m end.

Theorem gen_find_after_eq day tod s :
  coarse_pm (g_find_after E R fuel day tod s) = Some (s, of_rres (find_after z day tod)).
Proof.
  unfold g_find_after, find_after. cbv zeta. unfold for_count.
  change (Z.to_pos after_search_minutes) with 121%positive.
  set (base := day * DAY + tod / MINUTE * MINUTE).
  rewrite (iter_until_map_at (after_step z base) _ (fun k => (base + k * MINUTE, s))
             (fun r => match r return PM (Z + Z) with
                       | RExn EOther => Some (s, PExc XWRepeated)
                       | r => Some (s, PRet (inr match r with ROne i => i | _ => 0 end))
                       end) 121 0 (base, s)).
  - destruct (iter_until 121 (after_step z base) 0) as [k|r] eqn:EI.
    + reflexivity.
    + pose proof (iter_until_rule (after_step z base) (fun _ => True)
                    (fun r => match r with ROne _ | RExn EOther => True | _ => False end) 121 0) as HR.
      rewrite EI in HR. cbv beta in HR.
      assert (Hr : match r with ROne _ | RExn EOther => True | _ => False end).
      { apply HR; [|exact I]. intros k _. unfold after_step. destruct (candidates z _) as [|i [|j t]]; exact I. }
      destruct r as [i|i j| |[]]; try contradiction; reflexivity.
  - f_equal. lia.
  - intros k. cbn [fst snd]. cbv zeta. unfold after_step.
    replace (base + k * MINUTE + MINUTE) with (base + (k + 1) * MINUTE) by lia.
    unfold sdt_make. rewrite day_tod_join.
    destruct (candidates z (base + (k + 1) * MINUTE)) as [|i [|j t]]; reflexivity.
Qed.

Theorem gen_replace_eq tr day s :
  (forall d t s, r_find_after R d t s = Some (s, of_rres (find_after z d t))) ->
  g_replace E R fuel (tr_tod tr) (tr_sk tr) (tr_rp tr) day s = Some (s, of_rres (replace z tr day)).
Proof.
  intros HF. unfold g_replace, replace, sdt_make. cbv zeta.
  destruct (candidates z (day * DAY + tr_tod tr)) as [|i [|j t]].
  - destruct (tr_sk tr); try reflexivity.
    + destruct (gap_of z _) as [[ob oa]|]; reflexivity.
    + destruct (gap_of z _) as [[ob oa]|]; reflexivity.
    + rewrite HF. destruct (find_after z day (tr_tod tr)); reflexivity.
  - reflexivity.
  - destruct (tr_rp tr); reflexivity.
Qed.
End Replace.

(* ------------------------------------------------------------------------------------------- *)
(* 4. producers/prod_operation.py: the four apply_operation *)
Section Apply.
Variable E : penv.
Variable R : prec.
Variable fuel : nat -> nat.
Local Notation z := (pz E).
Hypothesis R_replace : forall tr day s, r_replace R tr day s = Some (s, of_rres (replace z tr day)).

Theorem gen_offset_apply_eq off n dt s : g_offset_apply E R fuel off n dt s = lift (Ok (n + off), s).
Proof. reflexivity. Qed.

Theorem gen_earliest_apply_eq tr n dt s : g_earliest_apply E R fuel tr n dt s = lift (apply_earliest z tr n dt, s).
Proof.
  unfold g_earliest_apply, apply_earliest, clamp_target. cbv zeta. rewrite R_replace. unfold sys_date.
  destruct (replace z tr (local_day (to_local z n))) as [i|a b| |e]; cbn [of_rres]; try reflexivity.
  - destruct (n <? i); reflexivity.
  - destruct (a <=? dt); destruct (n <? _); reflexivity.
Qed.

Theorem gen_latest_apply_eq tr n dt s : g_latest_apply E R fuel tr n dt s = lift (apply_latest z tr n dt, s).
Proof.
  unfold g_latest_apply, apply_latest, clamp_target. cbv zeta. rewrite R_replace. unfold sys_date.
  destruct (replace z tr (local_day (to_local z n))) as [i|a b| |e]; cbn [of_rres]; try reflexivity.
  - destruct (i <? n); reflexivity.
  - destruct (a <=? dt); destruct (_ <? n); reflexivity.
Qed.

(* JitterProducerOperation.apply_operation as a function of the model: bounds, one draw *)
Definition jitter_op (lo hi n dt : Z) (s : pstate) : result Z * pstate :=
  let '(a, b) := jitter_bounds lo hi n dt in
  (Ok (n + draw E (ndraws s) a b), with_ndraws (S (ndraws s)) s).

Theorem gen_jitter_apply_eq lo hi n dt s : g_jitter_apply E R fuel lo hi n dt s = lift (jitter_op lo hi n dt s).
Proof.
  unfold g_jitter_apply, jitter_op, jitter_bounds, uniform_. cbv zeta.
  change jitter_eps_ns with 100000.
  destruct (0 <=? lo); [reflexivity|]. destruct (dt - n <? lo); reflexivity.
Qed.
End Apply.

(* ------------------------------------------------------------------------------------------- *)
(* 5. producers/base.py: DateTimeProducerOperationBase.get_next *)
Definition allow_ok (E : penv) (R : prec) (f : option filt) : Prop :=
  forall g, f = Some g -> forall x, r_allow R g x = allow g (to_local (pz E) x).

Lemma allow_ok_opt E R f x : allow_ok E R f ->
  match f with None => true | Some g => r_allow R g x end = allow_opt (pz E) f x.
Proof. intros H. destruct f as [g|]; [|reflexivity]. cbn [allow_opt]. apply H. reflexivity. Qed.

Section OpLoop.
Variable E : penv.
Variable R : prec.
Variable fuel : nat -> nat.
Local Notation z := (pz E).

(* one round of the loop for an operation [op] given as a function of the model *)
Definition op_round (q : producer) (f : option filt) (dt : Z) (op : Z -> Z -> pstate -> result Z * pstate)
  (xs : Z * pstate) : (Z * pstate) + (result Z * pstate) :=
  let '(x, s) := xs in
  bind_state (get_next E q s x) (fun n s' =>
    match op n dt s' with
    | (Ok value, s'') => if (dt <? value) && allow_opt z f value then inr (Ok value, s'') else inl (n, s'')
    | (Raise e, s'') => inr (Raise e, s'')
    | (OutOfFuel, s'') => inr (OutOfFuel, s'')
    end).

Theorem gen_op_get_next_generic q f apply op dt st :
  (forall x s, r_get_next R q x s = lift (get_next E q s x)) ->
  allow_ok E R f ->
  (forall n d s, apply n d s = lift (op n d s)) ->
  g_op_get_next E R fuel q f apply dt st =
  lift (finish_loop (iter_until loop_bound (op_round q f dt op) (dt, st))).
Proof.
  intros Hq Hf Hop. unfold g_op_get_next. cbv zeta.
  rewrite (for_rounds_model _ (op_round q f dt op)).
  { apply after_loop. }
  intros x s. unfold op_round, bind_state. rewrite Hq.
  destruct (get_next E q s x) as [[n|e|] s']; cbn [lift step_out]; try reflexivity.
  rewrite Hop. destruct (op n dt s') as [[v|e|] s'']; cbn [lift step_out]; try reflexivity.
  rewrite (allow_ok_opt E R f v Hf).
  destruct ((dt <? v) && allow_opt z f v); reflexivity.
Qed.

Lemma op_round_offset q off f st dt :
  get_next E (POffset q off f) st dt =
  finish_loop (iter_until loop_bound (op_round q f dt (fun n _ s => (Ok (n + off), s))) (dt, st)).
Proof.
  cbn [get_next]. apply (f_equal finish_loop). apply iter_until_ext. intros [x s]. unfold op_round.
  destruct (get_next E q s x) as [[n|e|] s']; reflexivity.
Qed.

Lemma op_round_earliest q tr f st dt :
  get_next E (PEarliest q tr f) st dt =
  finish_loop (iter_until loop_bound (op_round q f dt (fun n d s => (apply_earliest z tr n d, s))) (dt, st)).
Proof.
  cbn [get_next]. apply (f_equal finish_loop). apply iter_until_ext. intros [x s]. unfold op_round.
  destruct (get_next E q s x) as [[n|e|] s']; cbn [bind_state]; try reflexivity;
  try (destruct (apply_earliest z tr n dt); reflexivity).
Qed.

Lemma op_round_latest q tr f st dt :
  get_next E (PLatest q tr f) st dt =
  finish_loop (iter_until loop_bound (op_round q f dt (fun n d s => (apply_latest z tr n d, s))) (dt, st)).
Proof.
  cbn [get_next]. apply (f_equal finish_loop). apply iter_until_ext. intros [x s]. unfold op_round.
  destruct (get_next E q s x) as [[n|e|] s']; cbn [bind_state]; try reflexivity;
  try (destruct (apply_latest z tr n dt); reflexivity).
Qed.

Lemma op_round_jitter q lo hi f st dt :
  get_next E (PJitter q lo hi f) st dt =
  finish_loop (iter_until loop_bound (op_round q f dt (jitter_op E lo hi)) (dt, st)).
Proof.
  cbn [get_next]. apply (f_equal finish_loop). apply iter_until_ext. intros [x s]. unfold op_round, jitter_op.
  destruct (get_next E q s x) as [[n|e|] s']; cbn [bind_state]; try reflexivity;
  try (destruct (jitter_bounds lo hi n dt) as [a b]; reflexivity).
Qed.

(* the four operation classes: base-class loop + the subclass's apply_operation *)
Hypothesis R_replace : forall tr day s, r_replace R tr day s = Some (s, of_rres (replace z tr day)).

Theorem gen_offset_get_next_eq q off f dt st :
  (forall x s, r_get_next R q x s = lift (get_next E q s x)) -> allow_ok E R f ->
  g_op_get_next E R fuel q f (g_offset_apply E R fuel off) dt st = lift (get_next E (POffset q off f) st dt).
Proof.
  intros Hq Hf. rewrite op_round_offset. apply gen_op_get_next_generic; [exact Hq|exact Hf|].
  intros n d s. apply gen_offset_apply_eq.
Qed.

Theorem gen_earliest_get_next_eq q tr f dt st :
  (forall x s, r_get_next R q x s = lift (get_next E q s x)) -> allow_ok E R f ->
  g_op_get_next E R fuel q f (g_earliest_apply E R fuel tr) dt st = lift (get_next E (PEarliest q tr f) st dt).
Proof.
  intros Hq Hf. rewrite op_round_earliest.
  apply (gen_op_get_next_generic q f _ (fun n d s => (apply_earliest z tr n d, s))); [exact Hq|exact Hf|].
  intros n d s. apply gen_earliest_apply_eq. exact R_replace.
Qed.

Theorem gen_latest_get_next_eq q tr f dt st :
  (forall x s, r_get_next R q x s = lift (get_next E q s x)) -> allow_ok E R f ->
  g_op_get_next E R fuel q f (g_latest_apply E R fuel tr) dt st = lift (get_next E (PLatest q tr f) st dt).
Proof.
  intros Hq Hf. rewrite op_round_latest.
  apply (gen_op_get_next_generic q f _ (fun n d s => (apply_latest z tr n d, s))); [exact Hq|exact Hf|].
  intros n d s. apply gen_latest_apply_eq. exact R_replace.
Qed.

Theorem gen_jitter_get_next_eq q lo hi f dt st :
  (forall x s, r_get_next R q x s = lift (get_next E q s x)) -> allow_ok E R f ->
  g_op_get_next E R fuel q f (g_jitter_apply E R fuel lo hi) dt st = lift (get_next E (PJitter q lo hi f) st dt).
Proof.
  intros Hq Hf. rewrite op_round_jitter. apply gen_op_get_next_generic; [exact Hq|exact Hf|].
  intros n d s. apply gen_jitter_apply_eq.
Qed.
End OpLoop.

(* ------------------------------------------------------------------------------------------- *)
(* 6. producers/prod_group.py: GroupProducer.get_next *)
Section Group.
Variable E : penv.
Variable R : prec.
Variable fuel : nat -> nat.
Local Notation z := (pz E).

Definition lift_min (r : result (option Z) * pstate) : PM Z :=
  match r with
  | (Ok None, s) => Some (s, PExc (XErr EValueError))
  | (Ok (Some m), s) => Some (s, PRet m)
  | (Raise e, s) => Some (s, PExc (XErr e))
  | (OutOfFuel, _) => None
  end.

Lemma min_fold_members x : forall ps acc s,
  (forall q, In q ps -> forall s, r_get_next R q x s = lift (get_next E q s x)) ->
  min_fold ps (fun p s => match r_get_next R p x s with
                          | None => None
                          | Some (s, PExc e) => p_raise s e
                          | Some (s, PRet r) => p_return r s
                          end) acc s
  = lift_min (group_members E ps s x acc).
Proof.
  induction ps as [|q t IH]; intros acc s H.
  - rewrite group_members_nil. destruct acc; reflexivity.
  - rewrite group_members_cons. cbn [min_fold]. rewrite (H q (or_introl eq_refl)).
    destruct (get_next E q s x) as [[v|e|] s']; cbn [lift p_return p_raise lift_min]; try reflexivity.
    rewrite IH; [reflexivity|]. intros q' Hq'. apply H. right. exact Hq'.
Qed.

Theorem gen_group_get_next_eq ps f dt st :
  (forall q, In q ps -> forall x s, r_get_next R q x s = lift (get_next E q s x)) -> allow_ok E R f ->
  g_group_get_next E R fuel ps f dt st = lift (get_next E (PGroup ps f) st dt).
Proof.
  intros Hq Hf. rewrite get_next_group. unfold g_group_get_next. cbv zeta.
  rewrite (for_rounds_model _ (group_round E ps f dt)).
  { apply after_loop. }
  intros x s. unfold group_round, bind_state, min_over. rewrite min_fold_members; [|intros q Hin s0; apply Hq; exact Hin].
  destruct (group_members E ps s x None) as [[[m|]|e|] s']; cbn [lift_min step_out]; try reflexivity.
  rewrite (allow_ok_opt E R f m Hf). destruct ((dt <? m) && allow_opt z f m); reflexivity.
Qed.
End Group.

(* ------------------------------------------------------------------------------------------- *)
(* 7. producers/prod_time.py: TimeProducer.get_next *)
Section TimeP.
Variable E : penv.
Variable R : prec.
Variable fuel : nat -> nat.
Local Notation z := (pz E).

Theorem gen_time_get_next_eq tr f dt st :
  (forall tr day s, r_replace R tr day s = Some (s, of_rres (replace z tr day))) -> allow_ok E R f ->
  g_time_get_next E R fuel tr f dt st = lift (get_next E (PTime tr f) st dt).
Proof.
  intros HR Hf. cbn [get_next]. unfold next_time, g_time_get_next, for_rounds. cbv zeta.
  rewrite (iter_until_map_at (time_step z tr f dt) _ (fun d => (d, st)) (fun r => lift_loop (r, st))
             loop_bound (local_day (to_local z dt) - 1) (sys_date E dt - 1, st)).
  - destruct (iter_until loop_bound (time_step z tr f dt) _) as [d|[v|e|]]; reflexivity.
  - reflexivity.
  - intros day. cbn [fst snd]. rewrite HR. unfold time_step.
    destruct (replace z tr day) as [i|a b| |e]; cbn [of_rres for_list]; try reflexivity.
    + rewrite (allow_ok_opt E R f i Hf). destruct ((dt <? i) && allow_opt z f i); reflexivity.
    + rewrite (allow_ok_opt E R f a Hf). destruct ((dt <? a) && allow_opt z f a); [reflexivity|].
      cbn [l_next loop_out for_list]. rewrite (allow_ok_opt E R f b Hf).
      destruct ((dt <? b) && allow_opt z f b); reflexivity.
Qed.
End TimeP.

(* ------------------------------------------------------------------------------------------- *)
(* 8. producers/prod_interval.py: IntervalProducer.get_next — the two `while` loops against the closed forms *)
Section Interval.
Variable E : penv.
Variable R : prec.
Local Notation z := (pz E).

(* rounds of `while new_dt > dt: new_dt -= interval` from c, and of `while new_dt <= dt ...: new_dt += interval`
   from a grid point g0 <= dt until it exceeds dt *)
Definition back_steps (c iv dt : Z) : nat := Z.to_nat (if dt <? c then (c - dt + iv - 1) / iv else 0).
Definition fwd_steps (g0 iv dt : Z) : nat := Z.to_nat ((dt - g0) / iv + 1).

Lemma div_sub1 a iv : 0 < iv -> (a - iv) / iv = a / iv - 1.
Proof. intros H. replace (a - iv) with (a + (-1) * iv) by lia. rewrite Z.div_add by lia. lia. Qed.

Lemma back_iter iv dt : 0 < iv -> forall n c, (back_steps c iv dt < n)%nat ->
  iter_nat n (fun x => if dt <? x then inl (x - iv) else inr x) c = inr (interval_back c iv dt).
Proof.
  intros Hiv n; induction n as [|n IH]; intros c Hn; [lia|]. cbn [iter_nat]. unfold interval_back.
  destruct (dt <? c) eqn:Ec; [|reflexivity].
  apply Z.ltb_lt in Ec. unfold back_steps in Hn. rewrite (proj2 (Z.ltb_lt dt c) Ec) in Hn.
  assert (Hk : 1 <= (c - dt + iv - 1) / iv) by (apply Z.div_le_lower_bound; lia).
  rewrite IH.
  - f_equal. unfold interval_back. destruct (dt <? c - iv) eqn:Ec'.
    + replace (c - iv - dt + iv - 1) with ((c - dt + iv - 1) - iv) by lia.
      rewrite div_sub1 by lia. lia.
    + apply Z.ltb_ge in Ec'. assert ((c - dt + iv - 1) / iv = 1); [|lia].
      symmetry. apply (Z.div_unique _ _ 1 (c - dt - 1)); lia.
  - unfold back_steps. destruct (dt <? c - iv) eqn:Ec'; [|lia].
    replace (c - iv - dt + iv - 1) with ((c - dt + iv - 1) - iv) by lia.
    rewrite div_sub1 by lia. lia.
Qed.

Definition fwd_cond (f : option filt) (dt x : Z) : bool := (x <=? dt) || negb (allow_opt z f x).

Lemma fwd_iter (f : option filt) iv dt m : 0 < iv -> forall (k : nat) g0, g0 + Z.of_nat k * iv - iv <= dt ->
  iter_nat (k + m) (fun x => if fwd_cond f dt x then inl (x + iv) else inr x) g0 =
  iter_nat m (fun x => if fwd_cond f dt x then inl (x + iv) else inr x) (g0 + Z.of_nat k * iv).
Proof.
  intros Hiv k; induction k as [|k IH]; intros g0 Hk.
  - cbn [Nat.add]. f_equal. lia.
  - cbn [Nat.add iter_nat]. unfold fwd_cond at 1.
    assert (Hg : g0 <= dt) by nia. rewrite (proj2 (Z.leb_le g0 dt) Hg). cbn [orb].
    rewrite IH by lia. f_equal. lia.
Qed.

Lemma search_iter (f : option filt) iv dt : 0 < iv -> forall m g, dt < g ->
  iter_nat m (fun x => if fwd_cond f dt x then inl (x + iv) else inr x) g =
  iter_nat m (fun g => if allow_opt z f g then inr g else inl (g + iv)) g.
Proof.
  intros Hiv m; induction m as [|m IH]; intros g Hg; [reflexivity|]. cbn [iter_nat]. unfold fwd_cond at 1.
  rewrite (proj2 (Z.leb_gt g dt) Hg). cbn [orb]. destruct (allow_opt z f g); cbn [negb]; [reflexivity|].
  apply IH. lia.
Qed.

Lemma fwd_steps_first g0 iv dt : 0 < iv -> g0 <= dt ->
  g0 + Z.of_nat (fwd_steps g0 iv dt) * iv = interval_first g0 iv dt /\
  g0 + Z.of_nat (fwd_steps g0 iv dt) * iv - iv <= dt.
Proof.
  intros Hiv Hg. unfold fwd_steps, interval_first.
  assert (0 <= (dt - g0) / iv) by (apply Z.div_pos; lia).
  rewrite Z2Nat.id by lia. split; [reflexivity|]. nia.
Qed.

Definition start_point (id : nat) (start : option Z) (dt : Z) (st : pstate) : Z :=
  match cell_get id start st with Some c => c | None => dt + 1000 end.

(* exact: the first loop has more fuel than it needs, the second has the rounds up to the first grid point after
   dt plus the model's budget for the filter search *)
Theorem gen_interval_get_next_eq fuel id start iv f dt st :
  0 < iv -> allow_ok E R f ->
  let c := start_point id start dt st in
  (back_steps c iv dt < fuel 1%nat)%nat ->
  fuel 2%nat = (fwd_steps (interval_back c iv dt) iv dt + Pos.to_nat (interval_fuel E))%nat ->
  g_interval_get_next E R fuel id start iv f dt st = lift (get_next E (PInterval id start iv f) st dt).
Proof.
  intros Hiv Hf c H1 H2.
  assert (Hc : c = match ilookup id (icache st) with
                   | Some c => c
                   | None => match start with Some s => s | None => dt + 1000 end
                   end).
  { unfold c, start_point, cell_get. destruct (ilookup id (icache st)); [reflexivity|]. destruct start; reflexivity. }
  cbn [get_next]. rewrite <- Hc. unfold g_interval_get_next. cbv zeta.
  assert (Hmain : forall c0, c0 = c ->
    match while_ (fuel 1%nat) (pure_step (fun x => dt <? x) (fun x => x - iv)) c0 st with
    | Some (s, PRet (inl x)) =>
        match while_ (fuel 2%nat) (pure_step (fwd_cond f dt) (fun x => x + iv)) x s with
        | Some (s0, PRet (inl x0)) => p_return x0 (cell_set id x0 s0)
        | Some (s0, PRet (inr a5)) => p_return a5 s0
        | Some (s0, PExc e4) => p_raise s0 e4
        | None => None
        end
    | Some (s, PRet (inr a3)) => p_return a3 s
    | Some (s, PExc e2) => p_raise s e2
    | None => None
    end = lift match next_interval z (interval_fuel E) c iv f dt with
               | Ok g => (Ok g, with_icache (iset id g (icache st)) st)
               | r => (r, st)
               end).
  { intros c0 ->. rewrite while_pure, (back_iter iv dt Hiv _ c H1), while_pure, H2.
    destruct (fwd_steps_first (interval_back c iv dt) iv dt Hiv (interval_back_le c iv dt Hiv)) as (Hg1 & Hle).
    rewrite (fwd_iter f iv dt _ Hiv _ _ Hle), Hg1.
    rewrite search_iter by first [exact Hiv|apply interval_first_gt; [exact Hiv|apply interval_back_le; exact Hiv]].
    unfold next_interval. rewrite iter_until_nat.
    destruct (iter_nat _ _ (interval_first _ iv dt)) as [g|g]; reflexivity. }
  assert (Hs2 : forall x s, (if (x <=? dt) || match f with Some g => negb (r_allow R g x) | None => false end
                             then l_next (x + iv) s else l_exit x s)
                            = pure_step (fwd_cond f dt) (fun x => x + iv) x s).
  { intros x s. unfold pure_step, fwd_cond. destruct f as [g|]; cbn [allow_opt]; [|reflexivity].
    rewrite (Hf g eq_refl). reflexivity. }
  clear Hc H1 H2. unfold c, start_point in Hmain |- *. clear c.
  destruct (cell_get id start st) as [c1|].
  - rewrite <- (Hmain c1 eq_refl).
    rewrite (while_ext _ (pure_step (fun x => dt <? x) (fun x => x - iv))) by (intros; reflexivity).
    destruct (while_ (fuel 1%nat) _ c1 st) as [[s [[x|a]|e]]|]; try reflexivity.
    rewrite (while_ext _ (pure_step (fwd_cond f dt) (fun x => x + iv))) by (intros; apply Hs2). reflexivity.
  - rewrite <- (Hmain (dt + 1000) eq_refl).
    rewrite (while_ext _ (pure_step (fun x => dt <? x) (fun x => x - iv))) by (intros; reflexivity).
    destruct (while_ (fuel 1%nat) _ (dt + 1000) st) as [[s [[x|a]|e]]|]; try reflexivity.
    rewrite (while_ext _ (pure_step (fwd_cond f dt) (fun x => x + iv))) by (intros; apply Hs2). reflexivity.
Qed.
End Interval.

(* ------------------------------------------------------------------------------------------- *)
(* 9. closing the recursion: dispatch on the class of the object = the constructor of the model's syntax *)
Section Knot.
Variable E : penv.
Local Notation z := (pz E).

Definition none_prec : prec :=
  {| r_get_next := fun _ _ _ => None; r_allow := fun _ _ => false;
     r_replace := fun _ _ _ => None; r_find_after := fun _ _ _ => None |}.

Definition no_fuel : nat -> nat := fun _ => O.          (* for the methods without a `while` *)

(* fuel of the two loops of IntervalProducer.get_next: what the two walks need (they terminate: back_iter,
   fwd_iter) and, on top, the model's budget for the search that has no bound in the code *)
Definition interval_fuels (id : nat) (start : option Z) (iv dt : Z) (st : pstate) (k : nat) : nat :=
  let c := start_point id start dt st in
  match k with
  | 1%nat => S (back_steps c iv dt)
  | _ => (fwd_steps (interval_back c iv dt) iv dt + Pos.to_nat (interval_fuel E))%nat
  end.

Fixpoint pknot (n : nat) : prec :=
  match n with
  | O => none_prec
  | S m =>
      let R := pknot m in
      {| r_get_next := fun p dt s =>
           match p with
           | PTime tr f => g_time_get_next E R no_fuel tr f dt s
           | PInterval id start iv f =>
               g_interval_get_next E R (interval_fuels id start iv dt s) id start iv f dt s
           | PGroup ps f => g_group_get_next E R no_fuel ps f dt s
           | POffset q off f => g_op_get_next E R no_fuel q f (g_offset_apply E R no_fuel off) dt s
           | PEarliest q tr f => g_op_get_next E R no_fuel q f (g_earliest_apply E R no_fuel tr) dt s
           | PLatest q tr f => g_op_get_next E R no_fuel q f (g_latest_apply E R no_fuel tr) dt s
           | PJitter q lo hi f => g_op_get_next E R no_fuel q f (g_jitter_apply E R no_fuel lo hi) dt s
           | PSun key f => lift (get_next E (PSun key f) s dt)              (* prod_sun.py is not translated *)
           end;
         r_allow := fun g x =>
           match g with
           | FAny fs => g_any_allow E R fs x
           | FAll fs => g_all_allow E R fs x
           | FNot h => g_not_allow E R h x
           | FTime lo hi => g_timefilter_allow E R lo hi x
           | FWeekday l => g_weekday_allow E R l x
           | FDay l => g_day_allow E R l x
           | FMonth l => g_month_allow E R l x
           | FDateSet _ _ => allow g (to_local z x)                         (* prod_filter_holiday.py: not translated *)
           end;
         r_replace := fun tr day s => g_replace E R no_fuel (tr_tod tr) (tr_sk tr) (tr_rp tr) day s;
         r_find_after := fun day tod s => coarse_pm (g_find_after E R no_fuel day tod s) |}
  end.

Lemma depth_In g fs : In g fs -> (depth g <= fold_right (fun g acc => Nat.max (depth g) acc) 0 fs)%nat.
Proof. induction fs as [|h t IH]; cbn [In fold_right]; [tauto|]. intros [<-|H]; [lia|]. specialize (IH H). lia. Qed.

Theorem knot_allow : forall n g x, (depth g <= n)%nat -> r_allow (pknot n) g x = allow g (to_local z x).
Proof.
  induction n as [|n IH]; intros g x Hd; [destruct g; cbn [depth] in Hd; lia|].
  cbn [pknot r_allow]. destruct g as [fs|fs|h|lo hi|l|l|l|a b]; cbn [depth] in Hd.
  - apply gen_any_allow_eq. intros g Hg. apply IH. pose proof (depth_In g fs Hg). lia.
  - apply gen_all_allow_eq. intros g Hg. apply IH. pose proof (depth_In g fs Hg). lia.
  - apply gen_not_allow_eq. apply IH. lia.
  - apply gen_timefilter_allow_eq.
  - apply gen_weekday_allow_eq.
  - apply gen_day_allow_eq.
  - apply gen_month_allow_eq.
  - reflexivity.
Qed.

Definition orank (f : option filt) : nat := match f with None => O | Some g => depth g end.

Lemma knot_allow_ok n f : (orank f <= n)%nat -> allow_ok E (pknot n) f.
Proof. intros H g -> x. apply knot_allow. exact H. Qed.

Lemma knot_find_after n d t s : r_find_after (pknot (S n)) d t s = Some (s, of_rres (find_after z d t)).
Proof. cbn [pknot r_find_after]. apply gen_find_after_eq. Qed.

Lemma knot_replace n tr day s : r_replace (pknot (S (S n))) tr day s = Some (s, of_rres (replace z tr day)).
Proof.
  change (g_replace E (pknot (S n)) no_fuel (tr_tod tr) (tr_sk tr) (tr_rp tr) day s = Some (s, of_rres (replace z tr day))).
  apply gen_replace_eq. intros d t s0. apply knot_find_after.
Qed.

(* how deep the calls go below a get_next *)
Fixpoint rank (p : producer) : nat :=
  match p with
  | PTime _ f => 3 + orank f
  | PInterval _ _ _ f => 1 + orank f
  | PGroup ps f => S (fold_right (fun q acc => rank q + acc) 0 ps + orank f)
  | POffset q _ f | PJitter q _ _ f => S (rank q + orank f)
  | PEarliest q _ f | PLatest q _ f => S (rank q + orank f + 2)
  | PSun _ _ => 1
  end%nat.

Lemma rank_In q ps : In q ps -> (rank q <= fold_right (fun q acc => rank q + acc) 0 ps)%nat.
Proof. induction ps as [|h t IH]; cbn [In fold_right]; [tauto|]. intros [<-|H]; [lia|]. specialize (IH H). lia. Qed.

Lemma wf_group_In ps f q : wf_producer (PGroup ps f) -> In q ps -> wf_producer q.
Proof.
  cbn [wf_producer]. induction ps as [|h t IH]; cbn [In]; [tauto|]. intros (Hh & Ht) [<-|H]; [exact Hh|auto].
Qed.

(* THE TIE: the generated producers, closed by dispatch, compute the model *)
Theorem gen_get_next_is_model : forall n p, wf_producer p -> (rank p <= n)%nat ->
  forall dt st, r_get_next (pknot n) p dt st = lift (get_next E p st dt).
Proof.
  induction n as [|n IH]; intros p Hw Hr dt st; [destruct p; cbn [rank] in Hr; lia|].
  destruct p as [tr f|id start iv f|ps f|q off f|q tr f|q tr f|q lo hi f|key f]; cbn [rank] in Hr;
    cbn [pknot r_get_next].
  - destruct n as [|[|n]]; try lia.
    apply gen_time_get_next_eq; [intros; apply knot_replace|apply knot_allow_ok; lia].
  - cbn [wf_producer] in Hw. apply gen_interval_get_next_eq; [exact Hw|apply knot_allow_ok; lia| |reflexivity].
    cbn [interval_fuels]. lia.
  - apply gen_group_get_next_eq; [|apply knot_allow_ok; lia].
    intros q Hq x s. apply IH; [eapply wf_group_In; eassumption|]. pose proof (rank_In q ps Hq). lia.
  - apply gen_offset_get_next_eq; [|apply knot_allow_ok; lia].
    intros x s. apply IH; [exact Hw|lia].
  - destruct n as [|[|n]]; try lia.
    apply gen_earliest_get_next_eq; [intros; apply knot_replace| |apply knot_allow_ok; lia].
    intros x s. apply IH; [exact Hw|lia].
  - destruct n as [|[|n]]; try lia.
    apply gen_latest_get_next_eq; [intros; apply knot_replace| |apply knot_allow_ok; lia].
    intros x s. apply IH; [exact Hw|lia].
  - apply gen_jitter_get_next_eq; [|apply knot_allow_ok; lia].
    intros x s. apply IH; [exact Hw|lia].
  - reflexivity.
Qed.
End Knot.

(* ------------------------------------------------------------------------------------------- *)
(* 10. what the property files use *)
Lemma lift_ret r st' v : lift r = Some (st', PRet v) <-> r = (Ok v, st').
Proof.
  destruct r as [[w|e|] s]; cbn [lift]; split; intros H; try discriminate.
  - injection H as -> ->. reflexivity.
  - injection H as -> ->. reflexivity.
Qed.

(* the universal transfer: the generated code answers v (and leaves state st') exactly when the model does *)
Theorem gen_answer_iff E n p dt st st' v : wf_producer p -> (rank p <= n)%nat ->
  (r_get_next (pknot E n) p dt st = Some (st', PRet v) <-> get_next E p st dt = (Ok v, st')).
Proof. intros Hw Hr. rewrite (gen_get_next_is_model E n p Hw Hr). apply lift_ret. Qed.

Theorem gen_raise_iff E n p dt st st' x : wf_producer p -> (rank p <= n)%nat ->
  (r_get_next (pknot E n) p dt st = Some (st', PExc x) <-> exists e, x = XErr e /\ get_next E p st dt = (Raise e, st')).
Proof.
  intros Hw Hr. rewrite (gen_get_next_is_model E n p Hw Hr).
  destruct (get_next E p st dt) as [[w|e|] s]; cbn [lift]; split; intros H; try discriminate.
  - destruct H as (e & _ & H). discriminate.
  - injection H as -> <-. exists e. split; reflexivity.
  - destruct H as (e' & -> & H). injection H as -> ->. reflexivity.
  - destruct H as (e & _ & H). discriminate.
Qed.

Theorem gen_out_of_fuel_iff E n p dt st : wf_producer p -> (rank p <= n)%nat ->
  (r_get_next (pknot E n) p dt st = None <-> exists s, get_next E p st dt = (OutOfFuel, s)).
Proof.
  intros Hw Hr. rewrite (gen_get_next_is_model E n p Hw Hr).
  destruct (get_next E p st dt) as [[w|e|] s]; cbn [lift]; split; intros H; try discriminate;
    try (destruct H as (s0 & H); discriminate); [exists s; reflexivity|reflexivity].
Qed.

(* C04 on the generated code *)
Theorem gen_next_strictly_future E n p dt st st' v : wf_producer p -> (rank p <= n)%nat ->
  r_get_next (pknot E n) p dt st = Some (st', PRet v) -> dt < v.
Proof. intros Hw Hr H. apply (gen_answer_iff E n p dt st st' v Hw Hr) in H. eapply next_strictly_future; eassumption. Qed.

(* IntervalProducer.get_next with ANY fuel: what it answers, the model answers with some budget (soundness);
   what the model answers, it answers with every larger fuel (completeness) *)
Lemma iter_nat_mono {St Rt} (f : St -> St + Rt) n m : (n <= m)%nat ->
  forall s r, iter_nat n f s = inr r -> iter_nat m f s = inr r.
Proof.
  revert m; induction n as [|n IH]; intros m Hm s r; cbn [iter_nat]; [discriminate|].
  destruct m as [|m]; [lia|]. cbn [iter_nat]. destruct (f s) as [s'|r']; [|auto]. apply IH. lia.
Qed.

Section IntervalAnyFuel.
Variable E : penv.
Variable R : prec.
Local Notation z := (pz E).

Definition with_interval_fuel (P : positive) : penv :=
  {| pz := pz E; draw := draw E; sun_ev := sun_ev E; location := location E; interval_fuel := P |}.

Theorem gen_interval_complete fuel id start iv f dt st g st' :
  0 < iv -> allow_ok E R f ->
  get_next E (PInterval id start iv f) st dt = (Ok g, st') ->
  let c := start_point id start dt st in
  (back_steps c iv dt < fuel 1%nat)%nat ->
  (fwd_steps (interval_back c iv dt) iv dt + Pos.to_nat (interval_fuel E) <= fuel 2%nat)%nat ->
  g_interval_get_next E R fuel id start iv f dt st = Some (st', PRet g).
Proof.
  intros Hiv Hf Hm c H1 H2.
  set (P := Pos.of_nat (fuel 2%nat - fwd_steps (interval_back c iv dt) iv dt)).
  assert (HP : (Pos.to_nat (interval_fuel E) <= Pos.to_nat P)%nat).
  { unfold P. rewrite Nat2Pos.id by lia. lia. }
  assert (Hf' : allow_ok (with_interval_fuel P) R f) by exact Hf.
  pose proof (gen_interval_get_next_eq (with_interval_fuel P) R fuel id start iv f dt st Hiv Hf') as HE.
  cbv zeta in HE. change (g_interval_get_next (with_interval_fuel P)) with (g_interval_get_next E) in HE.
  rewrite HE; [|exact H1|cbn [interval_fuel with_interval_fuel]; unfold P; rewrite Nat2Pos.id by lia; fold c; lia].
  apply lift_ret. cbn [get_next] in Hm |- *. cbn [pz interval_fuel with_interval_fuel].
  set (c0 := match ilookup id (icache st) with Some c0 => c0 | None => match start with Some s => s | None => dt + 1000 end end) in *.
  unfold next_interval in Hm |- *. rewrite iter_until_nat in Hm |- *.
  destruct (iter_nat (Pos.to_nat (interval_fuel E)) _ _) as [x|x] eqn:EI; [discriminate|].
  rewrite (iter_nat_mono _ _ _ HP _ _ EI). exact Hm.
Qed.

Theorem gen_interval_sound fuel id start iv f dt st g st' :
  0 < iv -> allow_ok E R f ->
  g_interval_get_next E R fuel id start iv f dt st = Some (st', PRet g) ->
  exists P, get_next (with_interval_fuel P) (PInterval id start iv f) st dt = (Ok g, st').
Proof.
  intros Hiv Hf H.
  set (c := start_point id start dt st).
  set (k1 := back_steps c iv dt). set (k2 := fwd_steps (interval_back c iv dt) iv dt).
  set (fuel' := fun k => match k with 1%nat => Nat.max (fuel 1%nat) (S k1) | _ => (k2 + S (fuel 2%nat))%nat end).
  set (P := Pos.of_nat (S (fuel 2%nat))).
  exists P. apply lift_ret.
  assert (Hf' : allow_ok (with_interval_fuel P) R f) by exact Hf.
  rewrite <- (gen_interval_get_next_eq (with_interval_fuel P) R fuel' id start iv f dt st Hiv Hf').
  - (* more fuel does not change an answer *)
    change (g_interval_get_next (with_interval_fuel P)) with (g_interval_get_next E).
    revert H. unfold g_interval_get_next. cbv zeta.
    assert (Hmono : forall c0,
      match while_ (fuel 1%nat) (fun x s => if dt <? x then l_next (x - iv) s else l_exit x s) c0 st with
      | Some (s, PRet (inl x)) =>
          match while_ (fuel 2%nat) (fun x s => if (x <=? dt) || match f with Some g => negb (r_allow R g x) | None => false end
                                                then l_next (x + iv) s else l_exit x s) x s with
          | Some (s0, PRet (inl x0)) => p_return x0 (cell_set id x0 s0)
          | Some (s0, PRet (inr a5)) => p_return a5 s0
          | Some (s0, PExc e4) => p_raise s0 e4
          | None => None
          end
      | Some (s, PRet (inr a3)) => p_return a3 s
      | Some (s, PExc e2) => p_raise s e2
      | None => None
      end = Some (st', PRet g) ->
      match while_ (fuel' 1%nat) (fun x s => if dt <? x then l_next (x - iv) s else l_exit x s) c0 st with
      | Some (s, PRet (inl x)) =>
          match while_ (fuel' 2%nat) (fun x s => if (x <=? dt) || match f with Some g => negb (r_allow R g x) | None => false end
                                                 then l_next (x + iv) s else l_exit x s) x s with
          | Some (s0, PRet (inl x0)) => p_return x0 (cell_set id x0 s0)
          | Some (s0, PRet (inr a5)) => p_return a5 s0
          | Some (s0, PExc e4) => p_raise s0 e4
          | None => None
          end
      | Some (s, PRet (inr a3)) => p_return a3 s
      | Some (s, PExc e2) => p_raise s e2
      | None => None
      end = Some (st', PRet g)).
    { intros c0 H0.
      destruct (while_ (fuel 1%nat) _ c0 st) as [r1|] eqn:E1; [|discriminate].
      rewrite (while_mono _ (fuel 1%nat) (fuel' 1%nat) (Nat.le_max_l _ _) _ _ _ E1).
      destruct r1 as [s [[x|a]|e]]; try exact H0.
      destruct (while_ (fuel 2%nat) _ x s) as [r2|] eqn:E2; [|discriminate].
      rewrite (while_mono _ (fuel 2%nat) (fuel' 2%nat) ltac:(cbn; lia) _ _ _ E2). exact H0. }
    destruct (cell_get id start st) as [c1|]; apply Hmono.
  - cbn. fold c k1. lia.
  - cbn [interval_fuel with_interval_fuel]. unfold P. rewrite Nat2Pos.id by lia. reflexivity.
Qed.
End IntervalAnyFuel.

(* C05 on the generated IntervalProducer.get_next, whatever the fuel: an answer is the earliest admissible point
   of the grid through the cell / start after dt, and it is what the cell holds afterwards *)
Theorem gen_interval_earliest E R fuel id start iv f dt st g st' :
  0 < iv -> allow_ok E R f ->
  g_interval_get_next E R fuel id start iv f dt st = Some (st', PRet g) ->
  let c := start_point id start dt st in
  dt < g /\ on_grid c iv g /\ allow_opt (pz E) f g = true /\
  (forall u, dt < u < g -> on_grid c iv u -> allow_opt (pz E) f u = false) /\
  cell_get id start st' = Some g.
Proof.
  intros Hiv Hf H c. destruct (gen_interval_sound E R fuel id start iv f dt st g st' Hiv Hf H) as (P & HP).
  cbn [get_next pz interval_fuel with_interval_fuel] in HP.
  assert (Hc : c = match ilookup id (icache st) with
                   | Some c => c
                   | None => match start with Some s => s | None => dt + 1000 end
                   end).
  { unfold c, start_point, cell_get. destruct (ilookup id (icache st)); [reflexivity|]. destruct start; reflexivity. }
  rewrite <- Hc in HP. destruct (next_interval (pz E) P c iv f dt) as [g'|e|] eqn:EN; try discriminate.
  injection HP as -> <-. destruct (interval_earliest _ _ _ _ _ _ _ Hiv EN) as (H1 & H2 & H3 & H4).
  repeat (split; [assumption|]). unfold cell_get. cbn [icache with_icache].
  assert (Hl : forall l, ilookup id (iset id g l) = Some g).
  { induction l as [|[k w] t IH]; cbn [iset ilookup]; [rewrite Nat.eqb_refl; reflexivity|].
    destruct (Nat.eqb k id) eqn:Ek; cbn [ilookup]; rewrite Ek; [reflexivity|exact IH]. }
  rewrite Hl. reflexivity.
Qed.

(* C16 on the generated IntervalProducer.get_next: it ends with a value as soon as an admissible grid point
   exists within the budget *)
Theorem gen_interval_terminates E R fuel id start iv f dt st :
  0 < iv -> allow_ok E R f ->
  let c := start_point id start dt st in
  (back_steps c iv dt < fuel 1%nat)%nat ->
  fuel 2%nat = (fwd_steps (interval_back c iv dt) iv dt + Pos.to_nat (interval_fuel E))%nat ->
  (exists k, (k < Pos.to_nat (interval_fuel E))%nat /\
             allow_opt (pz E) f (interval_first (interval_back c iv dt) iv dt + Z.of_nat k * iv) = true) ->
  exists g st', g_interval_get_next E R fuel id start iv f dt st = Some (st', PRet g).
Proof.
  intros Hiv Hf c H1 H2 Hex.
  rewrite (gen_interval_get_next_eq E R fuel id start iv f dt st Hiv Hf H1 H2). cbn [get_next].
  assert (Hc : c = match ilookup id (icache st) with
                   | Some c => c
                   | None => match start with Some s => s | None => dt + 1000 end
                   end).
  { unfold c, start_point, cell_get. destruct (ilookup id (icache st)); [reflexivity|]. destruct start; reflexivity. }
  rewrite <- Hc. destruct (interval_terminates (pz E) (interval_fuel E) c iv f dt Hiv Hex) as (g & Hg).
  rewrite Hg. eexists. eexists. reflexivity.
Qed.

(* C13 / C14 on the generated code *)
Theorem gen_offset_exact E n q off f st dt v st' :
  wf_producer q -> (rank (POffset q off f) <= n)%nat ->
  r_get_next (pknot E n) (POffset q off f) dt st = Some (st', PRet v) ->
  exists m, inner_answer E q dt m /\ v = m + off /\ dt < v /\ allow_opt (pz E) f v = true.
Proof.
  intros Hw Hr H. apply (gen_answer_iff E n (POffset q off f) dt st st' v Hw Hr) in H.
  eapply offset_exact; eassumption.
Qed.

Theorem gen_earliest_clamp E n q tr f st dt v st' :
  wf_producer q -> (rank (PEarliest q tr f) <= n)%nat ->
  r_get_next (pknot E n) (PEarliest q tr f) dt st = Some (st', PRet v) ->
  exists m, inner_answer E q dt m /\ apply_earliest (pz E) tr m dt = Ok v /\ m <= v /\ dt < v /\
            allow_opt (pz E) f v = true.
Proof.
  intros Hw Hr H. apply (gen_answer_iff E n (PEarliest q tr f) dt st st' v Hw Hr) in H.
  eapply earliest_clamp; eassumption.
Qed.

Theorem gen_offset_chain_injective E n q off f st1 d0 v1 st2 v2 st3 :
  wf_producer q -> (rank (POffset q off f) <= n)%nat ->
  r_get_next (pknot E n) (POffset q off f) d0 st1 = Some (st2, PRet v1) ->
  r_get_next (pknot E n) (POffset q off f) v1 st2 = Some (st3, PRet v2) ->
  exists n1 n2, inner_answer E q d0 n1 /\ inner_answer E q v1 n2 /\ v1 = n1 + off /\ v2 = n2 + off /\ n1 < n2.
Proof.
  intros Hw Hr H1 H2.
  apply (gen_answer_iff E n (POffset q off f) _ _ _ _ Hw Hr) in H1.
  apply (gen_answer_iff E n (POffset q off f) _ _ _ _ Hw Hr) in H2.
  eapply offset_chain_injective; eassumption.
Qed.

(* ------------------------------------------------------------------------------------------- *)
(* 11. the generated code runs: a zone with a spring-forward transition; a group of (interval with a time window,
   offset, jitter with a negative lower bound, earliest) and (time of day 02:30, skipped -> after, not on weekends)
   under a group filter; the skipped day; an interval whose filter never accepts (F9: out of fuel, never a value) *)
Definition ex_tz : tz := {| tz_init := 3600; tz_trans := [(7 * 86400 * NS + 3600 * NS, 7200)] |}.
Definition ex_env : penv :=
  {| pz := ex_tz; draw := fun k a b => a + (b - a) / 2; sun_ev := fun _ _ => None; location := None;
     interval_fuel := 50 |}.
Definition ex_tr : treplacer := {| tr_tod := 2 * 3600 * NS + 1800 * NS; tr_sk := SkAfter; tr_rp := RpTwice |}.
Definition ex_p : producer :=
  PGroup [PEarliest (PJitter (POffset (PInterval 0 (Some 0) (3600 * NS) (Some (FTime (Some (6 * 3600 * NS)) None)))
                                       (5 * NS) None) (-2 * NS) (2 * NS) None) ex_tr None;
          PTime ex_tr (Some (FNot (FWeekday [6; 7])))]
         (Some (FAny [FDay [1; 2; 3; 4; 5; 6; 7; 8; 9; 10]; FMonth [2]])).

Example ex_hypotheses_hold : wf_producer ex_p /\ (rank ex_p <= 15)%nat.
Proof. split; [cbn; lia|vm_compute; lia]. Qed.

Example ex_generated_group :
  r_get_next (pknot ex_env 15) ex_p (3 * 86400 * NS + 17) pstate0 =
  Some ({| icache := [(0%nat, 277200000000000)]; ndraws := 1; scache := [] |}, PRet 277205000000000).
Proof. vm_compute. reflexivity. Qed.

Example ex_generated_skipped_day :
  r_get_next (pknot ex_env 15) (PTime ex_tr None) (7 * 86400 * NS + 17) pstate0 = Some (pstate0, PRet 608400000000000).
Proof. vm_compute. reflexivity. Qed.

Example ex_generated_unsat_filter :
  r_get_next (pknot ex_env 15) (PInterval 3 None (7 * NS) (Some (FDay []))) 100 pstate0 = None.
Proof. vm_compute. reflexivity. Qed.
