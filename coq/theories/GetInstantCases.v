(* GetInstantCases.v — Coq side of the C19 correspondence: a case is one call of the public API with the
   reading of its arguments ([iarg]), the patched current instant, and what the implementation did
   (value in integer nanoseconds, or the error class mapped to [err]).  The zone table is given once per
   file.  [mismatches] lists the indices of the cases where the model disagrees. *)
From EAS Require Import Base Civil Time GetInstant.

Inductive ccase :=
  | CGet (now : Z) (a : iarg) (obs : result Z)                          (* get_instant(a) *)
  | COnce (now : Z) (a : iarg) (obs : result Z)                         (* JobBuilder.once(a, f): next_run *)
  | CCountdown (a : iarg) (obs : result Z)                              (* JobBuilder.countdown(a, f): length *)
  | CInterval (now : Z) (start iv : iarg) (obs : result (option Z * Z)) (* TriggerBuilder.interval(start, iv) *)
  | COffset (a : iarg) (obs : result Z)                                 (* trigger.offset(a) *)
  | CJitter (lo : iarg) (hi : option iarg) (obs : result (Z * Z)).      (* trigger.jitter(lo, hi) *)

Definition pair_eqb (x y : Z * Z) : bool := (fst x =? fst y) && (snd x =? snd y).
Definition optpair_eqb (x y : option Z * Z) : bool := opt_eqb Z.eqb (fst x) (fst y) && (snd x =? snd y).

Definition case_ok (z : tz) (c : ccase) : bool :=
  match c with
  | CGet now a obs => result_eqb Z.eqb (get_instant z now a) obs
  | COnce now a obs => result_eqb Z.eqb (once z now a) obs
  | CCountdown a obs => result_eqb Z.eqb (countdown a) obs
  | CInterval now s iv obs => result_eqb optpair_eqb (interval z now s iv) obs
  | COffset a obs => result_eqb Z.eqb (offset a) obs
  | CJitter lo hi obs => result_eqb pair_eqb (jitter lo hi) obs
  end.

Definition mismatches (z : tz) (cs : list ccase) : list nat := bad_indices (case_ok z) cs.

(* the model's own answer, for the report of a mismatch *)
Inductive answer := AnsZ (r : result Z) | AnsInterval (r : result (option Z * Z)) | AnsPair (r : result (Z * Z)).
Definition case_model (z : tz) (c : ccase) : answer :=
  match c with
  | CGet now a _ => AnsZ (get_instant z now a)
  | COnce now a _ => AnsZ (once z now a)
  | CCountdown a _ => AnsZ (countdown a)
  | CInterval now s iv _ => AnsInterval (interval z now s iv)
  | COffset a _ => AnsZ (offset a)
  | CJitter lo hi _ => AnsPair (jitter lo hi)
  end.

(* the hypotheses of GetInstantFacts.time_of_day_next for the current instant of a case: indices of the
   cases (with a current instant) for which the local date may go backwards within reach of now *)
Definition case_now (c : ccase) : option Z :=
  match c with
  | CGet now _ _ | COnce now _ _ | CInterval now _ _ _ => Some now
  | _ => None
  end.
Definition outside_hypothesis (z : tz) (cs : list ccase) : list nat :=
  bad_indices (fun c => match case_now c with
                        | Some now => dates_forward_b z (reach_lo now) (reach_hi now)
                        | None => true
                        end) cs.
