(* ProdComplete3.v — C05, completeness along a chain: following a time-of-day trigger from its own answers never
   meets InfiniteLoopDetectedError when every window of the day walk contains an admissible day.
   * [time_chain_never_starves]: the semantic form (a witness day in the horizon of every position);
   * [day_only] / [allow_day_only]: filters without a time-of-day part look at the local DATE only;
   * [normal_day] / [normal_day_results]: a local day on which the configured wall-clock time exists exactly once;
     [calm_normal]: every local day from the second day after an instant that is not before the last transition
     of the table is normal;
   * [day_window] / [time_chain_never_starves_dates]: the syntactic sufficient condition: a date-only filter that
     accepts some day in every run of W <= 99 996 consecutive days, reference instant not before the last
     transition of the table; [weekday_window]: W = 7 for a weekday filter naming at least one weekday;
     [time_chain_never_starves_weekday]. *)
From EAS Require Import Base BaseFacts Civil CivilFacts Time TimeFacts TimeOrder Filters FiltersFacts Replace
  ReplaceFacts Producers ProdStrict ProdEarliest ProdEarliest2 ProdComplete.
From EASGen Require Import Generated.
From Coq Require Import Sorted.

Definition all_ok (l : list (result Z)) : Prop := forall r, In r l -> exists v, r = Ok v.

Lemma chain_length_ok E p : forall n st dt, all_ok (chain E p st dt n) -> length (chain E p st dt n) = n.
Proof.
  induction n as [|n IH]; intros st dt H; cbn [chain] in *; [reflexivity|].
  destruct (get_next E p st dt) as [[v|e|] st'] eqn:EG.
  - cbn [length]. f_equal. apply IH. intros r Hr. apply H. right; exact Hr.
  - destruct (H (Raise e) (or_introl eq_refl)) as (v & Hv). discriminate.
  - destruct (H OutOfFuel (or_introl eq_refl)) as (v & Hv). discriminate.
Qed.

(* every position of the chain sees an admissible occurrence within its horizon *)
Definition window_ok (z : tz) (tr : treplacer) (f : option filt) (x : Z) : Prop :=
  exists d w, in_horizon z x d /\ In w (day_results z tr d) /\ x < w /\ allow_opt z f w = true.

Theorem time_chain_never_starves E tr f dt :
  no_exn (pz E) tr -> (forall x, dt <= x -> window_ok (pz E) tr f x) ->
  forall n st, all_ok (chain E (PTime tr f) st dt n) /\ length (chain E (PTime tr f) st dt n) = n.
Proof.
  intros Hne Hw n st.
  assert (H : forall n x, dt <= x -> all_ok (chain E (PTime tr f) st x n)).
  { clear n. induction n as [|n IH]; intros x Hx; cbn [chain get_next]; [intros r []|].
    destruct (Hw x Hx) as (d & w & Hh & Hin & Hxw & Ha).
    destruct (time_complete (pz E) tr f x d w Hh Hin Hxw Ha (fun d' e _ => Hne d' e)) as (day & v & _ & _ & Hn).
    rewrite Hn. intros r [<-|Hr]; [eauto|]. apply (IH v); [|exact Hr].
    pose proof (next_time_future _ _ _ _ _ Hn). lia. }
  split; [apply H; lia|]. apply chain_length_ok. apply H. lia.
Qed.

(* ------------------------------------------------------------------------------------------- *)
(* date-only filters *)
Fixpoint day_only (f : filt) : Prop :=
  match f with
  | FAny fs | FAll fs => (fix al (l : list filt) : Prop := match l with [] => True | g :: t => day_only g /\ al t end) fs
  | FNot g => day_only g
  | FTime _ _ => False
  | _ => True
  end.

Lemma day_only_list fs :
  (fix al (l : list filt) : Prop := match l with [] => True | g :: t => day_only g /\ al t end) fs <->
  forall g, In g fs -> day_only g.
Proof.
  induction fs as [|h t IH]; [split; [intros _ g []|intros _; exact I]|].
  rewrite IH. split.
  - intros (H1 & H2) g [<-|Hg]; [exact H1|apply H2; exact Hg].
  - intros H. split; [apply H; left; reflexivity|intros g Hg; apply H; right; exact Hg].
Qed.

Theorem allow_day_only : forall f x y, day_only f -> local_day x = local_day y -> allow f x = allow f y.
Proof.
  intros f x y. induction f as [fs IH|fs IH|g IH|lo hi|s|s|s|a n] using filt_ind'; intros Hd Hxy.
  - cbn [day_only] in Hd. rewrite day_only_list in Hd. cbn [allow].
    induction fs as [|h t IHt]; [reflexivity|]. cbn [existsb]. inversion IH as [|? ? Hh Ht]; subst.
    rewrite (Hh (Hd h (or_introl eq_refl)) Hxy). f_equal. apply IHt; [exact Ht|].
    intros g Hg. apply Hd. right; exact Hg.
  - cbn [day_only] in Hd. rewrite day_only_list in Hd. cbn [allow].
    induction fs as [|h t IHt]; [reflexivity|]. cbn [forallb]. inversion IH as [|? ? Hh Ht]; subst.
    rewrite (Hh (Hd h (or_introl eq_refl)) Hxy). f_equal. apply IHt; [exact Ht|].
    intros g Hg. apply Hd. right; exact Hg.
  - cbn [allow]. rewrite (IH Hd Hxy). reflexivity.
  - destruct Hd.
  - cbn [allow]. unfold local_weekday. rewrite Hxy. reflexivity.
  - cbn [allow]. unfold local_dom. rewrite Hxy. reflexivity.
  - cbn [allow]. unfold local_month. rewrite Hxy. reflexivity.
  - cbn [allow]. rewrite Hxy. reflexivity.
Qed.

(* the filter's verdict on a local day *)
Definition day_ok (f : filt) (d : Z) : bool := allow f (mk_local d 0).

(* every run of W consecutive days contains an accepted day *)
Definition day_window (f : filt) (W : Z) : Prop := forall D, exists d, D <= d < D + W /\ day_ok f d = true.

(* ------------------------------------------------------------------------------------------- *)
(* normal days: the configured wall-clock time exists exactly once *)
Definition normal_day (z : tz) (tr : treplacer) (d : Z) : Prop :=
  exists i, candidates z (d * DAY + tr_tod tr) = [i].

Lemma normal_day_results z tr d :
  wf_tr tr -> normal_day z tr d ->
  exists i, day_results z tr d = [i] /\ local_day (to_local z i) = d.
Proof.
  intros Ht (i & Hc). exists i. destruct (replace_unique z tr d i Hc) as (Hr & Hl).
  split; [unfold day_results; rewrite Hr; reflexivity|].
  apply (exact_result_day z tr d i Ht Hl).
Qed.

Lemma candidates_singleton z l i :
  to_local z i = l -> (forall j, to_local z j = l -> j = i) -> candidates z l = [i].
Proof.
  intros Hi Huniq. pose proof (candidates_sorted z l) as Hs.
  assert (Hin : In i (candidates z l)) by (apply candidates_spec; exact Hi).
  assert (Hall : forall j, In j (candidates z l) -> j = i) by (intros j Hj; apply Huniq, candidates_spec; exact Hj).
  destruct (candidates z l) as [|a [|b t]]; [destruct Hin| |].
  - rewrite (Hall a (or_introl eq_refl)). reflexivity.
  - exfalso. pose proof (Hall a (or_introl eq_refl)). pose proof (Hall b (or_intror (or_introl eq_refl))).
    inversion Hs as [|? ? _ Hf]; subst. inversion Hf as [|? ? Hab _]; subst. lia.
Qed.

(* all transitions of the table are at or before T *)
Definition calm_from (z : tz) (T : Z) : bool := forallb (fun p : Z * Z => fst p <=? T) (tz_trans z).

Lemma offset_from_after : forall l cur i,
  (forall p, In p l -> fst p <= i) -> offset_from cur l i = last_z cur (map snd l).
Proof.
  induction l as [|[t o] r IH]; intros cur i H; cbn [offset_from map snd last_z]; [reflexivity|].
  pose proof (H (t, o) (or_introl eq_refl)) as Ht. cbn [fst] in Ht.
  destruct (i <? t) eqn:E; [lia|]. apply IH. intros p Hp. apply H. right; exact Hp.
Qed.

Definition final_off (z : tz) : Z := last_z (tz_init z) (map snd (tz_trans z)).

Lemma offset_at_calm z T i : calm_from z T = true -> T <= i -> offset_at z i = final_off z.
Proof.
  intros Hc Hi. unfold offset_at, final_off. apply offset_from_after. intros p Hp.
  unfold calm_from in Hc. rewrite forallb_forall in Hc. specialize (Hc p Hp). lia.
Qed.

(* after the last transition every local time exists exactly once *)
Lemma calm_unique z T l :
  calm_from z T = true -> T + off_hi z * NS <= l -> candidates z l = [l - final_off z * NS].
Proof.
  intros Hc Hl.
  assert (Hfo : off_lo z <= final_off z <= off_hi z).
  { rewrite <- (offset_at_calm z T T Hc (Z.le_refl T)). apply offset_range. }
  apply candidates_singleton.
  - unfold to_local. rewrite (offset_at_calm z T _ Hc); [lia|]. change NS with 1000000000 in *. lia.
  - intros j Hj. unfold to_local in Hj. pose proof (offset_range z j) as Ho.
    assert (HTj : T <= j) by (change NS with 1000000000 in *; lia).
    rewrite (offset_at_calm z T j Hc HTj) in Hj. lia.
Qed.

Theorem calm_normal z T tr x d :
  wf_tz_b z = true -> calm_from z T = true -> 0 <= tr_tod tr -> T <= x ->
  local_day (to_local z x) + 2 <= d -> normal_day z tr d.
Proof.
  intros Hz Hc Ht HTx Hd. exists (d * DAY + tr_tod tr - final_off z * NS). apply (calm_unique z T _ Hc).
  pose proof (wf_tz_spread z Hz) as Hsp. pose proof (offset_range z x) as Ho. unfold spread in Hsp.
  unfold local_day, to_local in Hd. change DAY with 86400000000000 in *. change NS with 1000000000 in *. lia.
Qed.

(* ------------------------------------------------------------------------------------------- *)
(* the syntactic sufficient condition *)
Theorem window_ok_dates z T tr g W x :
  wf_tz_b z = true -> wf_tr tr -> calm_from z T = true -> T <= x ->
  day_only g -> day_window g W -> W + 3 <= LBZ -> window_ok z tr (Some g) x.
Proof.
  intros Hz Ht Hc HTx Hg Hwin HW. pose proof (wf_tz_spread z Hz) as Hsp.
  destruct (Hwin (local_day (to_local z x) + 2)) as (d & Hd & Hok).
  destruct (normal_day_results z tr d Ht (calm_normal z T tr x d Hz Hc (proj1 Ht) HTx (proj1 Hd))) as (i & Hres & Hld).
  assert (Hin : In i (day_results z tr d)) by (rewrite Hres; left; reflexivity).
  exists d, i. split; [unfold in_horizon, walk_start; lia|]. split; [exact Hin|]. split.
  - apply (day_results_after_ref z tr d i x Hsp (proj1 Ht) Hin). lia.
  - cbn [allow_opt]. unfold day_ok in Hok. rewrite <- Hok. apply allow_day_only; [exact Hg|].
    rewrite Hld. symmetry. apply local_day_mk. change DAY with 86400000000000. lia.
Qed.

Theorem time_chain_never_starves_dates E T tr g W dt :
  wf_tz_b (pz E) = true -> wf_tr tr -> no_exn (pz E) tr -> calm_from (pz E) T = true -> T <= dt ->
  day_only g -> day_window g W -> W + 3 <= LBZ ->
  forall n st, all_ok (chain E (PTime tr (Some g)) st dt n) /\ length (chain E (PTime tr (Some g)) st dt n) = n.
Proof.
  intros Hz Ht Hne Hc HT Hg Hwin HW. apply time_chain_never_starves; [exact Hne|].
  intros x Hx. apply (window_ok_dates (pz E) T tr g W x Hz Ht Hc); [lia|assumption..].
Qed.

(* a weekday filter naming at least one weekday accepts a day in every run of 7 days *)
Lemma weekday_window s wd : In wd s -> 1 <= wd <= 7 -> day_window (FWeekday s) 7.
Proof.
  intros Hin Hwd D. exists (D + (wd - 1 - (D + 3)) mod 7). split; [lia|].
  unfold day_ok. cbn [allow]. apply zmemb_In. unfold local_weekday.
  rewrite local_day_mk by (change DAY with 86400000000000; lia).
  replace (weekday_of_day (D + (wd - 1 - (D + 3)) mod 7)) with wd; [exact Hin|].
  unfold weekday_of_day. lia.
Qed.

Corollary time_chain_never_starves_weekday E T tr s wd dt :
  wf_tz_b (pz E) = true -> wf_tr tr -> no_exn (pz E) tr -> calm_from (pz E) T = true -> T <= dt ->
  In wd s -> 1 <= wd <= 7 ->
  forall n st, all_ok (chain E (PTime tr (Some (FWeekday s))) st dt n) /\
               length (chain E (PTime tr (Some (FWeekday s))) st dt n) = n.
Proof.
  intros Hz Ht Hne Hc HT Hin Hwd.
  apply (time_chain_never_starves_dates E T tr (FWeekday s) 7 dt Hz Ht Hne Hc HT I (weekday_window s wd Hin Hwd)).
  rewrite LBZ_val. lia.
Qed.

(* a filter with a time-of-day part can starve a time-of-day trigger for good: 07:30 never lies in [08:00, 09:00),
   so no day of any horizon is admissible *)
Example ex_time_filter_starves :
  next_time berlin2 tr0730 (Some (FTime (Some (8 * 3600 * NS)) (Some (9 * 3600 * NS)))) ex_dt = Raise EInfiniteLoop.
Proof. vm_compute. reflexivity. Qed.

(* Example: daily 07:30, Monday-only, on the two-transition table, from a reference instant after the autumn
   change (2025-10-26T01:00Z): the chain never starves; and its first three elements *)
Definition ex_chain_env : penv :=
  {| pz := berlin2; draw := fun _ _ _ => 0; sun_ev := fun _ _ => None; location := None; interval_fuel := 1%positive |}.

Example ex_chain_never_starves n st :
  all_ok (chain ex_chain_env (PTime tr0730 monday_only) st (1761440400 * NS) n) /\
  length (chain ex_chain_env (PTime tr0730 monday_only) st (1761440400 * NS) n) = n.
Proof.
  apply (time_chain_never_starves_weekday ex_chain_env (1761440400 * NS) tr0730 [1] 1).
  - vm_compute; reflexivity.
  - apply ex_tr0730_wf.
  - apply ex_tr0730_wf.
  - vm_compute; reflexivity.
  - lia.
  - left; reflexivity.
  - lia.
Qed.

Example ex_chain_values :
  chain ex_chain_env (PTime tr0730 monday_only) pstate0 (1761440400 * NS) 3 =
  [Ok (1761546600 * NS); Ok (1762151400 * NS); Ok (1762756200 * NS)].
Proof. vm_compute. reflexivity. Qed.
