(* GenSchedEq.v — the code generated from async_scheduler.py (coq/gen/GenSched.v, rewritten on every run) computes
   what the hand-written model of Sched.v computes.

   [knot fuel] closes the open recursion of the generated methods with one unit of fuel per call, the fuel discipline
   of Sched.v.  [gen_agrees]: for all six functions of the re-entrant core, every fuel and EVERY state (no invariant
   needed), whenever the model returns a state that is not [broken] the generated code returns exactly that state,
   normally.  (The model marks the paths on which Python raises JobExecutionTimeIsNotSetError with the sticky [broken]
   flag; the generated code propagates the exception instead.  From well-formed states neither happens:
   SchedInv.core_specs_all, wf_nb.)  [gen_enable_is_model], [gen_wake_is_model], [gen_update_job_is_model]: the API
   entry points on every reachable (Inv) state.  job.execute() is not generated from the scheduler's file: GenRt.exec_open
   is shown to be Sched.exec_job with the exception handed back to the caller. *)
From EAS Require Import Base BaseFacts Sched SchedInv SchedApi GenRt.
From EASGen Require Import GenSched.

Theorem gen_sched_recognised : gen_sched_status_v = GenSchedOk.
Proof. reflexivity. Qed.

Section Eq.
Variable E : env.

Definition none_rec : rec := {|
  r_set_timer := fun _ => None; r_run_jobs := fun _ => None; r_run_jobs_loop := fun _ => None;
  r_add_job := fun _ _ => None; r_remove_job := fun _ _ => None; r_execute := fun _ _ => None |}.

Fixpoint knot (fuel : nat) : rec :=
  match fuel with
  | O => none_rec
  | S f =>
      let R := knot f in
      {| r_set_timer := g_set_timer R; r_run_jobs := g_run_jobs R; r_run_jobs_loop := g_run_jobs_loop R;
         r_add_job := g_add_job R; r_remove_job := g_remove_job R;
         r_execute := exec_open E (r_remove_job R) |}
  end.

(* the entry points with fuel *)
Definition gen_set_enabled (fuel : nat) (b : bool) (s : st) : M := g_set_enabled (knot fuel) b s.
Definition gen_update_job (fuel : nat) (j : nat) (s : st) : M := g_update_job (knot fuel) j s.
Definition gen_run_jobs (fuel : nat) (s : st) : M := r_run_jobs (knot fuel) s.

(* ------------------------------------------------------------------------------------------- *)
(* record eta for the fields the generated code may leave untouched *)
Lemma set_timer_f_same s : set_timer_f (timer s) s = s.
Proof. destruct s; reflexivity. Qed.
Lemma set_queue_same s : set_queue (queue s) s = s.
Proof. destruct s; reflexivity. Qed.

Lemma leb_sub (t n : Z) : (t - n <=? 0) = (t <=? n).
Proof. destruct (Z.leb_spec (t - n) 0), (Z.leb_spec t n); try reflexivity; lia. Qed.

Lemma add_sub_cancel (a b : Z) : a + (b - a) = b.
Proof. lia. Qed.

Lemma memb_In x l : memb x l = true <-> In x l.
Proof.
  induction l as [|y t IH]; cbn [memb In]; [split; [discriminate|intros []]|].
  rewrite Bool.orb_true_iff, IH, Nat.eqb_eq. split; intros [H|H]; auto.
Qed.

Lemma insort_not_nil s j q : insort s j q <> [].
Proof. destruct q as [|h t]; cbn [insort]; [discriminate|]. destruct (job_lt s j h); discriminate. Qed.

(* ------------------------------------------------------------------------------------------- *)
(* [broken] is sticky in the model *)
Definition sticky (f : nat) : Prop :=
  (forall s s', set_timer E f s = Some s' -> broken s = true -> broken s' = true) /\
  (forall s s', run_jobs E f s = Some s' -> broken s = true -> broken s' = true) /\
  (forall s s', run_loop E f s = Some s' -> broken s = true -> broken s' = true) /\
  (forall j s s', add_job E f j s = Some s' -> broken s = true -> broken s' = true) /\
  (forall j s s', remove_job E f j s = Some s' -> broken s = true -> broken s' = true) /\
  (forall j t s s', exec_job E f j t s = Some s' -> broken s = true -> broken s' = true).

Lemma finish_job_broken j s : broken (finish_job E j s) = broken s.
Proof. destruct (finish_job_props E j s) as (_ & _ & _ & _ & _ & _ & H & _). exact H. Qed.
Lemma set_next_run_broken j nx s : broken (set_next_run E j nx s) = broken s.
Proof. destruct (set_next_run_props E j nx s) as (_ & _ & _ & _ & _ & _ & H & _). exact H. Qed.
Lemma exec_pre_broken j t s : broken (exec_pre E j t s) = broken s.
Proof. unfold exec_pre. cbv zeta. destruct (fail_exec E j _); reflexivity. Qed.

Lemma sticky_all : forall f, sticky f.
Proof.
  induction f as [|f (IHt & IHr & IHl & IHa & IHm & IHe)].
  - repeat split; intros; discriminate.
  - refine (conj _ (conj _ (conj _ (conj _ (conj _ _))))).
    + intros s s' H Hb. rewrite set_timer_S in H. cbv zeta in H.
      destruct (queue (set_timer_f None s)) as [|h q] eqn:Eq; [injection H as <-; exact Hb|].
      destruct (negb (enabled (set_timer_f None s))); [injection H as <-; exact Hb|].
      destruct (jnext (jobs (set_timer_f None s) h)) as [t|]; [|injection H as <-; reflexivity].
      destruct (t <=? now (set_timer_f None s)); [|injection H as <-; exact Hb].
      eapply IHr; [exact H|exact Hb].
    + intros s s' H Hb. rewrite run_jobs_S in H. cbv zeta in H.
      destruct (run_loop E f (set_timer_f None s)) as [s1|] eqn:El; [|discriminate].
      assert (Hb1 : broken s1 = true) by (eapply IHl; [exact El|exact Hb]).
      rewrite Hb1 in H. injection H as <-. exact Hb1.
    + intros s s' H Hb. rewrite run_loop_S in H.
      destruct (queue s) as [|h q] eqn:Eq; [injection H as <-; exact Hb|].
      destruct (jnext (jobs s h)) as [t|]; [|injection H as <-; reflexivity].
      destruct (now s <? t); [injection H as <-; exact Hb|]. cbv zeta in H.
      destruct (exec_job E f h t (set_queue q s)) as [s1|] eqn:Ee; [|discriminate].
      assert (Hb1 : broken s1 = true) by (eapply IHe; [exact Ee|exact Hb]).
      destruct (status_eqb (jstatus (jobs s1 h)) Running).
      * destruct (add_job E f h s1) as [s2|] eqn:Ea; [|discriminate].
        eapply IHl; [exact H|]. eapply IHa; [exact Ea|exact Hb1].
      * eapply IHl; [exact H|exact Hb1].
    + intros j s s' H Hb. rewrite add_job_S in H.
      destruct (status_eqb (jstatus (jobs s j)) Running); [|injection H as <-; exact Hb]. cbv zeta in H.
      destruct (is_head j (insort s j (queue s))); [|injection H as <-; exact Hb].
      eapply IHt; [exact H|exact Hb].
    + intros j s s' H Hb. rewrite remove_job_S in H.
      destruct (queue s) as [|h q] eqn:Eq; [eapply IHt; [exact H|exact Hb]|]. cbv zeta in H.
      destruct (remove_first j (h :: q)) as [|h' q'] eqn:Er; [eapply IHt; [exact H|exact Hb]|].
      destruct (Nat.eqb h j); [eapply IHt; [exact H|exact Hb]|injection H as <-; exact Hb].
    + intros j t s s' H Hb. rewrite exec_job_S in H. cbv zeta in H.
      assert (Hp : broken (exec_pre E j t s) = true) by (rewrite exec_pre_broken; exact Hb).
      destruct (jkind (jobs (exec_pre E j t s) j)).
      * destruct (remove_job E f j (exec_pre E j t s)) as [s1|] eqn:Em; [|discriminate].
        injection H as <-. rewrite finish_job_broken. eapply IHm; [exact Em|exact Hp].
      * injection H as <-. rewrite set_next_run_broken. exact Hp.
      * destruct (prod E j _ _) as [v| |]; [|injection H as <-; exact Hp|discriminate].
        destruct (too_old _ v); injection H as <-; [exact Hp|]. rewrite set_next_run_broken. exact Hp.
Qed.

Lemma not_broken_back (b b' : bool) : (b = true -> b' = true) -> b' = false -> b = false.
Proof. destruct b, b'; intros H H'; try reflexivity; try discriminate. specialize (H eq_refl). discriminate. Qed.

(* ------------------------------------------------------------------------------------------- *)
(* job.execute(): the open form against Sched.exec_job *)
Definition exec_agrees (rm : nat -> st -> M) (f : nat) : Prop :=
  forall j t s s', jnext (jobs s j) = Some t -> exec_job E f j t s = Some s' -> broken s' = false ->
    exec_open E rm j s = Some (s', Ret) \/
    exists s'', exec_open E rm j s = Some (s'', Exc XUser) /\ s' = add_ev (EHandler (HJob j)) s''.

Definition agrees (f : nat) : Prop :=
  (forall s s', set_timer E f s = Some s' -> broken s' = false -> r_set_timer (knot f) s = Some (s', Ret)) /\
  (forall s s', run_jobs E f s = Some s' -> broken s' = false -> r_run_jobs (knot f) s = Some (s', Ret)) /\
  (forall s s', run_loop E f s = Some s' -> broken s' = false -> r_run_jobs_loop (knot f) s = Some (s', Ret)) /\
  (forall j s s', add_job E f j s = Some s' -> broken s' = false -> r_add_job (knot f) j s = Some (s', Ret)) /\
  (forall j s s', remove_job E f j s = Some s' -> broken s' = false -> r_remove_job (knot f) j s = Some (s', Ret)) /\
  (forall j t s s', jnext (jobs s j) = Some t -> exec_job E f j t s = Some s' -> broken s' = false ->
     r_execute (knot f) j s = Some (s', Ret) \/
     exists s'', r_execute (knot f) j s = Some (s'', Exc XUser) /\ s' = add_ev (EHandler (HJob j)) s'').

Lemma exec_pre_jobs j t s : jobs (exec_pre E j t s) = jobs s.
Proof. unfold exec_pre. cbv zeta. destruct (fail_exec E j _); reflexivity. Qed.

Lemma agrees_set_timer f : agrees f -> forall s s',
  set_timer E (S f) s = Some s' -> broken s' = false -> g_set_timer (knot f) s = Some (s', Ret).
Proof.
  intros (_ & IHr & _) s s' H Hb. rewrite set_timer_S in H. cbv zeta in H.
  unfold g_set_timer. cbv zeta.
  assert (Hk : forall s0 : st, s0 = set_timer_f None s ->
    (if (is_nil (queue s0) || negb (enabled s0))%bool then Some (s0, Ret)
     else match queue s0 with
          | [] => Some (s0, Exc XIndex)
          | h :: _ =>
              match jnext (jobs s0 h) with
              | None => Some (s0, Exc XTimeNotSet)
              | Some v =>
                  if v - now s0 <=? 0
                  then match r_run_jobs (knot f) s0 with
                       | None => None
                       | Some (s1, r) => match r with Ret => Some (s1, Ret) | Exc e => Some (s1, Exc e) end
                       end
                  else Some (set_timer_f (Some (now s0 + (v - now s0))) s0, Ret)
              end
          end) = Some (s', Ret)).
  { intros s0 ->. destruct (queue (set_timer_f None s)) as [|h q] eqn:Eq; cbn [is_nil orb].
    - injection H as <-. reflexivity.
    - destruct (negb (enabled (set_timer_f None s))); [injection H as <-; reflexivity|].
      destruct (jnext (jobs (set_timer_f None s) h)) as [t|]; [|injection H as <-; discriminate].
      rewrite leb_sub.
      destruct (t <=? now (set_timer_f None s)).
      + rewrite (IHr _ _ H Hb). reflexivity.
      + injection H as <-. rewrite add_sub_cancel. reflexivity. }
  destruct (timer s) as [w|] eqn:Et.
  - unfold cancel_handle. apply Hk. reflexivity.
  - apply Hk. rewrite <- Et. symmetry. apply set_timer_f_same.
Qed.

Lemma agrees_run_jobs f : agrees f -> forall s s',
  run_jobs E (S f) s = Some s' -> broken s' = false -> g_run_jobs (knot f) s = Some (s', Ret).
Proof.
  intros (IHt & _ & IHl & _) s s' H Hb. rewrite run_jobs_S in H. cbv zeta in H.
  unfold g_run_jobs. cbv zeta.
  destruct (run_loop E f (set_timer_f None s)) as [s1|] eqn:El; [|discriminate].
  destruct (broken s1) eqn:Hb1; [injection H as <-; congruence|].
  rewrite (IHl _ _ El Hb1).
  destruct (queue s1) as [|h q] eqn:Eq; cbn [is_nil negb].
  - injection H as <-. reflexivity.
  - rewrite (IHt _ _ H Hb). reflexivity.
Qed.

Lemma agrees_run_loop f : agrees f -> forall s s',
  run_loop E (S f) s = Some s' -> broken s' = false -> g_run_jobs_loop (knot f) s = Some (s', Ret).
Proof.
  intros (_ & _ & IHl & IHa & _ & IHe) s s' H Hb. rewrite run_loop_S in H.
  destruct (sticky_all f) as (_ & _ & Sl & Sa & _ & _).
  unfold g_run_jobs_loop. cbv zeta.
  destruct (queue s) as [|h q] eqn:Eq; cbn [is_nil negb]; [injection H as <-; reflexivity|].
  destruct (jnext (jobs s h)) as [t|] eqn:En; [|injection H as <-; discriminate].
  destruct (now s <? t); [injection H as <-; reflexivity|]. cbv zeta in H.
  destruct (exec_job E f h t (set_queue q s)) as [s1|] eqn:Ee; [|discriminate].
  destruct (if status_eqb (jstatus (jobs s1 h)) Running then add_job E f h s1 else Some s1) as [s2|] eqn:E2; [|discriminate].
  assert (Hb2 : broken s2 = false) by (eapply not_broken_back; [apply (Sl _ _ H)|exact Hb]).
  assert (Hb1 : broken s1 = false).
  { destruct (status_eqb (jstatus (jobs s1 h)) Running).
    - eapply not_broken_back; [apply (Sa _ _ _ E2)|exact Hb2].
    - injection E2 as ->. exact Hb2. }
  assert (Htail :
            (if status_eqb (jstatus (jobs s1 h)) Running
             then match r_add_job (knot f) h s1 with
                  | None => None
                  | Some (s3, r) => match r with Ret => r_run_jobs_loop (knot f) s3 | Exc e => Some (s3, Exc e) end
                  end
             else r_run_jobs_loop (knot f) s1) = Some (s', Ret)).
  { destruct (status_eqb (jstatus (jobs s1 h)) Running).
    - rewrite (IHa _ _ _ E2 Hb2). apply (IHl _ _ H Hb).
    - injection E2 as ->. apply (IHl _ _ H Hb). }
  assert (Hn : jnext (jobs (set_queue q s) h) = Some t) by exact En.
  destruct (IHe h t (set_queue q s) s1 Hn Ee Hb1) as [Hx|(s'' & Hx & Hs)]; rewrite Hx.
  - exact Htail.
  - rewrite <- Hs. exact Htail.
Qed.

Lemma agrees_add_job f : agrees f -> forall j s s',
  add_job E (S f) j s = Some s' -> broken s' = false -> g_add_job (knot f) j s = Some (s', Ret).
Proof.
  intros (IHt & _) j s s' H Hb. rewrite add_job_S in H.
  unfold g_add_job. cbv zeta.
  destruct (status_eqb (jstatus (jobs s j)) Running); [|injection H as <-; reflexivity]. cbv zeta in H.
  cbn [queue set_queue].
  destruct (insort s j (queue s)) as [|h q] eqn:Ei; [exfalso; exact (insort_not_nil _ _ _ Ei)|].
  cbn [is_head] in H. rewrite Nat.eqb_sym.
  destruct (Nat.eqb h j).
  - rewrite (IHt _ _ H Hb). reflexivity.
  - injection H as <-. reflexivity.
Qed.

Lemma agrees_remove_job f : agrees f -> forall j s s',
  remove_job E (S f) j s = Some s' -> broken s' = false -> g_remove_job (knot f) j s = Some (s', Ret).
Proof.
  intros (IHt & _) j s s' H Hb. rewrite remove_job_S in H.
  unfold g_remove_job. cbv zeta.
  destruct (queue s) as [|h q] eqn:Eq; cbn [is_nil].
  - rewrite (IHt _ _ H Hb). reflexivity.
  - cbv zeta in H.
    assert (Hk : forall s1 : st, s1 = set_queue (remove_first j (h :: q)) s ->
      (if is_nil (queue s1)
       then match r_set_timer (knot f) s1 with
            | None => None
            | Some (s2, r) => match r with Ret => Some (s2, Ret) | Exc e => Some (s2, Exc e) end
            end
       else if Nat.eqb j h
            then match r_set_timer (knot f) s1 with
                 | None => None
                 | Some (s2, r) => match r with Ret => Some (s2, Ret) | Exc e => Some (s2, Exc e) end
                 end
            else Some (s1, Ret)) = Some (s', Ret)).
    { intros s1 ->. cbn [queue set_queue].
      destruct (remove_first j (h :: q)) as [|h' q'] eqn:Er; cbn [is_nil].
      - rewrite (IHt _ _ H Hb). reflexivity.
      - rewrite Nat.eqb_sym. destruct (Nat.eqb h j).
        + rewrite (IHt _ _ H Hb). reflexivity.
        + injection H as <-. reflexivity. }
    destruct (memb j (h :: q)) eqn:Em.
    + apply Hk. reflexivity.
    + assert (Hs : s = set_queue (remove_first j (h :: q)) s).
      { rewrite remove_first_notin.
        - rewrite <- Eq. symmetry. apply set_queue_same.
        - intros Hi. apply memb_In in Hi. congruence. }
      specialize (Hk s Hs). rewrite Eq in Hk. cbn [is_nil] in Hk. exact Hk.
Qed.

Lemma agrees_exec f : agrees f -> forall j t s s',
  jnext (jobs s j) = Some t -> exec_job E (S f) j t s = Some s' -> broken s' = false ->
  exec_open E (r_remove_job (knot f)) j s = Some (s', Ret) \/
  exists s'', exec_open E (r_remove_job (knot f)) j s = Some (s'', Exc XUser) /\ s' = add_ev (EHandler (HJob j)) s''.
Proof.
  intros (_ & _ & _ & _ & IHm & _) j t s s' Hn H Hb. rewrite exec_job_S in H. cbv zeta in H.
  unfold exec_open. rewrite Hn. cbv zeta. fold (exec_pre E j t s).
  destruct (jkind (jobs (exec_pre E j t s) j)).
  - destruct (remove_job E f j (exec_pre E j t s)) as [s1|] eqn:Em; [|discriminate].
    injection H as <-. rewrite finish_job_broken in Hb. rewrite (IHm _ _ _ Em Hb). left. reflexivity.
  - injection H as <-. left. reflexivity.
  - destruct (prod E j _ _) as [v|e|]; [| |discriminate].
    + destruct (too_old _ v); injection H as <-; [right; eexists; split; reflexivity|left; reflexivity].
    + injection H as <-. right. eexists. split; reflexivity.
Qed.

Theorem gen_agrees : forall f, agrees f.
Proof.
  induction f as [|f IH].
  - repeat split; intros; discriminate.
  - refine (conj _ (conj _ (conj _ (conj _ (conj _ _))))).
    + exact (agrees_set_timer f IH).
    + exact (agrees_run_jobs f IH).
    + exact (agrees_run_loop f IH).
    + exact (agrees_add_job f IH).
    + exact (agrees_remove_job f IH).
    + exact (agrees_exec f IH).
Qed.

(* ------------------------------------------------------------------------------------------- *)
(* the API entry points on reachable states *)
Theorem gen_enable_is_model fuel hs s b s' :
  Inv s -> step_op E fuel hs s (OEnable b) = (s', Done) -> gen_set_enabled fuel b s = Some (s', Ret).
Proof.
  intros I H. assert (I' : Inv s') by (eapply step_op_inv; [exact I|exact H|discriminate]).
  cbn [step_op] in H. unfold gen_set_enabled, g_set_enabled. cbv zeta.
  destruct (Bool.eqb b (enabled s)); [injection H as <-; reflexivity|].
  unfold lift in H. destruct (set_timer E fuel (set_enabled_f b s)) as [s1|] eqn:Et; [|discriminate].
  injection H as <-.
  destruct (gen_agrees fuel) as (At & _). rewrite (At _ _ Et (wf_nb _ _ (proj1 I'))). reflexivity.
Qed.

Theorem gen_wake_is_model fuel hs s s' w :
  Inv s -> timer s = Some w -> w <= now s -> step_op E fuel hs s OWake = (s', Done) ->
  gen_run_jobs fuel s = Some (s', Ret).
Proof.
  intros I Ht Hw H. assert (I' : Inv s') by (eapply step_op_inv; [exact I|exact H|discriminate]).
  cbn [step_op] in H. rewrite Ht in H. replace (w <=? now s) with true in H by lia.
  unfold lift in H. destruct (run_jobs E fuel s) as [s1|] eqn:Er; [|discriminate]. injection H as <-.
  destruct (gen_agrees fuel) as (_ & Ar & _). exact (Ar _ _ Er (wf_nb _ _ (proj1 I'))).
Qed.

Theorem gen_update_job_is_model fuel j s s' :
  update_job E fuel j s = Some s' -> broken s' = false -> gen_update_job fuel j s = Some (s', Ret).
Proof.
  intros H Hb. unfold update_job in H. unfold gen_update_job, g_update_job. cbv zeta.
  destruct (remove_job E fuel j s) as [s1|] eqn:Em; [|discriminate].
  destruct (gen_agrees fuel) as (_ & _ & _ & Aa & Am & _).
  destruct (sticky_all fuel) as (_ & _ & _ & Sa & _).
  assert (Hb1 : broken s1 = false) by (eapply not_broken_back; [apply (Sa _ _ _ H)|exact Hb]).
  rewrite (Am _ _ _ Em Hb1), (Aa _ _ _ H Hb). reflexivity.
Qed.

End Eq.
