(* GetInstant.v — builder/helper.py: get_timedelta, get_pos_timedelta_secs, get_instant, and the entry
   points that use them (JobBuilder.once / countdown, TriggerBuilder.interval, .offset, .jitter) together
   with the past check of JobBase.set_next_run.  Executable model, no proofs (GetInstantFacts.v).

   An argument is the READING of a Python value ([iarg]).  The harness produces it; two conversions are
   whenever's and outside the model: float seconds -> nanoseconds (TimeDelta(seconds=..)) and the parsing
   of ISO-8601 durations / times of day (parse_common_iso).

     None                                   ANone
     int / float / bool (bool is an int)    ANum ns            (ns = TimeDelta(seconds=v) in nanoseconds)
     datetime.timedelta / TimeDelta         ADelta ns
     str that parses as ISO duration        AIsoDuration ns
     Time / datetime.time / str that does
       not parse as duration but as time    ATime tod          (0 <= tod < DAY)
     datetime.datetime without tzinfo       ANaive local       (local ns, cf. Civil.v)
     datetime.datetime with tzinfo          AAware i           (the instant by datetime's own rules, PEP 495)
     SystemDateTime                         ASystem i
     Instant                                AInstant i
     a value of an accepted type that whenever refuses to convert (str that is neither a duration nor a
       time, nan / inf / out-of-range float)                   ABadValue
     a value of any other type (list, complex, date, ZonedDateTime ...)   ABad

   In the DURATION reading (countdown, interval length, offset, jitter: get_timedelta alone) a str that
   is not a duration is [ABadValue] even when it is a time of day: get_timedelta only tries the duration
   parser.  An instant is a Z (ns since the epoch), a duration is a Z (ns).                              *)
From EAS Require Import Base Civil Time.
From EASGen Require Import Generated.

Inductive iarg :=
  | ANone
  | ANum (ns : Z)
  | ADelta (ns : Z)
  | AIsoDuration (ns : Z)
  | ATime (tod : Z)
  | ANaive (local : Z)
  | AAware (i : Z)
  | ASystem (i : Z)
  | AInstant (i : Z)
  | ABadValue
  | ABad.

(* get_timedelta: the four accepted types, a failing conversion is a ValueError, anything else a
   TypeError *)
Definition get_timedelta (a : iarg) : result Z :=
  match a with
  | ANum ns | ADelta ns | AIsoDuration ns => Ok ns
  | ABadValue => Raise EValueError
  | _ => Raise ETypeError
  end.

(* get_pos_timedelta_secs: 'Value must be positive.' *)
Definition get_pos_timedelta_secs (a : iarg) : result Z :=
  match get_timedelta a with
  | Ok d => if d <=? 0 then Raise EValueError else Ok d
  | r => r
  end.

(* a local date-time to THE instant that shows it; disambiguate='raise': whenever.SkippedTime and
   whenever.RepeatedTime derive from Exception directly, the harness maps both to EOther *)
Definition resolve_raise (z : tz) (l : Z) : result Z :=
  match candidates z l with
  | [] => Raise EOther              (* SkippedTime *)
  | [i] => Ok i
  | _ :: _ :: _ => Raise EOther     (* RepeatedTime *)
  end.

(* the SystemDateTime(...) constructor without a disambiguate argument (whenever 0.7: 'compatible'):
   a repeated time is the earlier instant, a skipped time is read with the offset before the gap, i.e.
   it is shifted forward by the length of the gap *)
Definition system_datetime (z : tz) (l : Z) : result Z :=
  match candidates z l with
  | i :: _ => Ok i
  | [] => match gap_of z l with
          | Some (ob, _) => Ok (l - ob * NS)
          | None => Raise EOther      (* no instant shows l and l is in no gap: not a table of a clock *)
          end
  end.

(* the time-of-day branch: today's wall-clock time, or tomorrow's when today's is before now *)
Definition time_of_day (z : tz) (now tod : Z) : result Z :=
  let today := local_day (to_local z now) in
  match resolve_raise z (mk_local today tod) with         (* now.replace_time(time, disambiguate='raise') *)
  | Ok new => if new <? now
              then resolve_raise z (mk_local (today + 1) tod)      (* new.add(days=1, disambiguate='raise') *)
              else Ok new
  | r => r
  end.

Definition get_instant (z : tz) (now : Z) (a : iarg) : result Z :=
  match a with
  | ANone => Ok now                                   (* case None *)
  | ANaive l => system_datetime z l                   (* case dt_datetime(), tzinfo is None *)
  | AAware i => Ok i                                  (* case dt_datetime(), tzinfo set *)
  | ASystem i => Ok i                                 (* case SystemDateTime() *)
  | AInstant i => Ok i                                (* case Instant() *)
  | _ =>
      match get_timedelta a with                      (* try: get_timedelta / except (ValueError, TypeError) *)
      | Ok d => Ok (now + d)
      | _ =>
          match a with                                (* try: get_time / except (ValueError, TypeError) *)
          | ATime tod => time_of_day z now tod
          | _ => Raise EValueError
          end
      end
  end.

(* JobBase.set_next_run: ScheduledRunInThePastError iff next_run < now - 100 ms *)
Definition once_accepts (now i : Z) : bool := now - past_tolerance_ns <=? i.

(* JobBuilder.once(arg, f): the instant the job is scheduled for *)
Definition once (z : tz) (now : Z) (a : iarg) : result Z :=
  match get_instant z now a with
  | Ok i => if once_accepts now i then Ok i else Raise EPast
  | r => r
  end.

(* JobBuilder.countdown(arg, f): the countdown length *)
Definition countdown (a : iarg) : result Z := get_pos_timedelta_secs a.

(* TriggerBuilder.interval(start, interval): (start instant or None, length); the start is evaluated
   first, so its error wins.  start=None is handed on as None (the producer then starts at the first
   query), it is NOT replaced by now. *)
Definition interval (z : tz) (now : Z) (start iv : iarg) : result (option Z * Z) :=
  match start with
  | ANone => match get_pos_timedelta_secs iv with
             | Ok d => Ok (None, d)
             | Raise e => Raise e
             | OutOfFuel => OutOfFuel
             end
  | _ => match get_instant z now start with
         | Ok s => match get_pos_timedelta_secs iv with
                   | Ok d => Ok (Some s, d)
                   | Raise e => Raise e
                   | OutOfFuel => OutOfFuel
                   end
         | Raise e => Raise e
         | OutOfFuel => OutOfFuel
         end
  end.

(* trigger.offset(x): any duration, no sign condition *)
Definition offset (a : iarg) : result Z := get_timedelta a.

(* trigger.jitter(low, high=None): (low, high) as stored; JitterProducerOperation: high None -> (0, low);
   high <= low -> ValueError *)
Definition jitter (lo : iarg) (hi : option iarg) : result (Z * Z) :=
  match get_timedelta lo with
  | Ok l =>
      match hi with
      | None => if l <=? 0 then Raise EValueError else Ok (0, l)
      | Some h => match get_timedelta h with
                  | Ok hv => if hv <=? l then Raise EValueError else Ok (l, hv)
                  | Raise e => Raise e
                  | OutOfFuel => OutOfFuel
                  end
      end
  | Raise e => Raise e
  | OutOfFuel => OutOfFuel
  end.

(* the transitions in (from, to] keep the local DATE from going backwards: the date shown at the transition
   is not before the date shown one nanosecond earlier (false e.g. for America/St_Johns until 2010:
   00:01 -> 23:01 of the previous day).  Used as a hypothesis of the "least instant" theorem. *)
Fixpoint dates_forward_from (cur : Z) (l : list (Z * Z)) (from to : Z) : bool :=
  match l with
  | [] => true
  | (t, o) :: r =>
      ((t <=? from) || (to <? t) || (local_day (t - 1 + cur * NS) <=? local_day (t + o * NS)))
      && dates_forward_from o r from to
  end.
Definition dates_forward_b (z : tz) (from to : Z) : bool :=
  dates_forward_from (tz_init z) (tz_trans z) from to.

(* the stretch of time the theorem looks at: from 4 h before now to 2 days and 4 h after it *)
Definition reach_lo (now : Z) : Z := now - 14400 * NS.
Definition reach_hi (now : Z) : Z := now + 2 * DAY + 14400 * NS.

Definition ascending_all (l : list (Z * Z)) : bool :=
  match l with
  | [] => true
  | (t, _) :: r => ascending t r
  end.
