(* ProdEarliest2.v — C05 / C06 for time-of-day triggers at full strength:
   * where the instants that [replace] yields for a local day lie on the local clock ([day_results_cases],
     [day_results_local]), for EVERY table;
   * for a table whose offsets differ by at most four hours ([wf_tz_b]): the results of different local days
     are in chronological order ([day_results_order]) and the walk of TimeProducer.get_next, which starts one
     local day before the reference instant, starts early enough ([day_results_walk_start]);
   * hence [time_earliest]: the answer of [next_time] is the EARLIEST instant after the reference instant that
     is an occurrence of some local day (as selected by the DST policy) and that the filter accepts;
   * [once_per_day] / [time_chain_enumerates]: the chain  dt -> next_time dt  enumerates the union over all
     local days of the day's occurrences in increasing order without omission or repetition.               *)
From EAS Require Import Base BaseFacts Civil Time TimeFacts TimeOrder Filters Replace ReplaceFacts
  Producers ProdStrict ProdEarliest.
From EASGen Require Import Generated.
From Coq Require Import Sorted.

Definition wf_tr (tr : treplacer) : Prop := 0 <= tr_tod tr < DAY.

Definition earliest_after (P : Z -> Prop) (dt v : Z) : Prop :=
  P v /\ dt < v /\ forall u, P u -> dt < u -> v <= u.

Lemma earliest_after_unique P dt v w : earliest_after P dt v -> earliest_after P dt w -> v = w.
Proof. intros (Pv & Hv & Mv) (Pw & Hw & Mw). specialize (Mv w Pw Hw). specialize (Mw v Pv Hv). lia. Qed.

Lemma earliest_after_none_between P dt v : earliest_after P dt v -> forall u, P u -> ~ (dt < u < v).
Proof. intros (_ & _ & M) u Pu (H1 & H2). specialize (M u Pu H1). lia. Qed.

Lemma earliest_after_ext (P Q : Z -> Prop) dt v :
  (forall u, P u <-> Q u) -> earliest_after P dt v -> earliest_after Q dt v.
Proof.
  intros E (Pv & Hv & M). split; [apply E; exact Pv|]. split; [exact Hv|].
  intros u Qu. apply M. apply E. exact Qu.
Qed.

(* ------------------------------------------------------------------------------------------- *)
(* the search of the 'after' policy never answers with two instants *)
Lemma find_after_not_two z day tod a b : find_after z day tod <> RTwo a b.
Proof.
  unfold find_after. set (base := day * DAY + tod / MINUTE * MINUTE).
  pose proof (iter_until_rule (after_step z base) (fun _ => True) (fun r => r <> RTwo a b)
                (Z.to_pos after_search_minutes) 0) as R.
  destruct (iter_until (Z.to_pos after_search_minutes) (after_step z base) 0) as [k|r]; [discriminate|].
  apply R; [|exact I]. intros k _. unfold after_step.
  destruct (candidates z (base + (k + 1) * MINUTE)) as [|x [|y t]]; [exact I|discriminate|discriminate].
Qed.

(* the two instants of the 'twice' policy come in chronological order *)
Lemma replace_RTwo_lt z tr day a b : replace z tr day = RTwo a b -> a < b.
Proof.
  unfold replace. remember (day * DAY + tr_tod tr) as l eqn:El.
  destruct (candidates z l) as [|i1 [|i2 rest]] eqn:EC.
  - destruct (tr_sk tr).
    + discriminate.
    + destruct (gap_of z l) as [[ob oa]|]; discriminate.
    + destruct (gap_of z l) as [[ob oa]|]; discriminate.
    + intros H. exfalso. exact (find_after_not_two _ _ _ _ _ H).
  - discriminate.
  - destruct (tr_rp tr); try discriminate. intros H. injection H as <- <-.
    apply (sorted_head_lt_last i1 (i2 :: rest)); [rewrite <- EC; apply candidates_sorted|discriminate].
Qed.

(* where an instant that [replace] yields for a local day lies, exactly: it shows the configured wall-clock
   time of that day (time exists once or is repeated), or the time is skipped and it is the configured time
   resolved with the offset after / before the change (earlier / later), or the time is skipped and it shows
   the k-th whole minute after the configured minute (after). *)
Theorem day_results_cases z tr day u :
  In u (day_results z tr day) ->
  to_local z u = day * DAY + tr_tod tr \/
  (candidates z (day * DAY + tr_tod tr) = [] /\
   exists ob oa, gap_of z (day * DAY + tr_tod tr) = Some (ob, oa) /\
     ((tr_sk tr = SkEarlier /\ u = day * DAY + tr_tod tr - oa * NS) \/
      (tr_sk tr = SkLater /\ u = day * DAY + tr_tod tr - ob * NS))) \/
  (candidates z (day * DAY + tr_tod tr) = [] /\ tr_sk tr = SkAfter /\
   exists k, 1 <= k <= after_search_minutes /\
     to_local z u = day * DAY + tr_tod tr / MINUTE * MINUTE + k * MINUTE).
Proof.
  unfold day_results, replace. remember (day * DAY + tr_tod tr) as l eqn:El.
  destruct (candidates z l) as [|i1 [|i2 rest]] eqn:EC.
  - destruct (tr_sk tr) eqn:ES.
    + intros [].
    + destruct (gap_of z l) as [[ob oa]|] eqn:EG; [|intros []]. intros [<-|[]].
      right; left. split; [reflexivity|]. exists ob, oa. split; [reflexivity|]. left. split; reflexivity.
    + destruct (gap_of z l) as [[ob oa]|] eqn:EG; [|intros []]. intros [<-|[]].
      right; left. split; [reflexivity|]. exists ob, oa. split; [reflexivity|]. right. split; reflexivity.
    + destruct (find_after z day (tr_tod tr)) as [i|a b| |e] eqn:EF.
      * intros [<-|[]]. right; right. split; [reflexivity|]. split; [reflexivity|].
        destruct (find_after_spec _ _ _ _ EF) as (k & Hk & Hc & _). exists k. split; [exact Hk|].
        apply candidates_spec. rewrite Hc. left; reflexivity.
      * exfalso. exact (find_after_not_two _ _ _ _ _ EF).
      * intros [].
      * intros [].
  - intros [<-|[]]. left. apply candidates_spec. rewrite EC. left; reflexivity.
  - assert (H1 : to_local z i1 = l) by (apply candidates_spec; rewrite EC; left; reflexivity).
    assert (H2 : to_local z (last_z i1 (i2 :: rest)) = l).
    { apply candidates_spec. rewrite EC. apply (last_z_In i1 (i2 :: rest)). }
    destruct (tr_rp tr).
    + intros [].
    + intros [<-|[]]. left; exact H1.
    + intros [<-|[]]. left; exact H2.
    + intros [<-|[<-|[]]]; left; assumption.
Qed.

(* the distance on the local clock between a result of a day and the configured time of that day:
   never more than the spread early (earlier), never more than max (spread, 121 minutes) late (later / after) *)
Definition day_dev (z : tz) : Z := Z.max (spread z * NS) (after_search_minutes * MINUTE).

Theorem day_results_local z tr day u :
  In u (day_results z tr day) ->
  - (spread z * NS) <= to_local z u - (day * DAY + tr_tod tr) <= day_dev z.
Proof.
  intros H. pose proof (spread_nonneg z) as Hs. unfold day_dev.
  destruct (day_results_cases _ _ _ _ H) as [He|[(_ & ob & oa & Hg & Hu)|(_ & _ & k & Hk & Hl)]].
  - rewrite He. change NS with 1000000000. change MINUTE with 60000000000.
    change after_search_minutes with 121. lia.
  - destruct (gap_of_offsets _ _ _ _ Hg) as (Hob & Hoa).
    destruct Hu as [(_ & ->)|(_ & ->)]; unfold to_local.
    + pose proof (offset_at_diff z (day * DAY + tr_tod tr - oa * NS) oa Hoa) as Hd.
      change NS with 1000000000 in *. change MINUTE with 60000000000.
      change after_search_minutes with 121. lia.
    + pose proof (offset_at_diff z (day * DAY + tr_tod tr - ob * NS) ob Hob) as Hd.
      change NS with 1000000000 in *. change MINUTE with 60000000000.
      change after_search_minutes with 121. lia.
  - rewrite Hl. change NS with 1000000000. change MINUTE with 60000000000 in *.
    change after_search_minutes with 121 in *. lia.
Qed.

(* exact placement for the common case: the result shows the configured wall-clock time on that local day *)
Lemma exact_result_day z tr day u :
  wf_tr tr -> to_local z u = day * DAY + tr_tod tr ->
  local_day (to_local z u) = day /\ local_tod (to_local z u) = tr_tod tr.
Proof.
  unfold wf_tr, local_day, local_tod. intros Ht ->. change DAY with 86400000000000 in *. lia.
Qed.

(* ------------------------------------------------------------------------------------------- *)
(* DAY-WALK MONOTONICITY.  Needed: day_dev + 2 * spread < 24 h; with spread <= 4 h this is 12 h < 24 h
   (the argument would go through for any spread < 8 h). *)
Theorem day_results_order z tr d d' u u' :
  spread z <= 4 * 3600 ->
  In u (day_results z tr d) -> In u' (day_results z tr d') -> d < d' -> u < u'.
Proof.
  intros Hsp Hu Hu' Hd. apply (local_order z).
  pose proof (day_results_local _ _ _ _ Hu) as B. pose proof (day_results_local _ _ _ _ Hu') as B'.
  pose proof (spread_nonneg z) as Hs. unfold day_dev in *.
  change NS with 1000000000 in *. change MINUTE with 60000000000 in *. change DAY with 86400000000000 in *.
  change after_search_minutes with 121 in *. lia.
Qed.

(* an instant is a result of at most one local day *)
Corollary day_results_disjoint z tr d d' u :
  spread z <= 4 * 3600 -> In u (day_results z tr d) -> In u (day_results z tr d') -> d = d'.
Proof.
  intros Hsp H H'. destruct (Z.lt_trichotomy d d') as [Hlt|[Heq|Hgt]]; [|exact Heq|].
  - pose proof (day_results_order _ _ _ _ _ _ Hsp H H' Hlt). lia.
  - pose proof (day_results_order _ _ _ _ _ _ Hsp H' H Hgt). lia.
Qed.

(* within a day the results are listed in strictly increasing order *)
Lemma day_results_sorted z tr day : strictly_ascending (day_results z tr day).
Proof.
  unfold day_results, strictly_ascending. destruct (replace z tr day) as [i|a b| |e] eqn:ER.
  - constructor; constructor.
  - apply replace_RTwo_lt in ER. constructor; [constructor; constructor|]. constructor; [exact ER|constructor].
  - constructor.
  - constructor.
Qed.

(* the walk starts one local day before the reference instant: the results of all earlier days are not after
   the reference instant, so nothing admissible is missed (this is the place where F14 surfaced: for the
   start day  local_day (to_local z dt)  the statement is false) *)
Theorem day_results_walk_start z tr d u dt :
  spread z <= 4 * 3600 -> tr_tod tr < DAY ->
  In u (day_results z tr d) -> dt < u -> local_day (to_local z dt) - 1 <= d.
Proof.
  intros Hsp Ht Hu Hlt.
  pose proof (day_results_local _ _ _ _ Hu) as B. pose proof (local_mono_strict z dt u Hlt) as M.
  pose proof (spread_nonneg z) as Hs. unfold day_dev, local_day in *.
  change NS with 1000000000 in *. change MINUTE with 60000000000 in *. change DAY with 86400000000000 in *.
  change after_search_minutes with 121 in *. lia.
Qed.

(* and the walk never has to go beyond the second day after the reference instant's local day to get past it *)
Lemma day_results_after_ref z tr d u dt :
  spread z <= 4 * 3600 -> 0 <= tr_tod tr ->
  In u (day_results z tr d) -> local_day (to_local z dt) + 2 <= d -> dt < u.
Proof.
  intros Hsp Ht Hu Hd. apply (local_order z).
  pose proof (day_results_local _ _ _ _ Hu) as B.
  pose proof (spread_nonneg z) as Hs. unfold day_dev, local_day in *.
  change NS with 1000000000 in *. change MINUTE with 60000000000 in *. change DAY with 86400000000000 in *.
  change after_search_minutes with 121 in *. lia.
Qed.

(* ------------------------------------------------------------------------------------------- *)
(* the walk, with the order inside the answer's day recorded as well *)
Theorem time_walk_earliest2 z tr f dt v :
  next_time z tr f dt = Ok v ->
  exists day, local_day (to_local z dt) - 1 <= day /\
    In v (day_results z tr day) /\ admissible z f dt v /\
    (forall d, local_day (to_local z dt) - 1 <= d < day ->
       forall u, In u (day_results z tr d) -> ~ admissible z f dt u) /\
    (forall u, In u (day_results z tr day) -> admissible z f dt u -> v <= u).
Proof.
  unfold next_time. set (d0 := local_day (to_local z dt) - 1).
  pose proof (iter_until_rule (time_step z tr f dt)
    (fun day => d0 <= day /\ forall d, d0 <= d < day -> forall u, In u (day_results z tr d) -> ~ admissible z f dt u)
    (fun r => forall v, r = Ok v -> exists day, d0 <= day /\ In v (day_results z tr day) /\ admissible z f dt v /\
        (forall d, d0 <= d < day -> forall u, In u (day_results z tr d) -> ~ admissible z f dt u) /\
        (forall u, In u (day_results z tr day) -> admissible z f dt u -> v <= u)) loop_bound d0) as R.
  destruct (iter_until loop_bound (time_step z tr f dt) d0) as [d|r]; [discriminate|].
  intros H. eapply R; [| |exact H].
  - intros day (Hd0 & Hprev). unfold time_step.
    assert (Hnext : forall (none : forall u, In u (day_results z tr day) -> ~ admissible z f dt u),
              d0 <= day + 1 /\ forall d, d0 <= d < day + 1 -> forall u, In u (day_results z tr d) -> ~ admissible z f dt u).
    { intros none. split; [lia|]. intros d Hd u Hu. destruct (Z.eq_dec d day) as [->|]; [apply none; exact Hu|].
      apply (Hprev d); [lia|exact Hu]. }
    unfold day_results in *. destruct (replace z tr day) as [i|a b| |e] eqn:ER.
    + destruct (dt <? i) eqn:E1; cbn [andb].
      * destruct (allow_opt z f i) eqn:E2.
        -- intros w Hw. injection Hw as <-. exists day. rewrite ER. split; [exact Hd0|]. split; [left; reflexivity|].
           split; [split; [lia|exact E2]|]. split; [exact Hprev|]. intros u [<-|[]] _. lia.
        -- apply Hnext. intros u [<-|[]] (_ & Hc). congruence.
      * apply Hnext. intros u [<-|[]] (Hc & _). lia.
    + pose proof (replace_RTwo_lt _ _ _ _ _ ER) as Hab.
      destruct ((dt <? a) && allow_opt z f a) eqn:Ea.
      * intros w Hw. injection Hw as <-. apply andb_true_iff in Ea. destruct Ea as (E1 & E2).
        exists day. rewrite ER. split; [exact Hd0|]. split; [left; reflexivity|].
        split; [split; [lia|exact E2]|]. split; [exact Hprev|]. intros u [<-|[<-|[]]] _; lia.
      * destruct ((dt <? b) && allow_opt z f b) eqn:Eb.
        -- intros w Hw. injection Hw as <-. apply andb_true_iff in Eb. destruct Eb as (E1 & E2).
           exists day. rewrite ER. split; [exact Hd0|]. split; [right; left; reflexivity|].
           split; [split; [lia|exact E2]|]. split; [exact Hprev|].
           intros u [<-|[<-|[]]] (Hc1 & Hc2); [|lia].
           apply andb_false_iff in Ea. destruct Ea as [E|E]; [lia|congruence].
        -- apply Hnext. intros u [<-|[<-|[]]] (Hc1 & Hc2).
           ++ apply andb_false_iff in Ea. destruct Ea as [E|E]; [lia|congruence].
           ++ apply andb_false_iff in Eb. destruct Eb as [E|E]; [lia|congruence].
    + apply Hnext. intros u [].
    + intros w Hw. discriminate.
  - split; [lia|]. intros d Hd. lia.
Qed.

(* ------------------------------------------------------------------------------------------- *)
(* C05, time of day, in full *)
Definition occ_time (z : tz) (tr : treplacer) (f : option filt) (u : Z) : Prop :=
  exists day, In u (day_results z tr day) /\ allow_opt z f u = true.

Theorem time_earliest z tr f dt v :
  wf_tz_b z = true -> wf_tr tr ->
  next_time z tr f dt = Ok v -> earliest_after (occ_time z tr f) dt v.
Proof.
  intros Hz Ht H. apply wf_tz_spread in Hz. destruct Ht as (Ht0 & Ht1).
  destruct (time_walk_earliest2 _ _ _ _ _ H) as (day & Hd0 & Hin & (Hgt & Hal) & Hprev & Hsame).
  split; [exists day; split; assumption|]. split; [exact Hgt|].
  intros u (d' & Hu & Hau) Hdu.
  pose proof (day_results_walk_start _ _ _ _ _ Hz Ht1 Hu Hdu) as Hstart.
  destruct (Z.lt_trichotomy d' day) as [Hlt|[->|Hlt]].
  - exfalso. apply (Hprev d' (conj Hstart Hlt) u Hu). split; assumption.
  - apply Hsame; [exact Hu|split; assumption].
  - pose proof (day_results_order _ _ _ _ _ _ Hz Hin Hu Hlt). lia.
Qed.

(* the same through get_next *)
Corollary time_earliest_get_next E tr f st dt v st' :
  wf_tz_b (pz E) = true -> wf_tr tr ->
  get_next E (PTime tr f) st dt = (Ok v, st') -> earliest_after (occ_time (pz E) tr f) dt v /\ st' = st.
Proof.
  intros Hz Ht H. cbn [get_next] in H. injection H as H <-. split; [|reflexivity].
  apply time_earliest; assumption.
Qed.

(* ------------------------------------------------------------------------------------------- *)
(* C06: once per local day.  The occurrence set of an unfiltered time-of-day trigger is the union over all
   local days of what the policy table yields for the day. *)
Definition occ_day (z : tz) (tr : treplacer) (u : Z) : Prop := exists day, In u (day_results z tr day).

Lemma occ_time_None z tr u : occ_time z tr None u <-> occ_day z tr u.
Proof.
  unfold occ_time, occ_day. cbn [allow_opt]. split.
  - intros (d & H & _). exists d; exact H.
  - intros (d & H). exists d; split; [exact H|reflexivity].
Qed.

Theorem once_per_day z tr dt v :
  wf_tz_b z = true -> wf_tr tr ->
  next_time z tr None dt = Ok v -> earliest_after (occ_day z tr) dt v.
Proof.
  intros Hz Ht H. apply (earliest_after_ext (occ_time z tr None)); [apply occ_time_None|].
  apply time_earliest; assumption.
Qed.

(* no occurrence strictly between a firing and the one computed from it *)
Corollary once_per_day_no_omission z tr dt v :
  wf_tz_b z = true -> wf_tr tr -> next_time z tr None dt = Ok v ->
  forall day u, In u (day_results z tr day) -> ~ (dt < u < v).
Proof.
  intros Hz Ht H day u Hu. apply (earliest_after_none_between (occ_day z tr) dt v).
  - apply once_per_day; assumption.
  - exists day; exact Hu.
Qed.

(* the chain a recurring job follows: every element is the earliest occurrence after its predecessor, so the
   chain lists the occurrence set in increasing order, without omission and without repetition *)
Fixpoint enumerates (P : Z -> Prop) (prev : Z) (l : list (result Z)) : Prop :=
  match l with
  | [] => True
  | Ok v :: t => earliest_after P prev v /\ enumerates P v t
  | _ :: t => t = []                       (* an error ends the chain *)
  end.

Theorem time_chain_enumerates E tr f :
  wf_tz_b (pz E) = true -> wf_tr tr ->
  forall n st dt, enumerates (occ_time (pz E) tr f) dt (chain E (PTime tr f) st dt n).
Proof.
  intros Hz Ht. induction n as [|n IH]; intros st dt; cbn [chain]; [exact I|].
  destruct (get_next E (PTime tr f) st dt) as [[v|e|] st'] eqn:EG; cbn [enumerates]; try reflexivity.
  split; [|apply IH]. eapply time_earliest_get_next; eassumption.
Qed.

Corollary once_per_day_chain E tr :
  wf_tz_b (pz E) = true -> wf_tr tr ->
  forall n st dt, enumerates (occ_day (pz E) tr) dt (chain E (PTime tr None) st dt n).
Proof.
  intros Hz Ht n st dt. pose proof (time_chain_enumerates E tr None Hz Ht n st dt) as H.
  revert H. generalize (chain E (PTime tr None) st dt n). intros l. revert dt.
  induction l as [|[v|e|] t IH]; intros dt; cbn [enumerates]; try tauto.
  intros (H1 & H2). split; [|apply IH; exact H2].
  apply (earliest_after_ext (occ_time (pz E) tr None)); [apply occ_time_None|exact H1].
Qed.

(* what [enumerates] gives: the Ok elements are strictly increasing, each is an occurrence, and an occurrence
   after the start that is not beyond the last element IS an element *)
Fixpoint oks (l : list (result Z)) : list Z :=
  match l with [] => [] | Ok v :: t => v :: oks t | _ :: t => oks t end.

Lemma enumerates_complete P : forall l prev u,
  enumerates P prev l -> P u -> prev < u -> u <= last_z prev (oks l) -> In u (oks l).
Proof.
  induction l as [|[v|e|] t IH]; intros prev u; cbn [enumerates oks last_z].
  - intros _ _ H1 H2. lia.
  - intros ((Pv & Hv & M) & Ht) Pu H1 H2.
    destruct (Z.eq_dec u v) as [->|Hne]; [left; reflexivity|]. right.
    apply (IH v); [exact Ht|exact Pu| |exact H2]. specialize (M u Pu H1). lia.
  - intros -> _ H1 H2. cbn [oks last_z] in H2. lia.
  - intros -> _ H1 H2. cbn [oks last_z] in H2. lia.
Qed.

Lemma enumerates_sorted P : forall l prev,
  enumerates P prev l -> StronglySorted Z.lt (prev :: oks l) /\ forall u, In u (oks l) -> P u.
Proof.
  induction l as [|[v|e|] t IH]; intros prev; cbn [enumerates oks].
  - intros _. split; [constructor; constructor|intros u []].
  - intros ((Pv & Hv & M) & Ht). destruct (IH v Ht) as (S1 & S2). split.
    + constructor; [exact S1|]. inversion S1 as [|? ? Hs Hall]; subst. constructor; [exact Hv|].
      eapply Forall_impl; [|exact Hall]. intros a Ha. lia.
    + intros u [<-|Hu]; [exact Pv|apply S2; exact Hu].
  - intros ->. cbn [oks]. split; [constructor; constructor|intros u []].
  - intros ->. cbn [oks]. split; [constructor; constructor|intros u []].
Qed.

(* ------------------------------------------------------------------------------------------- *)
(* Examples on the two-transition table: 02:30 is skipped on 2025-03-30 (day 20177) and repeated on
   2025-10-26 (day 20387) *)
Definition tr0230 (sk : skipped_pol) (rp : repeated_pol) : treplacer :=
  {| tr_tod := (2 * 3600 + 1800) * NS; tr_sk := sk; tr_rp := rp |}.

Example ex_wf : wf_tz_b berlin2 = true /\ wf_tr (tr0230 SkLater RpTwice).
Proof. split; [vm_compute; reflexivity|]. unfold wf_tr. vm_compute. split; [discriminate|reflexivity]. Qed.

Example ex_day_results :
  day_results berlin2 (tr0230 SkLater RpTwice) 20176 = [1743211800 * NS] /\          (* 03-29 02:30 +01 = 01:30Z *)
  day_results berlin2 (tr0230 SkLater RpTwice) 20177 = [1743298200 * NS] /\          (* 03-30 03:30 +02 = 01:30Z *)
  day_results berlin2 (tr0230 SkEarlier RpTwice) 20177 = [1743294600 * NS] /\        (* 03-30 01:30 +01 = 00:30Z *)
  day_results berlin2 (tr0230 SkAfter RpTwice) 20177 = [1743296400 * NS] /\          (* 03-30 03:00 +02 = 01:00Z *)
  day_results berlin2 (tr0230 SkSkip RpTwice) 20177 = [] /\
  day_results berlin2 (tr0230 SkLater RpTwice) 20387 = [1761438600 * NS; 1761442200 * NS] /\   (* 00:30Z, 01:30Z *)
  day_results berlin2 (tr0230 SkLater RpSkip) 20387 = [].
Proof. vm_compute. repeat split; reflexivity. Qed.

(* a chain of four across the repeated time: the day before, both repetitions, the day after *)
Example ex_chain :
  let E := {| pz := berlin2; draw := fun _ _ _ => 0; sun_ev := fun _ _ => None; location := None;
              interval_fuel := 1%positive |} in
  chain E (PTime (tr0230 SkLater RpTwice) None) pstate0 (1761350000 * NS) 4 =
  [Ok (1761352200 * NS); Ok (1761438600 * NS); Ok (1761442200 * NS); Ok (1761528600 * NS)].
Proof. vm_compute. reflexivity. Qed.

(* the theorem's hypotheses are met by the same data; with a weekday filter the trigger jumps from Friday
   2025-10-24 02:30 over the week-end with the repeated time to Monday 2025-10-27 02:30 (+01 = 01:30Z) *)
Example ex_time_earliest :
  earliest_after (occ_time berlin2 (tr0230 SkLater RpTwice) None) (1761438600 * NS) (1761442200 * NS) /\
  earliest_after (occ_time berlin2 (tr0230 SkLater RpTwice) (Some (FWeekday [1; 2; 3; 4; 5])))
    (1761265800 * NS) (1761528600 * NS).
Proof.
  split; (apply time_earliest; [vm_compute; reflexivity|apply ex_wf|vm_compute; reflexivity]).
Qed.
