(* GenRtJobs.v — what the code generated from src/eascheduler/jobs/{base,job_onetime,job_countdown,job_datetime,
   event_handler}.py (coq/gen/GenJobs.v, written by tools/gen_jobs.py on every run) is expressed in.
   No proofs here; GenRt.v (the runtime of the generated scheduler) is not changed.

   A method of a job class becomes  [env -> jrec -> <self : nat> -> <arguments> -> st -> MJ]:
     * `self` is the index of the job in [jobs s]; its attributes are read through [jobs s self] and written with ONE
       [set_job] per maximal run of consecutive attribute assignments (the job table is a function, so two updates of
       the same index are not syntactically one; an observer cannot see the state between two adjacent plain stores);
     * [None] = out of fuel, [Some (s, JRet)] = returned, [Some (s, JExc e)] = raised e to the caller;
     * calls of OTHER methods of the job classes are direct calls of the generated definitions (the call graph of the
       job classes is acyclic; dynamic dispatch on the class is a [match jkind ...]); calls INTO THE SCHEDULER
       (`self._scheduler.remove_job / add_job / update_job`) go through the record [jrec], which GenJobsEq.v fills
       from the generated scheduler with the fuel discipline of Sched.v. *)
From EAS Require Import Base Sched GenRt.
From EASGen Require Import Generated.

Inductive jexn :=
  | JErr (e : err)          (* an exception of the library / of user code, by the enumeration of Base.v:
                               JobAlreadyFinishedError = EAlreadyFinished, JobNotLinkedToSchedulerError = ENotLinked,
                               ScheduledRunInThePastError = EPast, ValueError = EValueError, TypeError = ETypeError,
                               whatever a trigger raises = the [e] of [prod E j k now = Raise e] *)
  | JSched (e : gexn)       (* came out of a scheduler method *)
  | JNotImplemented         (* NotImplementedError *)
  | JAttribute.             (* AttributeError: `None.remove_job`, or a method the class does not have *)

Inductive jres := JRet | JExc (e : jexn).

Definition MJ : Type := option (st * jres).

(* the scheduler as seen from a job *)
Record jrec := {
  jr_add_job : nat -> st -> M;
  jr_remove_job : nat -> st -> M;
  jr_update_job : nat -> st -> M
}.

(* what run_jobs sees of job.execute(): an exception of the scheduler keeps its name, everything else is
   "execute() raised" (GenRt.XUser) *)
Definition to_M (m : MJ) : M :=
  match m with
  | None => None
  | Some (s, JRet) => Some (s, Ret)
  | Some (s, JExc (JSched e)) => Some (s, Exc e)
  | Some (s, JExc _) => Some (s, Exc XUser)
  end.

(* single-attribute stores (Sched.v has with_status_next / with_linked / with_secs) *)
Definition with_status (b : job) (v : status) : job :=
  {| jkind := jkind b; jstatus := v; jnext := jnext b; jlinked := jlinked b; jexec_t := jexec_t b; jsecs := jsecs b;
     jkey := jkey b; jcbu := jcbu b; jcbf := jcbf b; jstored := jstored b |}.
Definition with_next (b : job) (v : option Z) : job :=
  {| jkind := jkind b; jstatus := jstatus b; jnext := v; jlinked := jlinked b; jexec_t := jexec_t b; jsecs := jsecs b;
     jkey := jkey b; jcbu := jcbu b; jcbf := jcbf b; jstored := jstored b |}.

(* The contents of a JobCallbackHandler.  on_update holds the user callbacks in registration order; on_finished
   holds InMemoryStore._job_finished first when the job is in a store (the store registers it in add_job, before the
   builder hands the job out), then the user callbacks. *)
Inductive cbk := CbUser (cb : nat) | CbStore.

Definition callbacks (w : cbwhich) (b : job) : list cbk :=
  match w with
  | CbUpd => map CbUser (jcbu b)
  | CbFin => (if jstored b then [CbStore] else []) ++ map CbUser (jcbf b)
  end.

(* whom process_exception is told about when a callback raises (the store's callback does not raise in the model) *)
Definition cbk_src (c : cbk) : hsrc := match c with CbUser cb => HCb cb | CbStore => HLoop end.

(* `callback in self._callbacks`, `cb != callback`: callbacks are compared by identity (a bound method of the one
   store equals itself) *)
Definition cbk_eqb (a b : cbk) : bool :=
  match a, b with
  | CbUser x, CbUser y => Nat.eqb x y
  | CbStore, CbStore => true
  | _, _ => false
  end.
Definition cbk_memb (x : cbk) (l : list cbk) : bool := existsb (cbk_eqb x) l.

(* `self._callbacks = <tuple>` on the handler [w] of job j: the inverse of [callbacks] *)
Definition users (l : list cbk) : list nat :=
  flat_map (fun c => match c with CbUser cb => [cb] | CbStore => [] end) l.
Definition set_callbacks (w : cbwhich) (j : nat) (l : list cbk) (s : st) : st :=
  match w with
  | CbUpd => set_job j (with_cbu (jobs s j) (users l)) s
  | CbFin => set_job j (with_stored (with_cbf (jobs s j) (users l)) (cbk_memb CbStore l)) s
  end.

Definition status_is (s : st) (j : nat) (v : status) : bool := status_eqb (jstatus (jobs s j)) v.

Section Rt.
Variable E : env.

(* `callback(job)` inside JobCallbackHandler.run.  A user callback is an event that records what the callback sees
   of the job at that moment (on_update: status and next_run), and it raises when the environment says so; the
   store's callback pops the job's key. *)
Definition call_cb (w : cbwhich) (j : nat) (c : cbk) (s : st) : MJ :=
  match c with
  | CbUser cb =>
      let k := count_cb cb (log s) in
      let ev := match w with
                | CbUpd => ECbUpd j cb (jstatus (jobs s j)) (jnext (jobs s j))
                | CbFin => ECbFin j cb
                end in
      let s := add_ev ev s in
      if fail_cb E cb k then Some (s, JExc (JErr EUser)) else Some (s, JRet)
  | CbStore => Some (set_store (store_remove (jkey (jobs s j)) (store s)) s, JRet)
  end.

(* `self.executor.execute()`: the callable of job j is entered (the event carries the clock, the next_run the job
   announced and the operation in progress); an exception of the callable is caught by the executor and handed to
   process_exception, execute() itself returns normally. *)
Definition announced (s : st) (j : nat) : Z := match jnext (jobs s j) with Some t => t | None => 0 end.
Definition run_executor (j : nat) (s : st) : st :=
  let k := count_exec j (log s) in
  let s := add_ev (EExec j (now s) (announced s j) (opi s)) s in
  if fail_exec E j k then add_ev (EHandler (HExec j)) s else s.

(* `self.producer.get_next(ref)`: the k-th query of the trigger of job j *)
Definition get_next (j : nat) (ref : Z) (s : st) : st * result Z :=
  let kp := count_prod j (log s) in
  let s := add_ev (EProd j) s in
  (s, prod E j kp ref).

End Rt.
