(* FilterCases.v — the Coq side of the C17 correspondence check.  The harness writes lists of cases
   (inputs + what the implementation did); the functions below evaluate the models of Filters.v /
   Parse.v on the inputs and report the indices at which model and implementation differ.

   fcase  filter evaluation   (filter expression, [(utc offset in s, instant in ns, observed allow())])
   lcase  calendar fields     (utc offset, instant, the implementation's year/month/day/weekday/time)
   pcase  parser              (domain, positional arguments of get_weekdays/get_days/get_months,
                               observed: Ok sorted-list | Raise EValueError | Raise ETypeError ...)
   tcase  name tables         (domain, the items of the real DAY_NAMES / MONTH_NAMES dict)
   ccase  characters          (code point, observed isspace, isdigit, int() accepts, lower())        *)
From EAS Require Import Base Civil Filters Parse.

(* filter expressions as the harness builds them through the PUBLIC FilterBuilder API; the leaves
   carry the argument spellings, so that the parser model takes part in every evaluation case *)
Inductive fexpr :=
  | XAny (l : list fexpr)                      (* FilterBuilder.any( *filters) *)
  | XAll (l : list fexpr)                      (* FilterBuilder.all( *filters) *)
  | XNot (e : fexpr)                           (* FilterBuilder.not_(filter) *)
  | XTime (lo hi : option Z)                   (* FilterBuilder.time(lower, upper), bounds in ns of day *)
  | XSet (d : dom) (args : list pval)          (* FilterBuilder.weekdays / days / months( *args) *)
  | XDateSet (allowed : list Z) (neg : bool).  (* holidays / work_days / not_work_days(holidays object) *)

Fixpoint compile (e : fexpr) : result filt :=
  match e with
  | XAny l =>
      bind ((fix go (l : list fexpr) : result (list filt) :=
               match l with
               | [] => Ok []
               | a :: t => bind (compile a) (fun f => bind (go t) (fun fs => Ok (f :: fs)))
               end) l) (fun fs => Ok (FAny fs))
  | XAll l =>
      bind ((fix go (l : list fexpr) : result (list filt) :=
               match l with
               | [] => Ok []
               | a :: t => bind (compile a) (fun f => bind (go t) (fun fs => Ok (f :: fs)))
               end) l) (fun fs => Ok (FAll fs))
  | XNot a => bind (compile a) (fun f => Ok (FNot f))
  | XTime None None => Raise EValueError       (* 'At least one of lower or upper must be provided' *)
  | XTime lo hi => Ok (FTime lo hi)
  | XSet d args =>
      bind (builder_values d args) (fun s =>
        Ok (match d with DWeekdays => FWeekday s | DDays => FDay s | DMonths => FMonth s end))
  | XDateSet a n => Ok (FDateSet a n)
  end.

(* one expression, whether building it raised, and the evaluation points (offset s, instant ns, observed) *)
Record fcase := { fc_e : fexpr; fc_built : option err; fc_pts : list (Z * Z * bool) }.

Definition pt_ok (f : filt) (p : Z * Z * bool) : bool :=
  let '(off, inst, obs) := p in Bool.eqb (allow f (to_local_off inst off)) obs.

(* indices of the bad points of a case; a disagreement about the construction itself is index 0 of a
   case whose point list is then ignored *)
Definition fcase_bad (c : fcase) : list nat :=
  match compile (fc_e c), fc_built c with
  | Ok f, None => bad_indices (pt_ok f) (fc_pts c)
  | Raise e, Some e' => if err_eqb e e' then [] else [0%nat]
  | _, _ => [0%nat]
  end.

Fixpoint fmismatches_from (i : nat) (cs : list fcase) : list (nat * nat) :=
  match cs with
  | [] => []
  | c :: t => map (fun k => (i, k)) (fcase_bad c) ++ fmismatches_from (S i) t
  end.
Definition fmismatches (cs : list fcase) : list (nat * nat) := fmismatches_from 0%nat cs.

(* the local calendar fields the model derives, for cases that carry the implementation's own
   reading of the instant: (offset, instant, year, month, day, isoweekday, ns since local midnight) *)
Record lcase := { lc_off : Z; lc_inst : Z; lc_y : Z; lc_m : Z; lc_d : Z; lc_wd : Z; lc_tod : Z }.
Definition lcase_ok (c : lcase) : bool :=
  let l := to_local_off (lc_inst c) (lc_off c) in
  (local_year l =? lc_y c) && (local_month l =? lc_m c) && (local_dom l =? lc_d c)
  && (local_weekday l =? lc_wd c) && (local_tod l =? lc_tod c)
  && (days_from_civil (lc_y c) (lc_m c) (lc_d c) =? local_day l).
Definition lmismatches (cs : list lcase) : list nat := bad_indices lcase_ok cs.

Record pcase := { pc_dom : dom; pc_builder : bool; pc_args : list pval; pc_obs : result (list Z) }.

Definition pcase_model (c : pcase) : result (list Z) :=
  if pc_builder c then builder_values (pc_dom c) (pc_args c) else get_values (pc_dom c) (pc_args c).
Definition pcase_ok (c : pcase) : bool := result_eqb (list_eqb Z.eqb) (pcase_model c) (pc_obs c).
Definition pmismatches (cs : list pcase) : list nat := bad_indices pcase_ok cs.

(* name tables: same items (both inclusions; the order of a dict does not matter for .get) *)
Definition item_eqb (a b : str * Z) : bool := str_eqb (fst a) (fst b) && (snd a =? snd b).
Definition subset_items (a b : list (str * Z)) : bool := forallb (fun x => existsb (item_eqb x) b) a.
Definition tcase_ok (c : dom * list (str * Z)) : bool :=
  match dom_lookup (fst c) with
  | Some tbl => subset_items tbl (snd c) && subset_items (snd c) tbl
                && (Nat.eqb (length tbl) (length (snd c)))
                && forallb (fun kv => opt_eqb Z.eqb (assoc (fst kv) tbl) (Some (snd kv))) (snd c)
  | None => match snd c with [] => true | _ => false end
  end.
Definition tmismatches (cs : list (dom * list (str * Z))) : list nat := bad_indices tcase_ok cs.

Record ccase := { cc_cp : Z; cc_space : bool; cc_digit : bool; cc_int : option Z; cc_lower : list Z }.
Definition ccase_ok (c : ccase) : bool :=
  Bool.eqb (isspace (cc_cp c)) (cc_space c) && Bool.eqb (isdigit [cc_cp c]) (cc_digit c)
  && (if cc_digit c then opt_eqb Z.eqb (py_int [cc_cp c]) (cc_int c) else true)
  && list_eqb Z.eqb (lower_cp (cc_cp c)) (cc_lower c).
Definition cmismatches (cs : list ccase) : list nat := bad_indices ccase_ok cs.
