(* GenParseEq.v — the code generated from the argument parser of builder/helper.py and from the name tables of const.py
   (coq/gen/GenParse.v, rewritten by tools/gen_parse.py on every run) computes what the model of Parse.v computes.
   Hand-written; re-checked against the regenerated file on every run.

     gen_names_are_model            the tables COMPUTED by the translated __create_names (with its closures and the
                                    module level of const.py) are the model's day_names / month_names, entry by entry
                                    and in the order of the dicts
     gen_get_day_nr_is_lookup, gen_get_month_nr_is_lookup
     gen_wrapped_range_is_model     _wrapped_range, for all integers
     gen_parse_single_int / _str    _parse_single_value on an int / on a str, for every lookup that agrees with a table
     gen_parse_str_options_fuel     the generated _parse_str_options with n units of fuel = Parse.parse_opts n
     gen_parse_str_options_is_model ... = Parse.parse_str_options from one unit of fuel on
     gen_parse_values_is_model      _parse_values on every list of values nested less deep than the fuel
     gen_parse_values_any_fuel      with ANY fuel the answer is the model's or OutOfFuel, never another value
     gen_get_weekdays / gen_get_days / gen_get_months_is_model   the three entry points = Parse.get_values d
   and the theorems of ParseFacts.v restated for the generated code (section 5). *)
From EAS Require Import Base Civil Parse ParseFacts GenRtParse.
From EASGen Require Import GenParse.
From Coq Require Import String.

Theorem gen_parse_recognised : gen_parse_status_v = GenParseOk.
Proof. reflexivity. Qed.

(* ------------------------------------------------------------------------------------------- *)
(* 1. the tables *)
Theorem gen_names_are_model : gen_names = Ok (day_names, month_names).
Proof. vm_compute. reflexivity. Qed.

Corollary gen_day_names_is_model : gen_day_names = day_names.
Proof. unfold gen_day_names. rewrite gen_names_are_model. reflexivity. Qed.
Corollary gen_month_names_is_model : gen_month_names = month_names.
Proof. unfold gen_month_names. rewrite gen_names_are_model. reflexivity. Qed.

(* what a lookup function answers, in terms of a table *)
Definition table_fn (tbl : list (str * Z)) : str -> result Z :=
  fun s => match lookup_name tbl s with Some n => Ok n | None => Raise EValueError end.

Theorem gen_get_day_nr_is_lookup : forall tbl s, g_get_day_nr tbl s = table_fn tbl s.
Proof. reflexivity. Qed.
Theorem gen_get_month_nr_is_lookup : forall tbl s, g_get_month_nr tbl s = table_fn tbl s.
Proof. reflexivity. Qed.

(* the generated lookup argument [g] agrees with the model's lookup argument [lk] *)
Definition lookup_agrees (g : option (str -> result Z)) (lk : option (list (str * Z))) : Prop :=
  match g, lk with
  | None, None => True
  | Some f, Some tbl => forall s, f s = table_fn tbl s
  | _, _ => False
  end.

Definition gen_lookup (d : dom) : option (str -> result Z) :=
  match d with
  | DWeekdays => Some (g_get_day_nr gen_day_names)
  | DDays => None
  | DMonths => Some (g_get_month_nr gen_month_names)
  end.

Lemma gen_lookup_agrees d : lookup_agrees (gen_lookup d) (dom_lookup d).
Proof.
  destruct d; cbn [gen_lookup dom_lookup lookup_agrees]; [|exact I|]; intros s.
  - rewrite gen_day_names_is_model. reflexivity.
  - rewrite gen_month_names_is_model. reflexivity.
Qed.

(* ------------------------------------------------------------------------------------------- *)
(* 2. the non-recursive functions *)
Theorem gen_wrapped_range_is_model : forall a b mx, g_wrapped_range a b mx = Ok (wrapped_range a b mx).
Proof.
  intros a b mx. unfold g_wrapped_range, wrapped_range.
  destruct (a <? b); [reflexivity|]. destruct (a =? b); reflexivity.
Qed.

Theorem gen_parse_single_int : forall g mn mx n, g_parse_single_value (VInt n) g mn mx = parse_single_int mn mx n.
Proof. reflexivity. Qed.

Theorem gen_parse_single_str : forall g lk mn mx s, lookup_agrees g lk ->
  g_parse_single_value (VStr s) g mn mx = parse_single_str lk mn mx s.
Proof.
  intros g lk mn mx s H. unfold g_parse_single_value, parse_single_str. cbn [as_str bind].
  destruct (isdigit (strip s)).
  - unfold int_of_str. destruct (py_int (strip s)); reflexivity.
  - destruct g as [f|], lk as [tbl|]; cbn [lookup_agrees] in H; try contradiction; [|reflexivity].
    rewrite H. unfold table_fn. destruct (lookup_name tbl (strip s)); reflexivity.
Qed.

(* a value that is neither an int nor a str is outside the signature `str | int` *)
Lemma gen_parse_single_list : forall g mn mx l, g_parse_single_value (VList l) g mn mx = Raise EOther.
Proof. reflexivity. Qed.

(* ------------------------------------------------------------------------------------------- *)
(* 3. loops and the recursive functions *)
Lemma bind_ret {A} (r : result A) : bind r (fun a => Ok a) = r.
Proof. destruct r; reflexivity. Qed.

(* `for a in l: ret.update(f(a))` is Parse.union_results *)
Lemma for_each_union {A} (body : A -> list Z -> result (list Z)) (f : A -> result (list Z)) l :
  (forall a, In a l -> forall ret, body a ret = bind (f a) (fun r => Ok (zunion ret r))) ->
  forall ret, for_each l ret body = union_results f l ret.
Proof.
  induction l as [|a t IH]; intros H ret; cbn [for_each union_results]; [reflexivity|].
  rewrite (H a (or_introl eq_refl)). destruct (f a) as [r| |]; cbn [bind]; try reflexivity.
  apply IH. intros b Hb. apply H. right. exact Hb.
Qed.

Lemma split_first_some d s : zmemb d s = true -> split_first d s <> None.
Proof.
  induction s as [|c t IH]; cbn [zmemb split_first]; [discriminate|]. rewrite Z.eqb_sym.
  destruct (c =? d); [discriminate|]. cbn [orb]. intros H. specialize (IH H).
  destruct (split_first d t) as [[a b]|]; [discriminate|congruence].
Qed.

(* the two comma-free branches of _parse_str_options *)
Lemma gen_item g lk mn mx v (R : prec) : lookup_agrees g lk -> zmemb COMMA v = false ->
  g_parse_str_options R v g mn mx = parse_item lk mn mx v.
Proof.
  intros H Hc. unfold g_parse_str_options, parse_item. change 44 with COMMA. change 45 with DASH. rewrite Hc.
  destruct (zmemb DASH v) eqn:Hd.
  - unfold split2. pose proof (split_first_some DASH v Hd) as Hs.
    destruct (split_first DASH v) as [[a b]|]; [|congruence]. cbn [bind].
    rewrite !(gen_parse_single_str g lk) by exact H.
    destruct (parse_single_str lk mn mx a) as [x| |]; cbn [bind]; try reflexivity.
    destruct (parse_single_str lk mn mx b) as [y| |]; cbn [bind]; try reflexivity.
    rewrite gen_wrapped_range_is_model. reflexivity.
  - rewrite (gen_parse_single_str g lk) by exact H.
    destruct (parse_single_str lk mn mx v); reflexivity.
Qed.

(* fuel against fuel: the generated function with n units is the model's [parse_opts n] *)
Theorem gen_parse_str_options_fuel : forall g lk mn mx, lookup_agrees g lk ->
  forall n v, r_parse_str_options (pknot n) v g mn mx = parse_opts n lk mn mx v.
Proof.
  intros g lk mn mx H. induction n as [|n IH]; intros v; [reflexivity|].
  cbn [pknot r_parse_str_options parse_opts].
  destruct (zmemb COMMA v) eqn:Hc; [|rewrite (gen_item g lk) by assumption; reflexivity].
  unfold g_parse_str_options. change 44 with COMMA. rewrite Hc.
  rewrite (for_each_union _ (parse_opts n lk mn mx)).
  - rewrite bind_ret. reflexivity.
  - intros a _ ret. rewrite IH. reflexivity.
Qed.

Theorem gen_parse_str_options_is_model : forall g lk mn mx, lookup_agrees g lk ->
  forall n v, g_parse_str_options (pknot (S n)) v g mn mx = parse_str_options lk mn mx v.
Proof.
  intros g lk mn mx H n v. change (g_parse_str_options (pknot (S n))) with (r_parse_str_options (pknot (S (S n)))).
  rewrite (gen_parse_str_options_fuel g lk) by exact H. apply parse_opts_fuel. lia.
Qed.

(* nesting depth of the lists in a value / in a list of values *)
Fixpoint vdepth (v : pval) : nat :=
  match v with
  | VList l => S (fold_right (fun x m => Nat.max (vdepth x) m) O l)
  | _ => O
  end.
Definition ldepth (l : list pval) : nat := fold_right (fun x m => Nat.max (vdepth x) m) O l.

Lemma ldepth_In l v : In v l -> (vdepth v <= ldepth l)%nat.
Proof.
  induction l as [|a t IH]; intros Hi; [destruct Hi|]. cbn [ldepth fold_right]. fold (ldepth t).
  destruct Hi as [->|Hi]; [lia|]. specialize (IH Hi). lia.
Qed.

(* the body of the loop of _parse_values, against the model's dispatch on the element *)
Lemma gen_values_body g lk mn mx (R : prec) v :
  lookup_agrees g lk ->
  (forall s, r_parse_str_options R s g mn mx = parse_str_options lk mn mx s) ->
  (forall l, v = VList l -> r_parse_values R l g mn mx = parse_val lk mn mx (VList l)) ->
  forall ret,
    match v with
    | VInt n => bind (g_parse_single_value (VInt n) g mn mx) (fun r => Ok (zinsert r ret))
    | VStr s => bind (r_parse_str_options R s g mn mx) (fun r => Ok (zunion ret r))
    | VList l => bind (r_parse_values R l g mn mx) (fun r => Ok (zunion ret r))
    end = bind (parse_val lk mn mx v) (fun r => Ok (zunion ret r)).
Proof.
  intros H Hs Hl ret. destruct v as [n|s|l].
  - rewrite gen_parse_single_int. cbn [parse_val]. destruct (parse_single_int mn mx n); reflexivity.
  - rewrite Hs. reflexivity.
  - rewrite (Hl l eq_refl). reflexivity.
Qed.

Lemma gen_parse_values_step g lk mn mx (R : prec) l :
  lookup_agrees g lk ->
  (forall s, r_parse_str_options R s g mn mx = parse_str_options lk mn mx s) ->
  (forall l', In (VList l') l -> r_parse_values R l' g mn mx = parse_val lk mn mx (VList l')) ->
  g_parse_values R l g mn mx = parse_values lk mn mx l.
Proof.
  intros H Hs Hl. unfold g_parse_values, parse_values. cbn [parse_val].
  destruct l as [|a t]; [reflexivity|]. cbn [nonempty].
  rewrite (for_each_union _ (parse_val lk mn mx)); [apply bind_ret|].
  intros v Hv ret.
  rewrite <- (gen_values_body g lk mn mx R v H Hs); [destruct v; reflexivity|].
  intros l' ->. apply Hl. exact Hv.
Qed.

Theorem gen_parse_values_fuel : forall g lk mn mx, lookup_agrees g lk ->
  forall n l, (ldepth l + 3 <= n)%nat -> r_parse_values (pknot n) l g mn mx = parse_values lk mn mx l.
Proof.
  intros g lk mn mx H. induction n as [|n IH]; intros l Hn; [lia|].
  cbn [pknot r_parse_values]. apply gen_parse_values_step; [exact H| |].
  - intros s. rewrite (gen_parse_str_options_fuel g lk) by exact H. apply parse_opts_fuel. lia.
  - intros l' Hi. apply IH. pose proof (ldepth_In l _ Hi) as Hd. cbn [vdepth] in Hd. fold (ldepth l') in Hd. lia.
Qed.

Theorem gen_parse_values_is_model : forall g lk mn mx, lookup_agrees g lk ->
  forall n l, (ldepth l + 2 <= n)%nat -> g_parse_values (pknot n) l g mn mx = parse_values lk mn mx l.
Proof.
  intros g lk mn mx H n l Hn. change (g_parse_values (pknot n)) with (r_parse_values (pknot (S n))).
  apply gen_parse_values_fuel; [exact H|lia].
Qed.

(* ------------------------------------------------------------------------------------------- *)
(* 4. with ANY fuel: the model's answer or OutOfFuel, never another value (P11) *)
Lemma union_results_approx {A} (f' f : A -> result (list Z)) l :
  (forall a, In a l -> f' a = OutOfFuel \/ f' a = f a) ->
  forall ret, union_results f' l ret = OutOfFuel \/ union_results f' l ret = union_results f l ret.
Proof.
  induction l as [|a t IH]; intros H ret; cbn [union_results]; [right; reflexivity|].
  destruct (H a (or_introl eq_refl)) as [E|E]; rewrite E; [left; reflexivity|].
  destruct (f a); [|right; reflexivity|left; reflexivity].
  apply IH. intros b Hb. apply H. right. exact Hb.
Qed.

Lemma split_on_nonempty d s : split_on d s <> [].
Proof.
  induction s as [|c t IH]; cbn [split_on]; [discriminate|].
  destruct (c =? d); [discriminate|]. destruct (split_on d t); [congruence|discriminate].
Qed.

Lemma parse_opts_any_fuel n lk mn mx v :
  parse_opts n lk mn mx v = OutOfFuel \/ parse_opts n lk mn mx v = parse_str_options lk mn mx v.
Proof.
  destruct n as [|[|n]]; [left; reflexivity| |right; apply parse_opts_fuel; lia].
  rewrite parse_str_options_unfold. cbn [parse_opts]. destruct (zmemb COMMA v); [left|right; reflexivity].
  pose proof (split_on_nonempty COMMA v) as Hne. destruct (split_on COMMA v); [congruence|reflexivity].
Qed.

Theorem gen_parse_values_any_fuel : forall g lk mn mx, lookup_agrees g lk ->
  forall n l, r_parse_values (pknot n) l g mn mx = OutOfFuel \/
              r_parse_values (pknot n) l g mn mx = parse_values lk mn mx l.
Proof.
  intros g lk mn mx H. induction n as [|n IH]; intros l; [left; reflexivity|].
  cbn [pknot r_parse_values]. unfold g_parse_values, parse_values. cbn [parse_val].
  destruct l as [|a0 t0]; [right; reflexivity|]. cbn [nonempty]. remember (a0 :: t0) as l eqn:El. clear El a0 t0.
  set (f' := fun v => match v with
                      | VInt k => parse_val lk mn mx (VInt k)
                      | VStr s => r_parse_str_options (pknot n) s g mn mx
                      | VList l' => r_parse_values (pknot n) l' g mn mx
                      end).
  rewrite (for_each_union _ f'), bind_ret.
  - apply union_results_approx. intros v _. destruct v as [k|s|l']; cbn [f' parse_val].
    + right; reflexivity.
    + rewrite (gen_parse_str_options_fuel g lk) by exact H. apply parse_opts_any_fuel.
    + apply IH.
  - intros v _ ret. destruct v as [k|s|l']; cbn [f']; try reflexivity.
    rewrite gen_parse_single_int. cbn [parse_val]. destruct (parse_single_int mn mx k); reflexivity.
Qed.

(* ------------------------------------------------------------------------------------------- *)
(* the three entry points *)
Definition gen_get (d : dom) (n : nat) (args : list pval) : result (list Z) :=
  match d with
  | DWeekdays => g_get_weekdays (pknot n) args
  | DDays => g_get_days (pknot n) args
  | DMonths => g_get_months (pknot n) args
  end.

Lemma gen_get_unfold d n args :
  gen_get d n args = bind (r_parse_values (pknot n) args (gen_lookup d) (dom_min d) (dom_max d)) (fun r => Ok (sorted_of_set r)).
Proof. destruct d; reflexivity. Qed.

(* get_weekdays( *values) / get_days / get_months: the ranges 1-7, 1-31, 1-12 and the lookups are the model's *)
Theorem gen_get_is_model : forall d n args, (ldepth args + 3 <= n)%nat -> gen_get d n args = get_values d args.
Proof.
  intros d n args Hn. rewrite gen_get_unfold, (gen_parse_values_fuel _ (dom_lookup d)) by (apply gen_lookup_agrees || exact Hn).
  unfold sorted_of_set. apply bind_ret.
Qed.

Theorem gen_get_any_fuel : forall d n args, gen_get d n args = OutOfFuel \/ gen_get d n args = get_values d args.
Proof.
  intros d n args. rewrite gen_get_unfold.
  destruct (gen_parse_values_any_fuel _ (dom_lookup d) (dom_min d) (dom_max d) (gen_lookup_agrees d) n args) as [E|E];
    rewrite E; [left; reflexivity|right]. unfold sorted_of_set. apply bind_ret.
Qed.

Corollary gen_get_weekdays_is_model : forall n args, (ldepth args + 3 <= n)%nat ->
  g_get_weekdays (pknot n) args = get_weekdays args.
Proof. intros n args. exact (gen_get_is_model DWeekdays n args). Qed.
Corollary gen_get_days_is_model : forall n args, (ldepth args + 3 <= n)%nat ->
  g_get_days (pknot n) args = get_days args.
Proof. intros n args. exact (gen_get_is_model DDays n args). Qed.
Corollary gen_get_months_is_model : forall n args, (ldepth args + 3 <= n)%nat ->
  g_get_months (pknot n) args = get_months args.
Proof. intros n args. exact (gen_get_is_model DMonths n args). Qed.

(* the bundles stated in props/C17.v *)
Theorem gen_parser_is_model :
  (forall a b mx, g_wrapped_range a b mx = Ok (wrapped_range a b mx)) /\
  (forall g mn mx k, g_parse_single_value (VInt k) g mn mx = parse_single_int mn mx k) /\
  (forall g lk mn mx s, lookup_agrees g lk -> g_parse_single_value (VStr s) g mn mx = parse_single_str lk mn mx s) /\
  (forall g lk mn mx, lookup_agrees g lk ->
     forall n v, r_parse_str_options (pknot n) v g mn mx = parse_opts n lk mn mx v) /\
  (forall g lk mn mx, lookup_agrees g lk ->
     forall n v, g_parse_str_options (pknot (S n)) v g mn mx = parse_str_options lk mn mx v) /\
  (forall g lk mn mx, lookup_agrees g lk ->
     forall n l, (ldepth l + 2 <= n)%nat -> g_parse_values (pknot n) l g mn mx = parse_values lk mn mx l) /\
  (forall g lk mn mx, lookup_agrees g lk ->
     forall n l, r_parse_values (pknot n) l g mn mx = OutOfFuel \/
                 r_parse_values (pknot n) l g mn mx = parse_values lk mn mx l).
Proof.
  exact (conj gen_wrapped_range_is_model (conj gen_parse_single_int (conj gen_parse_single_str
        (conj gen_parse_str_options_fuel (conj gen_parse_str_options_is_model
        (conj gen_parse_values_is_model gen_parse_values_any_fuel)))))).
Qed.

Theorem gen_entry_points :
  (forall d, lookup_agrees (gen_lookup d) (dom_lookup d)) /\
  (forall n args, (ldepth args + 3 <= n)%nat -> g_get_weekdays (pknot n) args = get_weekdays args) /\
  (forall n args, (ldepth args + 3 <= n)%nat -> g_get_days (pknot n) args = get_days args) /\
  (forall n args, (ldepth args + 3 <= n)%nat -> g_get_months (pknot n) args = get_months args) /\
  (forall d n args, gen_get d n args = OutOfFuel \/ gen_get d n args = get_values d args).
Proof.
  exact (conj gen_lookup_agrees (conj gen_get_weekdays_is_model (conj gen_get_days_is_model
        (conj gen_get_months_is_model gen_get_any_fuel)))).
Qed.

(* ------------------------------------------------------------------------------------------- *)
(* 5. the theorems of ParseFacts.v, for the generated code.  [gen_str_options d n s] is the generated
   _parse_str_options on the domain d (lookup and range as get_<d> passes them) with n + 1 units of fuel. *)
Definition gen_str_options (d : dom) (n : nat) (s : str) : result (list Z) :=
  g_parse_str_options (pknot (S n)) s (gen_lookup d) (dom_min d) (dom_max d).

Lemma gen_str_options_is_model d n s :
  gen_str_options d n s = parse_str_options (dom_lookup d) (dom_min d) (dom_max d) s.
Proof. apply gen_parse_str_options_is_model. apply gen_lookup_agrees. Qed.

(* a-b is [a..b], {a}, or the wrap-around [a..max] u [1..b]: the generated _wrapped_range never raises and returns
   exactly that set *)
Theorem gen_wrapped_range_spec : forall a b mx, exists r, g_wrapped_range a b mx = Ok r /\
  forall x, In x r <-> (a <= b /\ a <= x <= b) \/ (b < a /\ (a <= x <= mx \/ 1 <= x <= b)).
Proof.
  intros a b mx. exists (wrapped_range a b mx). split; [apply gen_wrapped_range_is_model|].
  intros x. apply wrapped_range_spec.
Qed.

(* every string of the grammar is accepted by the generated parser and read as the set it denotes *)
Theorem gen_parse_sound : forall d n t, tree_ok (dom_lookup d) (dom_min d) (dom_max d) t = true ->
  gen_str_options d n (print t) = Ok (denote (dom_lookup d) (dom_max d) t).
Proof. intros d n t H. rewrite gen_str_options_is_model. apply parse_sound. exact H. Qed.

(* nestings of lists / ints / strings through get_<domain>( *args) and through FilterBuilder.<domain>( *args), which
   passes the tuple of its arguments as ONE value *)
Theorem gen_get_sound : forall d n vs, vtree_ok (dom_lookup d) (dom_min d) (dom_max d) (TList vs) = true ->
  (ldepth (map vprint vs) + 4 <= n)%nat ->
  gen_get d n (map vprint vs) = Ok (vdenote (dom_lookup d) (dom_max d) (TList vs)) /\
  gen_get d n [VList (map vprint vs)] = Ok (vdenote (dom_lookup d) (dom_max d) (TList vs)).
Proof.
  intros d n vs H Hn. destruct (get_values_sound d vs H) as [H1 H2]. split.
  - rewrite gen_get_is_model by lia. exact H1.
  - rewrite gen_get_is_model; [exact H2|]. cbn [ldepth fold_right vdepth]. fold (ldepth (map vprint vs)). lia.
Qed.

(* anything else is rejected: the atoms ... *)
Theorem gen_reject_atoms : forall d,
  let lk := dom_lookup d in let mn := dom_min d in let mx := dom_max d in
  let single := fun s => g_parse_single_value (VStr s) (gen_lookup d) mn mx in
  (forall s, isdigit (strip s) = true -> ~ (mn <= digits_val (strip s) <= mx) -> single s = Raise EValueError) /\
  (forall s, isdigit (strip s) = false -> (forall tbl, lk = Some tbl -> lookup_name tbl (strip s) = None) ->
     single s = Raise EValueError) /\
  (forall tbl s k, lk = Some tbl -> isdigit (strip s) = false -> lookup_name tbl (strip s) = Some k -> ~ (mn <= k <= mx) ->
     single s = Raise EValueError) /\
  (forall s, isdigit (strip s) = true -> forallb is_ascii_digit (strip s) = false -> single s = Raise EValueError) /\
  (forall s, all_space s = true -> (forall tbl, lk = Some tbl -> assoc [] tbl = None) -> single s = Raise EValueError).
Proof.
  intros d lk mn mx single. destruct reject_atoms as (R1 & R2 & R3 & R4 & R5).
  assert (E : forall s, single s = parse_single_str lk mn mx s)
    by (intros s; apply gen_parse_single_str; apply gen_lookup_agrees).
  repeat split; intros.
  - rewrite E. apply R1; assumption.
  - rewrite E. apply R2; assumption.
  - rewrite E. subst lk. rewrite H. eapply R3; eassumption.
  - rewrite E. apply R4; assumption.
  - rewrite E. apply R5; assumption.
Qed.

(* ... and how a rejection propagates: item, comma list, value at any nesting depth, no values, int out of range *)
Theorem gen_reject_propagates : forall d,
  let lk := dom_lookup d in let mn := dom_min d in let mx := dom_max d in
  (forall n v, zmemb COMMA v = false ->
     (if zmemb DASH v
      then exists a b, split_first DASH v = Some (a, b) /\
             (parse_single_str lk mn mx a = Raise EValueError \/ parse_single_str lk mn mx b = Raise EValueError)
      else parse_single_str lk mn mx v = Raise EValueError) ->
     gen_str_options d n v = Raise EValueError) /\
  (forall n v part e, zmemb COMMA v = true -> In part (split_on COMMA v) -> parse_item lk mn mx part = Raise e ->
     exists e', gen_str_options d n v = Raise e') /\
  (forall n vs v e, (ldepth vs + 3 <= n)%nat -> In v vs -> parse_val lk mn mx v = Raise e ->
     exists e', gen_get d n vs = Raise e') /\
  (forall n, (3 <= n)%nat -> gen_get d n [] = Raise EValueError) /\
  (forall n, (4 <= n)%nat -> gen_get d n [VList []] = Raise EValueError) /\
  (forall n k, (3 <= n)%nat -> ~ (mn <= k <= mx) -> gen_get d n [VInt k] = Raise EValueError).
Proof.
  intros d lk mn mx. destruct reject_propagates as (R1 & R2 & R3 & R4 & R5 & R6). repeat split; intros.
  - rewrite gen_str_options_is_model. apply R1; assumption.
  - rewrite gen_str_options_is_model. eapply R2; eassumption.
  - rewrite gen_get_is_model by assumption. eapply R3; eassumption.
  - rewrite gen_get_is_model by (cbn; lia). apply R4.
  - rewrite gen_get_is_model by (cbn; lia). reflexivity.
  - rewrite gen_get_is_model by (cbn; lia). unfold get_values, parse_values.
    change (parse_val (dom_lookup d) (dom_min d) (dom_max d) (VList [VInt k])) with
      (match parse_val lk mn mx (VInt k) with Ok r => Ok (zunion [] r) | Raise e => Raise e | OutOfFuel => OutOfFuel end).
    rewrite R6 by assumption. reflexivity.
Qed.

(* the names: every English and German full name and abbreviation is in the GENERATED tables with its number, and
   nothing else is *)
Theorem gen_name_tables :
  ((forall nm n, In (nm, n) english_german_days -> assoc nm gen_day_names = Some n) /\
   (forall nm n, In (nm, n) gen_day_names -> assoc nm english_german_days = Some n /\ 1 <= n <= 7)) /\
  ((forall nm n, In (nm, n) english_german_months -> assoc nm gen_month_names = Some n) /\
   (forall nm n, In (nm, n) gen_month_names -> assoc nm english_german_months = Some n /\ 1 <= n <= 12)).
Proof.
  generalize gen_day_names_is_model gen_month_names_is_model. generalize gen_day_names gen_month_names.
  intros dn mn -> ->. exact name_tables.
Qed.

(* in every casing: a name whose lower-casing is a key of the generated table is resolved by the generated get_day_nr /
   get_month_nr to the key's number and meets the side conditions of gen_parse_sound *)
Theorem gen_spelling_any_case :
  (forall nm key n, lower nm = key -> assoc key gen_day_names = Some n ->
     name_ok (dom_lookup DWeekdays) 1 7 nm = true /\ g_get_day_nr gen_day_names nm = Ok n /\ 1 <= n <= 7) /\
  (forall nm key n, lower nm = key -> assoc key gen_month_names = Some n ->
     name_ok (dom_lookup DMonths) 1 12 nm = true /\ g_get_month_nr gen_month_names nm = Ok n /\ 1 <= n <= 12).
Proof.
  generalize gen_day_names_is_model gen_month_names_is_model. generalize gen_day_names gen_month_names.
  intros dn mn -> ->. destruct spelling_any_case as [Hd Hm].
  split; intros nm key n Hl Ha.
  - destruct (Hd nm key n Hl Ha) as (H1 & H2 & H3). split; [exact H1|split; [|exact H3]].
    rewrite gen_get_day_nr_is_lookup. unfold table_fn. rewrite H2. reflexivity.
  - destruct (Hm nm key n Hl Ha) as (H1 & H2 & H3). split; [exact H1|split; [|exact H3]].
    rewrite gen_get_month_nr_is_lookup. unfold table_fn. rewrite H2. reflexivity.
Qed.

(* an unknown name is a ValueError of the generated lookups *)
Theorem gen_unknown_name :
  (forall nm, assoc (strip (lower nm)) gen_day_names = None -> g_get_day_nr gen_day_names nm = Raise EValueError) /\
  (forall nm, assoc (strip (lower nm)) gen_month_names = None -> g_get_month_nr gen_month_names nm = Raise EValueError).
Proof.
  split; intros nm H; [rewrite gen_get_day_nr_is_lookup|rewrite gen_get_month_nr_is_lookup];
    unfold table_fn, lookup_name; rewrite H; reflexivity.
Qed.

(* ------------------------------------------------------------------------------------------- *)
(* the hypotheses are satisfiable, and the generated code RUNS: concrete strings through the translated functions *)
Module GenExamples.
Import String.
Example gen_runs :
  gen_get DWeekdays 3 [VStr (of_string "Fr-Mo")] = Ok [1; 5; 6; 7] /\
  gen_get DMonths 3 [VStr (of_string "Oct-Feb")] = Ok [1; 2; 10; 11; 12] /\
  gen_get DWeekdays 3 [VStr (of_string " DI , do ")] = Ok [2; 4] /\
  gen_get DDays 3 [VStr (of_string "28-3")] = Ok [1; 2; 3; 28; 29; 30; 31] /\
  gen_get DWeekdays 3 [VStr (of_string "8-2")] = Raise EValueError /\
  gen_get DMonths 3 [VInt 13] = Raise EValueError /\ gen_get DMonths 3 [VStr (of_string "13")] = Raise EValueError /\
  gen_get DMonths 3 [VStr (of_string "12")] = Ok [12] /\
  gen_get DDays 3 [VStr (of_string "mo")] = Raise EValueError /\
  (* get_months('Oct-Feb', [3, ['M\xc4RZ , 5']]): nesting depth 2 *)
  (let args := [VStr (of_string "Oct-Feb");
                VList [VInt 3; VList [VStr (of_string "M" ++ [196] ++ of_string "RZ , 5")]]] in
   ldepth args = 2%nat /\ gen_get DMonths 5 args = Ok [1; 2; 3; 5; 10; 11; 12] /\ gen_get DMonths 4 args = OutOfFuel).
Proof. vm_compute. repeat split. Qed.

Example gen_tables_run :
  assoc (of_string "di") gen_day_names = Some 2 /\ assoc (of_string "do") gen_day_names = Some 4 /\
  assoc (of_string "m" ++ [228] ++ of_string "rz") gen_month_names = Some 3 /\ assoc (of_string "mrz") gen_month_names = Some 3 /\
  List.length gen_day_names = 28%nat /\ List.length gen_month_names = 35%nat.
Proof. vm_compute. repeat split. Qed.
End GenExamples.
