(* GenSunEq.v — the code generated from producers/prod_sun.py (coq/gen/GenSun.v, rewritten by tools/gen_sun.py on every
   run) computes what the hand-written sun model of Producers.v computes.

   1  [sunworld] / [world_ok]: which Python values (Observer fields, producer class + parameters, key tuples) the
      model's numbers [loc], [key] stand for; world_ok W = the abstraction of key tuples inverts the key format
      (UTC date, latitude, longitude, elevation) + _cache_key().  gen_cache_keys, gen_cache_key_injective: the three
      _cache_key methods separate objects that differ in class or in any parameter.
   2  the pieces: round_up_generated (the `if next_sun.microsecond` statement = round_up_sec), the dictionary
      (sset_absent, slookup_skipn_none), for_count_popitems (`for _ in range(10): popitem(last=False)` = skipn 10),
      for_range_search (`for i in range(tries + 1)` with try / except ValueError / else / bare raise / for-else =
      iter of sun_search_step; 24 h later is the next UTC date).
   3  gen_get_next_sun_eq: generated SunProducer._get_next_sun = lift (next_sun_raw ...): value, cache, exception.
   4  gen_sun_get_next_open / gen_sun_get_next_eq: generated SunProducer.get_next = the PSun case of Producers.get_next.
   5  [pknot_sun] = GenProdEq.pknot with the PSun case GENERATED; gen_get_next_is_model_sun: for every well-formed
      producer expression (sun members inside groups / operations included), every state and instant the generated
      code returns exactly [lift (get_next E p st dt)].  ([srank] = GenProdEq.rank + the depth of a sun filter.)
   6  the theorems of SunFacts.v for the generated code (named gen_sun_...), incl. never stuck / never out of fuel, the
      cache bound of 64, the window of 366 dates as literals.
   7  [world0], world0_ok: a faithful world exists; the recorded findings F11 / F15-F16 on the generated code.
   8  set_location: gen_set_location_spec / _model / _idempotent.
   9  [ex_world] (two locations differing only in elevation, three kinds of producer objects), ex_world_ok,
      ex_generated_runs (vm_compute through the generated code).
   Not covered: SunAzimuthProducerCompare._sun_func (float search), that astral's instants are the events. *)
From EAS Require Import Base BaseFacts Civil Time Filters Replace Producers ProdStrict SunFacts GenRtProd GenRtSun GenProdEq.
From EASGen Require Import Generated GenProd GenSun.

Theorem gen_sun_recognised : gen_sun_status_v = GenSunOk.
Proof. reflexivity. Qed.

(* ------------------------------------------------------------------------------------------- *)
(* 1. which Python values the model's numbers stand for *)

(* self._cache_key() of the object named by the model: dispatch on its class *)
Definition ckey (o : sunobj) : pykey :=
  match o with
  | SunPlain c => g_sun_cache_key c
  | SunElev c el d => g_elev_cache_key c el d
  | SunAz c az => g_az_cache_key c az
  end.

(* the key format the cache is meant to have: UTC date, the three fields of the observer, the producer's own key *)
Definition key_format (W : sunworld) (key : nat) (day : Z) (loc : nat) : pykey :=
  [VDate day; VFloat (o_latitude (w_observer W loc)); VFloat (o_longitude (w_observer W loc));
   VFloat (o_elevation (w_observer W loc))] ++ ckey (w_sun W key).

(* W is a faithful reading of the model's numbers: the abstraction of key tuples inverts the key format, i.e.
   different (key, day, location) triples are different tuples *)
Definition world_ok (W : sunworld) : Prop :=
  forall key day loc, w_abs W (key_format W key day loc) = Some (key, day, loc).

Lemma world_ok_injective W k1 d1 l1 k2 d2 l2 :
  world_ok W -> key_format W k1 d1 l1 = key_format W k2 d2 l2 -> (k1, d1, l1) = (k2, d2, l2).
Proof. intros HW H. pose proof (HW k1 d1 l1) as H1. rewrite H, HW in H1. injection H1 as -> -> ->. reflexivity. Qed.

(* what the three _cache_key methods return, and why that is enough: objects that differ in class or in any
   parameter have different keys *)
Theorem gen_cache_keys c el d az :
  g_sun_cache_key c = [VClass c] /\ g_elev_cache_key c el d = [VClass c; VFloat el; VDir d] /\
  g_az_cache_key c az = [VClass c; VFloat az].
Proof. repeat split. Qed.

Theorem gen_cache_key_injective o1 o2 : ckey o1 = ckey o2 -> o1 = o2.
Proof.
  destruct o1, o2; cbn; intros H; try discriminate; injection H; intros; subst; reflexivity.
Qed.

(* ------------------------------------------------------------------------------------------- *)
(* 2. the pieces: rounding, the dictionary, the two inner loops *)

Lemma round_up_generated v :
  (if negb (py_subsecond v =? 0) then py_floor_second v + 1 * NS else v) = round_up_sec v.
Proof.
  unfold py_subsecond, py_floor_second. destruct (Z.eqb_spec (v mod NS) 0) as [H0|H0]; cbn [negb].
  - symmetry. apply round_up_sec_fix. exact H0.
  - unfold round_up_sec. assert (HN : 0 < NS) by (unfold NS; lia).
    pose proof (Z.mod_pos_bound v NS HN) as Hb. pose proof (Z.div_mod v NS ltac:(lia)) as Hd.
    assert (Hq : (v + NS - 1) / NS = v / NS + 1).
    { symmetry. apply (Z.div_unique (v + NS - 1) NS (v / NS + 1) (v mod NS - 1)); lia. }
    rewrite Hq. lia.
Qed.

Lemma slookup_skipn_none k n : forall l, slookup k l = None -> slookup k (skipn n l) = None.
Proof.
  induction n as [|n IH]; intros l H; [exact H|]. destruct l as [|[k' v] t]; [reflexivity|].
  cbn [skipn]. apply IH. cbn [slookup] in H. destruct (skey_eqb k k'); [discriminate|exact H].
Qed.

Lemma sset_absent k v : forall l, slookup k l = None -> sset k v l = l ++ [(k, v)].
Proof.
  induction l as [|[k' w] t IH]; intros H; [reflexivity|]. cbn [slookup] in H. cbn [sset app].
  destruct (skey_eqb k k'); [discriminate|]. rewrite IH by exact H. reflexivity.
Qed.

(* `for _ in range(n): d.popitem(last=False)` on a dictionary with at least n entries drops the n oldest *)
Lemma popitems_first (step : unit -> pstate -> PM (lstep unit Z)) :
  (forall x s, step x s = match od_popitem_first s with
                          | None => l_raise s (XErr EKeyError)
                          | Some s' => l_next tt s'
                          end) ->
  forall n s, (n <= length (scache s))%nat ->
    iter_nat n (fun xs : unit * pstate => match step (fst xs) (snd xs) with None => inr None | Some r => loop_out r end)
             (tt, s) = inl (tt, with_scache (skipn n (scache s)) s).
Proof.
  intros H n; induction n as [|n IH]; intros s Hn; cbn [iter_nat].
  - destruct s; reflexivity.
  - cbn [fst snd]. rewrite H. unfold od_popitem_first. destruct (scache s) as [|e t] eqn:Hc; [cbn [length] in Hn; lia|].
    cbn [l_next loop_out]. rewrite IH by (cbn [scache with_scache]; cbn [length] in Hn; lia).
    reflexivity.
Qed.

Lemma for_count_popitems (step : unit -> pstate -> PM (lstep unit Z)) (p : positive) s :
  (forall x s, step x s = match od_popitem_first s with
                          | None => l_raise s (XErr EKeyError)
                          | Some s' => l_next tt s'
                          end) ->
  (Pos.to_nat p <= length (scache s))%nat ->
  for_count p step tt s = Some (with_scache (skipn (Pos.to_nat p) (scache s)) s, PRet (inl tt)).
Proof.
  intros H Hn. unfold for_count. rewrite iter_until_nat. rewrite (popitems_first step H _ s Hn). reflexivity.
Qed.

(* the search over the dates: `for i in range(tries + 1)` against [sun_search_step] *)
Lemma for_range_search (ev : Z -> option Z) (step : Z -> Z -> pstate -> PM (rstep Z Z Z)) :
  (forall i x s, step i x s = match ev (utc_day x) with
                              | Some v => r_break v s
                              | None => if sun_tries <=? i then r_raise s (XErr EValueError) else r_next (x + DAY) s
                              end) ->
  forall cnt i x s,
    for_range_from cnt i step x s =
    match iter_nat cnt (sun_search_step ev) (i, utc_day x) with
    | inl _ => Some (s, PRet (RExhausted (x + Z.of_nat cnt * DAY)))
    | inr (Ok v) => Some (s, PRet (RBroken v))
    | inr (Raise e) => Some (s, PExc (XErr e))
    | inr OutOfFuel => None
    end.
Proof.
  intros H cnt; induction cnt as [|cnt IH]; intros i x s; cbn [for_range_from iter_nat].
  - replace (x + Z.of_nat 0 * DAY) with x by lia. reflexivity.
  - rewrite H. cbn [sun_search_step]. destruct (ev (utc_day x)) as [v|]; [reflexivity|].
    destruct (sun_tries <=? i); [reflexivity|]. cbn [r_next]. rewrite IH, utc_day_plus_DAY.
    replace (x + Z.of_nat (S cnt) * DAY) with (x + DAY + Z.of_nat cnt * DAY) by lia. reflexivity.
Qed.

(* ------------------------------------------------------------------------------------------- *)
(* 3. SunProducer._get_next_sun = next_sun_raw *)
Section GetNextSun.
Variable E : penv.
Variable R : prec.
Variable W : sunworld.
Variable fuel : nat -> nat.
Hypothesis HW : world_ok W.

Lemma sun_count : Z.to_nat (366 + 1) = Pos.to_nat (Z.to_pos (sun_tries + 1)).
Proof. reflexivity. Qed.

Theorem gen_get_next_sun_eq key dt st :
  g_sun_get_next_sun E R W fuel (astral_call E key) (fun _ => ckey (w_sun W key)) dt st =
  lift (next_sun_raw E key st dt).
Proof.
  unfold g_sun_get_next_sun, next_sun_raw, observer_global. cbv zeta.
  destruct (location E) as [loc|] eqn:HL; cbn [option_map]; [|reflexivity].
  pose proof (HW key (utc_day dt) loc) as HK. unfold key_format in HK. unfold utc_date.
  unfold od_get, od_move_to_end, od_set. rewrite !HK.
  destruct (slookup (key, utc_day dt, loc) (scache st)) as [v|] eqn:HS; [reflexivity|].
  (* the search *)
  unfold for_range. rewrite sun_count.
  rewrite (for_range_search (sun_ev E key)); cycle 1.
  { intros i x s. unfold astral_call. destruct (sun_ev E key (utc_day x)); reflexivity. }
  rewrite <- iter_until_nat.
  destruct (iter_until (Z.to_pos (sun_tries + 1)) (sun_search_step (sun_ev E key)) (0, utc_day dt)) as [[i d]|[v|e|]];
    try reflexivity.
  (* an event was found: rounding, eviction, insertion *)
  unfold od_len. change 64 with sun_cache_limit.
  assert (Hrest : forall inst,
    (if sun_cache_limit <=? Z.of_nat (length (scache st)) then
       match for_count 10 (fun (_ : unit) (s : pstate) =>
               match od_popitem_first s with None => l_raise s (XErr EKeyError) | Some s0 => l_next tt s0 end) tt st with
       | None => None
       | Some (s, PExc e) => p_raise s e
       | Some (s, PRet (inr a)) => p_return a s
       | Some (s, PRet (inl _)) =>
           match Some (with_scache (sset (key, utc_day dt, loc) inst (scache s)) s) with
           | None => None | Some s0 => p_return inst s0 end
       end
     else match Some (with_scache (sset (key, utc_day dt, loc) inst (scache st)) st) with
          | None => None | Some s0 => p_return inst s0 end) =
    lift (Ok inst,
          with_scache ((if sun_cache_limit <=? Z.of_nat (length (scache st))
                        then skipn (Z.to_nat sun_cache_evict) (scache st) else scache st) ++
                       [((key, utc_day dt, loc), inst)]) st)).
  { intros inst. destruct (sun_cache_limit <=? Z.of_nat (length (scache st))) eqn:HLim.
    - rewrite for_count_popitems; cycle 1.
      { intros x s. reflexivity. }
      { apply Z.leb_le in HLim. unfold sun_cache_limit in HLim. lia. }
      cbn [scache with_scache]. rewrite sset_absent by (apply slookup_skipn_none; exact HS). reflexivity.
    - rewrite sset_absent by exact HS. reflexivity. }
  pose proof (round_up_generated v) as Hr.
  destruct (negb (py_subsecond v =? 0)); rewrite <- Hr; apply Hrest.
Qed.
End GetNextSun.

(* ------------------------------------------------------------------------------------------- *)
(* 4. SunProducer.get_next = the PSun case of Producers.get_next *)
Section GetNext.
Variable E : penv.
Variable R : prec.
Variable W : sunworld.
Variable fuel : nat -> nat.

Theorem gen_sun_get_next_open key f (gns : Z -> pstate -> PM Z) dt st :
  allow_ok E R f ->
  (forall x s, gns x s = lift (next_sun_raw E key s x)) ->
  g_sun_get_next E R W fuel f gns dt st = lift (get_next E (PSun key f) st dt).
Proof.
  intros Hf Hg. rewrite get_next_sun_unfold. unfold g_sun_get_next. cbv zeta.
  rewrite (for_rounds_model _ (sun_step E key f dt)).
  { apply after_loop. }
  intros x s. unfold sun_step, bind_state. rewrite Hg.
  destruct (next_sun_raw E key s x) as [[v|e|] s']; cbn [lift step_out]; try reflexivity.
  rewrite (allow_ok_opt E R f v Hf).
  destruct ((dt <? v) && allow_opt (pz E) f v); reflexivity.
Qed.

(* the object as a whole: get_next of the class, _get_next_sun and _cache_key by dispatch on the object *)
Definition g_sun_object (key : nat) (f : option filt) (dt : Z) (s : pstate) : PM Z :=
  g_sun_get_next E R W fuel f
    (g_sun_get_next_sun E R W fuel (astral_call E key) (fun _ => ckey (w_sun W key))) dt s.

Theorem gen_sun_get_next_eq key f dt st :
  world_ok W -> allow_ok E R f ->
  g_sun_object key f dt st = lift (get_next E (PSun key f) st dt).
Proof.
  intros HW Hf. apply gen_sun_get_next_open; [exact Hf|]. intros x s. apply gen_get_next_sun_eq. exact HW.
Qed.
End GetNext.

(* ------------------------------------------------------------------------------------------- *)
(* 5. closing the recursion with the GENERATED sun producer: GenProdEq.pknot with its PSun case replaced *)
Section KnotSun.
Variable E : penv.
Variable W : sunworld.
Local Notation z := (pz E).

Fixpoint pknot_sun (n : nat) : prec :=
  match n with
  | O => none_prec
  | S m =>
      let R := pknot_sun m in
      {| r_get_next := fun p dt s =>
           match p with
           | PTime tr f => g_time_get_next E R no_fuel tr f dt s
           | PInterval id start iv f =>
               g_interval_get_next E R (interval_fuels E id start iv dt s) id start iv f dt s
           | PGroup ps f => g_group_get_next E R no_fuel ps f dt s
           | POffset q off f => g_op_get_next E R no_fuel q f (g_offset_apply E R no_fuel off) dt s
           | PEarliest q tr f => g_op_get_next E R no_fuel q f (g_earliest_apply E R no_fuel tr) dt s
           | PLatest q tr f => g_op_get_next E R no_fuel q f (g_latest_apply E R no_fuel tr) dt s
           | PJitter q lo hi f => g_op_get_next E R no_fuel q f (g_jitter_apply E R no_fuel lo hi) dt s
           | PSun key f => g_sun_object E R W no_fuel key f dt s            (* prod_sun.py, generated *)
           end;
         r_allow := fun g x =>
           match g with
           | FAny fs => g_any_allow E R fs x
           | FAll fs => g_all_allow E R fs x
           | FNot h => g_not_allow E R h x
           | FTime lo hi => g_timefilter_allow E R lo hi x
           | FWeekday l => g_weekday_allow E R l x
           | FDay l => g_day_allow E R l x
           | FMonth l => g_month_allow E R l x
           | FDateSet _ _ => allow g (to_local z x)                         (* prod_filter_holiday.py: not translated *)
           end;
         r_replace := fun tr day s => g_replace E R no_fuel (tr_tod tr) (tr_sk tr) (tr_rp tr) day s;
         r_find_after := fun day tod s => coarse_pm (g_find_after E R no_fuel day tod s) |}
  end.

Theorem knot_sun_allow : forall n g x, (depth g <= n)%nat -> r_allow (pknot_sun n) g x = allow g (to_local z x).
Proof.
  induction n as [|n IH]; intros g x Hd; [destruct g; cbn [depth] in Hd; lia|].
  cbn [pknot_sun r_allow]. destruct g as [fs|fs|h|lo hi|l|l|l|a b]; cbn [depth] in Hd.
  - apply gen_any_allow_eq. intros g Hg. apply IH. pose proof (depth_In g fs Hg). lia.
  - apply gen_all_allow_eq. intros g Hg. apply IH. pose proof (depth_In g fs Hg). lia.
  - apply gen_not_allow_eq. apply IH. lia.
  - apply gen_timefilter_allow_eq.
  - apply gen_weekday_allow_eq.
  - apply gen_day_allow_eq.
  - apply gen_month_allow_eq.
  - reflexivity.
Qed.

Lemma knot_sun_allow_ok n f : (orank f <= n)%nat -> allow_ok E (pknot_sun n) f.
Proof. intros H g -> x. apply knot_sun_allow. exact H. Qed.

Lemma knot_sun_find_after n d t s : r_find_after (pknot_sun (S n)) d t s = Some (s, of_rres (find_after z d t)).
Proof. cbn [pknot_sun r_find_after]. apply gen_find_after_eq. Qed.

Lemma knot_sun_replace n tr day s : r_replace (pknot_sun (S (S n))) tr day s = Some (s, of_rres (replace z tr day)).
Proof.
  change (g_replace E (pknot_sun (S n)) no_fuel (tr_tod tr) (tr_sk tr) (tr_rp tr) day s = Some (s, of_rres (replace z tr day))).
  apply gen_replace_eq. intros d t s0. apply knot_sun_find_after.
Qed.

(* how deep the calls go below a get_next: GenProdEq.rank, with the filter of a sun producer counted too *)
Fixpoint srank (p : producer) : nat :=
  match p with
  | PTime _ f => 3 + orank f
  | PInterval _ _ _ f => 1 + orank f
  | PGroup ps f => S (fold_right (fun q acc => srank q + acc) 0 ps + orank f)
  | POffset q _ f | PJitter q _ _ f => S (srank q + orank f)
  | PEarliest q _ f | PLatest q _ f => S (srank q + orank f + 2)
  | PSun _ f => 1 + orank f
  end%nat.

Lemma srank_In q ps : In q ps -> (srank q <= fold_right (fun q acc => srank q + acc) 0 ps)%nat.
Proof. induction ps as [|h t IH]; cbn [In fold_right]; [tauto|]. intros [<-|H]; [lia|]. specialize (IH H). lia. Qed.

(* THE TIE with every producer class generated: for every well-formed producer expression - sun members included -
   the generated code returns exactly what Producers.get_next returns: value and producer state (the SUN_CACHE
   among it), exception, or out of fuel *)
Theorem gen_get_next_is_model_sun : world_ok W -> forall n p, wf_producer p -> (srank p <= n)%nat ->
  forall dt st, r_get_next (pknot_sun n) p dt st = lift (get_next E p st dt).
Proof.
  intros HW. induction n as [|n IH]; intros p Hw Hr dt st; [destruct p; cbn [srank] in Hr; lia|].
  destruct p as [tr f|id start iv f|ps f|q off f|q tr f|q tr f|q lo hi f|key f]; cbn [srank] in Hr;
    cbn [pknot_sun r_get_next].
  - destruct n as [|[|n]]; try lia.
    apply gen_time_get_next_eq; [intros; apply knot_sun_replace|apply knot_sun_allow_ok; lia].
  - cbn [wf_producer] in Hw. apply gen_interval_get_next_eq; [exact Hw|apply knot_sun_allow_ok; lia| |reflexivity].
    cbn [interval_fuels]. lia.
  - apply gen_group_get_next_eq; [|apply knot_sun_allow_ok; lia].
    intros q Hq x s. apply IH; [eapply wf_group_In; eassumption|]. pose proof (srank_In q ps Hq). lia.
  - apply gen_offset_get_next_eq; [|apply knot_sun_allow_ok; lia].
    intros x s. apply IH; [exact Hw|lia].
  - destruct n as [|[|n]]; try lia.
    apply gen_earliest_get_next_eq; [intros; apply knot_sun_replace| |apply knot_sun_allow_ok; lia].
    intros x s. apply IH; [exact Hw|lia].
  - destruct n as [|[|n]]; try lia.
    apply gen_latest_get_next_eq; [intros; apply knot_sun_replace| |apply knot_sun_allow_ok; lia].
    intros x s. apply IH; [exact Hw|lia].
  - apply gen_jitter_get_next_eq; [|apply knot_sun_allow_ok; lia].
    intros x s. apply IH; [exact Hw|lia].
  - apply gen_sun_get_next_eq; [exact HW|apply knot_sun_allow_ok; lia].
Qed.
End KnotSun.

(* ------------------------------------------------------------------------------------------- *)
(* 6. what the property files use: the theorems of SunFacts.v for the GENERATED sun producer *)

(* the generated sun producer object [key] with filter [f], closed by the dispatch of depth n *)
Definition gen_sun (E : penv) (W : sunworld) (n : nat) (key : nat) (f : option filt) (st : pstate) (dt : Z) : PM Z :=
  r_get_next (pknot_sun E W n) (PSun key f) dt st.
(* its _get_next_sun alone *)
Definition gen_sun_raw (E : penv) (W : sunworld) (key : nat) (st : pstate) (dt : Z) : PM Z :=
  g_sun_get_next_sun E none_prec W no_fuel (astral_call E key) (fun _ => ckey (w_sun W key)) dt st.
(* outcome without the state *)
Definition pm_value {A} (m : PM A) : option (pres A) := option_map snd m.

Theorem gen_sun_is_model E W n key f st dt : world_ok W -> (S (orank f) <= n)%nat ->
  gen_sun E W n key f st dt = lift (get_next E (PSun key f) st dt).
Proof. intros HW Hn. apply gen_get_next_is_model_sun; [exact HW|exact I|exact Hn]. Qed.

Theorem gen_sun_raw_is_model E W key st dt : world_ok W ->
  gen_sun_raw E W key st dt = lift (next_sun_raw E key st dt).
Proof. intros HW. apply gen_get_next_sun_eq. exact HW. Qed.

Theorem gen_sun_answer_iff E W n key f st dt st' v : world_ok W -> (S (orank f) <= n)%nat ->
  (gen_sun E W n key f st dt = Some (st', PRet v) <-> get_next E (PSun key f) st dt = (Ok v, st')).
Proof. intros HW Hn. rewrite gen_sun_is_model by assumption. apply lift_ret. Qed.

Theorem gen_sun_raise_iff E W n key f st dt st' x : world_ok W -> (S (orank f) <= n)%nat ->
  (gen_sun E W n key f st dt = Some (st', PExc x) <->
   exists e, x = XErr e /\ get_next E (PSun key f) st dt = (Raise e, st')).
Proof.
  intros HW Hn. rewrite gen_sun_is_model by assumption.
  destruct (get_next E (PSun key f) st dt) as [[w|e|] s]; cbn [lift]; split; intros H; try discriminate.
  - destruct H as (e & _ & H). discriminate.
  - injection H as -> <-. exists e. split; reflexivity.
  - destruct H as (e' & -> & H). injection H as -> ->. reflexivity.
  - destruct H as (e & _ & H). discriminate.
Qed.

(* the model of the sun producers never runs out of fuel, so the generated code is never stuck and never out of fuel *)
Lemma next_sun_raw_fuel E key st dt : fst (next_sun_raw E key st dt) <> OutOfFuel.
Proof.
  unfold next_sun_raw. destruct (location E) as [loc|]; [|cbn; discriminate].
  destruct (slookup _ _); [cbn; discriminate|].
  pose proof (iter_until_rule (sun_search_step (sun_ev E key)) (fun _ => True) (fun r => r <> OutOfFuel)
                (Z.to_pos (sun_tries + 1)) (0, utc_day dt)) as Hrule.
  assert (Hstep : forall s, True -> match sun_search_step (sun_ev E key) s with
                                    | inl s' => True | inr r => r <> OutOfFuel end).
  { intros [i d] _. cbn [sun_search_step]. destruct (sun_ev E key d); [discriminate|].
    destruct (sun_tries <=? i); [discriminate|exact I]. }
  specialize (Hrule Hstep I).
  destruct (iter_until _ _ _) as [s|[v|e|]]; cbn [fst]; try discriminate. exact Hrule.
Qed.

Lemma get_next_sun_fuel E key f st dt : fst (get_next E (PSun key f) st dt) <> OutOfFuel.
Proof.
  rewrite get_next_sun_unfold.
  pose proof (iter_until_rule (sun_step E key f dt) (fun _ => True) (fun r => fst r <> OutOfFuel)
                loop_bound (dt, st)) as Hrule.
  assert (Hstep : forall s, True -> match sun_step E key f dt s with
                                    | inl s' => True | inr r => fst r <> OutOfFuel end).
  { intros [x s] _. unfold sun_step, bind_state. pose proof (next_sun_raw_fuel E key s x) as Hf.
    destruct (next_sun_raw E key s x) as [[v|e|] s']; cbn [fst] in *; try discriminate; [|congruence].
    destruct ((dt <? v) && allow_opt (pz E) f v); [cbn; discriminate|exact I]. }
  specialize (Hrule Hstep I).
  destruct (iter_until _ _ _) as [[x s]|r]; cbn [finish_loop fst]; [discriminate|exact Hrule].
Qed.

Theorem gen_sun_never_stuck E W n key f st dt : world_ok W -> (S (orank f) <= n)%nat ->
  gen_sun E W n key f st dt <> None.
Proof.
  intros HW Hn. rewrite gen_sun_is_model by assumption. pose proof (get_next_sun_fuel E key f st dt) as Hf.
  destruct (get_next E (PSun key f) st dt) as [[v|e|] s]; cbn [lift fst] in *; congruence.
Qed.

(* C18 on the generated code *)
Theorem gen_sun_next_is_event E W n key f st dt v st' : world_ok W -> (S (orank f) <= n)%nat ->
  cache_coherent E st ->
  gen_sun E W n key f st dt = Some (st', PRet v) ->
  dt < v /\ allow_opt (pz E) f v = true /\
  (exists d e, sun_ev E key d = Some e /\ v = round_up_sec e) /\
  v mod NS = 0 /\ cache_coherent E st'.
Proof. intros HW Hn Hc H. apply gen_sun_answer_iff in H; try assumption. eapply sun_next_is_event; eassumption. Qed.

Theorem gen_sun_next_errors E W n key f st dt x st' : world_ok W -> (S (orank f) <= n)%nat ->
  cache_coherent E st ->
  gen_sun E W n key f st dt = Some (st', PExc x) ->
  (x = XErr ELocationNotSet /\ location E = None) \/ x = XErr EValueError \/ x = XErr EInfiniteLoop.
Proof.
  intros HW Hn Hc H. apply gen_sun_raise_iff in H; try assumption. destruct H as (e & -> & H).
  destruct (sun_next_errors E key f st dt e st' Hc H) as [(-> & HL)|[->| ->]]; auto.
Qed.

(* the generated rounding: to the next full second, never down, a full second stays *)
Theorem gen_sun_rounding v :
  let r := if negb (py_subsecond v =? 0) then py_floor_second v + 1 * NS else v in
  v <= r < v + NS /\ r mod NS = 0 /\ (v mod NS = 0 -> r = v).
Proof.
  cbv zeta. rewrite round_up_generated. destruct round_up_sec_facts as (H1 & H2 & H3). auto.
Qed.

(* polar day / night, for the generated _get_next_sun, with the window as the file has it today: 366 further dates *)
Theorem gen_sun_polar_skip E W key st dt loc : world_ok W ->
  location E = Some loc -> cache_coherent E st ->
  (exists j e st', 0 <= j <= 366 /\ sun_ev E key (utc_day dt + j) = Some e /\
               (forall i, 0 <= i < j -> sun_ev E key (utc_day dt + i) = None) /\
               gen_sun_raw E W key st dt = Some (st', PRet (round_up_sec e)))
  \/ ((forall i, 0 <= i <= 366 -> sun_ev E key (utc_day dt + i) = None) /\
      exists st', gen_sun_raw E W key st dt = Some (st', PExc (XErr EValueError))).
Proof.
  intros HW HL Hc. rewrite gen_sun_raw_is_model by exact HW.
  destruct (sun_polar_skip E key st dt loc HL Hc) as [(j & e & Hj & He & Hn & Hr)|(Hn & Hr)].
  - left. exists j, e. destruct (next_sun_raw E key st dt) as [r s']. cbn [fst] in Hr. subst r.
    exists s'. auto.
  - right. split; [exact Hn|]. destruct (next_sun_raw E key st dt) as [r s']. cbn [fst] in Hr. subst r.
    exists s'. reflexivity.
Qed.

Theorem gen_sun_location_not_set E W key st dt : world_ok W ->
  location E = None -> gen_sun_raw E W key st dt = Some (st, PExc (XErr ELocationNotSet)).
Proof. intros HW HL. rewrite gen_sun_raw_is_model by exact HW. rewrite sun_location_not_set by exact HL. reflexivity. Qed.

(* the cache never changes an answer, and stays coherent *)
Theorem gen_sun_query_independent E W n key f st1 st2 dt : world_ok W -> (S (orank f) <= n)%nat ->
  cache_coherent E st1 -> cache_coherent E st2 ->
  pm_value (gen_sun E W n key f st1 dt) = pm_value (gen_sun E W n key f st2 dt).
Proof.
  intros HW Hn H1 H2. rewrite !gen_sun_is_model by assumption.
  pose proof (sun_query_independent E key f st1 st2 dt H1 H2) as Hq.
  destruct (get_next E (PSun key f) st1 dt) as [r1 s1], (get_next E (PSun key f) st2 dt) as [r2 s2].
  cbn [fst] in Hq. subst r2. destruct r1; reflexivity.
Qed.

Theorem gen_sun_cache_coherent_preserved E W n key f st dt : world_ok W -> (S (orank f) <= n)%nat ->
  cache_coherent E st ->
  (forall st' r, gen_sun_raw E W key st dt = Some (st', r) -> cache_coherent E st') /\
  (forall st' r, gen_sun E W n key f st dt = Some (st', r) -> cache_coherent E st').
Proof.
  intros HW Hn Hc. destruct (sun_cache_coherent_preserved E key f st dt Hc) as (H1 & H2). split; intros st' r H.
  - rewrite gen_sun_raw_is_model in H by exact HW.
    destruct (next_sun_raw E key st dt) as [[v|e|] s]; cbn [lift snd] in *; try discriminate;
      injection H as <- _; exact H1.
  - rewrite gen_sun_is_model in H by assumption.
    destruct (get_next E (PSun key f) st dt) as [[v|e|] s]; cbn [lift snd] in *; try discriminate;
      injection H as <- _; exact H2.
Qed.

(* the cache stays bounded by 64 entries (the limit and the batch of 10 as the file has them today) *)
Lemma sremove_length k : forall l v, slookup k l = Some v -> S (length (sremove k l)) = length l.
Proof.
  induction l as [|[k' w] t IH]; intros v H; cbn [slookup] in H; [discriminate|]. cbn [sremove].
  destruct (skey_eqb k k'); [reflexivity|]. cbn [length]. rewrite (IH v H). reflexivity.
Qed.

Theorem gen_sun_cache_bounded E W key st dt st' r : world_ok W ->
  (length (scache st) <= 64)%nat ->
  gen_sun_raw E W key st dt = Some (st', r) -> (length (scache st') <= 64)%nat.
Proof.
  intros HW Hlen H. rewrite gen_sun_raw_is_model in H by exact HW. unfold next_sun_raw in H.
  destruct (location E) as [loc|]; [|cbn [lift] in H; injection H as <- _; exact Hlen].
  destruct (slookup (key, utc_day dt, loc) (scache st)) as [v|] eqn:HS.
  - cbn [lift] in H. injection H as <- _. cbn [scache with_scache]. rewrite app_length. cbn [length].
    pose proof (sremove_length _ _ _ HS). lia.
  - destruct (iter_until _ _ _) as [s|[v|e|]]; cbn [lift] in H; try discriminate; try (injection H as <- _; exact Hlen).
    injection H as <- _. cbn [scache with_scache].
    destruct (sun_cache_limit <=? Z.of_nat (length (scache st))) eqn:HL; rewrite app_length; cbn [length].
    + change (length (skipn 10 (scache st)) + 1 <= 64)%nat. rewrite skipn_length. lia.
    + apply Z.leb_gt in HL. change sun_cache_limit with 64 in HL. lia.
Qed.

(* the producer touches nothing but the cache *)
Theorem gen_sun_frame E W n key f st dt st' r : world_ok W -> (S (orank f) <= n)%nat -> cache_coherent E st ->
  gen_sun E W n key f st dt = Some (st', r) -> icache st' = icache st /\ ndraws st' = ndraws st.
Proof.
  intros HW Hn Hc H. rewrite gen_sun_is_model in H by assumption.
  destruct (sun_get_next_pure E key f st dt Hc) as (_ & _ & Hi & Hd).
  destruct (get_next E (PSun key f) st dt) as [[v|e|] s]; cbn [lift snd] in *; try discriminate;
    injection H as <- _; auto.
Qed.

(* the chain a recurring sun job follows, computed by the generated code *)
Fixpoint gchain (E : penv) (W : sunworld) (n : nat) (key : nat) (f : option filt) (st : pstate) (dt : Z) (k : nat)
  : list (result Z) :=
  match k with
  | O => []
  | S k' =>
      match gen_sun E W n key f st dt with
      | Some (st', PRet v) => Ok v :: gchain E W n key f st' v k'
      | Some (_, PExc (XErr e)) => [Raise e]
      | Some (_, PExc _) => [Raise EOther]
      | None => [OutOfFuel]
      end
  end.

Theorem gchain_is_chain E W n key f : world_ok W -> (S (orank f) <= n)%nat ->
  forall k st dt, gchain E W n key f st dt k = chain E (PSun key f) st dt k.
Proof.
  intros HW Hn k; induction k as [|k IH]; intros st dt; [reflexivity|].
  cbn [gchain chain]. rewrite gen_sun_is_model by assumption.
  destruct (get_next E (PSun key f) st dt) as [[v|e|] s]; cbn [lift]; [rewrite IH| |]; reflexivity.
Qed.

Theorem gen_sun_chain_regular E W n key evf lo hi st dt : world_ok W -> (1 <= n)%nat ->
  utc_regular (sun_ev E key) evf lo hi -> location E <> None -> cache_coherent E st ->
  lo <= utc_day dt -> utc_day dt + 1 <= hi ->
  exists st', cache_coherent E st' /\
    gen_sun E W n key None st dt =
      Some (st', PRet (if dt <? round_up_sec (evf (utc_day dt)) then round_up_sec (evf (utc_day dt))
                       else round_up_sec (evf (utc_day dt + 1)))).
Proof.
  intros HW Hn Hreg HL Hc Hlo Hhi. rewrite gen_sun_is_model by (cbn [orank]; assumption).
  destruct (sun_chain_regular E key evf lo hi st dt Hreg HL Hc Hlo Hhi) as (Hf & Hc').
  destruct (get_next E (PSun key None) st dt) as [r s]. cbn [fst snd] in *. subst r. exists s. split; [exact Hc'|reflexivity].
Qed.

Theorem gen_sun_chain_visits_all E W n key evf lo hi : world_ok W -> (1 <= n)%nat ->
  utc_regular (sun_ev E key) evf lo hi -> location E <> None ->
  forall k st dt, cache_coherent E st -> lo <= utc_day dt -> utc_day dt + Z.of_nat k <= hi ->
    gchain E W n key None st dt k =
      map (fun j => Ok (round_up_sec (evf ((if dt <? round_up_sec (evf (utc_day dt)) then utc_day dt
                                           else utc_day dt + 1) + Z.of_nat j))))
          (seq 0 k).
Proof.
  intros HW Hn Hreg HL k st dt Hc Hlo Hhi. rewrite gchain_is_chain by (cbn [orank]; assumption).
  apply (sun_chain_visits_all E key evf lo hi Hreg HL); assumption.
Qed.

Theorem gen_sun_chain_regular_shifted E W n key evf lo hi : world_ok W -> (1 <= n)%nat ->
  utc_regular_shift (sun_ev E key) evf 1 lo hi -> location E <> None ->
  forall k st dt, cache_coherent E st -> lo <= utc_day dt -> utc_day dt + Z.of_nat k <= hi + 1 ->
    gchain E W n key None st dt k = map (fun j => Ok (round_up_sec (evf (utc_day dt + Z.of_nat j)))) (seq 0 k).
Proof.
  intros HW Hn Hreg HL k st dt Hc Hlo Hhi. rewrite gchain_is_chain by (cbn [orank]; assumption).
  apply (sun_chain_regular_shifted E key evf lo hi Hreg HL); assumption.
Qed.

(* F15 on the generated code: an event still ahead on the reference instant's own UTC day is passed over *)
Theorem gen_sun_shifted_skips_pending E W n key evf lo hi st dt : world_ok W -> (1 <= n)%nat ->
  utc_regular_shift (sun_ev E key) evf 1 lo hi -> location E <> None -> cache_coherent E st ->
  lo <= utc_day dt - 1 -> utc_day dt <= hi ->
  dt < round_up_sec (evf (utc_day dt - 1)) ->
  pm_value (gen_sun E W n key None st dt) = Some (PRet (round_up_sec (evf (utc_day dt)))) /\
  dt < round_up_sec (evf (utc_day dt - 1)) < round_up_sec (evf (utc_day dt)).
Proof.
  intros HW Hn Hreg HL Hc Hlo Hhi Hp. rewrite gen_sun_is_model by (cbn [orank]; assumption).
  destruct (sun_shifted_skips_pending E key evf lo hi st dt Hreg HL Hc Hlo Hhi Hp) as (Hf & Hlt).
  split; [|exact Hlt]. destruct (get_next E (PSun key None) st dt) as [r s]. cbn [fst] in Hf. subst r. reflexivity.
Qed.

(* ------------------------------------------------------------------------------------------- *)
(* 7. a faithful world exists: location l at latitude l, producer k an object of class k *)
Definition world0 : sunworld := {|
  w_observer := fun l => {| o_latitude := Z.of_nat l; o_longitude := 0; o_elevation := 0 |};
  w_sun := fun k => SunPlain k;
  w_abs := fun t => match t with
                    | [VDate d; VFloat la; VFloat _; VFloat _; VClass c] => Some (c, d, Z.to_nat la)
                    | _ => None
                    end;
  w_mk_observer := fun _ _ _ => PExc (XErr EOther)
|}.

Lemma world0_ok : world_ok world0.
Proof. intros key day loc. cbn. rewrite Nat2Z.id. reflexivity. Qed.

Lemma chain_two E p st dt v1 v2 :
  fst (get_next E p st dt) = Ok v1 -> fst (get_next E p (snd (get_next E p st dt)) v1) = Ok v2 ->
  chain E p st dt 2 = [Ok v1; Ok v2].
Proof.
  intros H1 H2. cbn [chain]. destruct (get_next E p st dt) as [r s]. cbn [fst snd] in *. subst r.
  destruct (get_next E p s v1) as [r s']. cbn [fst] in H2. subst r. reflexivity.
Qed.

(* KNOWN FINDING F11 on the generated code: with astral's recorded answers the generated chain skips a sunset
   (Chicago, 47.9 h), fires twice for one sunrise (Dhaka, 30 s) and gives up (Fiji noon) *)
Theorem gen_sun_irregular_refuted :
  exists (E : penv) (W : sunworld) (key : nat) (evf : Z -> Z) (dt v1 v2 : Z),
    world_ok W /\ cache_coherent E pstate0 /\
    utc_regular (sun_ev E key) evf 20344 20348 /\
    gchain E W 1 key None pstate0 dt 2 = [Ok v1; Ok v2] /\
    v2 - v1 > HOURS 47 /\
    24 * 3600 * NS + 1800 * NS < v2 - v1.
Proof.
  destruct sun_irregular_refuted as (E & key & evf & dt & v1 & v2 & Hc & Hreg & H1 & H2 & Hg1 & Hg2).
  exists E, world0, key, evf, dt, v1, v2. split; [exact world0_ok|]. split; [exact Hc|]. split; [exact Hreg|].
  split; [|split; assumption].
  rewrite gchain_is_chain by (try exact world0_ok; cbn [orank]; lia). apply chain_two; assumption.
Qed.

Theorem gen_sun_irregular_repeat_refuted :
  exists (E : penv) (W : sunworld) (key : nat) (dt v1 v2 : Z),
    world_ok W /\ cache_coherent E pstate0 /\
    gchain E W 1 key None pstate0 dt 2 = [Ok v1; Ok v2] /\
    v2 - v1 = 30 * NS.
Proof.
  destruct sun_irregular_repeat_refuted as (E & key & dt & v1 & v2 & Hc & H1 & H2 & Hg).
  exists E, world0, key, dt, v1, v2. split; [exact world0_ok|]. split; [exact Hc|]. split; [|exact Hg].
  rewrite gchain_is_chain by (try exact world0_ok; cbn [orank]; lia). apply chain_two; assumption.
Qed.

Theorem gen_sun_irregular_loop_refuted :
  exists (E : penv) (W : sunworld) (key : nat) (dt : Z),
    world_ok W /\ cache_coherent E pstate0 /\
    (exists e, sun_ev E key (utc_day dt) = Some e /\ e < dt) /\
    pm_value (gen_sun E W 1 key None pstate0 dt) = Some (PExc (XErr EInfiniteLoop)).
Proof.
  destruct sun_irregular_loop_refuted as (E & key & dt & Hc & He & H).
  exists E, world0, key, dt. split; [exact world0_ok|]. split; [exact Hc|]. split; [exact He|].
  rewrite gen_sun_is_model by (try exact world0_ok; cbn [orank]; lia).
  destruct (get_next E (PSun key None) pstate0 dt) as [r s]. cbn [fst] in H. subst r. reflexivity.
Qed.

(* FINDING F15 / F16 (elevation trigger, western longitudes, with a filter): an admissible event ahead is passed over *)
Theorem gen_sun_following_date_refuted :
  exists (E : penv) (W : sunworld) (n : nat) (key : nat) (f : filt) (dt v d e : Z),
    world_ok W /\ cache_coherent E pstate0 /\
    utc_regular_shift (sun_ev E key) (table_fun chicago_elev_setting_2025) 1 20255 20264 /\
    pm_value (gen_sun E W n key (Some f) pstate0 dt) = Some (PRet v) /\
    sun_ev E key d = Some e /\
    dt < round_up_sec e < v /\
    allow_opt (pz E) (Some f) (round_up_sec e) = true /\
    v - round_up_sec e > 6 * DAY.
Proof.
  destruct sun_following_date_refuted as (E & key & f & dt & v & d & e & Hc & Hreg & H & He & Hlt & Ha & Hg).
  exists E, world0, (S (S (depth f))), key, f, dt, v, d, e.
  split; [exact world0_ok|]. split; [exact Hc|]. split; [exact Hreg|]. split; [|auto].
  rewrite gen_sun_is_model by (try exact world0_ok; cbn [orank]; lia).
  destruct (get_next E (PSun key (Some f)) pstate0 dt) as [r s]. cbn [fst] in H. subst r. reflexivity.
Qed.

(* ------------------------------------------------------------------------------------------- *)
(* 8. set_location *)
Definition set_location_args_ok (a b c : pyarg) : bool :=
  py_isinstance a [TInt; TFloat; TStr] && py_isinstance b [TInt; TFloat; TStr] && py_isinstance c [TInt; TFloat; TTuple].

(* a wrongly typed argument: TypeError and OBSERVER keeps its value; otherwise OBSERVER is the Observer astral builds
   from the three arguments (or astral's exception, OBSERVER unchanged) *)
Theorem gen_set_location_spec W a b c g :
  g_set_location W a b c g =
    if set_location_args_ok a b c then
      match w_mk_observer W a b c with
      | PRet o => (Some o, PRet tt)
      | PExc e => (g, PExc e)
      end
    else (g, PExc (XErr ETypeError)).
Proof.
  unfold g_set_location, set_location_args_ok. cbv zeta.
  destruct (py_isinstance a [TInt; TFloat; TStr]); cbn [negb andb]; [|reflexivity].
  destruct (py_isinstance b [TInt; TFloat; TStr]); cbn [negb andb]; [|reflexivity].
  destruct (py_isinstance c [TInt; TFloat; TTuple]); cbn [negb andb]; [|reflexivity].
  destruct (w_mk_observer W a b c); reflexivity.
Qed.

(* the tie to the model's environment: after a successful set_location whose Observer is the one the world gives to
   location [loc], an environment configured for [loc] reads exactly that OBSERVER; and calling it again with the
   same values gives the same OBSERVER, hence (world_ok) the same cache keys - the repaired defect F8 *)
Theorem gen_set_location_model W E a b c g o loc :
  g_set_location W a b c g = (Some o, PRet tt) -> w_observer W loc = o -> location E = Some loc ->
  observer_global W E = Some o.
Proof. intros _ Ho HL. unfold observer_global. rewrite HL. cbn [option_map]. rewrite Ho. reflexivity. Qed.

Theorem gen_set_location_idempotent W a b c g1 g2 o :
  g_set_location W a b c g1 = (Some o, PRet tt) -> g_set_location W a b c g2 = (Some o, PRet tt).
Proof.
  rewrite !gen_set_location_spec. destruct (set_location_args_ok a b c); [|discriminate].
  destruct (w_mk_observer W a b c); [|discriminate]. intros H. injection H as <-. reflexivity.
Qed.

(* ------------------------------------------------------------------------------------------- *)
(* 9. the generated code runs: two locations that differ ONLY in elevation, three kinds of producer objects *)
Definition ex_world : sunworld := {|
  w_observer := fun l => match l with
                         | 0%nat => {| o_latitude := 52; o_longitude := 13; o_elevation := 0 |}
                         | 1%nat => {| o_latitude := 52; o_longitude := 13; o_elevation := 500 |}
                         | S (S n) => {| o_latitude := 100 + Z.of_nat n; o_longitude := 0; o_elevation := 0 |}
                         end;
  w_sun := fun k => match k with
                    | 0%nat => SunPlain 1
                    | 1%nat => SunElev 7 (-6) 0
                    | 2%nat => SunAz 8 180
                    | S (S (S n)) => SunPlain (10 + n)
                    end;
  w_abs := fun t =>
    match t with
    | VDate d :: VFloat la :: VFloat lo :: VFloat el :: ck =>
        let loc := if (la =? 52) && (lo =? 13) then (if el =? 0 then 0%nat else 1%nat) else S (S (Z.to_nat (la - 100))) in
        match ck with
        | [VClass 7; VFloat _; VDir _] => Some (1%nat, d, loc)
        | [VClass 8; VFloat _] => Some (2%nat, d, loc)
        | [VClass c] => Some ((if Nat.eqb c 1 then 0 else c - 7)%nat, d, loc)
        | _ => None
        end
    | _ => None
    end;
  w_mk_observer := fun a b c =>
    match a, b, c with
    | AFloat la, AFloat lo, AFloat el => PRet {| o_latitude := la; o_longitude := lo; o_elevation := el |}
    | _, _, _ => PExc (XErr EValueError)
    end
|}.

Example ex_world_ok : world_ok ex_world.
Proof.
  intros key day loc. unfold key_format.
  assert (HL : forall n, Z.to_nat (100 + Z.of_nat n - 100) = n) by (intros n; lia).
  assert (HB : forall n, (100 + Z.of_nat n =? 52) = false) by (intros n; apply Z.eqb_neq; lia).
  destruct key as [|[|[|k]]], loc as [|[|l]];
    cbn [ex_world w_abs w_observer w_sun o_latitude o_longitude o_elevation ckey g_sun_cache_key g_elev_cache_key
         g_az_cache_key app];
    rewrite ?HB, ?HL; reflexivity.
Qed.

Definition ex_sun_env (loc : nat) : penv :=
  {| pz := tz_utc; draw := fun _ _ _ => 0; sun_ev := fun key d => if Nat.eqb key 1 then None else table_get ex_table d;
     location := Some loc; interval_fuel := 1%positive |}.

(* location 0: a miss (search over the polar gap 12, 13), then a hit that moves the entry to the end;
   then location 1 (same latitude and longitude, other elevation): its own entries, nothing shared *)
Example ex_generated_runs :
  let r1 := gen_sun (ex_sun_env 0) ex_world 1 0 None pstate0 (12 * DAY) in
  pm_value r1 = Some (PRet (14 * DAY + 3901 * NS)) /\
  match r1 with
  | Some (s1, _) =>
      map fst (scache s1) = [(0%nat, 12, 0%nat)] /\
      match gen_sun (ex_sun_env 1) ex_world 1 0 None s1 (12 * DAY) with
      | Some (s2, PRet v) => v = 14 * DAY + 3901 * NS /\ map fst (scache s2) = [(0%nat, 12, 0%nat); (0%nat, 12, 1%nat)]
      | _ => False
      end
  | None => False
  end /\
  (* the elevation producer of this environment has no event at all: ValueError after 367 dates *)
  pm_value (gen_sun (ex_sun_env 0) ex_world 1 1 None pstate0 (12 * DAY)) = Some (PExc (XErr EValueError)) /\
  (* set_location *)
  g_set_location ex_world (AFloat 52) (AFloat 13) (AFloat 500) None = (Some (w_observer ex_world 1), PRet tt) /\
  g_set_location ex_world AOther (AFloat 13) (AFloat 500) None = (None, PExc (XErr ETypeError)).
Proof. vm_compute. repeat split; reflexivity. Qed.
